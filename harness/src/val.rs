//! Rust mirror of the model's `val`, `ev`, `fn`, `fn2` and their concrete syntax.
use crate::sexp::Sexp;
use std::fmt::Write;

#[derive(Clone, Debug, PartialEq, Eq)]
pub enum Val {
  Z(i64),
  B(bool),
  U,
  P(Box<Val>, Box<Val>),
  L(Vec<Val>),
  Opt(Option<Box<Val>>),
}

/// A deliberately coarse (and legal: equal values hash alike) hash: integers hash by parity, everything else alike.  Whatever
/// the crate keeps in a hash map keyed by items or keys (distinct, group_by) must still tell unequal values apart.
impl std::hash::Hash for Val {
  fn hash<H: std::hash::Hasher>(&self, state: &mut H) {
    match self {
      Val::Z(z) => state.write_u8((z.rem_euclid(2)) as u8),
      _ => state.write_u8(7),
    }
  }
}

/// Mirrors the model's `val_ltb`: only integers are ordered.
impl PartialOrd for Val {
  fn partial_cmp(&self, o: &Val) -> Option<std::cmp::Ordering> {
    match (self, o) {
      (Val::Z(a), Val::Z(b)) => a.partial_cmp(b),
      _ => None,
    }
  }
}

impl Default for Val {
  fn default() -> Self {
    Val::Z(0)
  }
}

impl std::ops::Add for Val {
  type Output = Val;
  fn add(self, o: Val) -> Val {
    match (self, o) {
      (Val::Z(a), Val::Z(b)) => Val::Z(a + b),
      (a, _) => a,
    }
  }
}

impl Val {
  pub fn truthy(&self) -> bool {
    matches!(self, Val::B(true))
  }
  pub fn z(&self) -> i64 {
    match self {
      Val::Z(z) => *z,
      _ => 0,
    }
  }
  pub fn parse(s: &Sexp) -> Val {
    match s {
      Sexp::Atom(a) => match a.as_str() {
        "#t" => Val::B(true),
        "#f" => Val::B(false),
        "u" => Val::U,
        "none" => Val::Opt(None),
        _ => Val::Z(s.int()),
      },
      Sexp::List(l) => match l[0].atom() {
        "p" => Val::P(Box::new(Val::parse(&l[1])), Box::new(Val::parse(&l[2]))),
        "l" => Val::L(l[1..].iter().map(Val::parse).collect()),
        "some" => Val::Opt(Some(Box::new(Val::parse(&l[1])))),
        h => panic!("bad val head {h}"),
      },
    }
  }
  pub fn show(&self, out: &mut String) {
    match self {
      Val::Z(z) => write!(out, "{z}").unwrap(),
      Val::B(true) => out.push_str("#t"),
      Val::B(false) => out.push_str("#f"),
      Val::U => out.push('u'),
      Val::P(a, b) => {
        out.push_str("(p ");
        a.show(out);
        out.push(' ');
        b.show(out);
        out.push(')');
      }
      Val::L(l) => {
        out.push_str("(l");
        for v in l {
          out.push(' ');
          v.show(out);
        }
        out.push(')');
      }
      Val::Opt(None) => out.push_str("none"),
      Val::Opt(Some(v)) => {
        out.push_str("(some ");
        v.show(out);
        out.push(')');
      }
    }
  }
}

#[derive(Clone, Debug, PartialEq)]
pub enum Ev {
  Next(Val),
  Err(i64),
  Done,
}

impl Ev {
  pub fn parse(s: &Sexp) -> Ev {
    match s {
      Sexp::Atom(a) if a == "c" => Ev::Done,
      Sexp::List(l) if l[0].atom() == "n" => Ev::Next(Val::parse(&l[1])),
      Sexp::List(l) if l[0].atom() == "e" => Ev::Err(l[1].int()),
      _ => panic!("bad ev {s:?}"),
    }
  }
  pub fn show(&self, out: &mut String) {
    match self {
      Ev::Next(v) => {
        out.push_str("(n ");
        v.show(out);
        out.push(')');
      }
      Ev::Err(e) => write!(out, "(e {e})").unwrap(),
      Ev::Done => out.push('c'),
    }
  }
}

pub fn show_trace(t: &[Ev]) -> String {
  let mut s = String::new();
  for (i, e) in t.iter().enumerate() {
    if i > 0 {
      s.push(' ');
    }
    e.show(&mut s);
  }
  s
}

/// Unary closure family (model: `fn`, `apply_fn`).
#[derive(Clone, Debug)]
pub enum Fn1 {
  Id,
  Add(i64),
  Mul(i64),
  Mod(i64),
  Lt(i64),
  Eq(i64),
  Even,
  Const(Val),
  PairSelf,
  SomeIfEven,
  Not,
}

impl Fn1 {
  pub fn parse(s: &Sexp) -> Fn1 {
    match s.head() {
      "id" => Fn1::Id,
      "add" => Fn1::Add(s.args()[0].int()),
      "mul" => Fn1::Mul(s.args()[0].int()),
      "mod" => Fn1::Mod(s.args()[0].int()),
      "lt" => Fn1::Lt(s.args()[0].int()),
      "eq" => Fn1::Eq(s.args()[0].int()),
      "even" => Fn1::Even,
      "const" => Fn1::Const(Val::parse(&s.args()[0])),
      "pair_self" => Fn1::PairSelf,
      "some_if_even" => Fn1::SomeIfEven,
      "not" => Fn1::Not,
      h => panic!("bad fn {h}"),
    }
  }
  pub fn apply(&self, v: &Val) -> Val {
    match (self, v) {
      (Fn1::Id, _) => v.clone(),
      (Fn1::Add(k), Val::Z(z)) => Val::Z(z + k),
      (Fn1::Mul(k), Val::Z(z)) => Val::Z(z * k),
      (Fn1::Mod(k), Val::Z(z)) => Val::Z(if *k == 0 { *z } else { z.rem_euclid(*k) }),
      (Fn1::Lt(k), Val::Z(z)) => Val::B(z < k),
      (Fn1::Eq(k), Val::Z(z)) => Val::B(z == k),
      (Fn1::Even, Val::Z(z)) => Val::B(z.rem_euclid(2) == 0),
      (Fn1::Const(c), _) => c.clone(),
      (Fn1::PairSelf, _) => Val::P(Box::new(v.clone()), Box::new(v.clone())),
      (Fn1::SomeIfEven, Val::Z(z)) => {
        Val::Opt(if z.rem_euclid(2) == 0 { Some(Box::new(v.clone())) } else { None })
      }
      (Fn1::Not, Val::B(b)) => Val::B(!b),
      _ => v.clone(),
    }
  }
  pub fn pred(&self, v: &Val) -> bool {
    self.apply(v).truthy()
  }
  pub fn opt(&self, v: &Val) -> Option<Val> {
    match self.apply(v) {
      Val::Opt(o) => o.map(|b| *b),
      w => Some(w),
    }
  }
}

/// Binary closure family (model: `fn2`, `apply_fn2`).
#[derive(Clone, Debug)]
pub enum Fn2 {
  Add,
  Snd,
  Fst,
  Pair,
  Max,
  Min,
  Count,
}

impl Fn2 {
  pub fn parse(s: &Sexp) -> Fn2 {
    match s.head() {
      "add" => Fn2::Add,
      "snd" => Fn2::Snd,
      "fst" => Fn2::Fst,
      "pair" => Fn2::Pair,
      "max" => Fn2::Max,
      "min" => Fn2::Min,
      "count" => Fn2::Count,
      h => panic!("bad fn2 {h}"),
    }
  }
  pub fn apply(&self, a: Val, b: Val) -> Val {
    match (self, &a, &b) {
      (Fn2::Add, Val::Z(x), Val::Z(y)) => Val::Z(x + y),
      (Fn2::Snd, _, _) => b,
      (Fn2::Fst, _, _) => a,
      (Fn2::Pair, _, _) => Val::P(Box::new(a), Box::new(b)),
      (Fn2::Max, Val::Z(x), Val::Z(y)) => Val::Z(*x.max(y)),
      (Fn2::Min, Val::Z(x), Val::Z(y)) => Val::Z(*x.min(y)),
      (Fn2::Count, Val::Z(x), _) => Val::Z(x + 1),
      _ => a,
    }
  }
}
