//! Scheduler-using operators and time sources under a virtual clock, with the crate's
//! verification-hook scheduler: the case decides which task is polled next
//! (model: `Timed.v`, `Sched.v`).
use crate::sexp::Sexp;
use crate::val::{Ev, Val};
use futures::future::BoxFuture;
use rxrust::prelude::*;
use rxrust::scheduler::verif_hook::{SpawnedTask, VerifScheduler, SPAWNED};
use std::cell::{Cell, RefCell};
use std::fmt::Write;
use std::future::Future;
use std::pin::Pin;
use std::sync::atomic::{AtomicBool, Ordering};
use std::sync::{Arc, Mutex};
use std::task::{Context, Poll, RawWaker, RawWakerVTable, Waker};
use std::time::Duration;

thread_local! {
  /// virtual clock in nanoseconds (cases speak milliseconds)
  static NOW: Cell<u128> = Cell::new(0);
  /// durations requested from new_timer, in ms rounded to nearest
  static TIMER_REQS: RefCell<Vec<u64>> = RefCell::new(vec![]);
  /// durations requested from new_timer that are not a whole number of case units, in ns (with the position of the request):
  /// such a duration was computed from the real clock
  static ODD_TIMERS: RefCell<Vec<(usize, u128)>> = RefCell::new(vec![]);
}

thread_local! {
  /// nanoseconds per time unit of the case: a millisecond, or a microsecond for the `_us` forms (every delay is
  /// then below one millisecond)
  static UNIT: Cell<u128> = Cell::new(1_000_000);
}

fn unit() -> u128 {
  UNIT.with(|u| u.get())
}

pub fn now_ms() -> u64 {
  (NOW.with(|n| n.get()) / unit()) as u64
}

struct VTimer {
  due: u128,
}

impl Future for VTimer {
  type Output = ();
  fn poll(self: Pin<&mut Self>, _: &mut Context<'_>) -> Poll<()> {
    if NOW.with(|n| n.get()) >= self.due {
      Poll::Ready(())
    } else {
      Poll::Pending
    }
  }
}

fn vtimer(d: Duration) -> BoxFuture<'static, ()> {
  let pos = TIMER_REQS.with(|r| r.borrow().len());
  if d.as_nanos() % unit() != 0 {
    ODD_TIMERS.with(|o| o.borrow_mut().push((pos, d.as_nanos())));
  }
  TIMER_REQS.with(|r| r.borrow_mut().push(((d.as_nanos() + unit() / 2) / unit()) as u64));
  Box::pin(VTimer { due: NOW.with(|n| n.get()) + d.as_nanos() })
}

pub fn reset_clock() {
  UNIT.with(|u| u.set(1_000_000));
  NOW.with(|n| n.set(0));
  TIMER_REQS.with(|r| r.borrow_mut().clear());
}

pub fn advance_ms(n: u64) {
  NOW.with(|c| c.set(c.get() + (n as u128) * unit()));
}

pub fn install_timer() {
  let _ = rxrust::scheduler::NEW_TIMER_FN.set(vtimer);
}

fn noop_waker() -> Waker {
  fn clone(_: *const ()) -> RawWaker {
    RawWaker::new(std::ptr::null(), &VTABLE)
  }
  fn noop(_: *const ()) {}
  static VTABLE: RawWakerVTable = RawWakerVTable::new(clone, noop, noop, noop);
  unsafe { Waker::from_raw(RawWaker::new(std::ptr::null(), &VTABLE)) }
}

#[derive(Clone, Debug)]
pub enum T {
  Out(u64, Ev),
  /// delivery to subscriber I of a case with two subscriptions
  Out2(usize, u64, Ev),
  Ret(bool),
  Ran(usize, usize, u64),
  InnerUnsub(usize),
  Mark(usize),
}

pub type TLog = Arc<Mutex<Vec<T>>>;

pub fn show(l: &[T]) -> String {
  let mut s = String::new();
  for (i, t) in l.iter().enumerate() {
    if i > 0 {
      s.push(' ');
    }
    match t {
      T::Out(at, e) => {
        write!(s, "(t {at} ").unwrap();
        e.show(&mut s);
        s.push(')');
      }
      T::Out2(i, at, e) => {
        write!(s, "(t2 {i} {at} ").unwrap();
        e.show(&mut s);
        s.push(')');
      }
      T::Ret(b) => write!(s, "(rb {})", if *b { "#t" } else { "#f" }).unwrap(),
      T::Ran(t, seq, at) => write!(s, "(ran {t} {seq} {at})").unwrap(),
      T::InnerUnsub(t) => write!(s, "(iu {t})").unwrap(),
      T::Mark(j) => write!(s, "(m {j})").unwrap(),
    }
  }
  s
}

/// recording subscriber with a switchable is_finished()
pub struct TProbe {
  log: TLog,
  fin: Arc<AtomicBool>,
}

impl Observer<Val, i64> for TProbe {
  fn next(&mut self, v: Val) {
    self.log.lock().unwrap().push(T::Out(now_ms(), Ev::Next(v)));
  }
  fn error(self, e: i64) {
    self.log.lock().unwrap().push(T::Out(now_ms(), Ev::Err(e)));
  }
  fn complete(self) {
    self.log.lock().unwrap().push(T::Out(now_ms(), Ev::Done));
  }
  fn is_finished(&self) -> bool {
    self.fin.load(Ordering::SeqCst)
  }
}

/// recording subscriber of a case with two subscriptions
pub struct TProbe2 {
  id: usize,
  log: TLog,
}

impl Observer<Val, i64> for TProbe2 {
  fn next(&mut self, v: Val) {
    self.log.lock().unwrap().push(T::Out2(self.id, now_ms(), Ev::Next(v)));
  }
  fn error(self, e: i64) {
    self.log.lock().unwrap().push(T::Out2(self.id, now_ms(), Ev::Err(e)));
  }
  fn complete(self) {
    self.log.lock().unwrap().push(T::Out2(self.id, now_ms(), Ev::Done));
  }
  fn is_finished(&self) -> bool {
    false
  }
}

/// the subscription produced by a raw subscribing task
pub struct RawSub {
  t: usize,
  log: TLog,
  alive: Arc<AtomicBool>,
}

impl Subscription for RawSub {
  fn unsubscribe(self) {
    if self.alive.swap(false, Ordering::SeqCst) {
      self.log.lock().unwrap().push(T::InnerUnsub(self.t));
    }
  }
  fn is_closed(&self) -> bool {
    !self.alive.load(Ordering::SeqCst)
  }
}

fn raw_once((log, t): (TLog, usize)) -> NormalReturn<()> {
  log.lock().unwrap().push(T::Ran(t, 0, now_ms()));
  NormalReturn::new(())
}

fn raw_repeat(args: &mut (TLog, usize, usize), seq: usize) -> bool {
  args.0.lock().unwrap().push(T::Ran(args.1, seq, now_ms()));
  seq < args.2
}

fn raw_sub((log, t): (TLog, usize)) -> SubscribeReturn<RawSub> {
  log.lock().unwrap().push(T::Ran(t, 0, now_ms()));
  SubscribeReturn::new(RawSub { t, log, alive: Arc::new(AtomicBool::new(true)) })
}

enum RawHandle {
  Normal(TaskHandle<NormalReturn<()>>),
  Sub(TaskHandle<SubscribeReturn<RawSub>>),
}

fn ms(n: u64) -> Duration {
  Duration::from_nanos((n as u128 * unit()) as u64)
}

fn opt_delay(s: &Sexp) -> Option<Duration> {
  if s.atom() == "none" {
    None
  } else {
    Some(ms(s.int() as u64))
  }
}

macro_rules! timed_runner {
  ($m:ident, $chain:ident, $subject:ty, $delay:ident, $observe_on:ident) => {
    pub mod $m {
      use super::*;
      use rxrust::ops::throttle::ThrottleEdge;

      type Src = $subject;

      /// interval_at turns an Instant into a Duration with the real clock: when the machine was slow
      /// between the harness computing `at` and the crate reading the clock, the requested delay is
      /// no longer the case's; such a run is repeated
      pub fn run(body: &[Sexp]) -> String {
        let mut r = run_once(body);
        if body[0].head() == "interval_at" {
          let want = body[0].args()[0].int() as u64;
          for _ in 0..20 {
            let drift = TIMER_REQS.with(|q| q.borrow().first().map_or(false, |d| *d != want));
            if !drift {
              break;
            }
            r = run_once(body);
          }
        }
        r
      }

      /// (timedchain OP (pre U...) (post U...) (labels L...)): a scheduler-using operator with a chain of
      /// single-input operators in front of it and another one behind it, over a subject
      pub fn run_chain(body: &[Sexp]) -> String {
        use crate::chain::$chain::{apply_uops, Obs};
        install_timer();
        NOW.with(|n| n.set(0));
        TIMER_REQS.with(|r| r.borrow_mut().clear());
        SPAWNED.with(|q| q.borrow_mut().clear());
        let log: TLog = TLog::default();
        let fin = Arc::new(AtomicBool::new(false));
        let probe = TProbe { log: log.clone(), fin: fin.clone() };
        let src: Src = Src::default();
        let sch = VerifScheduler;
        let op = &body[0];
        let a = op.args();
        let input: Obs = apply_uops(src.clone().box_it(), body[1].args());
        let timed: Obs = match op.head() {
          "delay" => input.$delay(ms(a[0].int() as u64), sch.clone()).box_it(),
          "observe_on" => input.$observe_on(sch.clone()).box_it(),
          "delay_subscription" => input.delay_subscription(ms(a[0].int() as u64), sch.clone()).box_it(),
          "subscribe_on" => input.subscribe_on(sch.clone()).box_it(),
          "debounce" => input.debounce(ms(a[0].int() as u64), sch.clone()).box_it(),
          "throttle" => {
            // (the throttle operator is not Clone: `defer`, which adds no observer of its own, makes the stage cloneable)
            let (w, e, s2) = (ms(a[0].int() as u64), a[1].atom().to_string(), sch.clone());
            observable::defer(move || {
              let edge = match e.as_str() {
                "leading" => ThrottleEdge::leading(),
                "tailing" => ThrottleEdge::tailing(),
                _ => ThrottleEdge::all(),
              };
              input.clone().throttle_time(w, edge, s2.clone())
            })
            .box_it()
          }
          "buffer_with_time" => input.buffer_with_time(ms(a[0].int() as u64), sch.clone()).map(Val::L).box_it(),
          "buffer_with_count_and_time" => {
            input.buffer_with_count_and_time(a[0].usize(), ms(a[1].int() as u64), sch.clone()).map(Val::L).box_it()
          }
          h => panic!("bad timedchain op {h}"),
        };
        let mut sub = Some(apply_uops(timed, body[2].args()).actual_subscribe(probe));
        let mut tasks: Vec<Option<SpawnedTask>> = vec![];
        let collect = |tasks: &mut Vec<Option<SpawnedTask>>| {
          SPAWNED.with(|q| {
            for t in q.borrow_mut().drain(..) {
              tasks.push(Some(t));
            }
          })
        };
        collect(&mut tasks);
        let waker = noop_waker();
        for (j, l) in body[3].args().iter().enumerate() {
          log.lock().unwrap().push(T::Mark(j));
          let la = l.args();
          match l.head() {
            "src" => crate::chain::$chain::emit(&src, Ev::parse(&la[0])),
            "run" => {
              if let Some(slot) = tasks.get_mut(la[0].usize()) {
                if let Some(f) = slot.as_mut() {
                  let mut cx = Context::from_waker(&waker);
                  if f.as_mut().poll(&mut cx).is_ready() {
                    *slot = None;
                  }
                }
              }
            }
            "adv" => NOW.with(|n| n.set(n.get() + (la[0].int() as u128) * unit())),
            "unsub" => {
              if let Some(u) = sub.take() {
                u.unsubscribe();
              }
            }
            h => panic!("bad timedchain label {h}"),
          }
          collect(&mut tasks);
        }
        let r = show(&log.lock().unwrap());
        std::mem::forget(sub);
        r
      }

      /// (timed2 OP (labels L...)): two subscriptions made from clones of ONE operator value over a subject:
      /// each has its own timers, buffers and pending deliveries
      pub fn run_two(body: &[Sexp]) -> String {
        use crate::chain::$chain::Obs;
        install_timer();
        NOW.with(|n| n.set(0));
        TIMER_REQS.with(|r| r.borrow_mut().clear());
        SPAWNED.with(|q| q.borrow_mut().clear());
        let log: TLog = TLog::default();
        let src: Src = Src::default();
        let sch = VerifScheduler;
        let op = &body[0];
        let a = op.args();
        let input: Obs = src.clone().box_it();
        let timed: Obs = match op.head() {
          "delay" => input.$delay(ms(a[0].int() as u64), sch.clone()).box_it(),
          "observe_on" => input.$observe_on(sch.clone()).box_it(),
          "delay_subscription" => input.delay_subscription(ms(a[0].int() as u64), sch.clone()).box_it(),
          "subscribe_on" => input.subscribe_on(sch.clone()).box_it(),
          "debounce" => input.debounce(ms(a[0].int() as u64), sch.clone()).box_it(),
          "buffer_with_time" => input.buffer_with_time(ms(a[0].int() as u64), sch.clone()).map(Val::L).box_it(),
          "buffer_with_count_and_time" => {
            input.buffer_with_count_and_time(a[0].usize(), ms(a[1].int() as u64), sch.clone()).map(Val::L).box_it()
          }
          "throttle" => input.clone(),
          h => panic!("bad timed2 op {h}"),
        };
        let mut subs: Vec<Option<BoxSubscription<'static>>> = vec![];
        for i in 0..2 {
          if op.head() == "throttle" {
            // throttle's operator value cannot be cloned: two values built alike stand in for the clones
            let edge = match a[1].atom() {
              "leading" => ThrottleEdge::leading(),
              "tailing" => ThrottleEdge::tailing(),
              _ => ThrottleEdge::all(),
            };
            let t = src.clone().throttle_time(ms(a[0].int() as u64), edge, sch.clone());
            subs.push(Some(BoxSubscription::new(t.actual_subscribe(TProbe2 { id: i, log: log.clone() }))));
          } else {
            subs.push(Some(BoxSubscription::new(timed.clone().actual_subscribe(TProbe2 { id: i, log: log.clone() }))));
          }
        }
        let mut tasks: Vec<Option<SpawnedTask>> = vec![];
        let collect = |tasks: &mut Vec<Option<SpawnedTask>>| {
          SPAWNED.with(|q| {
            for t in q.borrow_mut().drain(..) {
              tasks.push(Some(t));
            }
          })
        };
        collect(&mut tasks);
        let waker = noop_waker();
        for (j, l) in body[1].args().iter().enumerate() {
          log.lock().unwrap().push(T::Mark(j));
          let la = l.args();
          match l.head() {
            "src" => crate::chain::$chain::emit(&src, Ev::parse(&la[0])),
            "run" => {
              if let Some(slot) = tasks.get_mut(la[0].usize()) {
                if let Some(f) = slot.as_mut() {
                  let mut cx = Context::from_waker(&waker);
                  if f.as_mut().poll(&mut cx).is_ready() {
                    *slot = None;
                  }
                }
              }
            }
            "adv" => NOW.with(|n| n.set(n.get() + (la[0].int() as u128) * unit())),
            "unsub" => {
              if let Some(u) = subs.get_mut(la[0].usize()).and_then(|s| s.take()) {
                u.unsubscribe();
              }
            }
            h => panic!("bad timed2 label {h}"),
          }
          collect(&mut tasks);
        }
        let r = show(&log.lock().unwrap());
        std::mem::forget(subs);
        r
      }

      /// (timed OP (labels L...)) ; OP as in the model's `top`
      fn run_once(body: &[Sexp]) -> String {
        install_timer();
        NOW.with(|n| n.set(0));
        TIMER_REQS.with(|r| r.borrow_mut().clear());
        ODD_TIMERS.with(|o| o.borrow_mut().clear());
        SPAWNED.with(|q| q.borrow_mut().clear());
        let log: TLog = TLog::default();
        let fin = Arc::new(AtomicBool::new(false));
        let probe = TProbe { log: log.clone(), fin: fin.clone() };
        let src: Src = Src::default();
        let sch = VerifScheduler;
        let op = &body[0];
        let a = op.args();
        let mut sub: Option<BoxSubscription<'static>> = match op.head() {
          "delay" => Some(BoxSubscription::new(src.clone().$delay(ms(a[0].int() as u64), sch.clone()).actual_subscribe(probe))),
          "observe_on" => Some(BoxSubscription::new(src.clone().$observe_on(sch.clone()).actual_subscribe(probe))),
          "delay_subscription" => {
            Some(BoxSubscription::new(src.clone().delay_subscription(ms(a[0].int() as u64), sch.clone()).actual_subscribe(probe)))
          }
          "subscribe_on" => Some(BoxSubscription::new(src.clone().subscribe_on(sch.clone()).actual_subscribe(probe))),
          "debounce" => Some(BoxSubscription::new(src.clone().debounce(ms(a[0].int() as u64), sch.clone()).actual_subscribe(probe))),
          "throttle" => {
            let edge = match a[1].atom() {
              "leading" => ThrottleEdge::leading(),
              "tailing" => ThrottleEdge::tailing(),
              _ => ThrottleEdge::all(),
            };
            Some(BoxSubscription::new(src.clone().throttle_time(ms(a[0].int() as u64), edge, sch.clone()).actual_subscribe(probe)))
          }
          "buffer_with_time" => Some(BoxSubscription::new(
            src.clone().buffer_with_time(ms(a[0].int() as u64), sch.clone()).map(Val::L).actual_subscribe(probe),
          )),
          "buffer_with_count_and_time" => Some(BoxSubscription::new(
            src.clone().buffer_with_count_and_time(a[0].usize(), ms(a[1].int() as u64), sch.clone()).map(Val::L).actual_subscribe(probe),
          )),
          "interval" => Some(BoxSubscription::new(
            observable::interval(ms(a[0].int() as u64), sch.clone())
              .map(|n: usize| Val::Z(n as i64))
              .on_error_map(|e: std::convert::Infallible| -> i64 { match e {} })
              .actual_subscribe(probe),
          )),
          "interval_at" => Some(BoxSubscription::new(
            observable::interval_at(Instant::now() + ms(a[0].int() as u64), ms(a[1].int() as u64), sch.clone())
              .map(|n: usize| Val::Z(n as i64))
              .on_error_map(|e: std::convert::Infallible| -> i64 { match e {} })
              .actual_subscribe(probe),
          )),
          "timer" => Some(BoxSubscription::new(
            observable::timer(Val::parse(&a[0]), ms(a[1].int() as u64), sch.clone())
              .on_error_map(|e: std::convert::Infallible| -> i64 { match e {} })
              .actual_subscribe(probe),
          )),
          "raw" => {
            drop(probe);
            None
          }
          h => panic!("bad timed op {h}"),
        };
        // (drop) ends the subscription by dropping a guard from unsubscribe_when_dropped()
        let use_guard = body[1].args().iter().any(|l| l.head() == "drop");
        let mut guard = if use_guard { sub.take().map(|u| u.unsubscribe_when_dropped()) } else { None };
        let mut tasks: Vec<Option<SpawnedTask>> = vec![];
        let mut raw: Vec<Option<RawHandle>> = vec![];
        let collect = |tasks: &mut Vec<Option<SpawnedTask>>| {
          SPAWNED.with(|q| {
            for t in q.borrow_mut().drain(..) {
              tasks.push(Some(t));
            }
          })
        };
        collect(&mut tasks);
        let waker = noop_waker();
        for (j, l) in body[1].args().iter().enumerate() {
          log.lock().unwrap().push(T::Mark(j));
          let la = l.args();
          match l.head() {
            "src" => crate::chain::$chain::emit(&src, Ev::parse(&la[0])),
            "run" => {
              let t = la[0].usize();
              if let Some(slot) = tasks.get_mut(t) {
                if let Some(f) = slot.as_mut() {
                  let mut cx = Context::from_waker(&waker);
                  if f.as_mut().poll(&mut cx).is_ready() {
                    *slot = None;
                  }
                }
              }
            }
            "adv" => NOW.with(|n| n.set(n.get() + (la[0].int() as u128) * unit())),
            "unsub" => {
              if let Some(u) = sub.take() {
                u.unsubscribe();
              }
            }
            "drop" => drop(guard.take()),
            "closed" => {
              if let Some(u) = sub.as_ref() {
                log.lock().unwrap().push(T::Ret(u.is_closed()));
              }
            }
            "finish" => fin.store(true, Ordering::SeqCst),
            "spawn_once" => {
              let id = tasks.len();
              let h = sch.schedule(OnceTask::new(raw_once, (log.clone(), id)), opt_delay(&la[0]));
              raw.resize_with(id + 1, || None);
              raw[id] = Some(RawHandle::Normal(h));
            }
            "spawn_repeat" => {
              let id = tasks.len();
              let h = sch.schedule(
                RepeatTask::new(ms(la[0].int() as u64), raw_repeat, (log.clone(), id, la[2].usize())),
                opt_delay(&la[1]),
              );
              raw.resize_with(id + 1, || None);
              raw[id] = Some(RawHandle::Normal(h));
            }
            "spawn_sub" => {
              let id = tasks.len();
              let h = sch.schedule(OnceTask::new(raw_sub, (log.clone(), id)), opt_delay(&la[0]));
              raw.resize_with(id + 1, || None);
              raw[id] = Some(RawHandle::Sub(h));
            }
            "cancel" => {
              let t = la[0].usize();
              if let Some(h) = raw.get_mut(t).and_then(|h| h.take()) {
                match h {
                  RawHandle::Normal(h) => h.unsubscribe(),
                  RawHandle::Sub(h) => h.unsubscribe(),
                }
              }
            }
            "handle_closed" => {
              let t = la[0].usize();
              if let Some(Some(h)) = raw.get(t) {
                let b = match h {
                  RawHandle::Normal(h) => h.is_closed(),
                  RawHandle::Sub(h) => h.is_closed(),
                };
                log.lock().unwrap().push(T::Ret(b));
              }
            }
            h => panic!("bad timed label {h}"),
          }
          collect(&mut tasks);
        }
        let mut r = show(&log.lock().unwrap());
        if let Some(g) = guard.take() {
          std::mem::forget(g);
        }
        // no operator but the `_at` ones may look at the real clock: interval_at's first timer is the time left until the
        // instant, every other timer of every operator is a duration the caller gave
        let first_is_real = op.head() == "interval_at";
        let odd: Vec<(usize, u128)> = ODD_TIMERS.with(|o| o.borrow().iter().cloned().filter(|(pos, _)| !(first_is_real && *pos == 0)).collect());
        if let Some((pos, ns)) = odd.first() {
          r.push_str(&format!(" (realclock {pos} {ns})"));
        }
        r
      }
    }
  };
}

timed_runner!(local, local, Subject<'static, Val, i64>, delay, observe_on);
timed_runner!(threads, threads, SubjectThreads<Val, i64>, delay_threads, observe_on_threads);

/// (timed FORM OP (labels ...))
pub fn run_timed(body: &[Sexp]) -> String {
  UNIT.with(|u| u.set(if body[0].atom().ends_with("_us") { 1_000 } else { 1_000_000 }));
  match body[0].atom() {
    "local" | "local_us" => local::run(&body[1..]),
    "threads" | "threads_us" => threads::run(&body[1..]),
    f => panic!("bad timed form {f}"),
  }
}

/// (timed2 FORM OP (labels ...))
pub fn run_timed2(body: &[Sexp]) -> String {
  UNIT.with(|u| u.set(1_000_000));
  match body[0].atom() {
    "local" => local::run_two(&body[1..]),
    "threads" => threads::run_two(&body[1..]),
    f => panic!("bad timed2 form {f}"),
  }
}

/// (timedchain FORM OP (pre U...) (post U...) (labels ...))
pub fn run_timedchain(body: &[Sexp]) -> String {
  UNIT.with(|u| u.set(1_000_000));
  match body[0].atom() {
    "local" => local::run_chain(&body[1..]),
    "threads" => threads::run_chain(&body[1..]),
    f => panic!("bad timedchain form {f}"),
  }
}

/// (atform OP OFFSET_SECONDS): the `_at` constructors turn an Instant into a Duration with the real
/// Instant::now(); the observation is the first duration requested from new_timer, in whole seconds.
pub fn run_atform(body: &[Sexp]) -> String {
  UNIT.with(|u| u.set(1_000_000));
  install_timer();
  NOW.with(|n| n.set(0));
  TIMER_REQS.with(|r| r.borrow_mut().clear());
  SPAWNED.with(|q| q.borrow_mut().clear());
  let off = body[1].int();
  let at = if off >= 0 {
    Instant::now() + Duration::from_secs(off as u64)
  } else {
    Instant::now() - Duration::from_secs((-off) as u64)
  };
  let log: TLog = TLog::default();
  let fin = Arc::new(AtomicBool::new(false));
  let probe = TProbe { log: log.clone(), fin };
  let sch = VerifScheduler;
  let src: Subject<'static, Val, i64> = Subject::default();
  let srct: SubjectThreads<Val, i64> = SubjectThreads::default();
  let infallible = |e: std::convert::Infallible| -> i64 { match e {} };
  let _sub: Box<dyn std::any::Any> = match body[0].atom() {
    "delay_at" => Box::new(src.clone().delay_at(at, sch).actual_subscribe(probe)),
    "delay_at_threads" => Box::new(srct.clone().delay_at_threads(at, sch).actual_subscribe(probe)),
    "delay_subscription_at" => Box::new(src.clone().delay_subscription_at(at, sch).actual_subscribe(probe)),
    "timer_at" => Box::new(observable::timer_at(Val::Z(1), at, sch).on_error_map(infallible).actual_subscribe(probe)),
    "interval_at" => Box::new(
      observable::interval_at(at, Duration::from_secs(7), sch)
        .map(|n: usize| Val::Z(n as i64))
        .on_error_map(infallible)
        .actual_subscribe(probe),
    ),
    h => panic!("bad at-form {h}"),
  };
  src.clone().next(Val::Z(1));
  srct.clone().next(Val::Z(1));
  let mut tasks: Vec<SpawnedTask> = SPAWNED.with(|q| q.borrow_mut().drain(..).collect());
  let waker = noop_waker();
  if let Some(f) = tasks.get_mut(0) {
    let mut cx = Context::from_waker(&waker);
    let _ = f.as_mut().poll(&mut cx);
  }
  let req = TIMER_REQS.with(|r| r.borrow().first().cloned());
  match req {
    Some(ms) => format!("(req {})", (ms + 500) / 1000),
    None => "(req none)".to_string(),
  }
}
