//! from_future(_result) / from_stream(_result) over scripted futures and streams, polled
//! through the hook scheduler (model: `Async.v`).
use crate::sexp::Sexp;
use crate::val::{Ev, Val};
use futures::Stream;
use rxrust::prelude::*;
use rxrust::scheduler::verif_hook::{SpawnedTask, VerifScheduler, SPAWNED};
use std::collections::VecDeque;
use std::convert::Infallible;
use std::future::Future;
use std::pin::Pin;
use std::sync::{Arc, Mutex};
use std::task::{Context, Poll, RawWaker, RawWakerVTable, Waker};

#[derive(Clone, Debug)]
enum P {
  Pending,
  Item(Val),
  Fail(i64),
  End,
}

fn parse_script(s: &[Sexp]) -> VecDeque<P> {
  s.iter()
    .map(|x| match x.head() {
      "p" => P::Pending,
      "i" => P::Item(Val::parse(&x.args()[0])),
      "f" => P::Fail(x.args()[0].int()),
      "end" => P::End,
      h => panic!("bad poll result {h}"),
    })
    .collect()
}

thread_local! {
  /// the scripted future / stream answered Pending during the current poll: the wake-up is its business then
  static SRC_PENDING: std::cell::Cell<bool> = std::cell::Cell::new(false);
  /// the task's waker was woken during the current poll
  static WOKEN: std::cell::Cell<bool> = std::cell::Cell::new(false);
}

fn src_pending<T>() -> Poll<T> {
  SRC_PENDING.with(|p| p.set(true));
  Poll::Pending
}

struct ScriptStream(VecDeque<P>);
impl Stream for ScriptStream {
  type Item = Val;
  fn poll_next(mut self: Pin<&mut Self>, _: &mut Context<'_>) -> Poll<Option<Val>> {
    loop {
      match self.0.pop_front() {
        None | Some(P::End) => return Poll::Ready(None),
        Some(P::Pending) => return src_pending(),
        Some(P::Item(v)) => return Poll::Ready(Some(v)),
        Some(P::Fail(_)) => continue,
      }
    }
  }
}

struct ScriptTryStream(VecDeque<P>);
impl Stream for ScriptTryStream {
  type Item = Result<Val, i64>;
  fn poll_next(mut self: Pin<&mut Self>, _: &mut Context<'_>) -> Poll<Option<Result<Val, i64>>> {
    match self.0.pop_front() {
      None | Some(P::End) => Poll::Ready(None),
      Some(P::Pending) => src_pending(),
      Some(P::Item(v)) => Poll::Ready(Some(Ok(v))),
      Some(P::Fail(e)) => Poll::Ready(Some(Err(e))),
    }
  }
}

struct ScriptFuture(VecDeque<P>);
impl Future for ScriptFuture {
  type Output = Val;
  fn poll(mut self: Pin<&mut Self>, _: &mut Context<'_>) -> Poll<Val> {
    match self.0.pop_front() {
      Some(P::Item(v)) => Poll::Ready(v),
      _ => src_pending(),
    }
  }
}

struct ScriptTryFuture(VecDeque<P>);
impl Future for ScriptTryFuture {
  type Output = Result<Val, i64>;
  fn poll(mut self: Pin<&mut Self>, _: &mut Context<'_>) -> Poll<Result<Val, i64>> {
    match self.0.pop_front() {
      Some(P::Item(v)) => Poll::Ready(Ok(v)),
      Some(P::Fail(e)) => Poll::Ready(Err(e)),
      _ => src_pending(),
    }
  }
}

enum A {
  Out(Ev),
  Ret(bool),
  /// a poll answered Pending although the source was ready and nobody was asked to wake the task: no executor polls it again
  LostWake,
}

struct AProbe(Arc<Mutex<Vec<A>>>);
impl Observer<Val, i64> for AProbe {
  fn next(&mut self, v: Val) {
    self.0.lock().unwrap().push(A::Out(Ev::Next(v)));
  }
  fn error(self, e: i64) {
    self.0.lock().unwrap().push(A::Out(Ev::Err(e)));
  }
  fn complete(self) {
    self.0.lock().unwrap().push(A::Out(Ev::Done));
  }
  fn is_finished(&self) -> bool {
    false
  }
}

fn noop_waker() -> Waker {
  fn clone(_: *const ()) -> RawWaker {
    RawWaker::new(std::ptr::null(), &VTABLE)
  }
  fn noop(_: *const ()) {}
  fn wake(_: *const ()) {
    WOKEN.with(|w| w.set(true));
  }
  static VTABLE: RawWakerVTable = RawWakerVTable::new(clone, wake, wake, noop);
  unsafe { Waker::from_raw(RawWaker::new(std::ptr::null(), &VTABLE)) }
}

fn absurd(e: Infallible) -> i64 {
  match e {}
}

/// (async KIND (script R...) (labels poll|unsub|closed ...))
pub fn run_async(body: &[Sexp]) -> String {
  SPAWNED.with(|q| q.borrow_mut().clear());
  let script = parse_script(body[1].args());
  let log = Arc::new(Mutex::new(vec![]));
  let probe = AProbe(log.clone());
  let sch = VerifScheduler;
  let mut sub: Option<TaskHandle<NormalReturn<()>>> = Some(match body[0].atom() {
    "from_stream" => observable::from_stream(ScriptStream(script), sch)
      .on_error_map(absurd as fn(Infallible) -> i64)
      .actual_subscribe(probe),
    "from_stream_result" => observable::from_stream_result(ScriptTryStream(script), sch).actual_subscribe(probe),
    "from_future" => observable::from_future(ScriptFuture(script), sch)
      .on_error_map(absurd as fn(Infallible) -> i64)
      .actual_subscribe(probe),
    "from_future_result" => observable::from_future_result(ScriptTryFuture(script), sch).actual_subscribe(probe),
    k => panic!("bad async kind {k}"),
  });
  let mut task: Option<SpawnedTask> = SPAWNED.with(|q| q.borrow_mut().pop());
  let waker = noop_waker();
  for l in body[2].args() {
    match l.atom() {
      "poll" => {
        if let Some(f) = task.as_mut() {
          let mut cx = Context::from_waker(&waker);
          SRC_PENDING.with(|p| p.set(false));
          WOKEN.with(|w| w.set(false));
          if f.as_mut().poll(&mut cx).is_ready() {
            task = None;
          } else if !SRC_PENDING.with(|p| p.get()) && !WOKEN.with(|w| w.get()) && sub.is_some() {
            log.lock().unwrap().push(A::LostWake);
          }
        }
      }
      "unsub" => {
        if let Some(u) = sub.take() {
          u.unsubscribe();
        }
      }
      "closed" => {
        if let Some(u) = sub.as_ref() {
          log.lock().unwrap().push(A::Ret(u.is_closed()));
        }
      }
      h => panic!("bad async label {h}"),
    }
  }
  let mut s = String::new();
  for (i, a) in log.lock().unwrap().iter().enumerate() {
    if i > 0 {
      s.push(' ');
    }
    match a {
      A::Out(e) => e.show(&mut s),
      A::Ret(b) => s.push_str(if *b { "(rb #t)" } else { "(rb #f)" }),
      A::LostWake => s.push_str("(lostwake)"),
    }
  }
  s
}
