//! Real threads against pipelines built from the thread-safe operators (two-input combinators and
//! merge_all over SubjectThreads inputs) under an explicit schedule: the controller of `ileave.rs`
//! parks every thread right before each MutArc lock and inside the probe's callback.
use crate::chain::threads::{apply_op2, build_src, emit, Obs};
use crate::ileave::{cur, gate, log, run_threads};
use crate::sexp::Sexp;
use crate::val::{Ev, Val};
use rxrust::prelude::*;
use std::sync::atomic::{AtomicBool, Ordering};
use std::sync::{Arc, Mutex};

type Subj = SubjectThreads<Val, i64>;

#[derive(Clone)]
struct GProbe {
  busy: Arc<AtomicBool>,
  /// Some(k): one of several subscribers (its events are tagged with k)
  id: Option<usize>,
}

impl GProbe {
  fn call(&self, e: Ev) {
    if self.busy.swap(true, Ordering::SeqCst) {
      log(format!("(ov {})", self.id.unwrap_or(0)));
    }
    gate(None);
    let (t, j) = cur();
    let mut s = match self.id {
      Some(k) => format!("(vp {k} "),
      None => String::from("(v "),
    };
    e.show(&mut s);
    s.push_str(&format!(" {t} {j})"));
    log(s);
    self.busy.store(false, Ordering::SeqCst);
  }
}

impl Observer<Val, i64> for GProbe {
  fn next(&mut self, v: Val) {
    self.call(Ev::Next(v));
  }
  fn error(self, e: i64) {
    self.call(Ev::Err(e));
  }
  fn complete(self) {
    self.call(Ev::Done);
  }
  fn is_finished(&self) -> bool {
    false
  }
}

type Ender = Arc<Mutex<Option<Box<dyn FnOnce() + Send>>>>;

type Closed = Option<Box<dyn Fn() -> bool + Send + Sync>>;

struct World {
  shared: Mutex<Option<Obs>>,
  handles: Mutex<std::collections::HashMap<usize, BoxSubscriptionThreads>>,
  closed: Closed,
  a: Subj,
  b: Subj,
  outer: SubjectThreads<Obs, i64>,
  hots: Vec<Subj>,
  ender: Ender,
}

fn run_op(op: &Sexp, w: &World) {
  let x = op.args();
  match op.head() {
    "a" => emit(&w.a, Ev::parse(&x[0])),
    "b" => emit(&w.b, Ev::parse(&x[0])),
    "i" => emit(&w.hots[x[0].usize()], Ev::parse(&x[1])),
    "o" => match x[0].head() {
      "hoti" => w.outer.clone().next(w.hots[x[0].args()[0].usize()].clone().box_it()),
      "coldi" => {
        let mut l = vec![Sexp::Atom("create".into())];
        l.extend_from_slice(x[0].args());
        w.outer.clone().next(build_src(&Sexp::List(l)))
      }
      "c" => w.outer.clone().complete(),
      "e" => w.outer.clone().error(x[0].args()[0].int()),
      h => panic!("bad outer event {h}"),
    },
    // share_threads: subscriber K joins / leaves
    "sub" => {
      let k = x[0].usize();
      let o = w.shared.lock().unwrap().as_ref().expect("share pipe").clone();
      let h = BoxSubscriptionThreads::new(o.actual_subscribe(GProbe { busy: Arc::default(), id: Some(k) }));
      w.handles.lock().unwrap().insert(k, h);
    }
    "unsub" => {
      let k = x[0].usize();
      let h = w.handles.lock().unwrap().remove(&k);
      match h {
        Some(h) => h.unsubscribe(),
        None => gate(None),
      }
      let (t, j) = cur();
      log(format!("(up {k} {t} {j})"));
    }
    "closed" => {
      if let Some(f) = w.closed.as_ref() {
        let b = f();
        let (t, j) = cur();
        log(format!("(rb {} {t} {j})", if b { "#t" } else { "#f" }));
      }
    }
    "u" => {
      let f = w.ender.lock().unwrap().take();
      match f {
        Some(f) => f(),
        None => gate(None),
      }
      let (t, j) = cur();
      log(format!("(u {t} {j})"));
    }
    o => panic!("bad ileave2 op {o}"),
  }
}

/// (ileave2 PIPE (threads (OP...) ...) (sched T...)) with PIPE = (op2 SPEC) | (flat LIMIT) | (fin) | (hot) | (share)
pub fn run_ileave2(body: &[Sexp]) -> String {
  let a = Subj::default();
  let b = Subj::default();
  let outer: SubjectThreads<Obs, i64> = <_>::default();
  let hots: Vec<Subj> = (0..3).map(|_| Subj::default()).collect();
  let probe = GProbe { busy: Arc::default(), id: None };
  let mut shared: Option<Obs> = None;
  let pipe = &body[0];
  let mut closed: Closed = None;
  let ender: Box<dyn FnOnce() + Send> = match pipe.head() {
    // a subject alone: its subscription is a clonable handle, so is_closed() can be asked by any thread at any time
    "hot" => {
      let sub = a.clone().actual_subscribe(probe);
      let s2 = sub.clone();
      closed = Some(Box::new(move || s2.is_closed()));
      Box::new(move || sub.unsubscribe())
    }
    "op2" => {
      let o = apply_op2(&pipe.args()[0], a.clone().box_it(), b.clone().box_it());
      let sub = o.actual_subscribe(probe);
      Box::new(move || sub.unsubscribe())
    }
    // share_threads over a subject behind a counted subscription and a tap: subscribers join and leave from threads
    "share" => {
      drop(probe);
      let src = a.clone();
      let o = observable::defer(move || {
        log("(connect)".into());
        src.clone()
      })
      .tap(|v: &Val| {
        let mut s = String::from("(tap ");
        v.show(&mut s);
        s.push(')');
        log(s);
      })
      .share_threads()
      .box_it();
      shared = Some(o);
      Box::new(|| {})
    }
    "fin" => {
      let o = a.clone().finalize_threads(|| {
        gate(None);
        let (t, j) = cur();
        log(format!("(call {t} {j})"));
      });
      let sub = o.actual_subscribe(probe);
      Box::new(move || sub.unsubscribe())
    }
    "flat" => {
      let limit: usize = if pipe.args()[0].atom() == "inf" { usize::MAX } else { pipe.args()[0].usize() };
      let sub = outer.clone().merge_all_threads(limit).actual_subscribe(probe);
      Box::new(move || sub.unsubscribe())
    }
    p => panic!("bad ileave2 pipe {p}"),
  };
  let world = Arc::new(World { shared: Mutex::new(shared), handles: Mutex::new(Default::default()), closed, a, b, outer, hots, ender: Arc::new(Mutex::new(Some(ender))) });
  // an optional sequential prologue (setup OP...) runs before the threads start
  if let Some(setup) = body.get(3) {
    for op in setup.args() {
      run_op(op, &world);
    }
  }
  let scripts: Vec<Vec<Sexp>> = body[1].args().iter().map(|s| s.list().to_vec()).collect();
  let sched: Vec<usize> = body[2].args().iter().map(|s| s.usize()).collect();
  let w2 = world.clone();
  let (trace, end) = run_threads(scripts, sched, move |op| run_op(op, &w2), false);
  if end != "fin" {
    std::mem::forget(world);
  }
  format!("{trace} {end}")
}
