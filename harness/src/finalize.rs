//! finalize / finalize_threads behind a hot (subject) or cold (create) input, optionally with
//! a take(n) before or after it (model: `Finalize.v`).  The callback logs `call` into the same
//! log the probe writes, so its position relative to the deliveries is observed.
use crate::sexp::Sexp;
use crate::val::{Ev, Val};
use rxrust::prelude::*;
use std::sync::{Arc, Mutex};

type Log = Arc<Mutex<Vec<String>>>;

struct FProbe {
  log: Log,
}

impl Observer<Val, i64> for FProbe {
  fn next(&mut self, value: Val) {
    let mut s = String::new();
    Ev::Next(value).show(&mut s);
    self.log.lock().unwrap().push(s);
  }
  fn error(self, err: i64) {
    self.log.lock().unwrap().push(format!("(e {err})"));
  }
  fn complete(self) {
    self.log.lock().unwrap().push("c".to_string());
  }
  fn is_finished(&self) -> bool {
    false
  }
}

struct TProbe {
  id: usize,
  log: Log,
}

impl Observer<Val, i64> for TProbe {
  fn next(&mut self, value: Val) {
    let mut s = String::new();
    Ev::Next(value).show(&mut s);
    self.log.lock().unwrap().push(format!("(d {} {})", self.id, s));
  }
  fn error(self, err: i64) {
    self.log.lock().unwrap().push(format!("(d {} (e {err}))", self.id));
  }
  fn complete(self) {
    self.log.lock().unwrap().push(format!("(d {} c)", self.id));
  }
  fn is_finished(&self) -> bool {
    false
  }
}

fn absurd(e: std::convert::Infallible) -> i64 {
  match e {}
}

fn show(log: &Log) -> String {
  log.lock().unwrap().join(" ")
}

enum Shape {
  Plain,
  TakeBefore(usize),
  TakeAfter(usize),
}

fn shape(s: &Sexp) -> Shape {
  match s.head() {
    "plain" => Shape::Plain,
    "take_before" => Shape::TakeBefore(s.args()[0].usize()),
    "take_after" => Shape::TakeAfter(s.args()[0].usize()),
    h => panic!("bad finalize shape {h}"),
  }
}

macro_rules! finalize_runner {
  ($m:ident, $subj:ty, $fin:ident, $boxsub:ident, $boxty:ty, $subscriber:ident) => {
    mod $m {
      use super::*;

      fn emit<O: Observer<Val, i64> + Clone>(o: &O, e: &Ev) {
        match e.clone() {
          Ev::Next(v) => {
            let mut c = o.clone();
            c.next(v)
          }
          Ev::Err(x) => o.clone().error(x),
          Ev::Done => o.clone().complete(),
        }
      }

      /// `dead`: the subject has been unsubscribed before the subscription is made.
      /// While the subscription is being unsubscribed the callback also pushes an item into the
      /// subject: whoever is still connected at that moment would see it.
      pub fn run_hot(sh: Shape, stims: &[Sexp], dead: bool) -> String {
        let log: Log = Log::default();
        let subject: $subj = <$subj>::default();
        if dead {
          subject.clone().unsubscribe();
        }
        let l2 = log.clone();
        let in_unsub = Arc::new(std::sync::atomic::AtomicBool::new(false));
        let (flag, s2) = (in_unsub.clone(), subject.clone());
        let cb = move || {
          l2.lock().unwrap().push("call".to_string());
          if flag.load(std::sync::atomic::Ordering::SeqCst) {
            let mut s3 = s2.clone();
            s3.next(Val::Z(99));
          }
        };
        let p = FProbe { log: log.clone() };
        let mut handle: Option<$boxty> = Some(match sh {
          Shape::Plain => $boxsub::new(subject.clone().$fin(cb).actual_subscribe(p)),
          Shape::TakeBefore(n) => $boxsub::new(subject.clone().take(n).$fin(cb).actual_subscribe(p)),
          Shape::TakeAfter(n) => $boxsub::new(subject.clone().$fin(cb).take(n).actual_subscribe(p)),
        });
        for st in stims {
          match st {
            Sexp::Atom(a) if a == "u" => {
              if let Some(h) = handle.take() {
                in_unsub.store(true, std::sync::atomic::Ordering::SeqCst);
                h.unsubscribe();
                in_unsub.store(false, std::sync::atomic::Ordering::SeqCst);
              }
            }
            Sexp::Atom(a) if a == "ud" => {
              if let Some(h) = handle.take() {
                in_unsub.store(true, std::sync::atomic::Ordering::SeqCst);
                drop(h.unsubscribe_when_dropped());
                in_unsub.store(false, std::sync::atomic::Ordering::SeqCst);
              }
            }
            _ => emit(&subject, &Ev::parse(st)),
          }
          log.lock().unwrap().push("|".to_string());
        }
        show(&log)
      }

      /// Two subscriptions made from clones of ONE finalize observable over a subject (each has its own
      /// callback slot): (d I EV) = subscriber I is delivered EV, `call` = the callback runs.
      pub fn run_twice(stims: &[Sexp]) -> String {
        let log: Log = Log::default();
        let subject: $subj = <$subj>::default();
        let l2 = log.clone();
        let obs = subject.clone().$fin(move || l2.lock().unwrap().push("call".to_string()));
        let mut handles: Vec<Option<$boxty>> = vec![];
        for i in 0..2 {
          let p = TProbe { id: i, log: log.clone() };
          handles.push(Some($boxsub::new(obs.clone().actual_subscribe(p))));
        }
        for st in stims {
          match st.head() {
            "u" => {
              if let Some(h) = handles.get_mut(st.args()[0].usize()).and_then(|h| h.take()) {
                h.unsubscribe();
              }
            }
            _ => emit(&subject, &Ev::parse(st)),
          }
          log.lock().unwrap().push("|".to_string());
        }
        for h in handles.drain(..) {
          std::mem::forget(h);
        }
        show(&log)
      }

      /// never(): its subscription is `()`
      pub fn run_never(sh: Shape, stims: &[Sexp]) -> String {
        let log: Log = Log::default();
        let l2 = log.clone();
        let cb = move || l2.lock().unwrap().push("call".to_string());
        let p = FProbe { log: log.clone() };
        macro_rules! src {
          () => {
            observable::never().map(|_: ()| Val::U).on_error_map(|e: std::convert::Infallible| -> i64 { match e {} })
          };
        }
        let mut handle: Option<$boxty> = Some(match sh {
          Shape::Plain => $boxsub::new(src!().$fin(cb).actual_subscribe(p)),
          Shape::TakeBefore(n) => $boxsub::new(src!().take(n).$fin(cb).actual_subscribe(p)),
          Shape::TakeAfter(n) => $boxsub::new(src!().$fin(cb).take(n).actual_subscribe(p)),
        });
        for st in stims {
          match st {
            Sexp::Atom(a) if a == "u" => {
              if let Some(h) = handle.take() {
                h.unsubscribe();
              }
            }
            Sexp::Atom(a) if a == "ud" => {
              if let Some(h) = handle.take() {
                drop(h.unsubscribe_when_dropped());
              }
            }
            _ => {}
          }
          log.lock().unwrap().push("|".to_string());
        }
        show(&log)
      }

      /// an iterator source: it asks is_finished before every pull and completes after the loop (no markers between its items)
      pub fn run_iter(sh: Shape, stims: &[Sexp]) -> String {
        let log: Log = Log::default();
        let n = stims[0].int();
        let l2 = log.clone();
        let cb = move || l2.lock().unwrap().push("call".to_string());
        let p = FProbe { log: log.clone() };
        macro_rules! src {
          () => {
            observable::from_iter((0..n).map(Val::Z)).on_error_map(absurd as fn(std::convert::Infallible) -> i64)
          };
        }
        let handle: $boxty = match sh {
          Shape::Plain => $boxsub::new(src!().$fin(cb).actual_subscribe(p)),
          Shape::TakeBefore(k) => $boxsub::new(src!().take(k).$fin(cb).actual_subscribe(p)),
          Shape::TakeAfter(k) => $boxsub::new(src!().$fin(cb).take(k).actual_subscribe(p)),
        };
        if stims.iter().any(|s| matches!(s, Sexp::Atom(a) if a == "u" || a == "ud")) {
          handle.unsubscribe();
        }
        show(&log)
      }

      pub fn run_cold(sh: Shape, stims: &[Sexp]) -> String {
        let log: Log = Log::default();
        let evs: Vec<Ev> = stims
          .iter()
          .filter(|s| !matches!(s, Sexp::Atom(a) if a == "u" || a == "ud"))
          .map(Ev::parse)
          .collect();
        let l2 = log.clone();
        let cb = move || l2.lock().unwrap().push("call".to_string());
        let p = FProbe { log: log.clone() };
        let l3 = log.clone();
        macro_rules! src {
          () => {
            observable::create(move |mut s: $subscriber<_>| {
              for e in evs {
                match e {
                  Ev::Next(v) => s.next(v),
                  Ev::Err(x) => s.clone().error(x),
                  Ev::Done => s.clone().complete(),
                }
                l3.lock().unwrap().push("|".to_string());
              }
            })
          };
        }
        let handle: $boxty = match sh {
          Shape::Plain => $boxsub::new(src!().$fin(cb).actual_subscribe(p)),
          Shape::TakeBefore(n) => $boxsub::new(src!().take(n).$fin(cb).actual_subscribe(p)),
          Shape::TakeAfter(n) => $boxsub::new(src!().$fin(cb).take(n).actual_subscribe(p)),
        };
        if stims.iter().any(|s| matches!(s, Sexp::Atom(a) if a == "u" || a == "ud")) {
          handle.unsubscribe();
          log.lock().unwrap().push("|".to_string());
        }
        show(&log)
      }
    }
  };
}

finalize_runner!(local, Subject<'static, Val, i64>, finalize, BoxSubscription, BoxSubscription<'static>, Subscriber);
finalize_runner!(threads, SubjectThreads<Val, i64>, finalize_threads, BoxSubscriptionThreads, BoxSubscriptionThreads, SubscriberThreads);

/// (finalize FORM hot|cold|dead|never SHAPE (stims ST...))
pub fn run_finalize(body: &[Sexp]) -> String {
  if body[1].atom() == "twice" {
    return match body[0].atom() {
      "local" => local::run_twice(body[3].args()),
      _ => threads::run_twice(body[3].args()),
    };
  }
  let sh = shape(&body[2]);
  let stims = body[3].args();
  match (body[0].atom(), body[1].atom()) {
    ("local", "hot") => local::run_hot(sh, stims, false),
    ("local", "dead") => local::run_hot(sh, stims, true),
    ("local", "never") => local::run_never(sh, stims),
    ("threads", "dead") => threads::run_hot(sh, stims, true),
    ("threads", "never") => threads::run_never(sh, stims),
    ("local", "cold") => local::run_cold(sh, stims),
    ("local", "iter") => local::run_iter(sh, stims),
    ("threads", "iter") => threads::run_iter(sh, stims),
    ("threads", "hot") => threads::run_hot(sh, stims, false),
    ("threads", "cold") => threads::run_cold(sh, stims),
    (f, s) => panic!("bad finalize form {f} {s}"),
  }
}

/// (finalize_race ROUNDS ITEMS): real threads.  In every round one thread pushes ITEMS items and
/// a terminal into a SubjectThreads while another unsubscribes; the answer is the multiset of
/// distinct callback counts seen, plus whether a call ever came
/// before any of the two events started.
pub fn run_finalize_race(body: &[Sexp]) -> String {
  use std::sync::atomic::{AtomicUsize, Ordering};
  let rounds = body[0].usize();
  let items = body[1].usize();
  let mut hist = std::collections::BTreeMap::<usize, usize>::new();
  let mut early = 0usize;
  for r in 0..rounds {
    let count = Arc::new(AtomicUsize::new(0));
    let subject: SubjectThreads<Val, i64> = SubjectThreads::default();
    let c2 = count.clone();
    let p = FProbe { log: Log::default() };
    let handle = subject
      .clone()
      .finalize_threads(move || {
        c2.fetch_add(1, Ordering::SeqCst);
      })
      .actual_subscribe(p);
    if count.load(Ordering::SeqCst) != 0 {
      early += 1;
    }
    let barrier = Arc::new(std::sync::Barrier::new(2));
    let b1 = barrier.clone();
    let mut s1 = subject.clone();
    let err = r % 2 == 1;
    let t1 = std::thread::spawn(move || {
      b1.wait();
      for i in 0..items {
        s1.next(Val::Z(i as i64));
      }
      if err {
        s1.error(7)
      } else {
        s1.complete()
      }
    });
    let b2 = barrier.clone();
    let t2 = std::thread::spawn(move || {
      b2.wait();
      handle.unsubscribe();
    });
    t1.join().unwrap();
    t2.join().unwrap();
    *hist.entry(count.load(Ordering::SeqCst)).or_insert(0) += 1;
  }
  let ks: Vec<String> = hist.keys().map(|k| k.to_string()).collect();
  format!("counts={} early={early}", ks.join(","))
}
