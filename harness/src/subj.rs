//! Histories of API calls on the five subject types (model: `Subject.v`, `sstep`)
//! and on BehaviorSubject over Subject / SubjectThreads (`bstep`).
use crate::sexp::Sexp;
use crate::val::{Ev, Fn1, Val};
use std::fmt::Write;
use std::sync::{Arc, Mutex};

#[derive(Clone, Debug)]
pub enum Obs {
  Deliver(usize, Ev),
  Subscribed(usize),
  RetN(usize),
  RetB(bool),
  Peeked(Val),
}

pub fn show_obs(l: &[Obs]) -> String {
  let mut s = String::new();
  for (i, o) in l.iter().enumerate() {
    if i > 0 {
      s.push(' ');
    }
    match o {
      Obs::Deliver(id, e) => {
        write!(s, "(d {id} ").unwrap();
        e.show(&mut s);
        s.push(')');
      }
      Obs::Subscribed(id) => write!(s, "(s {id})").unwrap(),
      Obs::RetN(n) => write!(s, "(rn {n})").unwrap(),
      Obs::RetB(b) => write!(s, "(rb {})", if *b { "#t" } else { "#f" }).unwrap(),
      Obs::Peeked(v) => {
        s.push_str("(peek ");
        v.show(&mut s);
        s.push(')');
      }
    }
  }
  s
}

pub type Log = Arc<Mutex<Vec<Obs>>>;

macro_rules! ity { (own, $l:lifetime) => { Val }; (mutref, $l:lifetime) => { &$l mut Val }; }
macro_rules! ety { (own, $l:lifetime) => { i64 }; (mutref, $l:lifetime) => { &$l mut i64 }; }
macro_rules! arg { (own, $e:expr) => { $e }; (mutref, $e:expr) => { &mut $e }; }
macro_rules! getv { (own, $e:expr) => { $e }; (mutref, $e:expr) => { $e.clone() }; }
macro_rules! gete { (own, $e:expr) => { $e }; (mutref, $e:expr) => { *$e }; }

macro_rules! mk_subject {
  (plain, $init:expr) => {{ let _ = $init; Subj::default() }};
  (behavior, $init:expr) => { Subj::new($init.expect("behavior needs an initial value")) };
}
macro_rules! do_retain {
  (plain, $ctx:expr) => { $ctx.subject.clone().retain() };
  (behavior, $ctx:expr) => { panic!("BehaviorSubject has no retain()") };
}
macro_rules! do_next_by {
  (plain, $ctx:expr, $a:expr) => { panic!("next_by on a plain subject") };
  (behavior, $ctx:expr, $a:expr) => {{
    let f = Fn1::parse(&$a[0]);
    $ctx.subject.clone().next_by(move |v| f.apply(&v));
  }};
}
macro_rules! cb_peek {
  (plain, $ctx:expr) => {};
  (behavior, $ctx:expr) => {
    if $ctx.peek_in_cb.load(std::sync::atomic::Ordering::SeqCst) {
      let v = $ctx.subject.peek();
      $ctx.log.lock().unwrap().push(Obs::Peeked(v));
    }
  };
}

macro_rules! do_peek {
  (plain, $ctx:expr) => { panic!("peek on a plain subject") };
  (behavior, $ctx:expr) => {{
    let v = $ctx.subject.peek();
    $ctx.log.lock().unwrap().push(Obs::Peeked(v));
  }};
}

macro_rules! subject_runner {
  ($m:ident, $subj:ty, $iref:tt, $eref:tt, $kind:tt) => {
    pub mod $m {
      use super::*;
      use rxrust::prelude::*;

      type Subj = $subj;
      type Unsub = <Subj as Observable<ity!($iref, 'static), ety!($eref, 'static), P>>::Unsub;

      pub struct Ctx {
        pub log: Log,
        pub subject: Subj,
        pub subs: Mutex<Vec<Option<Unsub>>>,
        /// Some(i): subscriber i's next callback must subscribe a new subscriber
        pub inside: Mutex<Option<usize>>,
        /// every next callback reads the subject back (peek) while the delivery is in progress
        pub peek_in_cb: std::sync::atomic::AtomicBool,
      }

      pub struct P {
        id: usize,
        ctx: Arc<Ctx>,
      }

      pub fn do_subscribe(ctx: &Arc<Ctx>) {
        let id = ctx.subs.lock().unwrap().len();
        ctx.subs.lock().unwrap().push(None);
        ctx.log.lock().unwrap().push(Obs::Subscribed(id));
        let u = ctx.subject.clone().actual_subscribe(P { id, ctx: ctx.clone() });
        ctx.subs.lock().unwrap()[id] = Some(u);
      }

      impl<'r, 's> Observer<ity!($iref, 'r), ety!($eref, 's)> for P {
        fn next(&mut self, value: ity!($iref, 'r)) {
          self.ctx.log.lock().unwrap().push(Obs::Deliver(self.id, Ev::Next(getv!($iref, value))));
          cb_peek!($kind, self.ctx);
          let pending = {
            let mut g = self.ctx.inside.lock().unwrap();
            if *g == Some(self.id) { g.take() } else { None }
          };
          if pending.is_some() {
            do_subscribe(&self.ctx);
          }
        }
        fn error(self, err: ety!($eref, 's)) {
          self.ctx.log.lock().unwrap().push(Obs::Deliver(self.id, Ev::Err(gete!($eref, err))));
        }
        fn complete(self) {
          self.ctx.log.lock().unwrap().push(Obs::Deliver(self.id, Ev::Done));
        }
        fn is_finished(&self) -> bool {
          false
        }
      }

      // Safety of sharing Ctx between the probes: single-threaded histories only.
      unsafe impl Send for Ctx {}
      unsafe impl Sync for Ctx {}

      pub fn run(init: Option<Val>, ops: &[Sexp]) -> String {
        let ctx = Arc::new(Ctx {
          log: Log::default(),
          subject: mk_subject!($kind, init),
          subs: Mutex::new(vec![]),
          inside: Mutex::new(None),
          peek_in_cb: std::sync::atomic::AtomicBool::new(ops.first().map_or(false, |o| matches!(o, Sexp::Atom(a) if a == "peekcb"))),
        });
        for op in ops {
          let a = op.args();
          match op.head() {
            "sub" => do_subscribe(&ctx),
            "unsub" => {
              let i = a[0].usize();
              let u = ctx.subs.lock().unwrap().get_mut(i).and_then(|s| s.take());
              if let Some(u) = u {
                u.unsubscribe();
              }
            }
            "next" => {
              #[allow(unused_mut)]
              let mut v = Val::parse(&a[0]);
              ctx.subject.clone().next(arg!($iref, v));
            }
            "next_sub_inside" => {
              #[allow(unused_mut)]
              let mut v = Val::parse(&a[0]);
              *ctx.inside.lock().unwrap() = Some(a[1].usize());
              ctx.subject.clone().next(arg!($iref, v));
              *ctx.inside.lock().unwrap() = None;
            }
            "error" => {
              #[allow(unused_mut)]
              let mut e = a[0].int();
              ctx.subject.clone().error(arg!($eref, e));
            }
            "complete" => ctx.subject.clone().complete(),
            "clone" => {
              let _ = ctx.subject.clone();
            }
            "retain" => do_retain!($kind, ctx),
            "next_by" => do_next_by!($kind, ctx, a),
            "peek" => do_peek!($kind, ctx),
            "peekcb" => {}
            "unsub_subject" => ctx.subject.clone().unsubscribe(),
            "len" => {
              let n = ctx.subject.len();
              ctx.log.lock().unwrap().push(Obs::RetN(n));
            }
            "is_empty" => {
              let b = ctx.subject.is_empty();
              ctx.log.lock().unwrap().push(Obs::RetB(b));
            }
            "is_closed" => {
              let b = ctx.subject.is_closed();
              ctx.log.lock().unwrap().push(Obs::RetB(b));
            }
            "is_finished" => {
              let b = Observer::<ity!($iref, '_), ety!($eref, '_)>::is_finished(&ctx.subject);
              ctx.log.lock().unwrap().push(Obs::RetB(b));
            }
            "sub_closed" => {
              let i = a[0].usize();
              let b = ctx.subs.lock().unwrap().get(i).map(|s| s.as_ref().map_or(true, |u| u.is_closed()));
              if let Some(b) = b {
                ctx.log.lock().unwrap().push(Obs::RetB(b));
              }
            }
            h => panic!("bad subject op {h}"),
          }
        }
        let r = show_obs(&ctx.log.lock().unwrap());
        // break the Ctx <-> probe cycle
        ctx.subject.clone().unsubscribe();
        r
      }
    }
  };
}

subject_runner!(local, Subject<'static, Val, i64>, own, own, plain);
subject_runner!(threads, SubjectThreads<Val, i64>, own, own, plain);
subject_runner!(mr_item, MutRefItemSubject<'static, Val, i64>, mutref, own, plain);
subject_runner!(mr_err, MutRefErrSubject<'static, Val, i64>, own, mutref, plain);
subject_runner!(mr_both, MutRefItemErrSubject<'static, Val, i64>, mutref, mutref, plain);
subject_runner!(beh_local, BehaviorSubject<Val, Subject<'static, Val, i64>>, own, own, behavior);
subject_runner!(beh_threads, BehaviorSubject<Val, SubjectThreads<Val, i64>>, own, own, behavior);

/// (subject VARIANT (ops OP...))
pub fn run_subject(body: &[Sexp]) -> String {
  let ops = body[1].args();
  match body[0].atom() {
    "local" => local::run(None, ops),
    "threads" => threads::run(None, ops),
    "mr_item" => mr_item::run(None, ops),
    "mr_err" => mr_err::run(None, ops),
    "mr_both" => mr_both::run(None, ops),
    v => panic!("bad subject variant {v}"),
  }
}

/// (behavior VARIANT INIT (ops OP...))
pub fn run_behavior(body: &[Sexp]) -> String {
  let init = Some(Val::parse(&body[1]));
  let ops = body[2].args();
  match body[0].atom() {
    "local" => beh_local::run(init, ops),
    "threads" => beh_threads::run(init, ops),
    v => panic!("bad behavior variant {v}"),
  }
}
