//! merge_all / concat_all / flatten / flat_map / concat_map over a Subject-driven outer stream
//! of cold (create) and hot (Subject) inner observables (model: `Flatten.v`).
use crate::sexp::Sexp;
use crate::val::{Ev, Val};
use std::fmt::Write;
use std::sync::{Arc, Mutex};

#[derive(Clone, Debug)]
pub enum F {
  Item(usize, Val),
  Term(Ev),
  Subscribed(usize),
  InnerDone(usize),
  Mark(usize),
}

pub type FLog = Arc<Mutex<Vec<F>>>;

pub fn show(l: &[F]) -> String {
  let mut s = String::new();
  for (i, f) in l.iter().enumerate() {
    if i > 0 {
      s.push(' ');
    }
    match f {
      F::Item(k, v) => {
        write!(s, "(i {k} ").unwrap();
        v.show(&mut s);
        s.push(')');
      }
      F::Term(e) => {
        s.push_str("(t ");
        e.show(&mut s);
        s.push(')');
      }
      F::Subscribed(k) => write!(s, "(sub {k})").unwrap(),
      F::InnerDone(k) => write!(s, "(done {k})").unwrap(),
      F::Mark(j) => write!(s, "(m {j})").unwrap(),
    }
  }
  s
}

macro_rules! flatten_runner {
  ($m:ident, $chain:ident, $merge_all:ident, $concat_all:ident, $flatten:ident, $flat_map:ident, $concat_map:ident,
   $subject:ident $(, $lf:lifetime)?) => {
    pub mod $m {
      use super::*;
      use crate::chain::$chain::{build_src, Obs};
      use rxrust::prelude::*;

      /// Harness-side wrapper: records the subscription and the completion of the k-th inner
      /// observable and tags its items with k.
      #[derive(Clone)]
      pub struct Traced {
        pub inner: Obs,
        pub k: usize,
        pub log: FLog,
      }
      pub struct TracedObserver<O> {
        observer: O,
        k: usize,
        log: FLog,
      }
      impl<O: Observer<Val, i64>> Observer<Val, i64> for TracedObserver<O> {
        fn next(&mut self, v: Val) {
          self.observer.next(Val::P(Box::new(Val::Z(self.k as i64)), Box::new(v)))
        }
        fn error(self, e: i64) {
          self.observer.error(e)
        }
        fn complete(self) {
          self.log.lock().unwrap().push(F::InnerDone(self.k));
          self.observer.complete()
        }
        fn is_finished(&self) -> bool {
          self.observer.is_finished()
        }
      }
      impl<O> Observable<Val, i64, O> for Traced
      where
        O: Observer<Val, i64>,
        Obs: Observable<Val, i64, TracedObserver<O>>,
      {
        type Unsub = <Obs as Observable<Val, i64, TracedObserver<O>>>::Unsub;
        fn actual_subscribe(self, observer: O) -> Self::Unsub {
          self.log.lock().unwrap().push(F::Subscribed(self.k));
          self.inner.actual_subscribe(TracedObserver { observer, k: self.k, log: self.log })
        }
      }
      impl ObservableExt<Val, i64> for Traced {}

      struct OuterProbe {
        log: FLog,
      }
      impl Observer<Val, i64> for OuterProbe {
        fn next(&mut self, v: Val) {
          if let Val::P(k, x) = v {
            self.log.lock().unwrap().push(F::Item(k.z() as usize, *x));
          }
        }
        fn error(self, e: i64) {
          self.log.lock().unwrap().push(F::Term(Ev::Err(e)));
        }
        fn complete(self) {
          self.log.lock().unwrap().push(F::Term(Ev::Done));
        }
        fn is_finished(&self) -> bool {
          false
        }
      }

      type HotSubj = $subject<$($lf,)? Val, i64>;

      /// (flatten API LIMIT (stims ST...))
      pub fn run(body: &[Sexp]) -> String {
        let api = body[0].atom();
        let limit: usize = if body[1].atom() == "inf" { usize::MAX } else { body[1].usize() };
        let log: FLog = FLog::default();
        let mut hots: Vec<(usize, HotSubj)> = vec![];
        let mut next_k = 0usize;
        // outer stream: for merge_all-like APIs the items are the observables themselves; for the
        // *_map APIs the items are indices into a table filled as the outer items are created
        let outer_obs: $subject<$($lf,)? Traced, i64> = <_>::default();
        let outer_idx: $subject<$($lf,)? Val, i64> = <_>::default();
        let table: Arc<Mutex<Vec<Traced>>> = Arc::new(Mutex::new(vec![]));
        let probe = OuterProbe { log: log.clone() };
        let by_map = api == "flat_map" || api == "concat_map";
        // how the case ends the subscription: (u) calls unsubscribe(), (ud) drops a guard obtained
        // from unsubscribe_when_dropped()
        let use_guard = body[2].args().iter().any(|st| st.head() == "ud");
        macro_rules! keep {
          ($sub:expr) => {{
            let sub = $sub;
            if use_guard {
              let g = sub.unsubscribe_when_dropped();
              Box::new(move || drop(g)) as Box<dyn FnOnce()>
            } else {
              Box::new(move || sub.unsubscribe()) as Box<dyn FnOnce()>
            }
          }};
        }
        let mut ender: Option<Box<dyn FnOnce()>> = Some(match api {
          "merge_all" => keep!(outer_obs.clone().$merge_all(limit).actual_subscribe(probe)),
          "concat_all" => keep!(outer_obs.clone().$concat_all().actual_subscribe(probe)),
          "flatten" => keep!(outer_obs.clone().$flatten().actual_subscribe(probe)),
          "flat_map" => {
            let t = table.clone();
            keep!(outer_idx.clone().$flat_map(move |v: Val| t.lock().unwrap()[v.z() as usize].clone()).actual_subscribe(probe))
          }
          "concat_map" => {
            let t = table.clone();
            keep!(outer_idx.clone().$concat_map(move |v: Val| t.lock().unwrap()[v.z() as usize].clone()).actual_subscribe(probe))
          }
          a => panic!("bad flatten api {a}"),
        });
        for (j, st) in body[2].args().iter().enumerate() {
          log.lock().unwrap().push(F::Mark(j));
          let a = st.args();
          match st.head() {
            "o" => match a[0].head() {
              "coldi" | "hoti" => {
                let k = next_k;
                next_k += 1;
                let inner: Obs = if a[0].head() == "coldi" {
                  let mut l = vec![Sexp::Atom("create".into())];
                  l.extend_from_slice(a[0].args());
                  build_src(&Sexp::List(l))
                } else {
                  let id = a[0].args()[0].usize();
                  let s = match hots.iter().find(|(i, _)| *i == id) {
                    Some((_, s)) => s.clone(),
                    None => {
                      let s = HotSubj::default();
                      hots.push((id, s.clone()));
                      s
                    }
                  };
                  s.box_it()
                };
                let traced = Traced { inner, k, log: log.clone() };
                if by_map {
                  table.lock().unwrap().push(traced);
                  outer_idx.clone().next(Val::Z(k as i64));
                } else {
                  outer_obs.clone().next(traced);
                }
              }
              "e" => {
                let e = a[0].args()[0].int();
                if by_map { outer_idx.clone().error(e) } else { outer_obs.clone().error(e) }
              }
              "c" => {
                if by_map { outer_idx.clone().complete() } else { outer_obs.clone().complete() }
              }
              h => panic!("bad outer event {h}"),
            },
            "i" => {
              let id = a[0].usize();
              let e = Ev::parse(&a[1]);
              let s = match hots.iter().find(|(i, _)| *i == id) {
                Some((_, s)) => s.clone(),
                None => {
                  let s = HotSubj::default();
                  hots.push((id, s.clone()));
                  s
                }
              };
              crate::chain::$chain::emit(&s, e);
            }
            "u" | "ud" => {
              if let Some(f) = ender.take() {
                f();
              }
            }
            h => panic!("bad flatten stimulus {h}"),
          }
        }
        let r = show(&log.lock().unwrap());
        // a guard still held is leaked deliberately: dropping it here would unsubscribe
        if let Some(f) = ender.take() {
          std::mem::forget(f);
        }
        r
      }
    }
  };
}

flatten_runner!(local, local, merge_all, concat_all, flatten, flat_map, concat_map, Subject, 'static);
flatten_runner!(threads, threads, merge_all_threads, concat_all_threads, flatten_threads, flat_map_threads, concat_map_threads, SubjectThreads);

pub fn run_flatten(body: &[Sexp]) -> String {
  match body[0].atom() {
    "local" => local::run(&body[1..]),
    "threads" => threads::run(&body[1..]),
    f => panic!("bad flatten form {f}"),
  }
}
