//! Builds real rxRust pipelines from source / operator descriptions, type-erased after
//! every operator with `box_it()`.  One macro body instantiated for the local form
//! (`Subject`, `Subscriber`, `CloneableBoxOp`) and the thread-safe form
//! (`SubjectThreads`, `SubscriberThreads`, `CloneableBoxOpThreads`, `_threads` operators).

pub const AVG_SCALE: f64 = 2520.0;

macro_rules! builders {
  ($m:ident, $obs:ty, $subject:ty, $subscriber:ident, $boxobs:ty,
   $merge:ident, $zip:ident, $combine_latest:ident, $with_latest_from:ident,
   $take_until:ident, $skip_until:ident, $sample:ident, $flat_map:ident, $concat_map:ident) => {
pub mod $m {
use crate::probe::Probe;
use crate::sexp::Sexp;
use crate::val::{Ev, Fn1, Fn2, Val};
use super::AVG_SCALE;
use rxrust::prelude::*;
use std::convert::Infallible;

pub type Obs = $obs;
pub type Subj = $subject;

fn absurd(e: Infallible) -> i64 {
  match e {}
}
/// A basic source (model: `src`, `src_script`).
pub fn build_src(s: &Sexp) -> Obs {
  let a = s.args();
  match s.head() {
    "of" => observable::of(Val::parse(&a[0])).on_error_map(absurd as fn(Infallible) -> i64).box_it(),
    "of_some" => observable::of_option(Some(Val::parse(&a[0]))).on_error_map(absurd as fn(Infallible) -> i64).box_it(),
    "of_none" => observable::of_option(None::<Val>).on_error_map(absurd as fn(Infallible) -> i64).box_it(),
    "of_ok" => observable::of_result(Ok::<Val, i64>(Val::parse(&a[0]))).box_it(),
    "of_err" => observable::of_result(Err::<Val, i64>(a[0].int())).box_it(),
    "of_fn" => {
      let v = Val::parse(&a[0]);
      observable::of_fn(move || v).on_error_map(absurd as fn(Infallible) -> i64).box_it()
    }
    "start" => {
      let v = Val::parse(&a[0]);
      observable::start(move || v).on_error_map(absurd as fn(Infallible) -> i64).box_it()
    }
    "from_iter" => {
      let l: Vec<Val> = a.iter().map(Val::parse).collect();
      observable::from_iter(l).on_error_map(absurd as fn(Infallible) -> i64).box_it()
    }
    "repeat" => observable::repeat(Val::parse(&a[0]), a[1].usize()).on_error_map(absurd as fn(Infallible) -> i64).box_it(),
    "empty" => ObservableExt::<Val, Infallible>::on_error_map(observable::empty(), absurd as fn(Infallible) -> i64).box_it(),
    "never" => observable::never().map(|_: ()| Val::U).on_error_map(absurd as fn(Infallible) -> i64).box_it(),
    "throw" => observable::throw(a[0].int()).map(|_: ()| Val::U).box_it(),
    "create" => {
      let calls: Vec<Ev> = a.iter().map(Ev::parse).collect();
      observable::create(
        move |mut subscriber: $subscriber<$boxobs>| {
          for c in calls {
            match c {
              Ev::Next(v) => subscriber.next(v),
              Ev::Err(e) => subscriber.clone().error(e),
              Ev::Done => subscriber.clone().complete(),
            }
          }
        },
      )
      .box_it()
    }
    h => panic!("bad source {h}"),
  }
}

/// One user-level single-input operator (model: `uop`, `expand`).
pub fn apply_uop(o: Obs, u: &Sexp) -> Obs {
  let a = u.args();
  match u.head() {
    "map" => {
      let f = Fn1::parse(&a[0]);
      o.map(move |v| f.apply(&v)).box_it()
    }
    "map_to" => o.map_to(Val::parse(&a[0])).box_it(),
    "filter" => {
      let f = Fn1::parse(&a[0]);
      o.filter(move |v| f.pred(v)).box_it()
    }
    "filter_map" => {
      let f = Fn1::parse(&a[0]);
      o.filter_map(move |v| f.opt(&v)).box_it()
    }
    "tap" => o.tap(|_| {}).box_it(),
    // intermediates that hand every item on unchanged through a higher-order stage (C16: the back channel
    // has to pass through them); in the model they are identity nodes
    // (merge_all's operator is not Clone: `defer` - which adds no observer of its own - makes the stage cloneable)
    "flat_map_of" => observable::defer(move || {
      o.clone().$flat_map(|v: Val| observable::of(v).on_error_map(absurd as fn(Infallible) -> i64))
    })
    .box_it(),
    "concat_map_of" => observable::defer(move || {
      o.clone().$concat_map(|v: Val| observable::of(v).on_error_map(absurd as fn(Infallible) -> i64))
    })
    .box_it(),
    "group_flat" => {
      let f = Fn1::parse(&a[0]);
      observable::defer(move || {
        let f = f.clone();
        o.clone().group_by::<_, _, $subject>(move |v: &Val| f.apply(v)).$flat_map(|g| g)
      })
      .box_it()
    }
    "on_error_map" => {
      let k = a[0].int();
      o.on_error_map(move |e: i64| e + k).box_it()
    }
    "take" => o.take(a[0].usize()).box_it(),
    "skip" => o.skip(a[0].usize()).box_it(),
    "take_while" => {
      let f = Fn1::parse(&a[0]);
      o.take_while(move |v| f.pred(v)).box_it()
    }
    "take_while_inclusive" => {
      let f = Fn1::parse(&a[0]);
      o.take_while_inclusive(move |v| f.pred(v)).box_it()
    }
    "skip_while" => {
      let f = Fn1::parse(&a[0]);
      o.skip_while(move |v| f.pred(v)).box_it()
    }
    "take_last" => o.take_last(a[0].usize()).box_it(),
    "skip_last" => o.skip_last(a[0].usize()).box_it(),
    "last" => o.last().box_it(),
    "scan" => {
      let f = Fn2::parse(&a[0]);
      o.scan_initial(Val::parse(&a[1]), move |acc, v| f.apply(acc, v)).box_it()
    }
    "scan_default" => {
      let f = Fn2::parse(&a[0]);
      o.scan(move |acc: Val, v| f.apply(acc, v)).box_it()
    }
    "default_if_empty" => o.default_if_empty(Val::parse(&a[0])).box_it(),
    "distinct" => o.distinct().box_it(),
    "distinct_key" => {
      let f = Fn1::parse(&a[0]);
      o.distinct_key(move |v: &Val| f.apply(v)).box_it()
    }
    "distinct_until_changed" => o.distinct_until_changed().box_it(),
    "distinct_until_key_changed" => {
      let f = Fn1::parse(&a[0]);
      o.distinct_until_key_changed(move |v: &Val| f.apply(v)).box_it()
    }
    "pairwise" => o.pairwise().map(|(a, b)| Val::P(Box::new(a), Box::new(b))).box_it(),
    "buffer_with_count" => o.buffer_with_count(a[0].usize()).map(Val::L).box_it(),
    "contains" => o.contains(Val::parse(&a[0])).map(Val::B).box_it(),
    "collect" => o.collect::<Vec<Val>>().map(Val::L).box_it(),
    "start_with" => o.start_with(a.iter().map(Val::parse).collect()).box_it(),
    // compositions defined in observable.rs
    "first" => o.first().box_it(),
    "first_or" => o.first_or(Val::parse(&a[0])).box_it(),
    "last_or" => o.last_or(Val::parse(&a[0])).box_it(),
    "element_at" => o.element_at(a[0].usize()).box_it(),
    "ignore_elements" => o.ignore_elements().box_it(),
    "all" => {
      let f = Fn1::parse(&a[0]);
      o.all(move |v| f.pred(&v)).map(Val::B).box_it()
    }
    "reduce_initial" => {
      let f = Fn2::parse(&a[0]);
      o.reduce_initial(Val::parse(&a[1]), move |acc, v| f.apply(acc, v)).box_it()
    }
    "reduce" => {
      let f = Fn2::parse(&a[0]);
      o.reduce(move |acc: Val, v| f.apply(acc, v)).box_it()
    }
    "count" => o.count().map(|n: usize| Val::Z(n as i64)).box_it(),
    "sum" => o.sum().box_it(),
    "max" => o.max().box_it(),
    "min" => o.min().box_it(),
    "average" => o
      .map(|v: Val| v.z() as f64)
      .average()
      .map(|f: f64| Val::Z((f * AVG_SCALE).round() as i64))
      .box_it(),
    h => panic!("bad operator {h}"),
  }
}

pub fn apply_uops(mut o: Obs, ops: &[Sexp]) -> Obs {
  for u in ops {
    o = apply_uop(o, u);
  }
  o
}

/// (chain SRC (ops U...)) — cold source, subscribed once.
pub fn run_chain(body: &[Sexp]) -> String {
  let src = build_src(&body[0]);
  let obs = apply_uops(src, body[1].args());
  let (probe, log) = Probe::new();
  let _sub = obs.actual_subscribe(probe);
  crate::val::show_trace(&log.take())
}

/// (hotchain (calls EV...) (ops U...)) — a Subject input driven one call at a time,
/// every call issued through a fresh clone of the subject handle.
pub fn run_hotchain(body: &[Sexp]) -> String {
  let calls: Vec<Ev> = body[0].args().iter().map(Ev::parse).collect();
  let subject: Subj = Subj::default();
  let obs = apply_uops(subject.clone().box_it(), body[1].args());
  let (probe, log) = Probe::new();
  let sub = obs.actual_subscribe(probe);
  // optional (cut K u|ud): after K calls the subscription is unsubscribed / its guard dropped
  let cut: Option<(usize, bool)> = body.get(2).map(|c| (c.args()[0].usize(), c.args()[1].atom() == "ud"));
  let mut ender: Option<Box<dyn FnOnce()>> = Some(match cut {
    Some((_, true)) => {
      let g = sub.unsubscribe_when_dropped();
      Box::new(move || drop(g))
    }
    _ => Box::new(move || sub.unsubscribe()),
  });
  for (i, c) in calls.into_iter().enumerate() {
    if let Some((k, _)) = cut {
      if i == k {
        if let Some(f) = ender.take() {
          f();
        }
      }
    }
    match c {
      Ev::Next(v) => subject.clone().next(v),
      Ev::Err(e) => subject.clone().error(e),
      Ev::Done => subject.clone().complete(),
    }
  }
  if let Some(f) = ender.take() {
    std::mem::forget(f);
  }
  crate::val::show_trace(&log.take())
}

/// Two-input combinators (model: `op2`, `step2`).  Results are mapped back into `Val`.
pub fn apply_op2(name: &Sexp, a: Obs, b: Obs) -> Obs {
  match name.head() {
    "merge" => a.$merge(b).box_it(),
    "zip" => a.$zip(b).map(|(x, y)| Val::P(Box::new(x), Box::new(y))).box_it(),
    "combine_latest" => {
      let f = Fn2::parse(&name.args()[0]);
      // the crate only accepts binary operators returning the pair type (see the impl bounds)
      a.$combine_latest(b, move |x: Val, y: Val| (f.apply(x, y.clone()), y))
        .map(|(x, y)| Val::P(Box::new(x), Box::new(y)))
        .box_it()
    }
    "with_latest_from" => a.$with_latest_from(b).map(|(x, y)| Val::P(Box::new(x), Box::new(y))).box_it(),
    "take_until" => a.$take_until(b).box_it(),
    "skip_until" => a.$skip_until(b).box_it(),
    "sample" => a.$sample(b).box_it(),
    "buffer" => a.buffer(b.map(|_| ())).map(Val::L).box_it(),
    h => panic!("bad op2 {h}"),
  }
}

pub fn emit(subject: &Subj, e: Ev) {
  match e {
    Ev::Next(v) => subject.clone().next(v),
    Ev::Err(x) => subject.clone().error(x),
    Ev::Done => subject.clone().complete(),
  }
}

fn cold(script: &[Sexp]) -> Obs {
  let mut l = vec![Sexp::Atom("create".into())];
  l.extend_from_slice(script);
  build_src(&Sexp::List(l))
}

/// (op2 OP (ina KIND EV...) (inb KIND EV...) (tl (a EV) (b EV) ...)) where KIND is hot or cold.
/// Hot inputs are Subjects driven by the timeline; a cold input emits its script at subscription.
pub fn run_op2(body: &[Sexp]) -> String {
  let sa: Subj = Subj::default();
  let sb: Subj = Subj::default();
  let ina = &body[1];
  let inb = &body[2];
  let a: Obs = if ina.args()[0].atom() == "hot" { sa.clone().box_it() } else { cold(&ina.args()[1..]) };
  let b: Obs = if inb.args()[0].atom() == "hot" { sb.clone().box_it() } else { cold(&inb.args()[1..]) };
  let obs = apply_op2(&body[0], a, b);
  let (probe, log) = Probe::new();
  let sub = obs.actual_subscribe(probe);
  let use_guard = body[3].args().iter().any(|st| st.head() == "ud");
  let mut ender: Option<Box<dyn FnOnce()>> = Some(if use_guard {
    let g = sub.unsubscribe_when_dropped();
    Box::new(move || drop(g))
  } else {
    Box::new(move || sub.unsubscribe())
  });
  for st in body[3].args() {
    match st.head() {
      "a" => emit(&sa, Ev::parse(&st.args()[0])),
      "b" => emit(&sb, Ev::parse(&st.args()[0])),
      "u" | "ud" => {
        if let Some(f) = ender.take() {
          f();
        }
      }
      h => panic!("bad side {h}"),
    }
  }
  if let Some(f) = ender.take() {
    std::mem::forget(f);
  }
  crate::val::show_trace(&log.take())
}
} // mod
}; // macro arm
}

builders!(local, rxrust::ops::box_it::CloneableBoxOp<'static, Val, i64>, Subject<'static, Val, i64>,
  Subscriber, rxrust::observer::BoxObserver<'static, Val, i64>,
  merge, zip, combine_latest, with_latest_from, take_until, skip_until, sample, flat_map, concat_map);
builders!(threads, rxrust::ops::box_it::CloneableBoxOpThreads<Val, i64>, SubjectThreads<Val, i64>,
  SubscriberThreads, rxrust::observer::BoxObserverThreads<Val, i64>,
  merge_threads, zip_threads, combine_latest_threads, with_latest_from_threads, take_until_threads,
  skip_until_threads, sample_threads, flat_map_threads, concat_map_threads);
