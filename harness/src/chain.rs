//! Builds real rxRust pipelines from source / operator descriptions (local form),
//! type-erased after every operator with `box_it()`.
use crate::probe::Probe;
use crate::sexp::Sexp;
use crate::val::{Ev, Fn1, Fn2, Val};
use rxrust::ops::box_it::CloneableBoxOp;
use rxrust::prelude::*;
use std::convert::Infallible;

pub type Obs = CloneableBoxOp<'static, Val, i64>;

fn lift<S>(s: S) -> Obs
where
  S: Observable<Val, Infallible, rxrust::ops::on_error_map::OnErrorMapObserver<rxrust::observer::BoxObserver<'static, Val, i64>, fn(Infallible) -> i64>>
    + ObservableExt<Val, Infallible>
    + Clone
    + 'static,
  S::Unsub: 'static,
{
  fn absurd(e: Infallible) -> i64 {
    match e {}
  }
  s.on_error_map(absurd as fn(Infallible) -> i64).box_it()
}

pub const AVG_SCALE: f64 = 2520.0;

/// A basic source (model: `src`, `src_script`).
pub fn build_src(s: &Sexp) -> Obs {
  let a = s.args();
  match s.head() {
    "of" => lift(observable::of(Val::parse(&a[0]))),
    "of_some" => lift(observable::of_option(Some(Val::parse(&a[0])))),
    "of_none" => lift(observable::of_option(None::<Val>)),
    "of_ok" => observable::of_result(Ok::<Val, i64>(Val::parse(&a[0]))).box_it(),
    "of_err" => observable::of_result(Err::<Val, i64>(a[0].int())).box_it(),
    "of_fn" => {
      let v = Val::parse(&a[0]);
      lift(observable::of_fn(move || v))
    }
    "start" => {
      let v = Val::parse(&a[0]);
      lift(observable::start(move || v))
    }
    "from_iter" => {
      let l: Vec<Val> = a.iter().map(Val::parse).collect();
      lift(observable::from_iter(l))
    }
    "repeat" => lift(observable::repeat(Val::parse(&a[0]), a[1].usize())),
    "empty" => lift(observable::empty()),
    "never" => lift(observable::never().map(|_: ()| Val::U)),
    "throw" => observable::throw(a[0].int()).map(|_: ()| Val::U).box_it(),
    "create" => {
      let calls: Vec<Ev> = a.iter().map(Ev::parse).collect();
      observable::create(
        move |mut subscriber: Subscriber<rxrust::observer::BoxObserver<'static, Val, i64>>| {
          for c in calls {
            match c {
              Ev::Next(v) => subscriber.next(v),
              Ev::Err(e) => subscriber.clone().error(e),
              Ev::Done => subscriber.clone().complete(),
            }
          }
        },
      )
      .box_it()
    }
    h => panic!("bad source {h}"),
  }
}

/// One user-level single-input operator (model: `uop`, `expand`).
pub fn apply_uop(o: Obs, u: &Sexp) -> Obs {
  let a = u.args();
  match u.head() {
    "map" => {
      let f = Fn1::parse(&a[0]);
      o.map(move |v| f.apply(&v)).box_it()
    }
    "map_to" => o.map_to(Val::parse(&a[0])).box_it(),
    "filter" => {
      let f = Fn1::parse(&a[0]);
      o.filter(move |v| f.pred(v)).box_it()
    }
    "filter_map" => {
      let f = Fn1::parse(&a[0]);
      o.filter_map(move |v| f.opt(&v)).box_it()
    }
    "tap" => o.tap(|_| {}).box_it(),
    "on_error_map" => {
      let k = a[0].int();
      o.on_error_map(move |e: i64| e + k).box_it()
    }
    "take" => o.take(a[0].usize()).box_it(),
    "skip" => o.skip(a[0].usize()).box_it(),
    "take_while" => {
      let f = Fn1::parse(&a[0]);
      o.take_while(move |v| f.pred(v)).box_it()
    }
    "take_while_inclusive" => {
      let f = Fn1::parse(&a[0]);
      o.take_while_inclusive(move |v| f.pred(v)).box_it()
    }
    "skip_while" => {
      let f = Fn1::parse(&a[0]);
      o.skip_while(move |v| f.pred(v)).box_it()
    }
    "take_last" => o.take_last(a[0].usize()).box_it(),
    "skip_last" => o.skip_last(a[0].usize()).box_it(),
    "last" => o.last().box_it(),
    "scan" => {
      let f = Fn2::parse(&a[0]);
      o.scan_initial(Val::parse(&a[1]), move |acc, v| f.apply(acc, v)).box_it()
    }
    "scan_default" => {
      let f = Fn2::parse(&a[0]);
      o.scan(move |acc: Val, v| f.apply(acc, v)).box_it()
    }
    "default_if_empty" => o.default_if_empty(Val::parse(&a[0])).box_it(),
    "distinct" => o.distinct().box_it(),
    "distinct_key" => {
      let f = Fn1::parse(&a[0]);
      o.distinct_key(move |v: &Val| f.apply(v)).box_it()
    }
    "distinct_until_changed" => o.distinct_until_changed().box_it(),
    "distinct_until_key_changed" => {
      let f = Fn1::parse(&a[0]);
      o.distinct_until_key_changed(move |v: &Val| f.apply(v)).box_it()
    }
    "pairwise" => o.pairwise().map(|(a, b)| Val::P(Box::new(a), Box::new(b))).box_it(),
    "buffer_with_count" => o.buffer_with_count(a[0].usize()).map(Val::L).box_it(),
    "contains" => o.contains(Val::parse(&a[0])).map(Val::B).box_it(),
    "collect" => o.collect::<Vec<Val>>().map(Val::L).box_it(),
    "start_with" => o.start_with(a.iter().map(Val::parse).collect()).box_it(),
    // compositions defined in observable.rs
    "first" => o.first().box_it(),
    "first_or" => o.first_or(Val::parse(&a[0])).box_it(),
    "last_or" => o.last_or(Val::parse(&a[0])).box_it(),
    "element_at" => o.element_at(a[0].usize()).box_it(),
    "ignore_elements" => o.ignore_elements().box_it(),
    "all" => {
      let f = Fn1::parse(&a[0]);
      o.all(move |v| f.pred(&v)).map(Val::B).box_it()
    }
    "reduce_initial" => {
      let f = Fn2::parse(&a[0]);
      o.reduce_initial(Val::parse(&a[1]), move |acc, v| f.apply(acc, v)).box_it()
    }
    "reduce" => {
      let f = Fn2::parse(&a[0]);
      o.reduce(move |acc: Val, v| f.apply(acc, v)).box_it()
    }
    "count" => o.count().map(|n: usize| Val::Z(n as i64)).box_it(),
    "sum" => o.sum().box_it(),
    "max" => o.max().box_it(),
    "min" => o.min().box_it(),
    "average" => o
      .map(|v: Val| v.z() as f64)
      .average()
      .map(|f: f64| Val::Z((f * AVG_SCALE).round() as i64))
      .box_it(),
    h => panic!("bad operator {h}"),
  }
}

pub fn apply_uops(mut o: Obs, ops: &[Sexp]) -> Obs {
  for u in ops {
    o = apply_uop(o, u);
  }
  o
}

/// (chain SRC (ops U...)) — cold source, subscribed once.
pub fn run_chain(body: &[Sexp]) -> String {
  let src = build_src(&body[0]);
  let obs = apply_uops(src, body[1].args());
  let (probe, log) = Probe::new();
  let _sub = obs.actual_subscribe(probe);
  crate::val::show_trace(&log.take())
}

/// (hotchain (calls EV...) (ops U...)) — a Subject input driven one call at a time,
/// every call issued through a fresh clone of the subject handle.
pub fn run_hotchain(body: &[Sexp]) -> String {
  let calls: Vec<Ev> = body[0].args().iter().map(Ev::parse).collect();
  let subject: Subject<'static, Val, i64> = Subject::default();
  let obs = apply_uops(subject.clone().box_it(), body[1].args());
  let (probe, log) = Probe::new();
  let _sub = obs.actual_subscribe(probe);
  for c in calls {
    match c {
      Ev::Next(v) => subject.clone().next(v),
      Ev::Err(e) => subject.clone().error(e),
      Ev::Done => subject.clone().complete(),
    }
  }
  crate::val::show_trace(&log.take())
}
