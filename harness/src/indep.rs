//! Laziness and independence of cold pipelines (model: `Indep.v`): closures of sources and of the
//! first operator count their calls; clones of one pipeline value are subscribed one after the
//! other, or the second from inside a callback of the first.
use crate::sexp::Sexp;
use crate::val::{Ev, Val};
use rxrust::prelude::*;
use std::convert::Infallible;
use std::sync::atomic::{AtomicUsize, Ordering};
use std::sync::{Arc, Mutex};

type Log = Arc<Mutex<Vec<Ev>>>;

#[derive(Clone)]
struct CountIter {
  i: i64,
  n: i64,
  pulls: Arc<AtomicUsize>,
}

impl Iterator for CountIter {
  type Item = Val;
  fn next(&mut self) -> Option<Val> {
    if self.i < self.n {
      self.pulls.fetch_add(1, Ordering::SeqCst);
      self.i += 1;
      Some(Val::Z(self.i - 1))
    } else {
      None
    }
  }
}

/// a collection whose `into_iter()` is user code with an effect of its own (counted like a closure call)
#[derive(Clone)]
struct CountColl {
  n: i64,
  calls: Arc<AtomicUsize>,
}

impl IntoIterator for CountColl {
  type Item = Val;
  type IntoIter = CountIter;
  fn into_iter(self) -> CountIter {
    self.calls.fetch_add(1, Ordering::SeqCst);
    CountIter { i: 0, n: self.n, pulls: self.calls }
  }
}

fn absurd(e: Infallible) -> i64 {
  match e {}
}

macro_rules! indep_runner {
  ($m:ident, $chain:ident, $subscriber:ident, $boxobs:ty) => {
    mod $m {
      use super::*;
      use crate::chain::$chain::{apply_uops, Obs};

      /// the recording subscriber; on its K-th item it subscribes a clone of the pipeline
      struct NProbe {
        log: Log,
        seen: usize,
        nest: Option<(usize, Obs, Log)>,
      }

      impl Observer<Val, i64> for NProbe {
        fn next(&mut self, v: Val) {
          self.log.lock().unwrap().push(Ev::Next(v));
          self.seen += 1;
          if self.nest.as_ref().map_or(false, |(k, _, _)| *k == self.seen) {
            let (_, obs, log) = self.nest.take().unwrap();
            let _ = obs.actual_subscribe(NProbe { log, seen: 0, nest: None });
          }
        }
        fn error(self, e: i64) {
          self.log.lock().unwrap().push(Ev::Err(e));
        }
        fn complete(self) {
          self.log.lock().unwrap().push(Ev::Done);
        }
        fn is_finished(&self) -> bool {
          false
        }
      }

      fn source(s: &Sexp, calls: &Arc<AtomicUsize>) -> Obs {
        let a = s.args();
        let c = calls.clone();
        match s.head() {
          "of_fn" => {
            let v = Val::parse(&a[0]);
            observable::of_fn(move || {
              c.fetch_add(1, Ordering::SeqCst);
              v
            })
            .on_error_map(absurd as fn(Infallible) -> i64)
            .box_it()
          }
          "start" => {
            let v = Val::parse(&a[0]);
            observable::start(move || {
              c.fetch_add(1, Ordering::SeqCst);
              v
            })
            .on_error_map(absurd as fn(Infallible) -> i64)
            .box_it()
          }
          "defer" => {
            let inner = source(&a[0], calls);
            observable::defer(move || {
              c.fetch_add(1, Ordering::SeqCst);
              inner
            })
            .box_it()
          }
          "create" => {
            let evs: Vec<Ev> = a.iter().map(Ev::parse).collect();
            observable::create(move |mut s: $subscriber<$boxobs>| {
              c.fetch_add(1, Ordering::SeqCst);
              for e in evs {
                match e {
                  Ev::Next(v) => s.next(v),
                  Ev::Err(x) => s.clone().error(x),
                  Ev::Done => s.clone().complete(),
                }
              }
            })
            .box_it()
          }
          "iter" => {
            let it = CountIter { i: 0, n: a[0].int(), pulls: c };
            observable::from_iter(it).on_error_map(absurd as fn(Infallible) -> i64).box_it()
          }
          "coll" => {
            let coll = CountColl { n: a[0].int(), calls: c };
            observable::from_iter(coll).on_error_map(absurd as fn(Infallible) -> i64).box_it()
          }
          h => panic!("bad lazy source {h}"),
        }
      }

      pub fn run(body: &[Sexp]) -> String {
        let calls = Arc::new(AtomicUsize::new(0));
        let mapped = Arc::new(AtomicUsize::new(0));
        let src = source(&body[0], &calls);
        let m = mapped.clone();
        let counted: Obs = src
          .map(move |v: Val| {
            m.fetch_add(1, Ordering::SeqCst);
            v
          })
          .box_it();
        let obs = apply_uops(counted, body[1].args());
        let built = calls.load(Ordering::SeqCst) + mapped.load(Ordering::SeqCst);
        let mode = &body[2];
        let mut logs: Vec<Log> = vec![];
        match mode.head() {
          "seq" => {
            for _ in 0..mode.args()[0].usize() {
              let log = Log::default();
              logs.push(log.clone());
              let _ = obs.clone().actual_subscribe(NProbe { log, seen: 0, nest: None });
            }
          }
          "nested" => {
            let (outer, inner) = (Log::default(), Log::default());
            logs.push(outer.clone());
            logs.push(inner.clone());
            let k = mode.args()[0].usize();
            let _ = obs.clone().actual_subscribe(NProbe { log: outer, seen: 0, nest: Some((k, obs.clone(), inner)) });
          }
          h => panic!("bad mode {h}"),
        }
        let mut s = format!("built={built}");
        for l in &logs {
          s.push_str(" | ");
          s.push_str(&crate::val::show_trace(&l.lock().unwrap()));
        }
        s.push_str(&format!(" | src={} map={}", calls.load(Ordering::SeqCst), mapped.load(Ordering::SeqCst)));
        s
      }
    }
  };
}

indep_runner!(local, local, Subscriber, rxrust::observer::BoxObserver<'static, Val, i64>);
indep_runner!(threads, threads, SubscriberThreads, rxrust::observer::BoxObserverThreads<Val, i64>);

/// (indep FORM SRC (ops U...) (seq K)|(nested K))
pub fn run_indep(body: &[Sexp]) -> String {
  match body[0].atom() {
    "local" => local::run(&body[1..]),
    "threads" => threads::run(&body[1..]),
    f => panic!("bad indep form {f}"),
  }
}
