//! Producers that must stop when the stream behind them has ended early (model: `Fin.v`):
//! a counting iterator behind from_iter, a scripted stream behind from_stream, an interval —
//! in main-input position or as one input of a two-input operator, in front of a chain.
use crate::probe::Probe;
use crate::sexp::Sexp;
use crate::val::{Ev, Val};
use futures::Stream;
use rxrust::prelude::*;
use rxrust::scheduler::verif_hook::{SpawnedTask, VerifScheduler, SPAWNED};
use std::convert::Infallible;
use std::pin::Pin;
use std::sync::atomic::{AtomicUsize, Ordering};
use std::sync::Arc;
use std::task::{Context, Poll};
use std::time::Duration;

#[derive(Clone)]
struct CountIter {
  i: i64,
  n: i64,
  pulls: Arc<AtomicUsize>,
}

impl Iterator for CountIter {
  type Item = Val;
  fn next(&mut self) -> Option<Val> {
    if self.i < self.n {
      self.pulls.fetch_add(1, Ordering::SeqCst);
      self.i += 1;
      Some(Val::Z(self.i - 1))
    } else {
      None
    }
  }
}

/// Yields the items of batch k, then Pending (or the end of the stream when the batch says so).
#[derive(Clone)]
struct ScriptStream {
  batches: Vec<(Vec<Val>, bool)>,
  cur: usize,
  idx: usize,
  pulls: Arc<AtomicUsize>,
}

impl Stream for ScriptStream {
  type Item = Val;
  fn poll_next(mut self: Pin<&mut Self>, _: &mut Context<'_>) -> Poll<Option<Val>> {
    if self.cur >= self.batches.len() {
      return Poll::Pending;
    }
    let (len, ended) = (self.batches[self.cur].0.len(), self.batches[self.cur].1);
    if self.idx < len {
      let v = self.batches[self.cur].0[self.idx].clone();
      self.idx += 1;
      self.pulls.fetch_add(1, Ordering::SeqCst);
      Poll::Ready(Some(v))
    } else if ended {
      Poll::Ready(None)
    } else {
      self.cur += 1;
      self.idx = 0;
      Poll::Pending
    }
  }
}

fn absurd(e: Infallible) -> i64 {
  match e {}
}

fn collect(tasks: &mut Vec<Option<SpawnedTask>>) {
  SPAWNED.with(|q| {
    for t in q.borrow_mut().drain(..) {
      tasks.push(Some(t));
    }
  })
}

/// polls every live task once; returns how many are still alive
fn poll_all(tasks: &mut Vec<Option<SpawnedTask>>) -> usize {
  let waker = futures::task::noop_waker();
  let n = tasks.len();
  for i in 0..n {
    if let Some(f) = tasks[i].as_mut() {
      let mut cx = Context::from_waker(&waker);
      if f.as_mut().poll(&mut cx).is_ready() {
        tasks[i] = None;
      }
    }
  }
  collect(tasks);
  tasks.iter().filter(|t| t.is_some()).count()
}

macro_rules! retire_runner {
  ($m:ident, $chain:ident) => {
    mod $m {
      use super::*;
      use crate::chain::$chain::{apply_op2, apply_uops, build_src, emit, Obs, Subj};

      fn cold(script: &[Sexp]) -> Obs {
        let mut l = vec![Sexp::Atom("create".into())];
        l.extend_from_slice(script);
        build_src(&Sexp::List(l))
      }

      /// places the producer at its position; returns the pipeline and the other (hot) input if any
      fn place(prod: Obs, pos: &Sexp) -> (Obs, Option<Subj>) {
        match pos {
          Sexp::Atom(a) if a == "main" => (prod, None),
          _ => {
            let a = pos.args();
            let op = &a[0];
            let (other, subj): (Obs, Option<Subj>) = match &a[1] {
              Sexp::Atom(h) if h == "hot" => {
                let s: Subj = Subj::default();
                (s.clone().box_it(), Some(s))
              }
              c => (cold(c.args()), None),
            };
            match pos.head() {
              "b" => (apply_op2(op, other, prod), subj),
              "a" => (apply_op2(op, prod, other), subj),
              h => panic!("bad position {h}"),
            }
          }
        }
      }

      pub fn run(body: &[Sexp]) -> String {
        crate::timed::install_timer();
        crate::timed::reset_clock();
        SPAWNED.with(|q| q.borrow_mut().clear());
        let prod = &body[0];
        let pos = &body[1];
        let ops = body[2].args();
        let pulls = Arc::new(AtomicUsize::new(0));
        let (probe, log) = Probe::new();
        match prod.head() {
          "iter" => {
            let it = CountIter { i: 0, n: prod.args()[0].int(), pulls: pulls.clone() };
            let p: Obs = observable::from_iter(it).on_error_map(absurd as fn(Infallible) -> i64).box_it();
            // an optional chain between the iterator and its input of the two-input operator: (pre U...)
            let p = match body.iter().find(|x| matches!(x, Sexp::List(l) if !l.is_empty() && matches!(&l[0], Sexp::Atom(a) if a == "pre"))) {
              Some(pre) => apply_uops(p, pre.args()),
              None => p,
            };
            let (obs, _) = place(p, pos);
            let _sub = apply_uops(obs, ops).actual_subscribe(probe);
            format!("pulls={} {}", pulls.load(Ordering::SeqCst), crate::val::show_trace(&log.take()))
          }
          "stream" => {
            let batches: Vec<(Vec<Val>, bool)> = prod
              .args()
              .iter()
              .map(|b| {
                let ended = b.args().iter().any(|x| matches!(x, Sexp::Atom(a) if a == "end"));
                (b.args().iter().filter(|x| !matches!(x, Sexp::Atom(a) if a == "end")).map(Val::parse).collect(), ended)
              })
              .collect();
            let npolls = batches.len();
            let st = ScriptStream { batches, cur: 0, idx: 0, pulls: pulls.clone() };
            let p: Obs = observable::from_stream(st, VerifScheduler).on_error_map(absurd as fn(Infallible) -> i64).box_it();
            let (obs, _) = place(p, pos);
            let _sub = apply_uops(obs, ops).actual_subscribe(probe);
            let mut tasks: Vec<Option<SpawnedTask>> = vec![];
            collect(&mut tasks);
            let mut live = tasks.len();
            for _ in 0..npolls {
              if live == 0 {
                break;
              }
              live = poll_all(&mut tasks);
            }
            format!(
              "pulls={} fin={} {}",
              pulls.load(Ordering::SeqCst),
              if live == 0 { "#t" } else { "#f" },
              crate::val::show_trace(&log.take())
            )
          }
          "interval" => {
            let p: Obs = observable::interval(Duration::from_millis(10), VerifScheduler)
              .map(|n: usize| Val::Z(n as i64))
              .on_error_map(absurd as fn(Infallible) -> i64)
              .box_it();
            let (obs, other) = place(p, pos);
            let _sub = apply_uops(obs, ops).actual_subscribe(probe);
            let mut tasks: Vec<Option<SpawnedTask>> = vec![];
            collect(&mut tasks);
            let mut live = tasks.iter().filter(|t| t.is_some()).count();
            for st in body[3].args() {
              match st {
                Sexp::Atom(a) if a == "tick" => {
                  crate::timed::advance_ms(10);
                  live = poll_all(&mut tasks);
                }
                _ => {
                  if let Some(s) = other.as_ref() {
                    emit(s, Ev::parse(&st.args()[0]));
                  }
                }
              }
            }
            format!("live={} {}", if live > 0 { "#t" } else { "#f" }, crate::val::show_trace(&log.take()))
          }
          h => panic!("bad producer {h}"),
        }
      }
    }
  };
}

retire_runner!(local, local);
retire_runner!(threads, threads);

/// (retire FORM PRODUCER POSITION (ops U...) [(stims ...)])
pub fn run_retire(body: &[Sexp]) -> String {
  match body[0].atom() {
    "local" => local::run(&body[1..]),
    "threads" => threads::run(&body[1..]),
    f => panic!("bad retire form {f}"),
  }
}
