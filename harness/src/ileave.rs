//! Real threads against SubjectThreads / BehaviorSubject over SubjectThreads under an explicit
//! schedule (model: `Ileave.v`).  Exactly one thread runs at a time; a thread parks at every
//! gate — right before it locks a MutArc (the crate's lock_gate hook) and at the yield point in
//! the probes' callbacks — until the schedule picks it and the mutex is free.  One pick = lock
//! and run on to the next gate.  Picking a blocked or finished thread does nothing.
use crate::sexp::Sexp;
use rxrust::prelude::*;
use rxrust::scheduler::verif_hook::LOCK_GATE;
use std::cell::RefCell;
use std::collections::HashMap;
use std::panic::{catch_unwind, AssertUnwindSafe};
use std::sync::atomic::{AtomicBool, Ordering};
use std::sync::{Arc, Condvar, Mutex};
use std::time::Duration;

type Subj = SubjectThreads<i64, i64>;
type Beh = BehaviorSubject<i64, Subj>;

#[derive(Clone, Copy, PartialEq, Debug)]
enum Reply {
  Parked,
  Blocked,
  Done,
}

struct St {
  turn: Option<usize>,
  reply: Option<Reply>,
  trace: Vec<String>,
  names: HashMap<usize, usize>,
}

struct Ctl {
  m: Mutex<St>,
  cv: Condvar,
  /// whether lock acquisitions go into the trace (the subject cases compare them with the model)
  record_acq: bool,
}

thread_local! {
  /// (controller, thread number, index of the operation in progress, has the thread passed its first gate?)
  static ME: RefCell<Option<(Arc<Ctl>, usize, usize, bool)>> = RefCell::new(None);
}

impl Ctl {
  fn wait_turn(&self, tid: usize) {
    let mut st = self.m.lock().unwrap();
    while st.turn != Some(tid) {
      st = self.cv.wait(st).unwrap();
    }
  }
  fn reply(&self, r: Reply) {
    let mut st = self.m.lock().unwrap();
    st.turn = None;
    st.reply = Some(r);
    self.cv.notify_all();
  }
  fn log(&self, s: String) {
    self.m.lock().unwrap().trace.push(s);
  }
}

/// A gate of the current thread: `lock` = the mutex about to be locked (None: a yield point).
pub(crate) fn gate(lock: Option<(usize, &dyn Fn() -> bool)>) {
  let me = ME.with(|m| m.borrow().as_ref().map(|x| (x.0.clone(), x.1, x.3)));
  let Some((ctl, tid, started)) = me else { return };
  if started {
    // the previous move ends here
    ctl.reply(Reply::Parked);
    ctl.wait_turn(tid);
  } else {
    ME.with(|m| m.borrow_mut().as_mut().unwrap().3 = true);
  }
  if let Some((addr, free)) = lock {
    while !free() {
      ctl.reply(Reply::Blocked);
      ctl.wait_turn(tid);
    }
    let mut st = ctl.m.lock().unwrap();
    let n = st.names.len();
    let name = *st.names.entry(addr).or_insert(n);
    if ctl.record_acq {
      st.trace.push(format!("(a {tid} {name})"));
    }
  }
}

pub(crate) fn cur() -> (usize, usize) {
  ME.with(|m| m.borrow().as_ref().map(|x| (x.1, x.2)).unwrap_or((9, 0)))
}

pub(crate) fn log(s: String) {
  if let Some(ctl) = ME.with(|m| m.borrow().as_ref().map(|x| x.0.clone())) {
    ctl.log(s);
  }
}

#[derive(Clone)]
struct IProbe {
  k: usize,
  busy: Arc<AtomicBool>,
}

impl IProbe {
  fn call(&self, what: String) {
    if self.busy.swap(true, Ordering::SeqCst) {
      log(format!("(ov {})", self.k));
    }
    gate(None);
    let (t, j) = cur();
    log(format!("(v {} {} {} {})", self.k, what, t, j));
    self.busy.store(false, Ordering::SeqCst);
  }
}

impl Observer<i64, i64> for IProbe {
  fn next(&mut self, v: i64) {
    self.call(format!("(n {v})"));
  }
  fn error(self, e: i64) {
    self.call(format!("(e {e})"));
  }
  fn complete(self) {
    self.call("c".into());
  }
  fn is_finished(&self) -> bool {
    false
  }
}

type Handles = Arc<Mutex<HashMap<usize, SubscriberThreads<IProbe>>>>;

fn run_op(op: &Sexp, subj: &Subj, beh: &Beh, handles: &Handles) {
  let a = op.args();
  match op.head() {
    "n" => subj.clone().next(a[0].int()),
    "c" => subj.clone().complete(),
    "e" => subj.clone().error(a[0].int()),
    "bc" => beh.clone().complete(),
    "be" => beh.clone().error(a[0].int()),
    "sub" => {
      let k = a[0].usize();
      let h = subj.clone().actual_subscribe(IProbe { k, busy: Arc::default() });
      handles.lock().unwrap().insert(k, h);
    }
    "bsub" => {
      let k = a[0].usize();
      let h = beh.clone().actual_subscribe(IProbe { k, busy: Arc::default() });
      handles.lock().unwrap().insert(k, h);
    }
    "unsub" => {
      let k = a[0].usize();
      let h = handles.lock().unwrap().remove(&k);
      match h {
        Some(h) => h.unsubscribe(),
        None => gate(None),
      }
      let (t, j) = cur();
      log(format!("(u {k} {t} {j})"));
    }
    "bn" => beh.clone().next(a[0].int()),
    "sunsub" => subj.clone().unsubscribe(),
    "bsunsub" => beh.clone().unsubscribe(),
    "peek" => {
      let x = beh.peek();
      let (t, j) = cur();
      log(format!("(pk {x} {t} {j})"));
    }
    o => panic!("bad ileave op {o}"),
  }
}

/// (ileave V0 (setup OP...) (threads (OP...) ...) (sched T...)): the operations n / c / e / sub act on a
/// SubjectThreads, bn / bc / be / bsub / peek on a BehaviorSubject over its own SubjectThreads
pub fn run_ileave(body: &[Sexp]) -> String {
  let v0 = body[0].int();
  let beh: Beh = BehaviorSubject::new(v0);
  let subj: Subj = Subj::default();
  let handles: Handles = Arc::default();
  for op in body[1].args() {
    run_op(op, &subj, &beh, &handles);
  }
  let scripts: Vec<Vec<Sexp>> = body[2].args().iter().map(|s| s.list().to_vec()).collect();
  let sched: Vec<usize> = body[3].args().iter().map(|s| s.usize()).collect();
  let (s2, b2, h2) = (subj.clone(), beh.clone(), handles.clone());
  let (mut trace, end) = run_threads(scripts, sched, move |op| run_op(op, &s2, &b2, &h2), true);
  if end == "fin" {
    trace.push_str(&format!(" (val {})", beh.peek()));
  } else {
    // parked threads are left behind (they hold crate mutexes): leak what they share
    std::mem::forget(subj);
    std::mem::forget(beh);
    std::mem::forget(handles);
  }
  format!("{trace} {end}")
}

/// Runs the scripts on one thread each under the schedule; `op` performs one operation.  Returns the
/// trace and how it ended: fin / deadlock / short / hang.
pub(crate) fn run_threads<F>(scripts: Vec<Vec<Sexp>>, sched: Vec<usize>, op: F, record_acq: bool) -> (String, &'static str)
where
  F: Fn(&Sexp) + Send + Sync + 'static,
{
  let op = Arc::new(op);
  let n = scripts.len();
  let ctl = Arc::new(Ctl {
    m: Mutex::new(St { turn: None, reply: None, trace: vec![], names: HashMap::new() }),
    cv: Condvar::new(),
    record_acq,
  });
  let mut joins = vec![];
  for (tid, script) in scripts.into_iter().enumerate() {
    let (ctl, op) = (ctl.clone(), op.clone());
    joins.push(std::thread::spawn(move || {
      ME.with(|m| *m.borrow_mut() = Some((ctl.clone(), tid, 0, false)));
      LOCK_GATE.with(|g| {
        *g.borrow_mut() = Some(Box::new(|addr: usize, free: &dyn Fn() -> bool| gate(Some((addr, free)))))
      });
      ctl.wait_turn(tid);
      let r = catch_unwind(AssertUnwindSafe(|| {
        for (j, op_sexp) in script.iter().enumerate() {
          ME.with(|m| m.borrow_mut().as_mut().unwrap().2 = j);
          op(op_sexp);
        }
      }));
      if r.is_err() {
        ctl.log(format!("(panic {tid})"));
      }
      LOCK_GATE.with(|g| *g.borrow_mut() = None);
      ME.with(|m| *m.borrow_mut() = None);
      ctl.reply(Reply::Done);
    }));
  }
  let mut done = vec![false; n];
  // blocked[t]: t answered Blocked and nobody has moved since
  let mut blocked = vec![false; n];
  let mut hang = false;
  let pick = |t: usize, done: &mut Vec<bool>, blocked: &mut Vec<bool>| -> bool {
    if t >= n || done[t] {
      return true;
    }
    let mut st = ctl.m.lock().unwrap();
    st.reply = None;
    st.turn = Some(t);
    ctl.cv.notify_all();
    loop {
      let (g, to) = ctl.cv.wait_timeout(st, Duration::from_secs(10)).unwrap();
      st = g;
      if let Some(r) = st.reply.take() {
        match r {
          Reply::Blocked => blocked[t] = true,
          Reply::Parked => blocked.iter_mut().for_each(|b| *b = false),
          Reply::Done => {
            done[t] = true;
            blocked.iter_mut().for_each(|b| *b = false);
          }
        }
        return true;
      }
      if to.timed_out() {
        return false;
      }
    }
  };
  for &t in &sched {
    if !pick(t, &mut done, &mut blocked) {
      hang = true;
      break;
    }
  }
  // how it ends: everybody done, or nobody can move, or the schedule was too short
  let mut end = "short";
  if hang {
    end = "hang";
  } else if done.iter().all(|d| *d) {
    end = "fin";
  } else {
    // probe every unfinished thread once: all blocked = deadlock
    let mut all_blocked = true;
    for t in 0..n {
      if !done[t] && !blocked[t] {
        all_blocked = false;
      }
    }
    if all_blocked {
      end = "deadlock";
    }
  }
  let trace = ctl.m.lock().unwrap().trace.join(" ");
  if end == "fin" {
    for j in joins {
      let _ = j.join();
    }
  } else {
    std::mem::forget(joins);
  }
  (trace, end)
}
