//! share / publish over a counted source with a tap upstream (model: `Share.v`).
//! Observations, in one log: (sub) the source is subscribed; (tap v) an item passes the upstream
//! tap; (d I EV) subscriber I is delivered EV; (rb B) an is_closed answer.
use crate::sexp::Sexp;
use crate::val::{Ev, Val};
use rxrust::prelude::*;
use std::sync::{Arc, Mutex};

type Log = Arc<Mutex<Vec<String>>>;

struct SProbe {
  id: usize,
  log: Log,
}

impl Observer<Val, i64> for SProbe {
  fn next(&mut self, v: Val) {
    let mut s = String::new();
    Ev::Next(v).show(&mut s);
    self.log.lock().unwrap().push(format!("(d {} {})", self.id, s));
  }
  fn error(self, e: i64) {
    self.log.lock().unwrap().push(format!("(d {} (e {}))", self.id, e));
  }
  fn complete(self) {
    self.log.lock().unwrap().push(format!("(d {} c)", self.id));
  }
  fn is_finished(&self) -> bool {
    false
  }
}

macro_rules! share_runner {
  ($m:ident, $chain:ident, $share:ident, $boxsub:ident, $boxty:ty, $subscriber:ident, $boxobs:ty, $subjty:ty) => {
    mod $m {
      use super::*;
      use crate::chain::$chain::{emit, Obs, Subj};

      /// the upstream part: counted subscription, then a tap
      fn upstream(src: &Sexp, log: &Log, hot: &mut Option<Subj>) -> Obs {
        let l1 = log.clone();
        let l2 = log.clone();
        let inner: Obs = match src {
          Sexp::Atom(a) if a == "hot" => {
            let s: Subj = Subj::default();
            *hot = Some(s.clone());
            s.box_it()
          }
          c => {
            let evs: Vec<Ev> = c.args().iter().map(Ev::parse).collect();
            observable::create(move |mut s: $subscriber<$boxobs>| {
              for e in evs {
                match e {
                  Ev::Next(v) => s.next(v),
                  Ev::Err(x) => s.clone().error(x),
                  Ev::Done => s.clone().complete(),
                }
              }
            })
            .box_it()
          }
        };
        observable::defer(move || {
          l1.lock().unwrap().push("(sub)".to_string());
          inner
        })
        .tap(move |v: &Val| {
          let mut s = String::new();
          v.show(&mut s);
          l2.lock().unwrap().push(format!("(tap {})", s));
        })
        .box_it()
      }

      pub fn run(body: &[Sexp]) -> String {
        let log: Log = Log::default();
        let mut hot: Option<Subj> = None;
        let up = upstream(&body[0], &log, &mut hot);
        let publish = body[1].atom() == "publish";
        let mut subs: Vec<Option<$boxty>> = vec![];
        let mut next_id = 0usize;
        if publish {
          let mut conn = Some(up.publish::<$subjty>());
          // a fork taken before connect() consumes the connectable: late subscribers use it
          let forked = conn.as_ref().unwrap().fork();
          for op in body[2].args() {
            match op.head() {
              "sub" => {
                let u = forked.clone().actual_subscribe(SProbe { id: next_id, log: log.clone() });
                subs.push(Some($boxsub::new(u)));
                next_id += 1;
              }
              // the published observable itself is subscribed (which consumes it: no connect() afterwards)
              "subself" => {
                let p = SProbe { id: next_id, log: log.clone() };
                let u = match conn.take() {
                  Some(c) => c.actual_subscribe(p),
                  None => forked.clone().actual_subscribe(p),
                };
                subs.push(Some($boxsub::new(u)));
                next_id += 1;
              }
              "connect" => {
                if let Some(c) = conn.take() {
                  let u = c.connect();
                  std::mem::forget(u);
                }
              }
              "unsub" => {
                if let Some(u) = subs.get_mut(op.args()[0].usize()).and_then(|s| s.take()) {
                  u.unsubscribe();
                }
              }
              "closed" => {
                if let Some(Some(u)) = subs.get(op.args()[0].usize()) {
                  log.lock().unwrap().push(format!("(rb {})", if u.is_closed() { "#t" } else { "#f" }));
                }
              }
              "src" => {
                if let Some(s) = hot.as_ref() {
                  emit(s, Ev::parse(&op.args()[0]));
                }
              }
              h => panic!("bad share op {h}"),
            }
            log.lock().unwrap().push("|".to_string());
          }
        } else {
          let shared = up.$share();
          for op in body[2].args() {
            match op.head() {
              "sub" => {
                let u = shared.clone().actual_subscribe(SProbe { id: next_id, log: log.clone() });
                subs.push(Some($boxsub::new(u)));
                next_id += 1;
              }
              "unsub" => {
                if let Some(u) = subs.get_mut(op.args()[0].usize()).and_then(|s| s.take()) {
                  u.unsubscribe();
                }
              }
              "closed" => {
                if let Some(Some(u)) = subs.get(op.args()[0].usize()) {
                  log.lock().unwrap().push(format!("(rb {})", if u.is_closed() { "#t" } else { "#f" }));
                }
              }
              "src" => {
                if let Some(s) = hot.as_ref() {
                  emit(s, Ev::parse(&op.args()[0]));
                }
              }
              h => panic!("bad share op {h}"),
            }
            log.lock().unwrap().push("|".to_string());
          }
        }
        for s in subs.drain(..) {
          std::mem::forget(s);
        }
        let r = log.lock().unwrap().join(" ");
        r
      }
    }
  };
}

share_runner!(local, local, share, BoxSubscription, BoxSubscription<'static>, Subscriber,
  rxrust::observer::BoxObserver<'static, Val, i64>, Subject<'static, Val, i64>);
share_runner!(threads, threads, share_threads, BoxSubscriptionThreads, BoxSubscriptionThreads, SubscriberThreads,
  rxrust::observer::BoxObserverThreads<Val, i64>, SubjectThreads<Val, i64>);

/// (share FORM SRC share|publish (ops OP...))
pub fn run_share(body: &[Sexp]) -> String {
  match body[0].atom() {
    "local" => local::run(&body[1..]),
    "threads" => threads::run(&body[1..]),
    f => panic!("bad share form {f}"),
  }
}

/// (share_reenter): a subscriber joins the shared observable from inside a callback of that shared observable (after the first
/// subscriber has connected it, while an emission is in progress): it does not see the item in flight and sees the later ones;
/// nobody panics or hangs.  share() and share_threads().
pub fn run_share_reenter(_body: &[Sexp]) -> String {
  use std::sync::atomic::{AtomicBool, Ordering};
  fn one(threads: bool) -> String {
    let (tx, rx) = std::sync::mpsc::channel::<String>();
    std::thread::spawn(move || {
      let r = std::panic::catch_unwind(std::panic::AssertUnwindSafe(|| {
        let a: Arc<Mutex<Vec<i32>>> = Arc::default();
        let b: Arc<Mutex<Vec<i32>>> = Arc::default();
        let joined = Arc::new(AtomicBool::new(false));
        if threads {
          let source: SubjectThreads<i32, ()> = SubjectThreads::default();
          let shared = source.clone().share_threads();
          let (a2, b2, j2, sh2) = (a.clone(), b.clone(), joined.clone(), shared.clone());
          let _ua = shared.clone().on_error(|_: ()| {}).subscribe(move |v: i32| {
            a2.lock().unwrap().push(v);
            if !j2.swap(true, Ordering::SeqCst) {
              let b3 = b2.clone();
              let _ub = sh2.clone().on_error(|_: ()| {}).subscribe(move |v: i32| b3.lock().unwrap().push(v));
              std::mem::forget(_ub);
            }
          });
          source.clone().next(1);
          source.clone().next(2);
          std::mem::forget(_ua);
        } else {
          let source: Subject<'static, i32, ()> = Subject::default();
          let shared = source.clone().share();
          let (a2, b2, j2, sh2) = (a.clone(), b.clone(), joined.clone(), shared.clone());
          let _ua = shared.clone().on_error(|_: ()| {}).subscribe(move |v: i32| {
            a2.lock().unwrap().push(v);
            if !j2.swap(true, Ordering::SeqCst) {
              let b3 = b2.clone();
              let _ub = sh2.clone().on_error(|_: ()| {}).subscribe(move |v: i32| b3.lock().unwrap().push(v));
              std::mem::forget(_ub);
            }
          });
          source.clone().next(1);
          source.clone().next(2);
          std::mem::forget(_ua);
        }
        let (a, b) = (a.lock().unwrap().clone(), b.lock().unwrap().clone());
        if a == vec![1, 2] && b == vec![2] {
          "ok".to_string()
        } else {
          format!("first subscriber saw {:?}, the one that joined inside its callback saw {:?}", a, b)
        }
      }));
      let _ = tx.send(r.unwrap_or_else(|_| "panic".to_string()));
    });
    match rx.recv_timeout(std::time::Duration::from_secs(8)) {
      Ok(r) => r,
      Err(_) => "hang".to_string(),
    }
  }
  let (l, t) = (one(false), one(true));
  if l == "ok" && t == "ok" {
    "ok".into()
  } else {
    format!("share: {l}; share_threads: {t}")
  }
}
