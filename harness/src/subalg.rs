//! Histories of append / unsubscribe / is_closed on ZipSubscription and MultiSubscription
//! over leaf subscriptions that record their own teardown (model: `Subscr.v`).
use crate::sexp::Sexp;
use rxrust::prelude::*;
use std::fmt::Write;
use std::sync::atomic::{AtomicBool, Ordering};
use std::sync::{Arc, Mutex};

type Log = Arc<Mutex<Vec<String>>>;

type Chain = Arc<Mutex<Option<Box<dyn FnOnce() + Send>>>>;

#[derive(Clone)]
struct Leaf {
  k: usize,
  alive: Arc<AtomicBool>,
  log: Log,
  /// what this leaf's own teardown does besides (a member whose teardown appends to the composite it sits in)
  chain: Chain,
}

impl Subscription for Leaf {
  fn unsubscribe(self) {
    if self.alive.swap(false, Ordering::SeqCst) {
      self.log.lock().unwrap().push(format!("(k {})", self.k));
      let f = self.chain.lock().unwrap().take();
      if let Some(f) = f {
        f();
      }
    }
  }
  fn is_closed(&self) -> bool {
    !self.alive.load(Ordering::SeqCst)
  }
}

struct Ctx {
  leaves: Vec<Leaf>,
  log: Log,
}

impl Ctx {
  fn leaf(&mut self, k: usize) -> Leaf {
    while self.leaves.len() <= k {
      let k2 = self.leaves.len();
      self.leaves.push(Leaf { k: k2, alive: Arc::new(AtomicBool::new(true)), log: self.log.clone(), chain: Chain::default() });
    }
    self.leaves[k].clone()
  }
}

macro_rules! subalg_runner {
  ($m:ident, $multi:ty, $boxsub:ident, $boxty:ty, $chain:ident) => {
    mod $m {
      use super::*;

      fn build(ctx: &mut Ctx, multi: &$multi, t: &Sexp) -> $boxty {
        match t.head() {
          "unit" => $boxsub::new(()),
          "leaf" => $boxsub::new(ctx.leaf(t.args()[0].usize())),
          "multi" => $boxsub::new(multi.clone()),
          "zip" => {
            let a = build(ctx, multi, &t.args()[0]);
            let b = build(ctx, multi, &t.args()[1]);
            $boxsub::new(ZipSubscription::new(a, b))
          }
          h => panic!("bad subscription term {h}"),
        }
      }

      fn chain_to(l: &Leaf, multi: &$multi, lj: Leaf) {
        $chain(l, multi, lj)
      }

      pub fn run(ops: &[Sexp]) -> String {
        let log: Log = Log::default();
        let mut ctx = Ctx { leaves: vec![], log: log.clone() };
        let mut multi: $multi = <$multi>::default();
        for op in ops {
          let a = op.args();
          match op.head() {
            "append" => {
              let l = ctx.leaf(a[0].usize());
              multi.append($boxsub::new(l));
            }
            // leaf K, whose teardown appends leaf J to this composite, is appended (thread-safe form: the closure is Send)
            "append_chained" => {
              let (l, lj) = (ctx.leaf(a[0].usize()), ctx.leaf(a[1].usize()));
              chain_to(&l, &multi, lj);
              multi.append($boxsub::new(l));
            }
            "unsub" => build(&mut ctx, &multi, &a[0]).unsubscribe(),
            "closed" => {
              let b = build(&mut ctx, &multi, &a[0]).is_closed();
              log.lock().unwrap().push(format!("(rb {})", if b { "#t" } else { "#f" }));
            }
            "die" => {
              let l = ctx.leaf(a[0].usize());
              l.alive.store(false, Ordering::SeqCst);
            }
            h => panic!("bad subscription op {h}"),
          }
        }
        let mut s = String::new();
        for (i, x) in log.lock().unwrap().iter().enumerate() {
          if i > 0 {
            s.push(' ');
          }
          write!(s, "{x}").unwrap();
        }
        s
      }
    }
  };
}

fn chain_local(_: &Leaf, _: &MultiSubscription<'static>, _: Leaf) {
  panic!("append_chained needs the thread-safe form (the local composite is not Send)")
}

fn chain_threads(l: &Leaf, multi: &MultiSubscriptionThreads, lj: Leaf) {
  let mut m = multi.clone();
  *l.chain.lock().unwrap() = Some(Box::new(move || m.append(BoxSubscriptionThreads::new(lj))));
}

subalg_runner!(local, MultiSubscription<'static>, BoxSubscription, BoxSubscription<'static>, chain_local);
subalg_runner!(threads, MultiSubscriptionThreads, BoxSubscriptionThreads, BoxSubscriptionThreads, chain_threads);

/// (subalg FORM (ops OP...))
pub fn run_subalg(body: &[Sexp]) -> String {
  match body[0].atom() {
    "local" => local::run(body[1].args()),
    "threads" => threads::run(body[1].args()),
    f => panic!("bad subalg form {f}"),
  }
}
