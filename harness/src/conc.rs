//! Real threads against the thread-safe forms (supporting evidence for C10 / C19: the schedules are
//! the operating system's, not enumerated).  Probes flag overlapping entry, record what they see;
//! the case ends when every thread has returned (or the watchdog gives up).
use crate::sexp::Sexp;
use rxrust::prelude::*;
use std::sync::atomic::{AtomicBool, AtomicUsize, Ordering};
use std::sync::{Arc, Mutex};
use std::time::Duration;

type Item = (usize, usize); // (producer, sequence number)
type Subj = SubjectThreads<Item, ()>;

#[derive(Clone)]
struct CProbe {
  busy: Arc<AtomicBool>,
  overlaps: Arc<AtomicUsize>,
  seen: Arc<Mutex<Vec<Item>>>,
  after_terminal: Arc<AtomicUsize>,
  done: Arc<AtomicBool>,
}

impl CProbe {
  fn new() -> Self {
    CProbe {
      busy: Arc::default(),
      overlaps: Arc::default(),
      seen: Arc::default(),
      after_terminal: Arc::default(),
      done: Arc::default(),
    }
  }
  fn enter(&self) {
    if self.busy.swap(true, Ordering::SeqCst) {
      self.overlaps.fetch_add(1, Ordering::SeqCst);
    }
    if self.done.load(Ordering::SeqCst) {
      self.after_terminal.fetch_add(1, Ordering::SeqCst);
    }
  }
  fn leave(&self) {
    self.busy.store(false, Ordering::SeqCst);
  }
}

impl Observer<Item, ()> for CProbe {
  fn next(&mut self, v: Item) {
    self.enter();
    self.seen.lock().unwrap().push(v);
    std::thread::yield_now();
    self.leave();
  }
  fn error(self, _: ()) {
    self.enter();
    self.done.store(true, Ordering::SeqCst);
    self.leave();
  }
  fn complete(self) {
    self.enter();
    self.done.store(true, Ordering::SeqCst);
    self.leave();
  }
  fn is_finished(&self) -> bool {
    false
  }
}

fn per_producer_ordered(v: &[Item], producers: usize) -> bool {
  let mut last = vec![None::<usize>; producers];
  for (p, s) in v {
    if let Some(l) = last[*p] {
      if *s < l {
        return false;
      }
    }
    last[*p] = Some(*s);
  }
  true
}

/// (conc KIND PRODUCERS ITEMS ROUNDS)
pub fn run_conc(body: &[Sexp]) -> String {
  let kind = body[0].atom().to_string();
  let producers = body[1].usize();
  let items = body[2].usize();
  let rounds = body[3].usize();
  let mut problems: Vec<String> = vec![];
  for _ in 0..rounds {
    let inputs: Vec<Subj> = (0..producers).map(|_| Subj::default()).collect();
    let single = Subj::default();
    let (p1, p2) = (CProbe::new(), CProbe::new());
    // every producer pushes into `target(i)`
    let target: Vec<Subj> = match kind.as_str() {
      "subject" | "share" => (0..producers).map(|_| single.clone()).collect(),
      _ => inputs.clone(),
    };
    let mut keep: Vec<Box<dyn std::any::Any + Send>> = vec![];
    match kind.as_str() {
      "subject" => {
        keep.push(Box::new(single.clone().actual_subscribe(p1.clone())));
        keep.push(Box::new(single.clone().actual_subscribe(p2.clone())));
      }
      "share" => {
        let shared = single.clone().share_threads();
        keep.push(Box::new(shared.clone().actual_subscribe(p1.clone())));
        keep.push(Box::new(shared.clone().actual_subscribe(p2.clone())));
      }
      "merge" => {
        let mut o: rxrust::ops::box_it::CloneableBoxOpThreads<Item, ()> = inputs[0].clone().box_it();
        for s in inputs.iter().skip(1) {
          o = o.merge_threads(s.clone()).box_it();
        }
        keep.push(Box::new(o.clone().actual_subscribe(p1.clone())));
        keep.push(Box::new(o.actual_subscribe(p2.clone())));
      }
      "zip" => {
        let o = inputs[0].clone().zip_threads(inputs[1 % producers].clone()).map(|(a, _b)| a);
        keep.push(Box::new(o.actual_subscribe(p1.clone())));
        let o2 = inputs[0].clone().zip_threads(inputs[1 % producers].clone()).map(|(a, _b)| a);
        keep.push(Box::new(o2.actual_subscribe(p2.clone())));
      }
      "combine_latest" => {
        let o = inputs[0].clone().combine_latest_threads(inputs[1 % producers].clone(), |a, b| (a, b)).map(|(a, _b)| a);
        keep.push(Box::new(o.actual_subscribe(p1.clone())));
        let o2 = inputs[0].clone().combine_latest_threads(inputs[1 % producers].clone(), |a, b| (a, b)).map(|(a, _b)| a);
        keep.push(Box::new(o2.actual_subscribe(p2.clone())));
      }
      "take_until" => {
        let o = inputs[0].clone().take_until_threads(inputs[1 % producers].clone());
        keep.push(Box::new(o.actual_subscribe(p1.clone())));
        let o2 = inputs[0].clone().take_until_threads(inputs[1 % producers].clone());
        keep.push(Box::new(o2.actual_subscribe(p2.clone())));
      }
      "merge_all" => {
        let outer: SubjectThreads<Subj, ()> = SubjectThreads::default();
        let o = outer.clone().merge_all_threads(usize::MAX);
        keep.push(Box::new(o.actual_subscribe(p1.clone())));
        let o2 = outer.clone().merge_all_threads(usize::MAX);
        keep.push(Box::new(o2.actual_subscribe(p2.clone())));
        for s in inputs.iter() {
          outer.clone().next(s.clone());
        }
        keep.push(Box::new(outer));
      }
      k => panic!("bad conc kind {k}"),
    }
    let (tx, rx) = std::sync::mpsc::channel::<()>();
    let barrier = Arc::new(std::sync::Barrier::new(producers + 1));
    let mut n_threads = 0;
    for (p, t) in target.iter().enumerate() {
      let (mut s, b, tx) = (t.clone(), barrier.clone(), tx.clone());
      n_threads += 1;
      std::thread::spawn(move || {
        b.wait();
        for k in 0..items {
          s.next((p, k));
        }
        let _ = tx.send(());
      });
    }
    // a thread that keeps joining and leaving
    {
      let (b, tx) = (barrier.clone(), tx.clone());
      let joiner: Subj = match kind.as_str() {
        "subject" | "share" => single.clone(),
        _ => inputs[0].clone(),
      };
      n_threads += 1;
      std::thread::spawn(move || {
        b.wait();
        for _ in 0..items {
          let u = joiner.clone().actual_subscribe(CProbe::new());
          std::thread::yield_now();
          u.unsubscribe();
        }
        let _ = tx.send(());
      });
    }
    let mut returned = 0;
    for _ in 0..n_threads {
      if rx.recv_timeout(Duration::from_secs(20)).is_ok() {
        returned += 1;
      }
    }
    if returned != n_threads {
      problems.push(format!("only {returned} of {n_threads} threads returned"));
      std::mem::forget(keep);
      break;
    }
    for t in target.iter() {
      t.clone().complete();
    }
    let (s1, s2) = (p1.seen.lock().unwrap().clone(), p2.seen.lock().unwrap().clone());
    if p1.overlaps.load(Ordering::SeqCst) + p2.overlaps.load(Ordering::SeqCst) > 0 {
      problems.push("a subscriber callback ran on two threads at once".into());
    }
    if p1.after_terminal.load(Ordering::SeqCst) + p2.after_terminal.load(Ordering::SeqCst) > 0 {
      problems.push("a delivery after the terminal".into());
    }
    if !per_producer_ordered(&s1, producers) || !per_producer_ordered(&s2, producers) {
      problems.push("a producer's items arrived out of order".into());
    }
    if matches!(kind.as_str(), "subject" | "share") {
      if s1 != s2 {
        problems.push("two subscribers of one subject saw different orders".into());
      }
      if s1.len() != producers * items {
        problems.push(format!("{} of {} items delivered", s1.len(), producers * items));
      }
    }
    drop(keep);
    if !problems.is_empty() {
      break;
    }
  }
  if problems.is_empty() {
    "ok".into()
  } else {
    problems.join("; ")
  }
}

/// (sched_race ROUNDS): a task body running on a pool thread while its handle is unsubscribed
pub fn run_sched_race(body: &[Sexp]) -> String {
  let rounds = body[0].usize();
  let pool = FuturesThreadPoolScheduler::new().unwrap();
  for _ in 0..rounds {
    let (tx, rx) = std::sync::mpsc::channel::<()>();
    let finished = Arc::new(AtomicBool::new(false));
    fn body_fn((started, finished): (std::sync::mpsc::Sender<()>, Arc<AtomicBool>)) -> NormalReturn<()> {
      let _ = started.send(());
      std::thread::sleep(Duration::from_millis(15));
      finished.store(true, Ordering::SeqCst);
      NormalReturn::new(())
    }
    let handle = pool.schedule(OnceTask::new(body_fn, (tx, finished.clone())), None);
    if rx.recv_timeout(Duration::from_secs(10)).is_err() {
      return "the task never started".into();
    }
    handle.unsubscribe();
    if !finished.load(Ordering::SeqCst) {
      return "unsubscribe() returned while the task body was still running".into();
    }
  }
  "ok".into()
}

/// (unsub_race ROUNDS): a `create` source emitting from its subscribe function on a pool thread
/// (subscribe_on) while the subscription is unsubscribed from another thread: unsubscribe() may wait for
/// the running task, but once it has returned the subscriber must stay silent.
pub fn run_unsub_race(body: &[Sexp]) -> String {
  let rounds = body[0].usize();
  let pool = FuturesThreadPoolScheduler::new().unwrap();
  for _ in 0..rounds {
    let returned = Arc::new(AtomicBool::new(false));
    let late = Arc::new(AtomicUsize::new(0));
    let (inside_tx, inside_rx) = std::sync::mpsc::channel::<()>();
    let (fin_tx, fin_rx) = std::sync::mpsc::channel::<()>();
    let (r2, l2) = (returned.clone(), late.clone());
    let subscription = observable::create(move |mut subscriber: SubscriberThreads<_>| {
      let _ = inside_tx.send(());
      std::thread::sleep(Duration::from_millis(15));
      subscriber.next(1);
      subscriber.next(2);
      let _ = fin_tx.send(());
    })
    .subscribe_on(pool.clone())
    .subscribe(move |_: i32| {
      if r2.load(Ordering::SeqCst) {
        l2.fetch_add(1, Ordering::SeqCst);
      }
    });
    if inside_rx.recv_timeout(Duration::from_secs(10)).is_err() {
      return "the subscribing task never started".into();
    }
    subscription.unsubscribe();
    returned.store(true, Ordering::SeqCst);
    let _ = fin_rx.recv_timeout(Duration::from_secs(10));
    if late.load(Ordering::SeqCst) > 0 {
      return "the subscriber was called after unsubscribe() had returned".into();
    }
    // the same with a source that stays alive: the subscription the task produces must be torn down as well
    let returned = Arc::new(AtomicBool::new(false));
    let late = Arc::new(AtomicUsize::new(0));
    let hot: SubjectThreads<i32, std::convert::Infallible> = SubjectThreads::default();
    let (inside_tx, inside_rx) = std::sync::mpsc::channel::<()>();
    let (fin_tx, fin_rx) = std::sync::mpsc::channel::<()>();
    let (r2, l2, h2) = (returned.clone(), late.clone(), hot.clone());
    // ... and a finalize callback on it must run, once (the subscription was unsubscribed)
    let fin_calls = Arc::new(AtomicUsize::new(0));
    let fc2 = fin_calls.clone();
    let subscription = observable::defer(move || {
      let _ = inside_tx.send(());
      std::thread::sleep(Duration::from_millis(15));
      let _ = fin_tx.send(());
      h2.clone()
    })
    .finalize_threads(move || {
      fc2.fetch_add(1, Ordering::SeqCst);
    })
    .subscribe_on(pool.clone())
    .subscribe(move |_: i32| {
      if r2.load(Ordering::SeqCst) {
        l2.fetch_add(1, Ordering::SeqCst);
      }
    });
    if inside_rx.recv_timeout(Duration::from_secs(10)).is_err() {
      return "the subscribing task never started".into();
    }
    subscription.unsubscribe();
    returned.store(true, Ordering::SeqCst);
    let _ = fin_rx.recv_timeout(Duration::from_secs(10));
    std::thread::sleep(Duration::from_millis(5));
    hot.clone().next(1);
    if late.load(Ordering::SeqCst) > 0 {
      return "the subscription produced by a cancelled subscribing task was left alive: the subscriber was called after unsubscribe() had returned".into();
    }
    let calls = fin_calls.load(Ordering::SeqCst);
    if calls != 1 {
      return format!("the finalize callback of a subscription made by a subscribing task and unsubscribed ran {calls} times");
    }
  }
  "ok".into()
}

/// (handshake KIND ROUNDS): observe_on_threads / delay_threads on a thread pool; the subscriber's callback for the first item
/// waits (no re-entry into the pipeline: a plain hand-shake) until the producer's second next() has returned.  The producer
/// must not be held up by a delivery that is still running: every call returns.
pub fn run_handshake(body: &[Sexp]) -> String {
  let kind = body[0].atom().to_string();
  let rounds = body[1].usize();
  // the crate is built without its `timer` feature: delay asks this function for its timers (a zero delay is due at once)
  crate::timed::install_timer();
  let pool = FuturesThreadPoolScheduler::new().unwrap();
  if kind.starts_with("iter_") {
    // a pulling source (from_iter asks is_finished() between items) above the operator, a slow subscriber on the pool: the source
    // asks while a delivery is running on another thread.  Everything it produced arrives, in order, and the completion.
    // One worker: the pool runs its tasks in the order in which they were scheduled (a pool with several workers may run the
    // completion's task before an item's: no order is claimed there).
    let pool = FuturesThreadPoolScheduler::builder().pool_size(1).create().unwrap();
    for _ in 0..rounds {
      let got: Arc<Mutex<Vec<i32>>> = Arc::default();
      let g2 = got.clone();
      let done = Arc::new(AtomicBool::new(false));
      let d2 = done.clone();
      let cb = move |v: i32| {
        std::thread::sleep(Duration::from_millis(15));
        g2.lock().unwrap().push(v);
      };
      let paced = (0..5).map(|v| {
        std::thread::sleep(Duration::from_millis(10));
        v
      });
      let keep: Box<dyn std::any::Any> = match kind.as_str() {
        "iter_observe_on" => {
          Box::new(observable::from_iter(paced).observe_on_threads(pool.clone()).on_complete(move || d2.store(true, Ordering::SeqCst)).subscribe(cb))
        }
        "iter_delay" => Box::new(
          observable::from_iter(paced)
            .delay_threads(Duration::from_millis(0), pool.clone())
            .on_complete(move || d2.store(true, Ordering::SeqCst))
            .subscribe(cb),
        ),
        k => panic!("bad handshake kind {k}"),
      };
      let t0 = std::time::Instant::now();
      while !(got.lock().unwrap().len() == 5 && done.load(Ordering::SeqCst)) && t0.elapsed() < Duration::from_secs(3) {
        std::thread::sleep(Duration::from_millis(2));
      }
      std::mem::forget(keep);
      let g = got.lock().unwrap().clone();
      if g != vec![0, 1, 2, 3, 4] || !done.load(Ordering::SeqCst) {
        return format!(
          "from_iter(0..5) above the operator on a one-worker thread pool with a slow subscriber: delivered {:?}, completed: {}",
          g,
          done.load(Ordering::SeqCst)
        );
      }
    }
    return "ok".into();
  }
  for _ in 0..rounds {
    let subject: SubjectThreads<i32, ()> = SubjectThreads::default();
    let (returned_tx, returned_rx) = std::sync::mpsc::channel::<()>();
    let returned_rx = Mutex::new(returned_rx);
    let (in_cb_tx, in_cb_rx) = std::sync::mpsc::channel::<()>();
    let in_cb_tx = Mutex::new(in_cb_tx);
    let stuck = Arc::new(AtomicBool::new(false));
    let s2 = stuck.clone();
    let got: Arc<Mutex<Vec<i32>>> = Arc::default();
    let g2 = got.clone();
    let cb = move |v: i32| {
      g2.lock().unwrap().push(v);
      if v == 1 {
        let _ = in_cb_tx.lock().unwrap().send(());
        if returned_rx.lock().unwrap().recv_timeout(Duration::from_secs(3)).is_err() {
          s2.store(true, Ordering::SeqCst);
        }
      }
    };
    let keep: Box<dyn std::any::Any> = match kind.as_str() {
      "observe_on" => Box::new(subject.clone().observe_on_threads(pool.clone()).on_error(|_: ()| {}).subscribe(cb)),
      "delay" => Box::new(subject.clone().delay_threads(Duration::from_millis(0), pool.clone()).on_error(|_: ()| {}).subscribe(cb)),
      k => panic!("bad handshake kind {k}"),
    };
    let mut p = subject.clone();
    let producer = std::thread::spawn(move || {
      p.next(1);
      // the delivery of item 1 is running on a pool thread now
      let _ = in_cb_rx.recv_timeout(Duration::from_secs(5));
      p.next(2);
      let _ = returned_tx.send(());
    });
    let _ = producer.join();
    // both items were handed over: both must arrive (in whatever order the pool runs their tasks)
    let t0 = std::time::Instant::now();
    while got.lock().unwrap().len() < 2 && t0.elapsed() < Duration::from_secs(3) {
      std::thread::sleep(Duration::from_millis(2));
    }
    std::mem::forget(keep);
    if stuck.load(Ordering::SeqCst) {
      return "next() did not return while a delivery scheduled earlier was still running on a pool thread".into();
    }
    let mut g = got.lock().unwrap().clone();
    g.sort();
    if g != vec![1, 2] {
      return format!("items 1 and 2 were handed to the operator on a thread pool, delivered: {:?}", g);
    }
  }
  "ok".into()
}

/// (guard_unwind): a guard obtained from unsubscribe_when_dropped() that is dropped because its scope is left by a panic
/// (caught further up) unsubscribes like any other drop: the subscriber stays silent afterwards.  Local and thread-safe subject.
pub fn run_guard_unwind(_body: &[Sexp]) -> String {
  use std::panic::{catch_unwind, AssertUnwindSafe};
  {
    let subject: SubjectThreads<i32, ()> = SubjectThreads::default();
    let hits = Arc::new(AtomicUsize::new(0));
    let h = hits.clone();
    let s2 = subject.clone();
    let r = catch_unwind(AssertUnwindSafe(move || {
      let _guard = s2
        .on_error(|_: ()| {})
        .subscribe(move |_: i32| {
          h.fetch_add(1, Ordering::SeqCst);
        })
        .unsubscribe_when_dropped();
      panic!("the scope that owns the guard is left by a panic");
    }));
    if r.is_ok() {
      return "the scope did not panic".into();
    }
    subject.clone().next(1);
    if hits.load(Ordering::SeqCst) > 0 {
      return "SubjectThreads: the subscriber was called after its guard had been dropped by unwinding".into();
    }
  }
  {
    let subject: Subject<'static, i32, ()> = Subject::default();
    let hits = std::rc::Rc::new(std::cell::Cell::new(0usize));
    let h = hits.clone();
    let s2 = subject.clone();
    let r = catch_unwind(AssertUnwindSafe(move || {
      let _guard = s2.on_error(|_: ()| {}).subscribe(move |_: i32| h.set(h.get() + 1)).unsubscribe_when_dropped();
      panic!("the scope that owns the guard is left by a panic");
    }));
    if r.is_ok() {
      return "the scope did not panic".into();
    }
    subject.clone().next(1);
    if hits.get() > 0 {
      return "Subject: the subscriber was called after its guard had been dropped by unwinding".into();
    }
  }
  "ok".into()
}
