//! group_by: the outer subscriber attaches a recording subscriber to every group inside
//! the callback that announces it (model: `GroupBy.v`).
use crate::sexp::Sexp;
use crate::val::{Ev, Fn1, Val};
use rxrust::ops::group_by::KeyObservable;
use rxrust::prelude::*;
use std::sync::{Arc, Mutex};

#[derive(Clone, Debug)]
enum G {
  Announce(Val),
  Group(Val, Ev),
  Outer(Ev),
}

type GLog = Arc<Mutex<Vec<G>>>;

struct GroupProbe {
  key: Val,
  log: GLog,
}

impl Observer<Val, i64> for GroupProbe {
  fn next(&mut self, v: Val) {
    self.log.lock().unwrap().push(G::Group(self.key.clone(), Ev::Next(v)));
  }
  fn error(self, e: i64) {
    self.log.lock().unwrap().push(G::Group(self.key.clone(), Ev::Err(e)));
  }
  fn complete(self) {
    self.log.lock().unwrap().push(G::Group(self.key.clone(), Ev::Done));
  }
  fn is_finished(&self) -> bool {
    false
  }
}

struct OuterProbe {
  log: GLog,
  /// a consumer that is not interested in this key: its group is announced and left without a subscriber
  ignore: Option<Val>,
}

macro_rules! outer_impl {
  ($subj:ty) => {
    impl Observer<KeyObservable<Val, $subj>, i64> for OuterProbe {
      fn next(&mut self, g: KeyObservable<Val, $subj>) {
        let key = g.key.clone();
        self.log.lock().unwrap().push(G::Announce(key.clone()));
        if self.ignore.as_ref() == Some(&key) {
          return;
        }
        let _ = g.actual_subscribe(GroupProbe { key, log: self.log.clone() });
      }
      fn error(self, e: i64) {
        self.log.lock().unwrap().push(G::Outer(Ev::Err(e)));
      }
      fn complete(self) {
        self.log.lock().unwrap().push(G::Outer(Ev::Done));
      }
      fn is_finished(&self) -> bool {
        false
      }
    }
  };
}
outer_impl!(Subject<'static, Val, i64>);
outer_impl!(SubjectThreads<Val, i64>);

/// Canonical form: inside a block of consecutive group terminals (HashMap drain order),
/// sort by order of announcement.
fn canonical(log: &[G]) -> Vec<G> {
  let order: Vec<Val> = log.iter().filter_map(|g| if let G::Announce(k) = g { Some(k.clone()) } else { None }).collect();
  let rank = |k: &Val| order.iter().position(|x| x == k).unwrap_or(usize::MAX);
  let mut out: Vec<G> = vec![];
  let mut block: Vec<G> = vec![];
  for g in log {
    match g {
      G::Group(_, e) if !matches!(e, Ev::Next(_)) => block.push(g.clone()),
      _ => {
        block.sort_by_key(|b| if let G::Group(k, _) = b { rank(k) } else { 0 });
        out.append(&mut block);
        out.push(g.clone());
      }
    }
  }
  block.sort_by_key(|b| if let G::Group(k, _) = b { rank(k) } else { 0 });
  out.append(&mut block);
  out
}

fn show(log: &[G]) -> String {
  let mut s = String::new();
  for (i, g) in log.iter().enumerate() {
    if i > 0 {
      s.push(' ');
    }
    match g {
      G::Announce(k) => {
        s.push_str("(a ");
        k.show(&mut s);
        s.push(')');
      }
      G::Group(k, e) => {
        s.push_str("(g ");
        k.show(&mut s);
        s.push(' ');
        e.show(&mut s);
        s.push(')');
      }
      G::Outer(e) => {
        s.push_str("(o ");
        e.show(&mut s);
        s.push(')');
      }
    }
  }
  s
}

/// (group_by FORM KEYFN (calls EV...)) with FORM one of local-hot, local-cold, threads-hot, threads-cold
pub fn run_group_by(body: &[Sexp]) -> String {
  let form = body[0].atom();
  let stateful = matches!(&body[1], Sexp::Atom(a) if a == "chunk2");
  if stateful || body.len() > 3 {
    return run_group_by_variant(body, stateful);
  }
  let f = Fn1::parse(&body[1]);
  let calls: Vec<Ev> = body[2].args().iter().map(Ev::parse).collect();
  let log: GLog = GLog::default();
  let ignore: Option<Val> = None;
  match form {
    "local-hot" => {
      let src: Subject<'static, Val, i64> = Subject::default();
      let _u = src
        .clone()
        .group_by::<_, _, Subject<'static, Val, i64>>(move |v: &Val| f.apply(v))
        .actual_subscribe(OuterProbe { log: log.clone(), ignore: ignore.clone() });
      for c in calls {
        crate::chain::local::emit(&src, c);
      }
    }
    "threads-hot" => {
      let src: SubjectThreads<Val, i64> = SubjectThreads::default();
      let _u = src
        .clone()
        .group_by::<_, _, SubjectThreads<Val, i64>>(move |v: &Val| f.apply(v))
        .actual_subscribe(OuterProbe { log: log.clone(), ignore: ignore.clone() });
      for c in calls {
        crate::chain::threads::emit(&src, c);
      }
    }
    "local-cold" | "threads-cold" => {
      let mut l = vec![Sexp::Atom("create".into())];
      l.extend_from_slice(body[2].args());
      let src = crate::chain::local::build_src(&Sexp::List(l));
      if form == "local-cold" {
        let _u = src
          .group_by::<_, _, Subject<'static, Val, i64>>(move |v: &Val| f.apply(v))
          .actual_subscribe(OuterProbe { log: log.clone(), ignore: ignore.clone() });
      } else {
        let _u = src
          .group_by::<_, _, SubjectThreads<Val, i64>>(move |v: &Val| f.apply(v))
          .actual_subscribe(OuterProbe { log: log.clone(), ignore: ignore.clone() });
      }
    }
    f => panic!("bad group_by form {f}"),
  }
  let l = log.lock().unwrap().clone();
  show(&canonical(&l))
}

/// (group_by FORM KEYFN|chunk2 (calls EV...) [(take N)]): a create() source; `chunk2` is a key function with a state of
/// its own (the n-th call answers n / 2); (take N) cuts the stream of groups after N announcements
fn run_group_by_variant(body: &[Sexp], stateful: bool) -> String {
  let form = body[0].atom();
  let log: GLog = GLog::default();
  let mut l = vec![Sexp::Atom("create".into())];
  l.extend_from_slice(body[2].args());
  let src = crate::chain::local::build_src(&Sexp::List(l));
  let calls = std::cell::Cell::new(0i64);
  let f = if stateful { None } else { Some(Fn1::parse(&body[1])) };
  let key = move |v: &Val| match &f {
    Some(f) => f.apply(v),
    None => {
      let n = calls.get();
      calls.set(n + 1);
      Val::Z(n / 2)
    }
  };
  let take: Option<usize> = body.get(3).filter(|t| t.head() == "take").map(|t| t.args()[0].usize());
  let ignore: Option<Val> = body.get(3).filter(|t| t.head() == "ignore").map(|t| Val::parse(&t.args()[0]));
  macro_rules! go {
    ($subj:ty) => {{
      let g = src.group_by::<_, _, $subj>(key);
      match take {
        Some(n) => {
          let _u = ObservableExt::<KeyObservable<Val, $subj>, i64>::take(g, n).actual_subscribe(OuterProbe { log: log.clone(), ignore: ignore.clone() });
        }
        None => {
          let _u = g.actual_subscribe(OuterProbe { log: log.clone(), ignore: ignore.clone() });
        }
      }
    }};
  }
  if form.starts_with("local") {
    go!(Subject<'static, Val, i64>)
  } else {
    go!(SubjectThreads<Val, i64>)
  }
  let l = log.lock().unwrap().clone();
  show(&canonical(&l))
}
