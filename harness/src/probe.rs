//! The recording subscriber.
use crate::val::{Ev, Val};
use rxrust::prelude::*;
use std::sync::{Arc, Mutex};

#[derive(Clone, Default)]
pub struct Log(pub Arc<Mutex<Vec<Ev>>>);

impl Log {
  pub fn take(&self) -> Vec<Ev> {
    self.0.lock().unwrap().clone()
  }
  pub fn len(&self) -> usize {
    self.0.lock().unwrap().len()
  }
}

pub struct Probe {
  pub log: Log,
}

impl Probe {
  pub fn new() -> (Probe, Log) {
    let log = Log::default();
    (Probe { log: log.clone() }, log)
  }
}

impl Observer<Val, i64> for Probe {
  fn next(&mut self, value: Val) {
    self.log.0.lock().unwrap().push(Ev::Next(value));
  }
  fn error(self, err: i64) {
    self.log.0.lock().unwrap().push(Ev::Err(err));
  }
  fn complete(self) {
    self.log.0.lock().unwrap().push(Ev::Done);
  }
  fn is_finished(&self) -> bool {
    false
  }
}
