//! to_future / to_stream / collect / complete_status driven label by label (model: `Convert.v`).
use crate::sexp::Sexp;
use crate::val::{Ev, Val};
use futures::{Future, Stream};
use rxrust::ops::complete_status::CompleteStatus;
use rxrust::ops::future::ObservableError;
use rxrust::prelude::*;
use rxrust::scheduler::verif_hook::YIELD;
use std::pin::Pin;
use std::sync::Arc;
use std::task::Context;

fn emit(s: &Subject<'static, Val, i64>, e: Ev) {
  match e {
    Ev::Next(v) => s.clone().next(v),
    Ev::Err(x) => s.clone().error(x),
    Ev::Done => s.clone().complete(),
  }
}

fn showv(v: &Val) -> String {
  let mut s = String::new();
  v.show(&mut s);
  s
}

/// (tofuture (labels L...)) ; L = (n v) | (e k) | c | poll
pub fn run_tofuture(body: &[Sexp]) -> String {
  let subject: Subject<'static, Val, i64> = Subject::default();
  let mut fut = Box::pin(subject.clone().to_future());
  let waker = futures::task::noop_waker();
  let mut out: Vec<String> = vec![];
  for l in body[0].args() {
    match l {
      Sexp::Atom(a) if a == "poll" => {
        let mut cx = Context::from_waker(&waker);
        match fut.as_mut().poll(&mut cx) {
          std::task::Poll::Pending => out.push("pending".into()),
          std::task::Poll::Ready(Ok(Ok(v))) => out.push(format!("(ready (ok {}))", showv(&v))),
          std::task::Poll::Ready(Ok(Err(e))) => out.push(format!("(ready (err {e}))")),
          std::task::Poll::Ready(Err(ObservableError::Empty)) => out.push("(ready empty)".into()),
          std::task::Poll::Ready(Err(ObservableError::MultipleValues)) => out.push("(ready multiple)".into()),
        }
      }
      _ => emit(&subject, Ev::parse(l)),
    }
  }
  out.join(" ")
}

/// (tostream (labels L...))
pub fn run_tostream(body: &[Sexp]) -> String {
  let subject: Subject<'static, Val, i64> = Subject::default();
  let mut st = Box::pin(subject.clone().to_stream());
  let waker = futures::task::noop_waker();
  let mut out: Vec<String> = vec![];
  for l in body[0].args() {
    match l {
      Sexp::Atom(a) if a == "poll" => {
        let mut cx = Context::from_waker(&waker);
        match st.as_mut().poll_next(&mut cx) {
          std::task::Poll::Pending => out.push("pending".into()),
          std::task::Poll::Ready(Some(Ok(v))) => out.push(format!("(item {})", showv(&v))),
          std::task::Poll::Ready(Some(Err(e))) => out.push(format!("(erritem {e})")),
          std::task::Poll::Ready(None) => out.push("end".into()),
        }
      }
      _ => emit(&subject, Ev::parse(l)),
    }
  }
  out.join(" ")
}

/// (status (labels L...)) ; L = (n v) | (e k) | c | flags | (wait WHEN EV)
/// `flags` reports is_closed / is_completed / error_occur.  (wait WHEN EV): a thread calls
/// wait_for_end; the terminal EV is issued before it starts (WHEN = before), between its look at
/// the flag and its registering the waker (at_yield, through the hook), or from this thread after
/// the waiter has gone to sleep (after).  Answer: returned / HANG.
pub fn run_status(body: &[Sexp]) -> String {
  let subject: SubjectThreads<Val, i64> = SubjectThreads::default();
  let (obs, status) = subject.clone().complete_status();
  let _sub = obs.on_error(|_: i64| {}).subscribe(|_: Val| {});
  let mut out: Vec<String> = vec![];
  let emit_t = |s: &SubjectThreads<Val, i64>, e: Ev| match e {
    Ev::Next(v) => s.clone().next(v),
    Ev::Err(x) => s.clone().error(x),
    Ev::Done => s.clone().complete(),
  };
  for l in body[0].args() {
    match l {
      Sexp::Atom(a) if a == "flags" => out.push(format!(
        "(flags {} {} {})",
        if status.is_closed() { "#t" } else { "#f" },
        if status.is_completed() { "#t" } else { "#f" },
        if status.error_occur() { "#t" } else { "#f" }
      )),
      Sexp::List(_) if l.head() == "wait" => {
        let when = l.args()[0].atom().to_string();
        let ev = Ev::parse(&l.args()[1]);
        if when == "before" {
          emit_t(&subject, ev.clone());
        }
        let (tx, rx) = std::sync::mpsc::channel();
        let (st2, subj2, ev2, when2) = (status.clone(), subject.clone(), ev.clone(), when.clone());
        std::thread::spawn(move || {
          if when2 == "at_yield" {
            let mut pending = Some((subj2, ev2));
            YIELD.with(|y| {
              *y.borrow_mut() = Some(Box::new(move |name: &'static str| {
                if name == "status:checked" {
                  if let Some((s, e)) = pending.take() {
                    match e {
                      Ev::Next(v) => s.clone().next(v),
                      Ev::Err(x) => s.clone().error(x),
                      Ev::Done => s.clone().complete(),
                    }
                  }
                }
              }))
            });
          }
          CompleteStatus::wait_for_end(st2);
          let _ = tx.send(());
        });
        if when == "after" {
          std::thread::sleep(std::time::Duration::from_millis(30));
          emit_t(&subject, ev.clone());
        }
        // generous: a loaded machine must not turn a slow return into a hang
        match rx.recv_timeout(std::time::Duration::from_millis(4000)) {
          Ok(()) => out.push("returned".into()),
          Err(_) => out.push("HANG".into()),
        }
      }
      _ => emit_t(&subject, Ev::parse(l)),
    }
  }
  let _ = Arc::strong_count(&status);
  out.join(" ")
}

/// the Stream / Future traits are used through their methods only
#[allow(dead_code)]
fn _traits(_: Pin<&mut dyn Stream<Item = ()>>, _: Pin<&mut dyn Future<Output = ()>>) {}
