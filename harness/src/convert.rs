//! to_future / to_stream / collect / complete_status driven label by label (model: `Convert.v`).
use crate::sexp::Sexp;
use crate::val::{Ev, Val};
use futures::{Future, Stream};
use rxrust::ops::complete_status::CompleteStatus;
use rxrust::ops::future::ObservableError;
use rxrust::prelude::*;
use rxrust::scheduler::verif_hook::YIELD;
use std::pin::Pin;
use std::sync::Arc;
use std::task::Context;

fn emit(s: &Subject<'static, Val, i64>, e: Ev) {
  match e {
    Ev::Next(v) => s.clone().next(v),
    Ev::Err(x) => s.clone().error(x),
    Ev::Done => s.clone().complete(),
  }
}

fn showv(v: &Val) -> String {
  let mut s = String::new();
  v.show(&mut s);
  s
}

/// (tofuture (labels L...)) ; L = (n v) | (e k) | c | poll
pub fn run_tofuture(body: &[Sexp]) -> String {
  let subject: Subject<'static, Val, i64> = Subject::default();
  let mut fut = Box::pin(subject.clone().to_future());
  let waker = futures::task::noop_waker();
  let mut out: Vec<String> = vec![];
  for l in body[0].args() {
    match l {
      Sexp::Atom(a) if a == "poll" => {
        let mut cx = Context::from_waker(&waker);
        match fut.as_mut().poll(&mut cx) {
          std::task::Poll::Pending => out.push("pending".into()),
          std::task::Poll::Ready(Ok(Ok(v))) => out.push(format!("(ready (ok {}))", showv(&v))),
          std::task::Poll::Ready(Ok(Err(e))) => out.push(format!("(ready (err {e}))")),
          std::task::Poll::Ready(Err(ObservableError::Empty)) => out.push("(ready empty)".into()),
          std::task::Poll::Ready(Err(ObservableError::MultipleValues)) => out.push("(ready multiple)".into()),
        }
      }
      _ => emit(&subject, Ev::parse(l)),
    }
  }
  out.join(" ")
}

/// (tostream (labels L...))
pub fn run_tostream(body: &[Sexp]) -> String {
  let subject: Subject<'static, Val, i64> = Subject::default();
  let mut st = Box::pin(subject.clone().to_stream());
  let waker = futures::task::noop_waker();
  let mut out: Vec<String> = vec![];
  for l in body[0].args() {
    match l {
      Sexp::Atom(a) if a == "poll" => {
        let mut cx = Context::from_waker(&waker);
        match st.as_mut().poll_next(&mut cx) {
          std::task::Poll::Pending => out.push("pending".into()),
          std::task::Poll::Ready(Some(Ok(v))) => out.push(format!("(item {})", showv(&v))),
          std::task::Poll::Ready(Some(Err(e))) => out.push(format!("(erritem {e})")),
          std::task::Poll::Ready(None) => out.push("end".into()),
        }
      }
      _ => emit(&subject, Ev::parse(l)),
    }
  }
  out.join(" ")
}

/// (status (labels L...)) ; L = (n v) | (e k) | c | flags | (wait WHEN EV)
/// `flags` reports is_closed / is_completed / error_occur.  (wait WHEN EV): a thread calls
/// wait_for_end; the terminal EV is issued before it starts (WHEN = before), between its look at
/// the flag and its registering the waker (at_yield, through the hook), or from this thread after
/// the waiter has gone to sleep (after).  Answer: returned / HANG.
pub fn run_status(body: &[Sexp]) -> String {
  let subject: SubjectThreads<Val, i64> = SubjectThreads::default();
  let (obs, status) = subject.clone().complete_status();
  let _sub = obs.on_error(|_: i64| {}).subscribe(|_: Val| {});
  let mut out: Vec<String> = vec![];
  let emit_t = |s: &SubjectThreads<Val, i64>, e: Ev| match e {
    Ev::Next(v) => s.clone().next(v),
    Ev::Err(x) => s.clone().error(x),
    Ev::Done => s.clone().complete(),
  };
  for l in body[0].args() {
    match l {
      Sexp::Atom(a) if a == "flags" => out.push(format!(
        "(flags {} {} {})",
        if status.is_closed() { "#t" } else { "#f" },
        if status.is_completed() { "#t" } else { "#f" },
        if status.error_occur() { "#t" } else { "#f" }
      )),
      Sexp::List(_) if l.head() == "wait" => {
        let when = l.args()[0].atom().to_string();
        let ev = Ev::parse(&l.args()[1]);
        if when == "before" {
          emit_t(&subject, ev.clone());
        }
        let (tx, rx) = std::sync::mpsc::channel();
        let (st2, subj2, ev2, when2) = (status.clone(), subject.clone(), ev.clone(), when.clone());
        std::thread::spawn(move || {
          if when2 == "at_yield" {
            let mut pending = Some((subj2, ev2));
            YIELD.with(|y| {
              *y.borrow_mut() = Some(Box::new(move |name: &'static str| {
                if name == "status:checked" {
                  if let Some((s, e)) = pending.take() {
                    match e {
                      Ev::Next(v) => s.clone().next(v),
                      Ev::Err(x) => s.clone().error(x),
                      Ev::Done => s.clone().complete(),
                    }
                  }
                }
              }))
            });
          }
          CompleteStatus::wait_for_end(st2);
          let _ = tx.send(());
        });
        if when == "after" {
          std::thread::sleep(std::time::Duration::from_millis(30));
          emit_t(&subject, ev.clone());
        }
        // generous: a loaded machine must not turn a slow return into a hang
        match rx.recv_timeout(std::time::Duration::from_millis(4000)) {
          Ok(()) => out.push("returned".into()),
          Err(_) => out.push("HANG".into()),
        }
      }
      _ => emit_t(&subject, Ev::parse(l)),
    }
  }
  let _ = Arc::strong_count(&status);
  out.join(" ")
}

/// the Stream / Future traits are used through their methods only
#[allow(dead_code)]
fn _traits(_: Pin<&mut dyn Stream<Item = ()>>, _: Pin<&mut dyn Future<Output = ()>>) {}

/// (status2 N (script EV...)): complete_status() above take(N) - an operator that finishes early - over a create() source
/// that plays the script; the status must follow the SOURCE's terminal, whatever the downstream did before
pub fn run_status2(body: &[Sexp]) -> String {
  let n = body[0].usize();
  let evs: Vec<Ev> = body[1].args().iter().map(Ev::parse).collect();
  let src = observable::create(move |mut s: SubscriberThreads<_>| {
    for e in evs {
      match e {
        Ev::Next(v) => s.next(v),
        Ev::Err(x) => s.clone().error(x),
        Ev::Done => s.clone().complete(),
      }
    }
  });
  let (obs, status) = src.complete_status();
  let _sub = obs.take(n).on_error(|_: i64| {}).subscribe(|_: Val| {});
  format!(
    "(flags {} {} {})",
    if status.is_closed() { "#t" } else { "#f" },
    if status.is_completed() { "#t" } else { "#f" },
    if status.error_occur() { "#t" } else { "#f" }
  )
}

thread_local! {
  /// what the consumer task does when it is woken
  static ON_WAKE: std::cell::RefCell<Option<Box<dyn FnMut()>>> = std::cell::RefCell::new(None);
}

fn waking_waker() -> std::task::Waker {
  use std::task::{RawWaker, RawWakerVTable, Waker};
  fn clone(_: *const ()) -> RawWaker {
    RawWaker::new(std::ptr::null(), &VTABLE)
  }
  fn noop(_: *const ()) {}
  fn wake(_: *const ()) {
    // run the consumer now (the producer is in the middle of its call); a wake during the consumer's own polling is ignored
    let f = ON_WAKE.with(|w| w.borrow_mut().take());
    if let Some(mut f) = f {
      f();
      ON_WAKE.with(|w| *w.borrow_mut() = Some(f));
    }
  }
  static VTABLE: RawWakerVTable = RawWakerVTable::new(clone, wake, wake, noop);
  unsafe { Waker::from_raw(RawWaker::new(std::ptr::null(), &VTABLE)) }
}

/// (tostream_wake (labels L...)): the consumer is a task that, whenever it is woken, polls the stream until it answers
/// Pending or ends - also when the wake-up comes in the middle of a call of the producer (error() sends two messages)
pub fn run_tostream_wake(body: &[Sexp]) -> String {
  use std::cell::RefCell;
  use std::rc::Rc;
  let subject: Subject<'static, Val, i64> = Subject::default();
  let st = Rc::new(RefCell::new(Box::pin(subject.clone().to_stream())));
  let out: Rc<RefCell<Vec<String>>> = Rc::default();
  let finished = Rc::new(std::cell::Cell::new(false));
  let drain = {
    let (st, out, finished) = (st.clone(), out.clone(), finished.clone());
    move || {
      let waker = waking_waker();
      while !finished.get() {
        let mut cx = Context::from_waker(&waker);
        let r = st.borrow_mut().as_mut().poll_next(&mut cx);
        match r {
          std::task::Poll::Pending => {
            out.borrow_mut().push("pending".into());
            break;
          }
          std::task::Poll::Ready(Some(Ok(v))) => out.borrow_mut().push(format!("(item {})", showv(&v))),
          std::task::Poll::Ready(Some(Err(e))) => out.borrow_mut().push(format!("(erritem {e})")),
          std::task::Poll::Ready(None) => {
            out.borrow_mut().push("end".into());
            finished.set(true);
          }
        }
      }
    }
  };
  ON_WAKE.with(|w| *w.borrow_mut() = Some(Box::new(drain.clone())));
  let mut drain = drain;
  for l in body[0].args() {
    match l {
      Sexp::Atom(a) if a == "poll" => {
        // an explicit poll runs with the wake-up handler parked, as the task would be running
        let f = ON_WAKE.with(|w| w.borrow_mut().take());
        drain();
        ON_WAKE.with(|w| *w.borrow_mut() = f);
      }
      Sexp::Atom(a) if a == "poll0" => {
        // somebody else polls once with a waker of its own (a lost select! arm, an expired timeout): from now on that
        // waker is the registered one, until the consumer task polls again
        if !finished.get() {
          let other = futures::task::noop_waker();
          let mut cx = Context::from_waker(&other);
          let r = st.borrow_mut().as_mut().poll_next(&mut cx);
          match r {
            std::task::Poll::Pending => out.borrow_mut().push("pending0".into()),
            std::task::Poll::Ready(Some(Ok(v))) => out.borrow_mut().push(format!("(item0 {})", showv(&v))),
            std::task::Poll::Ready(Some(Err(e))) => out.borrow_mut().push(format!("(erritem0 {e})")),
            std::task::Poll::Ready(None) => {
              out.borrow_mut().push("end0".into());
              finished.set(true);
            }
          }
        }
      }
      _ => emit(&subject, Ev::parse(l)),
    }
  }
  ON_WAKE.with(|w| *w.borrow_mut() = None);
  let r = out.borrow().join(" ");
  r
}
