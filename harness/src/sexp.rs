//! Minimal S-expression reader shared by every case kind.
#[derive(Clone, Debug, PartialEq)]
pub enum Sexp {
  Atom(String),
  List(Vec<Sexp>),
}

impl Sexp {
  pub fn atom(&self) -> &str {
    match self {
      Sexp::Atom(s) => s,
      Sexp::List(_) => panic!("expected atom, got {self:?}"),
    }
  }
  pub fn list(&self) -> &[Sexp] {
    match self {
      Sexp::List(l) => l,
      Sexp::Atom(_) => panic!("expected list, got {self:?}"),
    }
  }
  pub fn int(&self) -> i64 {
    self.atom().parse().unwrap_or_else(|_| panic!("expected int, got {self:?}"))
  }
  pub fn usize(&self) -> usize {
    // counts far beyond any script a case can hold (the model runs them as 5000)
    match self.atom() {
      "big" => return usize::MAX,
      "big1" => return usize::MAX - 1,
      "mid" => return 1usize << 33,
      _ => {}
    }
    self.atom().parse().unwrap_or_else(|_| panic!("expected usize, got {self:?}"))
  }
  /// head symbol of a list, or the atom itself
  pub fn head(&self) -> &str {
    match self {
      Sexp::Atom(s) => s,
      Sexp::List(l) => l[0].atom(),
    }
  }
  /// arguments after the head symbol (empty for an atom)
  pub fn args(&self) -> &[Sexp] {
    match self {
      Sexp::Atom(_) => &[],
      Sexp::List(l) => &l[1..],
    }
  }
}

pub fn parse(src: &str) -> Sexp {
  let bytes = src.as_bytes();
  let mut pos = 0usize;
  let r = parse_at(bytes, &mut pos);
  r
}

fn skip_ws(b: &[u8], pos: &mut usize) {
  while *pos < b.len() && (b[*pos] as char).is_whitespace() {
    *pos += 1;
  }
}

fn parse_at(b: &[u8], pos: &mut usize) -> Sexp {
  skip_ws(b, pos);
  if b[*pos] == b'(' {
    *pos += 1;
    let mut items = vec![];
    loop {
      skip_ws(b, pos);
      if b[*pos] == b')' {
        *pos += 1;
        return Sexp::List(items);
      }
      items.push(parse_at(b, pos));
    }
  } else {
    let start = *pos;
    while *pos < b.len()
      && !(b[*pos] as char).is_whitespace()
      && b[*pos] != b'('
      && b[*pos] != b')'
    {
      *pos += 1;
    }
    Sexp::Atom(String::from_utf8_lossy(&b[start..*pos]).into_owned())
  }
}
