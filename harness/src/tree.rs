//! Pipelines as trees over indexed hot inputs (model: `Pipe.v`), observed by the recording
//! probe or through the closure idiom `.on_error(f).on_complete(g).subscribe(h)`.
use crate::probe::Probe;
use crate::sexp::Sexp;
use crate::val::{Ev, Val};
use rxrust::prelude::*;
use std::sync::{Arc, Mutex};

macro_rules! tree_runner {
  ($m:ident, $chain:ident) => {
    mod $m {
      use super::*;
      use crate::chain::$chain::{apply_op2, apply_uops, build_src, emit, Obs, Subj};

      fn build(p: &Sexp, subjects: &mut Vec<Subj>) -> Obs {
        let a = p.args();
        match p.head() {
          "hot" => {
            let i = a[0].usize();
            while subjects.len() <= i {
              subjects.push(Subj::default());
            }
            subjects[i].clone().box_it()
          }
          "cold" => {
            let mut l = vec![Sexp::Atom("create".into())];
            l.extend_from_slice(a);
            build_src(&Sexp::List(l))
          }
          "src" => build_src(&a[0]),
          "chain" => {
            let inner = build(&a[0], subjects);
            apply_uops(inner, a[1].args())
          }
          "op2" => {
            let x = build(&a[1], subjects);
            let y = build(&a[2], subjects);
            apply_op2(&a[0], x, y)
          }
          h => panic!("bad pipe {h}"),
        }
      }

      pub fn run(body: &[Sexp]) -> String {
        let mut subjects: Vec<Subj> = vec![];
        let obs = build(&body[0], &mut subjects);
        let idiom = body.get(2).map_or(false, |s| s.atom() == "idiom");
        let log: Arc<Mutex<Vec<Ev>>> = Arc::default();
        let plog;
        let _keep: Box<dyn std::any::Any>;
        if idiom {
          let (l1, l2, l3) = (log.clone(), log.clone(), log.clone());
          let sub = obs
            .on_error(move |e: i64| l1.lock().unwrap().push(Ev::Err(e)))
            .on_complete(move || l2.lock().unwrap().push(Ev::Done))
            .subscribe(move |v: Val| l3.lock().unwrap().push(Ev::Next(v)));
          _keep = Box::new(sub);
          plog = None;
        } else {
          let (probe, l) = Probe::new();
          let sub = obs.actual_subscribe(probe);
          _keep = Box::new(sub);
          plog = Some(l);
        }
        for st in body[1].args() {
          let i = st.head().parse::<usize>().expect("subject index");
          if let Some(s) = subjects.get(i) {
            emit(s, Ev::parse(&st.args()[0]));
          }
        }
        std::mem::forget(_keep);
        match plog {
          Some(l) => crate::val::show_trace(&l.take()),
          None => crate::val::show_trace(&log.lock().unwrap()),
        }
      }
    }
  };
}

tree_runner!(local, local);
tree_runner!(threads, threads);

/// (tree FORM PIPE (stims (I EV)...) [idiom])
pub fn run_tree(body: &[Sexp]) -> String {
  match body[0].atom() {
    "local" => local::run(&body[1..]),
    "threads" => threads::run(&body[1..]),
    f => panic!("bad tree form {f}"),
  }
}
