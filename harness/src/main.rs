//! rxRust verification harness: executes case files against the real crate and prints
//! one canonical result line per case.
mod asyncsrc;
mod chain;
mod conc;
mod convert;
mod finalize;
mod flatten;
mod group;
mod ileave;
mod ileave2;
mod indep;
mod locks;
mod probe;
mod retire;
mod sexp;
mod share;
mod subalg;
mod subj;
mod timed;
mod tree;
mod val;

use sexp::Sexp;
use std::io::{BufRead, Write};
use std::panic::{catch_unwind, AssertUnwindSafe};

fn run_case(case: &Sexp) -> String {
  // (case ID KIND BODY...)
  let l = case.list();
  let kind = l[2].atom();
  let body = &l[3..];
  match kind {
    "chain" => chain::local::run_chain(body),
    "hotchain" => chain::local::run_hotchain(body),
    "chain_t" => chain::threads::run_chain(body),
    "hotchain_t" => chain::threads::run_hotchain(body),
    "group_by" => group::run_group_by(body),
    "flatten" => flatten::run_flatten(body),
    "timed" => timed::run_timed(body),
    "timedchain" => timed::run_timedchain(body),
    "timed2" => timed::run_timed2(body),
    "async" => asyncsrc::run_async(body),
    "atform" => timed::run_atform(body),
    "subalg" => subalg::run_subalg(body),
    "retire" => retire::run_retire(body),
    "conc" => conc::run_conc(body),
    "sched_race" => conc::run_sched_race(body),
    "unsub_race" => conc::run_unsub_race(body),
    "handshake" => conc::run_handshake(body),
    "guard_unwind" => conc::run_guard_unwind(body),
    "share_reenter" => share::run_share_reenter(body),
    "locks" => locks::run_locks(body),
    "ileave" => ileave::run_ileave(body),
    "ileave2" => ileave2::run_ileave2(body),
    "tofuture" => convert::run_tofuture(body),
    "tostream" => convert::run_tostream(body),
    "tostream_wake" => convert::run_tostream_wake(body),
    "status" => convert::run_status(body),
    "status2" => convert::run_status2(body),
    "share" => share::run_share(body),
    "indep" => indep::run_indep(body),
    "tree" => tree::run_tree(body),
    "finalize" => finalize::run_finalize(body),
    "finalize_race" => finalize::run_finalize_race(body),
    "subject" => subj::run_subject(body),
    "behavior" => subj::run_behavior(body),
    "op2" => chain::local::run_op2(body),
    "op2_t" => chain::threads::run_op2(body),
    k => panic!("unknown case kind {k}"),
  }
}

/// Case kinds that may block (a self-deadlock on a Mutex): run under a watchdog so that a
/// hang is an observation, never a hung check.
fn may_hang(case: &Sexp) -> bool {
  let l = case.list();
  // real threads racing on a thread-safe operator: a lock-order mistake makes them wait for each other for ever
  if matches!(l[2].atom(), "finalize_race" | "unsub_race" | "handshake") {
    return true;
  }
  matches!(l[2].atom(), "flatten" | "finalize") && l[3].atom() == "threads"
}

/// Cases that repeat a real-thread race ROUNDS times legitimately run long (thorough tier, loaded machine): extra time per round.
fn extra_ms(case: &Sexp) -> u64 {
  let l = case.list();
  match l[2].atom() {
    "finalize_race" | "sched_race" | "unsub_race" => l.get(3).map(|r| r.usize() as u64).unwrap_or(0) * 60,
    "handshake" => l.get(4).map(|r| r.usize() as u64).unwrap_or(0) * 200,
    "conc" => 120_000,
    _ => 0,
  }
}

fn run_guarded(case: Sexp) -> String {
  if !may_hang(&case) {
    return run_protected(&case);
  }
  let case_copy = case.clone();
  let (tx, rx) = std::sync::mpsc::channel();
  std::thread::spawn(move || {
    let r = run_protected(&case);
    let _ = tx.send(r);
  });
  // A loaded machine can starve a healthy case for a long time: after the first short wait keep
  // waiting (long for the first few suspects, shorter once hangs have been confirmed in this run).
  use std::sync::atomic::{AtomicUsize, Ordering};
  static CONFIRMED: AtomicUsize = AtomicUsize::new(0);
  if let Ok(r) = rx.recv_timeout(std::time::Duration::from_millis(400)) {
    return r;
  }
  let extra = (if CONFIRMED.load(Ordering::SeqCst) < 4 { 20_000 } else { 3_000 }) + extra_ms(&case_copy);
  match rx.recv_timeout(std::time::Duration::from_millis(extra)) {
    Ok(r) => r,
    Err(_) => {
      CONFIRMED.fetch_add(1, Ordering::SeqCst);
      "HANG".to_string()
    }
  }
}

fn run_protected(case: &Sexp) -> String {
  let r = catch_unwind(AssertUnwindSafe(|| run_case(case)));
  match r {
    Ok(t) => t,
    Err(e) => {
      let msg = e
        .downcast_ref::<String>()
        .cloned()
        .or_else(|| e.downcast_ref::<&str>().map(|s| s.to_string()))
        .unwrap_or_default();
      format!("PANIC {}", msg.replace('\n', " "))
    }
  }
}

fn main() {
  let args: Vec<String> = std::env::args().collect();
  let path = &args[1];
  let threads: usize = args.get(2).and_then(|s| s.parse().ok()).unwrap_or(1).max(1);
  let file = std::fs::File::open(path).expect("case file");
  let lines: Vec<String> = std::io::BufReader::new(file)
    .lines()
    .map(|l| l.unwrap())
    .filter(|l| !l.trim().is_empty())
    .collect();
  std::panic::set_hook(Box::new(|_| {}));
  // Workers take the cases one by one; a monitor declares a case that has been running for STALL seconds a HANG, leaves
  // its thread where it is stuck and starts another worker, so that one blocked case (a deadlock under a changed crate,
  // in a case kind without a watchdog of its own) is an observation and the run still ends.
  use std::sync::atomic::{AtomicUsize, Ordering};
  use std::sync::{Arc, Mutex};
  use std::time::{Duration, Instant};
  const STALL: u64 = 45;
  let lines = Arc::new(lines);
  let next = Arc::new(AtomicUsize::new(0));
  let results: Arc<Mutex<Vec<Option<String>>>> = Arc::new(Mutex::new(vec![None; lines.len()]));
  // per worker: the case it is running and since when
  let running: Arc<Mutex<Vec<Option<(usize, Instant, u64)>>>> = Arc::new(Mutex::new(vec![]));
  let spawn_worker = {
    let (lines, next, results, running) = (lines.clone(), next.clone(), results.clone(), running.clone());
    move || {
      let (lines, next, results, running) = (lines.clone(), next.clone(), results.clone(), running.clone());
      let slot = {
        let mut r = running.lock().unwrap();
        r.push(None);
        r.len() - 1
      };
      std::thread::spawn(move || loop {
        let i = next.fetch_add(1, Ordering::SeqCst);
        if i >= lines.len() {
          running.lock().unwrap()[slot] = None;
          break;
        }
        let case = sexp::parse(&lines[i]);
        // the watchdog of a guarded case gives up before the monitor does
        running.lock().unwrap()[slot] = Some((i, Instant::now(), extra_ms(&case) + if may_hang(&case) { 25_000 } else { 0 }));
        let id = case.list()[1].atom().to_string();
        let t = run_guarded(case);
        let mut res = results.lock().unwrap();
        if res[i].is_none() {
          res[i] = Some(format!("{id} {t}"));
        } else {
          // declared a HANG meanwhile: this worker has been replaced
          break;
        }
      });
    }
  };
  for _ in 0..threads.min(lines.len().max(1)) {
    spawn_worker();
  }
  let mut hangs = 0usize;
  loop {
    std::thread::sleep(Duration::from_millis(50));
    let done = results.lock().unwrap().iter().all(|r| r.is_some());
    if done {
      break;
    }
    let mut stalled = vec![];
    {
      let mut r = running.lock().unwrap();
      for slot in r.iter_mut() {
        if let Some((i, since, allowance)) = *slot {
          // a loaded machine can starve a healthy case: long waits for the first suspects, short ones once hangs are confirmed
          let limit = if hangs < 4 { STALL } else { 5 };
          if since.elapsed() > Duration::from_secs(limit) + Duration::from_millis(allowance) {
            stalled.push(i);
            *slot = None;
          }
        }
      }
    }
    for i in stalled {
      let mut res = results.lock().unwrap();
      if res[i].is_none() {
        let id = sexp::parse(&lines[i]).list()[1].atom().to_string();
        res[i] = Some(format!("{id} HANG"));
        drop(res);
        hangs += 1;
        spawn_worker();
      }
    }
    if hangs >= 32 {
      // enough to report: the cases not yet run stay out of the comparison
      let mut res = results.lock().unwrap();
      for (i, r) in res.iter_mut().enumerate() {
        if r.is_none() {
          let id = sexp::parse(&lines[i]).list()[1].atom().to_string();
          *r = Some(format!("{id} NOTRUN"));
        }
      }
      break;
    }
  }
  let stdout = std::io::stdout();
  {
    let mut w = std::io::BufWriter::new(stdout.lock());
    for r in results.lock().unwrap().iter() {
      writeln!(w, "{}", r.as_ref().unwrap().trim_end()).unwrap();
    }
    w.flush().unwrap();
  }
  // threads stuck in a hung case die with the process
  std::process::exit(0);
}
