//! Which mutexes an operation on a thread-safe pipeline locks, in order (through the crate's
//! lock_point hook; model: `Conc.v`).  Addresses are renamed by first appearance within the case.
use crate::probe::Probe;
use crate::sexp::Sexp;
use crate::val::{Ev, Val};
use rxrust::prelude::*;
use rxrust::scheduler::verif_hook::LOCKS;
use std::collections::HashMap;

type Subj = SubjectThreads<Val, i64>;
type Obs = rxrust::ops::box_it::CloneableBoxOpThreads<Val, i64>;

fn record<F: FnOnce()>(f: F) -> Vec<usize> {
  LOCKS.with(|l| *l.borrow_mut() = Some(vec![]));
  f();
  LOCKS.with(|l| l.borrow_mut().take().unwrap_or_default())
}

fn build(p: &Sexp, subjects: &mut Vec<Subj>) -> Obs {
  let a = p.args();
  match p.head() {
    "hot" => {
      let i = a[0].usize();
      while subjects.len() <= i {
        subjects.push(Subj::default());
      }
      subjects[i].clone().box_it()
    }
    "merge" => build(&a[0], subjects).merge_threads(build(&a[1], subjects)).box_it(),
    "zip" => build(&a[0], subjects)
      .zip_threads(build(&a[1], subjects))
      .map(|(x, y)| Val::P(Box::new(x), Box::new(y)))
      .box_it(),
    "take_until" => build(&a[0], subjects).take_until_threads(build(&a[1], subjects)).box_it(),
    "skip_until" => build(&a[0], subjects).skip_until_threads(build(&a[1], subjects)).box_it(),
    "share" => build(&a[0], subjects).share_threads().box_it(),
    "map" => build(&a[0], subjects).map(|v| v).box_it(),
    h => panic!("bad locks pipe {h}"),
  }
}

/// (locks PIPE NSUBS (ops (I EV)... (unsub K)))
pub fn run_locks(body: &[Sexp]) -> String {
  let mut subjects: Vec<Subj> = vec![];
  let obs = build(&body[0], &mut subjects);
  let nsubs = body[1].usize();
  let mut names: HashMap<usize, usize> = HashMap::new();
  let mut out: Vec<String> = vec![];
  let mut show = |tag: &str, v: Vec<usize>| {
    let ids: Vec<String> = v
      .iter()
      .map(|a| {
        let n = names.len();
        format!("{}", *names.entry(*a).or_insert(n))
      })
      .collect();
    out.push(format!("({} {})", tag, ids.join(" ")));
  };
  let mut handles: Vec<Option<BoxSubscriptionThreads>> = vec![];
  for _ in 0..nsubs {
    let o = obs.clone();
    let mut h = None;
    let v = record(|| {
      let (probe, _log) = Probe::new();
      h = Some(BoxSubscriptionThreads::new(o.actual_subscribe(probe)));
    });
    handles.push(h);
    show("sub", v);
  }
  for op in body[2].args() {
    match op.head() {
      "unsub" => {
        let k = op.args()[0].usize();
        if let Some(h) = handles.get_mut(k).and_then(|h| h.take()) {
          let v = record(|| h.unsubscribe());
          show("unsub", v);
        }
      }
      i => {
        let i: usize = i.parse().expect("subject index");
        let e = Ev::parse(&op.args()[0]);
        if let Some(s) = subjects.get(i).cloned() {
          let tag = match e {
            Ev::Next(_) => "next",
            Ev::Err(_) => "error",
            Ev::Done => "complete",
          };
          let v = record(|| match e {
            Ev::Next(v) => s.clone().next(v),
            Ev::Err(x) => s.clone().error(x),
            Ev::Done => s.clone().complete(),
          });
          show(tag, v);
        }
      }
    }
  }
  for h in handles.drain(..) {
    std::mem::forget(h);
  }
  out.join(" ")
}
