(* Case kinds: each returns (model result, specification result); `oracle` judges the
   implementation's own trace against the specification predicates where the specification
   is a set of predicates rather than one function. *)
open Model
open Driver


(* ---- interleavings of threads on a thread-safe subject (Ileave.v) ---- *)
let iop_of (s : sexp) : iop =
  let a = args s in
  match head s with
  | "n" -> INext (zarg (List.hd a))
  | "c" | "bc" -> ITerm None
  | "e" | "be" -> ITerm (Some (zarg (List.hd a)))
  | "sub" -> ISub (narg (List.hd a))
  | "unsub" -> IUnsub (narg (List.hd a))
  | "bn" -> IBNext (zarg (List.hd a))
  | "bsub" -> IBSub (narg (List.hd a))
  | "peek" -> IBPeek
  | "sunsub" | "bsunsub" -> ISUnsub
  | h -> failwith ("bad ileave op " ^ h)

let ileave_parts (body : sexp list) =
  (zarg (List.nth body 0), List.map iop_of (args (List.nth body 1)),
   List.map (fun s -> match s with List l -> List.map iop_of l | Atom _ -> failwith "bad script") (args (List.nth body 2)),
   List.map narg (args (List.nth body 3)))

let show_payload = function
  | YItem v -> Printf.sprintf "(n %d)" (int_of_z v)
  | YTerm None -> "c"
  | YTerm (Some e) -> Printf.sprintf "(e %d)" (int_of_z e)

let show_itrace (tr : itr list) (e : iend) (final : z) : string =
  let names = Hashtbl.create 16 in
  let name (l : ilock) = (match Hashtbl.find_opt names l with
                          | Some n -> n
                          | None -> let n = Hashtbl.length names in Hashtbl.add names l n; n) in
  let items = List.map (function
      | TAcq (t, l) -> Printf.sprintf "(a %d %d)" (int_of_nat t) (name l)
      | TEv (k, p, t, j) -> Printf.sprintf "(v %d %s %d %d)" (int_of_nat k) (show_payload p) (int_of_nat t) (int_of_nat j)
      | TPk (x, t, j) -> Printf.sprintf "(pk %d %d %d)" (int_of_z x) (int_of_nat t) (int_of_nat j)
      | TUn (k, t, j) -> Printf.sprintf "(u %d %d %d)" (int_of_nat k) (int_of_nat t) (int_of_nat j)
      | TOverlap k -> Printf.sprintf "(ov %d)" (int_of_nat k)
      | TPanic t -> Printf.sprintf "(panic %d)" (int_of_nat t)) tr in
  String.concat " " (items @ (match e with
                              | EFinished -> [Printf.sprintf "(val %d)" (int_of_z final); "fin"]
                              | EDeadlock -> ["deadlock"]
                              | EShort -> ["short"]))

(* the implementation's trace, read back: (events, how it ended, final value) *)
let itrace_of (impl : string) : itr list * string * z =
  match parse ("(" ^ impl ^ ")") with
  | List l ->
      let fin = ref Z0 and ending = ref "none" in
      let evs = List.filter_map (fun x -> match x with
          | List [Atom "a"; t; n] -> Some (TAcq (narg t, LCell (narg n)))
          | List [Atom "v"; k; p; t; j] ->
              let p = (match p with
                       | Atom "c" -> YTerm None
                       | List [Atom "e"; x] -> YTerm (Some (zarg x))
                       | List [Atom "n"; x] -> YItem (zarg x)
                       | _ -> failwith "bad payload") in
              Some (TEv (narg k, p, narg t, narg j))
          | List [Atom "pk"; x; t; j] -> Some (TPk (zarg x, narg t, narg j))
          | List [Atom "u"; k; t; j] -> Some (TUn (narg k, narg t, narg j))
          | List [Atom "ov"; k] -> Some (TOverlap (narg k))
          | List [Atom "val"; x] -> fin := zarg x; None
          | List [Atom "panic"; _] -> ending := "panic"; None
          | Atom w -> (if !ending <> "panic" then ending := w); None
          | _ -> failwith "bad ileave trace") l in
      (evs, !ending, !fin)
  | _ -> failwith "bad ileave trace"


(* ---- interleavings on pipelines of thread-safe operators (ileave2.rs): judged for safety, and tied to
   the sequential models by linearizability ---- *)
let rec merges (ls : 'a list list) : 'a list list =
  let ls = List.filter (fun l -> l <> []) ls in
  if ls = [] then [[]] else
  List.concat (List.mapi (fun i l ->
      match l with
      | x :: r -> List.map (fun m -> x :: m) (merges (List.mapi (fun k l' -> if k = i then r else l') ls))
      | [] -> []) ls)

type i2ev = I2Ev of ev * int * int | I2Ov | I2Un of int * int | I2Call of int * int | I2Panic | I2Closed of bool

let i2trace_of (impl : string) : i2ev list * string =
  match parse ("(" ^ impl ^ ")") with
  | List l ->
      let ending = ref "none" in
      let evs = List.filter_map (fun x -> match x with
          | List [Atom "v"; e; t; j] -> Some (I2Ev (ev_of e, int_of t, int_of j))
          | List [Atom "ov"; _] -> Some I2Ov
          | List [Atom "u"; t; j] -> Some (I2Un (int_of t, int_of j))
          | List [Atom "call"; t; j] -> Some (I2Call (int_of t, int_of j))
          | List [Atom "rb"; b; _; _] -> Some (I2Closed (b = Atom "#t"))
          | List [Atom "panic"; _] -> Some I2Panic
          | Atom w -> ending := w; None
          | _ -> failwith "bad ileave2 trace") l in
      (evs, !ending)
  | _ -> failwith "bad ileave2 trace"

(* what the sequential model delivers for one merged sequence of operations *)
let i2_sequential (pipe : sexp) (ops : sexp list) : ev list =
  match head pipe with
  | "op2" ->
      let o = op2_of (List.hd (args pipe)) in
      let rec upto = function [] -> [] | x :: r -> (match head x with "u" -> [] | _ -> x :: upto r) in
      let side_ev s = ((match head s with "a" -> A | "b" -> B | _ -> failwith "bad side"), ev_of (List.hd (args s))) in
      run_op2 o (List.map side_ev (upto ops))
  | "flat" ->
      let lim = (match List.hd (args pipe) with Atom "inf" -> None | n -> Some (narg n)) in
      List.filter_map (function FItem (_, v) -> Some (Next v) | FTerm e -> Some e | _ -> None)
        (run_flatten lim (List.map fstim_of ops))
  | _ -> failwith "no sequential model"

(* Histories with a member whose own teardown appends another leaf to the composite it sits in ("append_chained K J"):
   in the model that is `append K`, and an `append J` right after K's teardown - which, the composite being closed by then
   (it is marked closed before its members are torn down), tears J down at once.  Returns the model history and the
   expected observation in the implementation's order (J's teardown right after K's). *)
let subalg_chained (ops : sexp list) : cop list * cobs list =
  let hist = ref [] and out = ref [] and chains = ref [] in
  List.iter (fun op ->
      match op with
      | List [Atom "append_chained"; k; j] ->
          chains := (narg k, narg j) :: !chains;
          hist := !hist @ [CAppend (narg k)]
      | _ ->
          let c = cop_of op in
          let before = List.length (crun cstate0 !hist) in
          let after = crun cstate0 (!hist @ [c]) in
          let fresh = List.filteri (fun i _ -> i >= before) after in
          hist := !hist @ [c];
          List.iter (fun o ->
              out := !out @ [o];
              match o with
              | CKilled k when List.mem_assoc k !chains ->
                  let j = List.assoc k !chains in
                  chains := List.remove_assoc k !chains;
                  let b2 = List.length (crun cstate0 !hist) in
                  let a2 = crun cstate0 (!hist @ [CAppend j]) in
                  hist := !hist @ [CAppend j];
                  out := !out @ List.filteri (fun i _ -> i >= b2) a2
              | _ -> ()) fresh) ops;
  (!hist, !out)

let rec run_case (kind : string) (body : sexp list) : string * string =
  match kind with
  | "chain" ->
      let src = src_of (List.nth body 0) in
      let us = List.map uop_of (args (List.nth body 1)) in
      (show_trace (run_src src us), show_trace (uchain_spec us (src_spec src)))
  | "hotchain" ->
      let calls = List.map ev_of (args (List.nth body 0)) in
      (* (cut K _): the subscription is unsubscribed after K calls: the rest reaches nobody *)
      let calls = (match List.nth_opt body 2 with
                   | Some c -> let k = int_of (List.hd (args c)) in List.filteri (fun i _ -> i < k) calls
                   | None -> calls) in
      let us = List.map uop_of (args (List.nth body 1)) in
      (show_trace (run_hot (expand_all us) (slot calls)), show_trace (uchain_spec us (slot calls)))
  | "chain_t" -> run_case "chain" body
  | "hotchain_t" -> run_case "hotchain" body
  | "op2" | "op2_t" ->
      let o = op2_of (List.nth body 0) in
      let input s = (atom (List.hd (args s)) = "hot", List.map ev_of (List.tl (args s))) in
      let (hot_a, script_a) = input (List.nth body 1) in
      let (hot_b, script_b) = input (List.nth body 2) in
      let side_ev s = ((match head s with "a" -> A | "b" -> B | _ -> failwith "bad side"), ev_of (List.hd (args s))) in
      (* the timeline ends where the subscription is unsubscribed *)
      let rec upto = function [] -> [] | x :: r -> (match head x with "u" | "ud" -> [] | _ -> x :: upto r) in
      let hot_tl = List.map side_ev (upto (args (List.nth body 3))) in
      (* a cold input emits its script during its own subscription, in subscription order *)
      let cold sd hot script = if hot then [] else List.map (fun e -> (sd, e)) (slot script) in
      let ca = cold A hot_a script_a and cb = cold B hot_b script_b in
      let pre = (match first_side o with A -> ca @ cb | B -> cb @ ca) in
      let tl = pre @ hot_tl in
      (show_trace (run_op2 o tl), show_trace (spec_op2 o tl))
  | "subject" ->
      let h = List.map sop_of (args (List.nth body 1)) in
      (* sub_closed on a subscriber that does not exist yet is skipped by the harness *)
      (show_sobs_list (srun subj0 h),
       if size_ok false h then show_sobs_list (arun asub0 h) else "UNSPECIFIED")
  | "behavior" ->
      let init = val_of (List.nth body 1) in
      let raw = args (List.nth body 2) in
      (* `peekcb`: every next callback reads the subject back while the delivery is in progress; an item is delivered when the value
         cell holds it (next / next_by store first, a new subscriber is handed what the cell holds), so it reads that item *)
      let peekcb = (match raw with Atom "peekcb" :: _ -> true | _ -> false) in
      let h = List.map bop_of (if peekcb then List.tl raw else raw) in
      let splice l = if peekcb then List.concat_map (fun o -> match o with BO (Deliver (_, Next v)) -> [o; BPeeked v] | _ -> [o]) l else l in
      (show_bobs_list (splice (brun (bsubj0 init) h)),
       if size_ok false (sops_of h) then show_bobs_list (splice (abrun (asub0, init) h)) else "UNSPECIFIED")
  | "group_by" when atom_opt (List.nth body 1) = Some "chunk2" || List.length body > 3 ->
      (* variants outside the pure-key / whole-stream family: a key function with a state of its own (the n-th item's key is
         n / 2: it must be called once per item), and take(N) on the stream of groups (groups announced before the cut keep
         receiving their items and the terminal; later keys are announced to nobody) *)
      let calls = slot (List.map ev_of (args (List.nth body 2))) in
      let chunk = atom_opt (List.nth body 1) = Some "chunk2" in
      let key = if chunk then (fun v -> match v with VP (VZ p, _) -> z_of_int_val (int_of_z p / 2) | x -> x)
                else apply_fn (fn_of (List.nth body 1)) in
      let calls' = if chunk then List.mapi (fun i e -> match e with Next v -> Next (VP (VZ (z_of_int i), v)) | x -> x) calls else calls in
      let strip v = if chunk then (match v with VP (_, x) -> x | x -> x) else v in
      let gevs = List.map (function GItem (k, v) -> GItem (k, strip v) | x -> x) (run_group_by key calls') in
      let gevs = (match List.nth_opt body 3 with
          | Some (List [Atom "take"; n]) ->
              let n = int_of n in
              let announced = ref [] and cut = ref (n = 0) in
              let out = ref (if n = 0 then [OuterTerm Done] else []) in
              List.iter (fun g -> match g with
                  | Announce k ->
                      if not !cut then begin
                        announced := k :: !announced; out := g :: !out;
                        if List.length !announced = n then (cut := true; out := OuterTerm Done :: !out)
                      end
                  | GItem (k, _) | GTerm (k, _) -> if List.exists (fun a -> val_eqb a k) !announced then out := g :: !out
                  | OuterTerm _ -> if not !cut then out := g :: !out) gevs;
              List.rev !out
          | Some (List [Atom "ignore"; k]) ->
              (* the consumer leaves the group of this key without a subscriber: it is announced (once), nobody hears its items *)
              let k = val_of k in
              List.filter (function GItem (k', _) | GTerm (k', _) -> not (val_eqb k k') | _ -> true) gevs
          | _ -> gevs) in
      (show_gevs gevs, "UNSPECIFIED")
  | "group_by" ->
      let key = apply_fn (fn_of (List.nth body 1)) in
      let calls = slot (List.map ev_of (args (List.nth body 2))) in
      (show_gevs (run_group_by key calls), "UNSPECIFIED")
  | "flatten" ->
      (* (flatten FORM API LIMIT (stims ...)) *)
      let api = atom (List.nth body 1) in
      let lim = (match api, List.nth body 2 with
                 | ("concat_all" | "concat_map"), _ -> Some (S O)
                 | ("flatten" | "flat_map"), _ -> None
                 | _, Atom "inf" -> None
                 | _, n -> Some (narg n)) in
      let sts = List.map fstim_of (args (List.nth body 3)) in
      (show_fouts (run_flatten lim sts), "UNSPECIFIED")
  | "timed" ->
      (* (timed FORM OP (labels ...)) *)
      let o = top_of (List.nth body 1) in
      let ls = List.map tlab_of (args (List.nth body 2)) in
      (* label sequences of the "executor runs as the timers fall due" shape have an exact specification *)
      let spec =
        let rec find n = if n > 12 then "UNSPECIFIED" else
          (match prompt_case o (nat_of_int n) with
           | Some (pl, pt) when pl = ls -> show_touts pt
           | _ -> find (n + 1)) in
        find 1 in
      (show_touts (run_timed o ls), spec)
  | "async" ->
      let k = akind_of (atom (List.nth body 0)) in
      let script = List.map presult_of (args (List.nth body 1)) in
      let ls = List.map alab_of (args (List.nth body 2)) in
      let m = run_async k script ls in
      (* specification: with no unsubscribe, the deliveries are a prefix of what the source yields,
         all of it once every pending poll has been consumed *)
      let polls = List.length (List.filter (fun l -> l = APoll) ls) in
      let no_unsub = not (List.mem AUnsub ls) in
      let spec =
        if no_unsub && polls > int_of_nat (pendings script)
        then
          (* interleave the is_closed answers as the model gives them; compare deliveries only *)
          "DELIVERS " ^ show_trace (yields k script)
        else "UNSPECIFIED" in
      let model_line = show_aouts m in
      (model_line,
       if spec = "UNSPECIFIED" then spec
       else if "DELIVERS " ^ show_trace (List.concat_map (function AOut e -> [e] | _ -> []) m) = spec then model_line
       else "SPEC-DIFFERS " ^ spec)
  | "atform" ->
      let off = zarg (List.nth body 1) in
      let r = "(req " ^ string_of_int (int_of_z (remaining off Z0)) ^ ")" in
      (r, r)
  | "subalg" ->
      let ops = args (List.nth body 1) in
      if List.exists (fun o -> head o = "append_chained") ops
      then (show_cobs (snd (subalg_chained ops)), "UNSPECIFIED")
      else (show_cobs (crun cstate0 (List.map cop_of ops)), "UNSPECIFIED")
  | "finalize" when atom (List.nth body 1) = "twice" ->
      (* two subscriptions of clones of one finalize observable: two independent machines; (u I) concerns machine I only *)
      let stims = args (List.nth body 3) in
      let machine i =
        let mine = List.filter (fun st -> match st with List [Atom "u"; j] -> int_of j = i | _ -> true) stims in
        let segs = run_finalize_segs_from true FPlain (List.map (fun st -> match st with List [Atom "u"; _] -> ZUnsub | e -> ZSrc (ev_of e)) mine) in
        (* back on the common time line: an empty segment where the other machine is unsubscribed *)
        let rec align stims segs = (match stims, segs with
            | [], _ -> []
            | (List [Atom "u"; j]) :: r, _ when int_of j <> i -> [] :: align r segs
            | _ :: r, s :: segs' -> s :: align r segs'
            | _ :: r, [] -> [] :: align r []) in
        align stims segs in
      let m0 = machine 0 and m1 = machine 1 in
      let show_one i seg = List.map (fun o -> match o with
          | ZOut e -> let b = Buffer.create 8 in show_ev b e; Printf.sprintf "(d %d %s)" i (Buffer.contents b)
          | ZCall -> "call") seg in
      let r = String.concat " " (List.concat (List.map2 (fun a b -> show_one 0 a @ show_one 1 b @ ["|"]) m0 m1)) in
      (r, r)
  | "finalize" when atom (List.nth body 1) = "iter" ->
      (* (finalize FORM iter SHAPE (stims N [u])): from_iter(0..N) asks is_finished before every pull and completes after the loop;
         what the subscriber and the callback see is what a create() source pushing 0..N-1 and the completion gives, without the
         per-stimulus segments (an iterator leaves no room for markers between its items) *)
      let sh = fshape_of false (List.nth body 2) in
      let a = args (List.nth body 3) in
      let n = int_of (List.hd a) in
      let sts = List.init n (fun i -> ZSrc (Next (VZ (z_of_int i)))) @ [ZSrc Done] @ (if List.length a > 1 then [ZUnsub] else []) in
      let flat = List.concat (run_finalize_segs_from true sh sts) in
      let b = Buffer.create 64 in
      List.iteri (fun i o -> if i > 0 then Buffer.add_char b ' '; (match o with ZOut e -> show_ev b e | ZCall -> Buffer.add_string b "call")) flat;
      let r = Buffer.contents b in
      (r, r)
  | "finalize" ->
      (* (finalize FORM hot|cold SHAPE (stims ...)): a cold input is unsubscribed, if at all, after its script *)
      let sh = fshape_of (atom (List.nth body 1) = "hot") (List.nth body 2) in
      let sts = List.map zstim_of (args (List.nth body 3)) in
      let sts = if atom (List.nth body 1) = "cold"
        then (let evs = List.filter (function ZUnsub -> false | _ -> true) sts in
              if List.length evs < List.length sts then evs @ [ZUnsub] else evs)
        else sts in
      let connected = (match atom (List.nth body 1) with "never" | "dead" -> false | _ -> true) in
      (show_segs (run_finalize_segs_from connected sh sts), "UNSPECIFIED")
  | "timed2" ->
      (* (timed2 FORM OP (labels ...)): two subscriptions of clones of one operator value = two independent timed systems
         over one subject; the harness numbers the tasks in the order in which they are spawned *)
      let o = top_of (List.nth body 1) in
      let s = [| tinit o; tinit o |] in
      let table = ref [] in
      let count m = List.length s.(m).tasks in
      let register m before = for l = before to count m - 1 do table := !table @ [(m, l)] done in
      register 0 0; register 1 0;
      let out = ref [] in
      (* the subject serves its subscribers in the order in which they subscribed: for delay_subscription / subscribe_on that is
         the order in which the subscribing tasks ran *)
      let order = ref (List.filter (fun m -> s.(m).src_on) [0; 1]) in
      let stepm m l =
        let before = count m in
        let (s', touts) = tstep o s.(m) l in
        s.(m) <- s';
        if s'.src_on && not (List.mem m !order) then order := !order @ [m];
        List.iter (function
            | TOut (at, e) -> let b = Buffer.create 16 in show_ev b e; out := Printf.sprintf "(t2 %d %d %s)" m (int_of_n at) (Buffer.contents b) :: !out
            | _ -> ()) touts;
        register m before in
      List.iteri (fun j l ->
          out := Printf.sprintf "(m %d)" j :: !out;
          match l with
          | List [Atom "src"; e] ->
              let first = !order @ List.filter (fun m -> not (List.mem m !order)) [0; 1] in
              List.iter (fun m -> stepm m (LSrc (ev_of e))) first
          | List [Atom "adv"; d] -> stepm 0 (LAdv (narg_n d)); stepm 1 (LAdv (narg_n d))
          | List [Atom "run"; g] -> (match List.nth_opt !table (int_of g) with Some (m, loc) -> stepm m (LRun (nat_of_int loc)) | None -> ())
          | List [Atom "unsub"; k] -> stepm (int_of k) LUnsub
          | _ -> failwith "bad timed2 label") (args (List.nth body 2));
      (String.concat " " (List.rev !out), "UNSPECIFIED")
  | "timedchain" ->
      (* (timedchain FORM OP (pre U...) (post U...) (labels ...)): the composition of the three models - the chain in
         front feeds the timed system synchronously, its deliveries feed the chain behind it, and once that chain
         reports finished the timed operator's downstream does (LFinish) *)
      let o = top_of (List.nth body 1) in
      let (pre, _) = subscribe_chain (expand_all (List.map uop_of (args (List.nth body 2)))) in
      let (post, _) = subscribe_chain (expand_all (List.map uop_of (args (List.nth body 3)))) in
      let ls = List.map tlab_of (args (List.nth body 4)) in
      let s = ref (tinit o) and pre = ref pre and post = ref post and finished = ref false in
      let out = ref [] in
      let emit x = out := x :: !out in
      let step (l : tlab) =
        let (s', touts) = tstep o !s l in
        s := s';
        List.iter (fun t -> match t with
            | TOut (at, e) ->
                let (post', evs) = push !post [e] in
                post := post';
                List.iter (fun y -> emit (TOut (at, y))) evs
            | x -> emit x) touts;
        if not !finished && chain_fin !post false then begin
          finished := true;
          let (s'', _) = tstep o !s LFinish in s := s''
        end in
      List.iteri (fun j l ->
          emit (TMark (nat_of_int j));
          match l with
          | LSrc e ->
              (* the chain in front is subscribed to the subject when the operator subscribes its input
                 (delay_subscription / subscribe_on: when their task has run) and until it is unsubscribed *)
              if !s.src_on then begin
                let (pre', evs) = push !pre [e] in
                pre := pre';
                List.iter (fun y -> step (LSrc y)) evs
              end else step (LSrc e)      (* nobody is subscribed: dropped, but a terminal ends the subject itself *)
          | l -> step l) ls;
      let r = show_touts (List.rev !out) in
      (r, "UNSPECIFIED")
  | "ileave2" -> ("-", "UNSPECIFIED")
  | "ileave" ->
      let (v0, setup, scripts, sched) = ileave_parts body in
      let ((tr, e), fin) = Model.run_case v0 setup scripts sched in
      (show_itrace tr e fin, "UNSPECIFIED")
  | "locks" ->
      (* (locks PIPE NSUBS (ops ...)): the mutexes each operation locks, renamed by first appearance *)
      let pipe = List.nth body 0 and nsubs = int_of (List.nth body 1) in
      let names = Hashtbl.create 16 in
      let canon l = List.map (fun a -> let k = int_of_nat a in
                                (match Hashtbl.find_opt names k with Some n -> n | None -> let n = Hashtbl.length names in Hashtbl.add names k n; n)) l in
      let show tag l = "(" ^ tag ^ " " ^ String.concat " " (List.map string_of_int (canon l)) ^ ")" in
      let two = (match head pipe with "hot" -> false | _ -> true) in
      let base i = nat_of_int (10 * i) and shared = nat_of_int 100 in
      let tail i = if two then shared_tail shared else probe_cell (base i) in
      let subs_of i = if two then [O] else List.init nsubs nat_of_int in
      let out = ref [] in
      let left = ref [] in
      for _ = 1 to nsubs do
        out := show "sub" (if two then acquisitions (subscribe_prog (base 0)) @ acquisitions (subscribe_prog (base 1))
                           else acquisitions (subscribe_prog (base 0))) :: !out
      done;
      List.iter (fun op -> match op with
          | List [Atom "unsub"; k] ->
              let k = int_of k in
              if not (List.mem k !left) then begin
                left := k :: !left;
                out := show "unsub" (acquisitions (unsubscribe_prog (base 0) (nat_of_int k))) :: !out
              end
          | List [Atom i; e] ->
              let i = int_of_string i in
              (match ev_of e with
               | Next _ -> out := show "next" (acquisitions (next_prog (base i) (tail i) O (subs_of i))) :: !out
               | t ->
                   let tag = (match t with Err _ -> "error" | _ -> "complete") in
                   out := show tag (acquisitions (complete_prog (base i) (List.map (fun s -> (s, List.mem (int_of_nat s) !left)) (subs_of i)))) :: !out)
          | _ -> failwith "bad locks op") (args (List.nth body 2));
      let r = String.concat " " (List.rev !out) in
      (r, r)
  | "conc" | "sched_race" | "unsub_race" | "handshake" | "guard_unwind" | "share_reenter" ->
      (* C10_no_deadlock, C10_callbacks_are_exclusive, C10_cancel_waits_for_running_poll: every thread returns,
         no overlap, and the orders agree *)
      ("ok", "ok")
  | "tofuture" ->
      let ls = List.map (function Atom "poll" -> FPoll | e -> FEv (ev_of e)) (args (List.nth body 0)) in
      let show = function
        | FPending -> "pending"
        | FReady (MOk v) -> let b = Buffer.create 8 in show_val b v; "(ready (ok " ^ Buffer.contents b ^ "))"
        | FReady (MErr e) -> Printf.sprintf "(ready (err %d))" (int_of_z e)
        | FReady MEmpty -> "(ready empty)"
        | FReady MMultiple -> "(ready multiple)" in
      let r = String.concat " " (List.map show (run_future false ls)) in
      (r, r)
  | "tostream" ->
      let ls = List.map (function Atom "poll" -> FPoll | e -> FEv (ev_of e)) (args (List.nth body 0)) in
      let show = function
        | SPending -> "pending"
        | SReady (SItem v) -> let b = Buffer.create 8 in show_val b v; "(item " ^ Buffer.contents b ^ ")"
        | SReady (SErrItem e) -> Printf.sprintf "(erritem %d)" (int_of_z e)
        | SReady SEnd -> "end" in
      let r = String.concat " " (List.map show (run_stream false ls)) in
      (r, r)
  | "tostream_wake" ->
      (* the consumer is a task: whenever it is woken (a message was queued while it was parked on Pending) it polls the stream
         until it answers Pending or ends.  The producer's error() queues two messages (the error, the end marker): the
         consumer runs between the two. *)
      let raw = args (List.nth body 0) in
      (* `stale`: an implementation that also wakes the waker of an earlier poll (a spurious wake-up, which the contract allows) *)
      let stale = List.mem (Atom "stale-wakes") body in
      let two = List.mem (Atom "poll0") raw in
      let s = ref strm0 and registered = ref false and finished = ref false and out = ref [] in
      let show = function
        | SPending -> "pending"
        | SReady (SItem v) -> let b = Buffer.create 8 in show_val b v; "(item " ^ Buffer.contents b ^ ")"
        | SReady (SErrItem e) -> Printf.sprintf "(erritem %d)" (int_of_z e)
        | SReady SEnd -> "end" in
      let rec drain () =
        if not !finished then begin
          let (s', r) = sstep_ false !s FPoll in
          s := s';
          List.iter (fun x -> out := show x :: !out) r;
          match r with
          | [SPending] -> registered := true
          | [SReady SEnd] -> finished := true
          | _ -> drain ()
        end in
      let wake () = if !registered then (registered := false; drain ()) in
      (* poll0: somebody else polls once with a waker of its own; when the answer is Pending that waker is the registered one
         (the contract of Stream::poll_next: only the waker of the most recent call is woken), the consumer task is not *)
      let poll0 () =
        if not !finished then begin
          let (s', r) = sstep_ false !s FPoll in
          s := s';
          List.iter (fun x -> out := (match x with
              | SPending -> "pending0"
              | SReady (SItem v) -> let b = Buffer.create 8 in show_val b v; "(item0 " ^ Buffer.contents b ^ ")"
              | SReady (SErrItem e) -> Printf.sprintf "(erritem0 %d)" (int_of_z e)
              | SReady SEnd -> "end0") :: !out) r;
          (match r with
           | [SPending] -> if not stale then registered := false
           | [SReady SEnd] -> finished := true
           | _ -> ())
        end in
      List.iter (fun l0 -> match l0 with
        | Atom "poll0" -> poll0 ()
        | _ ->
          match (match l0 with Atom "poll" -> FPoll | e -> FEv (ev_of e)) with
          | FPoll -> registered := false; drain ()
          | FEv (Err x) when !s.s_obs ->
              let (s1, _) = sstep_ true !s (FEv (Err x)) in
              s := s1; wake ();
              s := { !s with s_queue = !s.s_queue @ [SEnd] }; wake ()
          | FEv e -> let was = !s.s_obs in let (s1, _) = sstep_ false !s (FEv e) in s := s1; if was then wake ()) raw;
      let r = String.concat " " (List.rev !out) in
      if two && not (List.mem (Atom "model") body) then ("-", "UNSPECIFIED") else (r, r)
  | "status" ->
      (* the flag follows the first terminal; a waiter always returns (C14_no_lost_wakeup: whatever the
         interleaving of the producer's store / wake with the waiter's check / register / re-check) *)
      let flag = ref 0 in
      let out = ref [] in
      let term e = (match e with Done -> if !flag = 0 then flag := 1 | Err _ -> if !flag = 0 then flag := -1 | Next _ -> ()) in
      List.iter (fun l -> match l with
          | Atom "flags" ->
              out := Printf.sprintf "(flags %s %s %s)" (if !flag <> 0 then "#t" else "#f") (if !flag > 0 then "#t" else "#f") (if !flag < 0 then "#t" else "#f") :: !out
          | List (Atom "wait" :: Atom w :: e :: _) ->
              let sched = (match w with
                  | "before" -> [PStore false; PWake; WCheck; WRegister; WRecheck]
                  | "at_yield" -> [WCheck; PStore false; PWake; WRegister; WRecheck]
                  | _ -> [WCheck; WRegister; WRecheck; PStore false; PWake]) in
              term (ev_of e);
              (* a terminal that comes too late for the flag (a second one) wakes nobody: the waiter has returned at once *)
              out := (if waiter_safe (wrun false sched) then "returned" else "HANG") :: !out
          | e -> term (ev_of e)) (args (List.nth body 0));
      let r = String.concat " " (List.rev !out) in
      (r, r)
  | "status2" ->
      (* complete_status above an operator that finishes early: the flags follow the source's first terminal *)
      let evs = List.map ev_of (args (List.nth body 1)) in
      let rec first = function [] -> 0 | Done :: _ -> 1 | Err _ :: _ -> -1 | Next _ :: r -> first r in
      let f = first evs in
      let r = Printf.sprintf "(flags %s %s %s)" (if f <> 0 then "#t" else "#f") (if f > 0 then "#t" else "#f") (if f < 0 then "#t" else "#f") in
      (r, r)
  | "share" ->
      (* (share FORM SRC share|publish (ops OP...)) *)
      let src = (match List.nth body 1 with Atom "hot" -> ShHot | c -> ShCold (List.map ev_of (args c))) in
      let m = (match atom (List.nth body 2) with "publish" -> MPublish | _ -> MShare) in
      let consumed = ref false in
      let h = List.map (fun op -> match head op with
          | "sub" -> ShSub
          (* the published observable itself is subscribed: a subscriber joins, and the value is consumed, so a later
             connect() cannot be called (a no-op operation stands for it) *)
          | "subself" -> consumed := true; ShSub
          | "connect" when !consumed -> ShUnsub (nat_of_int 999)
          | "unsub" -> ShUnsub (narg (List.hd (args op)))
          | "src" -> ShSrc (ev_of (List.hd (args op)))
          | "connect" -> ShConnect
          | "closed" -> ShClosed (narg (List.hd (args op)))
          | x -> failwith ("bad share op " ^ x)) (args (List.nth body 3)) in
      let show l = String.concat " " (List.map (function
          | SSub -> "(sub)"
          | STap v -> let b = Buffer.create 8 in show_val b v; "(tap " ^ Buffer.contents b ^ ")"
          | SDeliver (i, e) -> let b = Buffer.create 8 in show_ev b e; Printf.sprintf "(d %d %s)" (int_of_nat i) (Buffer.contents b)
          | SRet b -> if b then "(rb #t)" else "(rb #f)"
          | SMark -> "|") l) in
      (show (run_share false m src h), show (run_share true m src h))
  | "indep" ->
      (* (indep FORM SRC (ops U...) (seq K)|(nested K)) *)
      let rec lsrc_of (x : sexp) : lsrc =
        (match head x with
         | "of_fn" -> LOfFn (val_of (List.hd (args x)))
         | "start" -> LStart (val_of (List.hd (args x)))
         | "defer" -> LDefer (lsrc_of (List.hd (args x)))
         | "create" -> LCreate (List.map ev_of (args x))
         | "iter" -> LIter (narg (List.hd (args x)))
         | "coll" -> LColl (narg (List.hd (args x)))
         | h -> failwith ("bad lazy source " ^ h)) in
      let src = lsrc_of (List.nth body 1) in
      let os = OMap (fun v -> v) :: expand_all (List.map uop_of (args (List.nth body 2))) in
      let pv = List.map (fun o -> (o, HFresh)) os in
      let script = lscript src in
      let mode = List.nth body 3 in
      let k = int_of (List.hd (args mode)) in
      let nexts l = List.length (List.filter (function Next _ -> true | _ -> false) l) in
      let traces = (match head mode with
          | "seq" -> sub_runs [] pv script (nat_of_int k)
          | "nested" ->
              let (outer, inner) = nested_run [] pv script (nat_of_int 1) in
              if nexts outer >= k then [outer; inner] else [outer; []]
          | h -> failwith ("bad mode " ^ h)) in
      let subs = (match head mode with "seq" -> k | _ -> if nexts (List.hd traces) >= k then 2 else 1) in
      let pulls = (if is_iter src then
                     (let items = List.filter_map (function Next v -> Some v | _ -> None) script in
                      int_of_nat (fst (run_iter_case None os [] items)))
                   else 0) in
      let src_calls = int_of_nat (calls_after (nat_of_int (int_of_nat (factory_calls src) + pulls)) (nat_of_int subs)) in
      let map_calls = int_of_nat (calls_after (nat_of_int (if is_iter src then pulls else nexts script)) (nat_of_int subs)) in
      let r = Printf.sprintf "built=0%s | src=%d map=%d" (String.concat "" (List.map (fun t -> " | " ^ show_trace t) traces)) src_calls map_calls in
      (r, r)
  | "tree" ->
      (* (tree FORM PIPE (stims (I EV)...) [idiom]) *)
      let p = pipe_of (List.nth body 1) in
      let sts = List.map stim_of (args (List.nth body 2)) in
      let t = exec p sts in
      let t = (match List.nth_opt body 3 with Some (Atom "idiom") -> idiom_log true t | _ -> t) in
      (show_trace t, show_trace t)
  | "retire" ->
      (* (retire FORM PRODUCER POSITION (ops U...) [(stims ...)]) *)
      let prod = List.nth body 1 and pos = List.nth body 2 in
      let os = expand_all (List.map uop_of (args (List.nth body 3))) in
      let (two, other) = (match pos with
          | Atom "main" -> (None, [])
          | _ ->
              let sd = (match head pos with "a" -> A | "b" -> B | _ -> failwith "bad position") in
              let o = op2_of (List.nth (args pos) 0) in
              let other = (match List.nth (args pos) 1 with Atom "hot" -> [] | c -> List.map ev_of (args c)) in
              (Some (o, sd), other)) in
      let r = (match head prod with
          | "iter" ->
              let n = int_of (List.hd (args prod)) in
              let items = List.init n (fun i -> VZ (z_of_int i)) in
              (* an optional chain between the iterator and its input of the two-input operator: (pre U...) *)
              let pre = (match List.find_opt (function List (Atom "pre" :: _) -> true | _ -> false) body with
                  | Some p -> expand_all (List.map uop_of (args p)) | None -> []) in
              let (pulls, tr) = if pre = [] then run_iter_case two os other items else run_iter_case_pre pre two os other items in
              Printf.sprintf "pulls=%d %s" (int_of_nat pulls) (show_trace tr)
          | "stream" ->
              let polls = List.map (fun b ->
                  let xs = args b in
                  (List.map val_of (List.filter (fun x -> x <> Atom "end") xs), List.mem (Atom "end") xs)) (args prod) in
              let ((pulls, tr), fin) = run_stream_case os polls in
              Printf.sprintf "pulls=%d fin=%s %s" (int_of_nat pulls) (if fin then "#t" else "#f") (show_trace tr)
          | "interval" ->
              let sts = List.map (function Atom "tick" -> RTick | s -> RSide (ev_of (List.hd (args s)))) (args (List.nth body 4)) in
              let (live, tr) = run_interval_case two os sts in
              Printf.sprintf "live=%s %s" (if live then "#t" else "#f") (show_trace tr)
          | h -> failwith ("bad producer " ^ h)) in
      let r = String.trim r in
      (r, r)
  | "finalize_race" ->
      (* two threads, each: some other step, then its take of the cell; all interleavings *)
      let rec inter a b = match a, b with
        | [], l | l, [] -> [l]
        | x :: a', y :: b' -> List.map (fun l -> x :: l) (inter a' b) @ List.map (fun l -> y :: l) (inter a b') in
      let scheds = inter [ROther O; RTake O] [ROther (S O); RTake (S O)] in
      let count s = List.length (List.filter (fun x -> x <> None) (rrun true s)) in
      let counts = List.sort_uniq compare (List.map count scheds) in
      let r = "counts=" ^ String.concat "," (List.map string_of_int counts) ^ " early=0" in
      (r, r)
  | k -> failwith ("unknown case kind " ^ k)

let gev_of (s : sexp) : gev =
  match s with
  | List [Atom "a"; k] -> Announce (val_of k)
  | List [Atom "g"; k; List [Atom "n"; v]] -> GItem (val_of k, val_of v)
  | List [Atom "g"; k; e] -> GTerm (val_of k, ev_of e)
  | List [Atom "o"; e] -> OuterTerm (ev_of e)
  | _ -> failwith "bad gev"

(* verdict on the implementation's trace: None when the case kind has no predicate oracle *)
let oracle (kind : string) (body : sexp list) (impl : string) : string option =
  match kind with
  | "tostream_wake" when List.mem (Atom "poll0") (args (List.nth body 0)) ->
      (* two wakers: the task must be woken when its waker is the one registered last; waking the earlier waker as well
         is a spurious wake-up and allowed *)
      let (a, _) = run_case kind (body @ [Atom "model"]) in
      let (b, _) = run_case kind (body @ [Atom "model"; Atom "stale-wakes"]) in
      if impl = a || impl = b then Some "ok"
      else Some "reject:C14 a consumer task parked on Pending with its waker registered last was not woken (or the stream yielded something else than the source emitted)"
  | "group_by" when atom_opt (List.nth body 1) = Some "chunk2" || List.length body > 3 ->
      (* judged against the model's trace: every item to the group of its key (a key evaluated once per item), groups
         announced before a cut of the stream of groups still served *)
      let (m, _) = run_case kind body in
      if impl = m then Some "ok"
      else Some "reject:C20 an item not delivered exactly once to the group of its key, a group announced twice or not at all, or a terminal missing"
  | "group_by" ->
      if String.length impl >= 5 && String.sub impl 0 5 = "PANIC" then Some "reject:panic" else
      let key = apply_fn (fn_of (List.nth body 1)) in
      let calls = slot (List.map ev_of (args (List.nth body 2))) in
      let out = (match parse ("(" ^ impl ^ ")") with List l -> List.map gev_of l | _ -> []) in
      let items = items_of calls and t = term_of calls in
      let keys = first_keys key [] items in
      let bad_group = List.exists (fun k ->
          group_trace k out <> List.map (fun v -> Next v) (List.filter (fun v -> val_eqb (key v) k) items) @ term_evs t) keys in
      if bad_group then Some "reject:C20_group_trace"
      else if announced out <> keys then Some "reject:C20_announces"
      else if flattened out <> items then Some "reject:C20_flatten"
      else if outer_term out <> term_evs t then Some "reject:C20_outer_term"
      else if not (announced_first [] out) then Some "reject:C20_announced_first"
      else Some "ok"
  | "flatten" ->
      if String.length impl >= 5 && String.sub impl 0 5 = "PANIC" then Some "reject:panic(C05: without panicking)" else
      if impl = "HANG" then Some "reject:hang(C05: without blocking)" else
      let api = atom (List.nth body 1) in
      let lim = (match api, List.nth body 2 with
                 | ("concat_all" | "concat_map"), _ -> Some (S O)
                 | ("flatten" | "flat_map"), _ -> None
                 | _, Atom "inf" -> None
                 | _, n -> Some (narg n)) in
      let fout_of (s : sexp) : fout =
        match s with
        | List [Atom "i"; k; v] -> FItem (narg k, val_of v)
        | List [Atom "t"; e] -> FTerm (ev_of e)
        | List [Atom "sub"; k] -> FSubscribed (narg k)
        | List [Atom "done"; k] -> FInnerDone (narg k)
        | List [Atom "m"; j] -> FMark (narg j)
        | _ -> failwith "bad fout" in
      let out = (match parse ("(" ^ impl ^ ")") with List l -> List.map fout_of l | _ -> []) in
      let sts = List.map fstim_of (args (List.nth body 3)) in
      if not (silent_after_unsub sts false out) then Some "reject:C02 (a delivery or an inner subscription after unsubscribe() returned)"
      else if List.mem FUnsub sts then Some "ok"
      else if not (peak_ok lim O out) then Some "reject:C05_limit"
      else if not (wf (downstream out)) then Some "reject:C05_downstream_wf"
      else if not (subs_consecutive O out) then Some "reject:C05 inner observables subscribed out of outer order, or one of them twice"
      else if not (items_exact_ok lim sts out) then Some "reject:C05 an item of an inner observable lost, duplicated, out of its order, or delivered for an inner observable that is not subscribed"
      else if lim = Some (S O) && not (concat_exclusive_ok out) then Some "reject:C05 concat: an item outside its inner observable's turn"
      else if not (completion_ok lim (List.map fstim_of (args (List.nth body 3))) out)
        then Some "reject:completion not exactly when the outer and all inner observables have completed, or a waiting inner observable not started although a slot is free"
      else Some "ok"
  | "timed" ->
      if String.length impl >= 5 && String.sub impl 0 5 = "PANIC" then Some "reject:panic" else
      let o = top_of (List.nth body 1) in
      let ls = List.map tlab_of (args (List.nth body 2)) in
      let tout_of (s : sexp) : tout =
        match s with
        | List [Atom "t"; at; e] -> TOut (narg_n at, ev_of e)
        | List [Atom "rb"; Atom "#t"] -> TRet true
        | List [Atom "rb"; Atom "#f"] -> TRet false
        | List [Atom "ran"; t; seq; at] -> TRan (narg t, narg seq, narg_n at)
        | List [Atom "iu"; t] -> TInnerUnsub (narg t)
        | List [Atom "m"; j] -> TMark (narg j)
        | _ -> failwith "bad tout" in
      let out = (match parse ("(" ^ impl ^ ")") with List l -> List.map tout_of l | _ -> []) in
      if (match o with TRaw -> false | _ -> not (closed_sound_ok out))
      then Some "reject:C17 a delivery, or is_closed() = false, after is_closed() had answered true"
      else if timed_ok o ls out && not (timed_complete o ls out) && (match o with TTimer _ -> true | _ -> false) then
        Some "reject:C08 the timer's task was polled when it was due, before unsubscribe(), and did not deliver both its item and the completion"
      else if timed_ok o ls out && not (timed_complete o ls out) then
        Some "reject:C07 a notification was not delivered although its task was polled when it was due (no delay, or the timer its first poll created had elapsed) while the subscriber was still listening - or, for delay_subscription / subscribe_on, although the subscribing task had run: the source's items and terminal must all come through"
      else if timed_ok o ls out then Some "ok"
      else Some (match o with
                 | TRaw -> "reject:C19 (a task ran twice, early, out of sequence, after its handle was unsubscribed, or a handle reported closed too early)"
                 | TDelay _ | TObserveOn | TDelaySubscription _ | TSubscribeOn ->
                     "reject:C07/C02 (a notification that is not the polled task's own, delivered twice, earlier than the delay, after a terminal or after unsubscribe)"
                 | TInterval _ | TIntervalAt _ | TTimer _ ->
                     "reject:C08/C02 (not the consecutive integers / the single item, too early, or after unsubscribe)"
                 | _ -> "reject:C09/C02 (an item that is not an input item in input order exactly once, an empty or oversized buffer, lost items on completion, or a delivery after a terminal or after unsubscribe)")
  | "subalg" ->
      if String.length impl >= 5 && String.sub impl 0 5 = "PANIC" then Some "reject:panic" else
      let ops = args (List.nth body 1) in
      if List.exists (fun o -> head o = "append_chained") ops then begin
        (* the expected observation is computed in the implementation's order; the late additions are what matters *)
        let expected = snd (subalg_chained ops) in
        let targets = List.filter_map (function List [Atom "append_chained"; _; j] -> Some (narg j) | _ -> None) ops in
        let got = (match parse ("(" ^ impl ^ ")") with
                   | List l -> List.filter_map (function List [Atom "k"; k] -> Some (narg k) | _ -> None) l | _ -> []) in
        if impl = show_cobs expected then Some "ok"
        else if List.exists (fun j -> List.mem (CKilled j) expected && not (List.mem j got)) targets
        then Some "reject:C17 a subscription appended to a composite that was being unsubscribed (by a member's own teardown) was left running"
        else Some "nocorr:the observation differs from the model's"
      end else
      let h = List.map cop_of ops in
      let obs = (match parse ("(" ^ impl ^ ")") with
                 | List l -> List.map (function List [Atom "k"; k] -> CKilled (narg k)
                                               | List [Atom "rb"; Atom "#t"] -> CRet true
                                               | List [Atom "rb"; Atom "#f"] -> CRet false
                                               | _ -> failwith "bad cobs") l
                 | _ -> []) in
      (match alg_ok h obs with
       | O -> Some "ok"
       | S O -> Some "reject:C17 is_closed() answered true while a leaf it holds was still alive"
       | S (S O) -> Some "reject:C17 a leaf appended to an unsubscribed composite (or held by an unsubscribed subscription) was left running"
       | S (S (S O)) -> Some "known:reopened is_closed() answered true and later false (a composite that was never unsubscribed re-opened by append)"
       | _ -> Some "reject:C17 is_closed() answered true and later false")
  | "share" ->
      (* the recorded gap: the implementation behaves as the faithful model, which differs from the ideal one *)
      let (m, s) = run_case kind body in
      if impl = s then Some "ok"
      else if impl = m then Some "known:still-driven share(): after its last subscriber has unsubscribed the shared observable keeps its source connected and driven"
      else Some "reject:C11 neither the specified nor the recorded behaviour"
  | "ileave" ->
      let (v0, setup, scripts, _) = ileave_parts body in
      let (tr, ending, fin) = itrace_of impl in
      let e = (match ending with "fin" -> EFinished | "deadlock" -> EDeadlock | _ -> EShort) in
      if not (names_ok setup scripts && setup_completes v0 setup && unsubs_ok setup scripts)
      then Some "reject:the case is outside the hypotheses of the interleaving theorems (probe names reused, or an unsubscription of a probe another thread subscribes)"
      else if ending = "panic" then Some "reject:C10 a thread panicked"
      else if ending = "hang" then Some "reject:C10 a call did not return (a thread blocked outside the gates)"
      else if ending = "deadlock" then Some "reject:C10 deadlock: every unfinished thread waits for a mutex another one holds"
      else if ending <> "fin" then Some "reject:the schedule ended before the threads did"
      else if not (no_overlap tr) then Some "reject:C10 a subscriber callback ran on two threads at once"
      else if not (grammar_ok tr) then Some "reject:C01 a notification after the terminal"
      else if not (quiet_after_unsub tr) then Some "reject:C02 a subscriber was called after its unsubscribe() had returned"
      else if not (values_ok scripts tr) then Some "reject:C06 a delivered item is not the value of the next() that broadcast it"
      else if not (common_order_ok scripts tr) then Some "reject:C10/C06 subscribers saw concurrent emissions in different orders, or one of them twice"
      else if not (full_time_sees_all setup scripts tr) then Some "reject:C06 a subscriber that was there from the start and never left missed an item others received"
      else if not (nothing_lost setup scripts tr e) then Some "reject:C06 an emission reached nobody although a subscriber was there from the start"
      else if not (ileave_ok setup scripts tr e) then Some "reject:C10"
      else if List.length body < 5 then Some "ok"     (* the clauses about the stored value are judged by C12 only *)
      else if not (latest_ok v0 setup scripts tr e fin) then
        Some "known:behavior-race the value stored in the thread-safe BehaviorSubject is not the one delivered last in the common order"
      else if not (joiner_ok v0 setup scripts tr e) then
        Some "known:behavior-race a subscriber joining a thread-safe BehaviorSubject while others emit was handed a stale value or missed a later item"
      else Some "ok"
  | "timedchain" ->
      if String.length impl >= 5 && String.sub impl 0 5 = "PANIC" then Some "reject:panic" else
      let ls = List.map tlab_of (args (List.nth body 4)) in
      let toks = (match parse ("(" ^ impl ^ ")") with List l -> l | _ -> []) in
      let delivered = List.filter_map (function List [Atom "t"; _; e] -> Some (ev_of e) | _ -> None) toks in
      let rec quiet gone = function
        | [] -> true
        | List [Atom "m"; j] :: r -> quiet (gone || List.nth_opt ls (int_of j) = Some LUnsub) r
        | List [Atom "t"; _; _] :: r -> not gone && quiet gone r
        | _ :: r -> quiet gone r in
      if not (wf delivered) then Some "reject:C01 a notification after the terminal, or a second terminal"
      else if not (quiet false toks) then Some "reject:C02 a notification after unsubscribe() returned"
      else Some "ok"
  | "ileave2" when head (List.nth body 0) = "share" ->
      (* share_threads with subscribers joining and leaving from threads: C11 (the source is connected at most once, an
         item passing the upstream tap reaches subscribers only once each), C10 (no deadlock / panic / overlap), C01 / C02 per subscriber *)
      if impl = "-" then Some "ok" else
      let toks = (match parse ("(" ^ impl ^ ")") with List l -> l | _ -> []) in
      let ending = (match List.rev toks with Atom w :: _ -> w | _ -> "none") in
      let connects = List.length (List.filter (fun x -> x = List [Atom "connect"]) toks) in
      let probes = List.sort_uniq compare (List.filter_map (function List (Atom "vp" :: k :: _) -> Some (int_of k) | _ -> None) toks) in
      let evs_of k = List.filter_map (function List [Atom "vp"; k'; e; _; _] when int_of k' = k -> Some (ev_of e) | _ -> None) toks in
      let rec quiet k gone = function
        | [] -> true
        | List [Atom "up"; k'; _; _] :: r when int_of k' = k -> quiet k true r
        | List (Atom "vp" :: k' :: _) :: r when int_of k' = k -> not gone && quiet k gone r
        | _ :: r -> quiet k gone r in
      let taps = List.filter_map (function List [Atom "tap"; v] -> Some (val_of v) | _ -> None) toks in
      let items k = List.filter_map (function Next v -> Some v | _ -> None) (evs_of k) in
      let rec subseq a b = (match a, b with [], _ -> true | _, [] -> false | x :: a', y :: b' -> if x = y then subseq a' b' else subseq a b') in
      if List.exists (function List [Atom "panic"; _] -> true | _ -> false) toks then Some "reject:C10 a thread panicked"
      else if ending = "hang" then Some "reject:C10 a call did not return"
      else if ending = "deadlock" then Some "reject:C10 deadlock: every unfinished thread waits for a mutex another one holds"
      else if ending <> "fin" then Some "reject:the schedule ended before the threads did"
      else if List.exists (function List [Atom "ov"; _] -> true | _ -> false) toks then Some "reject:C10 a subscriber's callback ran on two threads at once"
      else if connects > 1 then Some "reject:C11 share() subscribed its source more than once"
      else if List.exists (fun k -> not (wf (evs_of k))) probes then Some "reject:C01 a notification after the terminal"
      else if List.exists (fun k -> not (quiet k false toks)) probes then Some "reject:C02 a subscriber was called after its unsubscribe() had returned"
      else if List.exists (fun k -> not (subseq (items k) taps)) probes
      then Some "reject:C11 a subscriber received an item that did not pass the shared source, or one of them twice, or out of order"
      else begin
        (* every subscriber present at an emission receives it: one that joined in the prologue and never left has every item
           that passed the tap *)
        let setup = (match List.nth_opt body 3 with Some s -> args s | None -> []) in
        let scripts = List.map (fun s -> match s with List l -> l | Atom _ -> []) (args (List.nth body 1)) in
        let joined = List.filter_map (function List [Atom "sub"; k] -> Some (int_of k) | _ -> None) setup in
        let left = List.filter_map (function List [Atom "unsub"; k] -> Some (int_of k) | _ -> None) (setup @ List.concat scripts) in
        let stay = List.filter (fun k -> not (List.mem k left)) joined in
        if List.exists (fun k -> items k <> taps) stay
        then Some "reject:C11 a subscriber that was present throughout missed an item that passed the shared source"
        else Some "ok"
      end
  | "ileave2" ->
      if impl = "-" then Some "ok" else
      let pipe = List.nth body 0 in
      let scripts = List.map (fun s -> match s with List l -> l | Atom _ -> failwith "bad script") (args (List.nth body 1)) in
      let setup = (match List.nth_opt body 3 with Some s -> args s | None -> []) in
      let (tr, ending) = i2trace_of impl in
      let delivered = List.filter_map (function I2Ev (e, _, _) -> Some e | _ -> None) tr in
      let rec quiet gone = function
        | [] -> true
        | I2Un _ :: r -> quiet true r
        | I2Ev _ :: r -> not gone && quiet gone r
        | _ :: r -> quiet gone r in
      let op_of t j = (match List.nth_opt scripts t with Some l -> List.nth_opt l j | None -> None) in
      let is_term_op o = (match o with Some (List [Atom "a"; Atom "c"]) | Some (List [Atom "a"; List [Atom "e"; _]]) -> true | _ -> false) in
      if List.mem I2Panic tr then Some "reject:C10 a thread panicked"
      else if ending = "hang" then Some "reject:C10 a call did not return (a thread blocked outside the gates)"
      else if ending = "deadlock" then Some "reject:C10 deadlock: every unfinished thread waits for a mutex another one holds"
      else if ending <> "fin" then Some "reject:the schedule ended before the threads did"
      else if List.mem I2Ov tr then Some "reject:C10 the subscriber's callback ran on two threads at once"
      else if not (wf delivered) then Some "reject:C01 a notification after the terminal, or a second terminal"
      else if not (quiet false tr) then Some "reject:C02 the subscriber was called after unsubscribe() had returned"
      else if not (let rec sound seen = function
                     | [] -> true
                     | I2Closed b :: r -> (b || not seen) && sound (seen || b) r
                     | I2Ev _ :: r -> not seen && sound seen r
                     | _ :: r -> sound seen r in sound false tr)
      then Some "reject:C17 is_closed() answered true and a notification was delivered afterwards (or it answered false again)"
      else if head pipe = "hot" then Some "ok"
      else if head pipe = "fin" then begin
        (* C15: the callback at most once; once when a terminal was delivered or unsubscribe() returned; run by the
           operation that delivered the terminal (after delivering it) or by the unsubscription *)
        let calls = List.filter_map (function I2Call (t, j) -> Some (t, j) | _ -> None) tr in
        let triggered = List.exists (function I2Un _ -> true | I2Ev (e, _, _) -> (match e with Next _ -> false | _ -> true) | _ -> false) tr in
        let rec pos x i = function [] -> -1 | y :: r -> if y = x then i else pos x (i + 1) r in
        (match calls with
         | [] -> if triggered then Some "reject:C15 the finalize callback never ran although the subscription was terminated or unsubscribed" else Some "ok"
         | [(t, j)] ->
             let o = op_of t j in
             if o = Some (Atom "u") then Some "ok"
             else if is_term_op o then
               (let pc = pos (I2Call (t, j)) 0 tr in
                let delivered_before = List.exists (fun x -> match x with I2Ev (e, t', j') when t' = t && j' = j && (match e with Next _ -> false | _ -> true) -> pos x 0 tr < pc | _ -> false) tr in
                if delivered_before then Some "ok" else Some "reject:C15 the finalize callback ran before the terminal it follows was delivered")
             else Some "reject:C15 the finalize callback ran from an operation that neither terminates nor unsubscribes"
         | _ -> Some "reject:C15 the finalize callback ran more than once")
      end
      else if head pipe = "flat" then begin
        (* C05 under concurrency: every inner observable's items at most once and in its own order (a synchronous
           inner observable's items may be interleaved with another thread's, so whole operations are not atomic
           and there is no sequential run to compare with) *)
        let sources = List.concat (List.map (fun sc ->
            let hot = Hashtbl.create 4 in
            let cold = ref [] in
            List.iter (fun o -> match o with
                | List [Atom "i"; k; List [Atom "n"; v]] ->
                    let k = int_of k in Hashtbl.replace hot k ((try Hashtbl.find hot k with Not_found -> []) @ [val_of v])
                | List [Atom "o"; List (Atom "coldi" :: evs)] ->
                    cold := List.filter_map (function List [Atom "n"; v] -> Some (val_of v) | _ -> None) evs :: !cold
                | _ -> ()) sc;
            Hashtbl.fold (fun _ l acc -> l :: acc) hot [] @ !cold) (setup :: scripts)) in
        let items = List.filter_map (function Next v -> Some v | _ -> None) delivered in
        let rec subseq a b = (match a, b with
            | [], _ -> true | _, [] -> false
            | x :: a', y :: b' -> if x = y then subseq a' b' else subseq a b') in
        let known = List.concat sources in
        (* when nobody unsubscribes, nothing fails, the outer stream completes, every hot inner observable completes
           after its items and is handed over before them (one thread does all three), the output must hold every item
           and end with the completion: "complete exactly when the outer and all inner streams have completed" *)
        let scripts = setup :: scripts in     (* for the source tables below the prologue is one more script *)
        let all_ops = List.concat scripts in
        let clean = not (List.exists (fun o -> match o with
            | Atom "u" -> true
            | List [Atom "o"; List [Atom "e"; _]] -> true
            | List [Atom "i"; _; List [Atom "e"; _]] -> true
            | List [Atom "o"; List (Atom "coldi" :: evs)] -> List.exists (function List [Atom "e"; _] -> true | _ -> false) evs || not (List.mem (Atom "c") evs)
            | _ -> false) all_ops) in
        let outer_done = List.mem (List [Atom "o"; Atom "c"]) all_ops in
        let hot_ok = List.for_all (fun sc ->
            (* per thread: a hot inner observable's events come after the operation that hands it over, and it completes *)
            let rec go handed = function
              | [] -> true
              | List [Atom "o"; List [Atom "hoti"; k]] :: r -> go (int_of k :: handed) r
              | List [Atom "i"; k; _] :: r -> List.mem (int_of k) handed && go handed r
              | _ :: r -> go handed r in
            let in_setup = List.filter_map (function List [Atom "o"; List [Atom "hoti"; k]] -> Some (int_of k) | _ -> None) setup in
            go (if sc == setup then [] else in_setup) sc) scripts
          && List.for_all (fun o -> match o with
                | List [Atom "o"; List [Atom "hoti"; k]] -> List.mem (List [Atom "i"; k; Atom "c"]) all_ops
                | _ -> true) all_ops in
        (* the outer completion must come last in the merged order for the claim to be unconditional: it is when it is the
           last operation of its thread and every other thread only feeds inner observables handed over before (one thread
           handing everything over is the generated shape) *)
        let outer_last = List.for_all (fun sc -> not (List.mem (List [Atom "o"; Atom "c"]) sc) ||
                                                 (match List.rev sc with List [Atom "o"; Atom "c"] :: _ -> true | _ -> false)) scripts
                         && List.length (List.filter (fun sc -> sc != setup && List.exists (function List (Atom "o" :: _) -> true | _ -> false) sc) scripts) <= 1 in
        if List.exists (fun v -> not (List.mem v known)) items then Some "reject:C05 an item no inner observable emitted"
        else if not (List.for_all (fun src -> subseq (List.filter (fun v -> List.mem v src) items) src) sources)
        then Some "reject:C05 an inner observable's item delivered twice or out of its order"
        else if clean && outer_done && hot_ok && outer_last &&
                not (List.length items = List.length known && (match List.rev delivered with Done :: _ -> true | _ -> false))
        then Some "reject:C05 the outer stream and every inner observable have completed, yet an item is missing or the output did not complete"
        else Some "ok"
      end
      else if List.exists (fun m -> i2_sequential pipe m = delivered) (merges scripts) then Some "ok"
      else Some "nocorr:the delivered sequence is not what the sequential model gives for any merge of the threads' operations"
  | "tree" ->
      if String.length impl >= 5 && String.sub impl 0 5 = "PANIC" then Some "reject:panic" else
      let t = (match parse ("(" ^ impl ^ ")") with List l -> List.map ev_of l | _ -> []) in
      if wf t then Some "ok" else Some "reject:C01 a notification after the terminal, or a second terminal"
  | "finalize" when atom (List.nth body 1) = "twice" -> None
  | "finalize" when atom (List.nth body 1) = "iter" -> None
  | "finalize" ->
      if String.length impl >= 5 && String.sub impl 0 5 = "PANIC" then Some "reject:panic" else
      let sh = fshape_of (atom (List.nth body 1) = "hot") (List.nth body 2) in
      let sts = List.map zstim_of (args (List.nth body 3)) in
      let sts = if atom (List.nth body 1) = "cold"
        then (let evs = List.filter (function ZUnsub -> false | _ -> true) sts in
              if List.length evs < List.length sts then evs @ [ZUnsub] else evs)
        else sts in
      let segs = segs_of impl in
      let sp0 = fspec1 (match atom (List.nth body 1) with "never" | "dead" -> false | _ -> true) in
      (match fin_ok false sh sp0 sts segs with
       | O -> Some "ok"
       | _ when fin_ok true sh sp0 sts segs = O ->
           Some "known:downstream-finished finalize followed by take(n) on a subject: the subject's terminal after the take completed is not followed by the callback"
       | S O -> Some "reject:C15 the finalize callback did not run right after the first terminal / unsubscription"
       | S (S O) -> Some "reject:C15 the finalize callback ran before any terminal or unsubscription, or a second time"
       | _ -> Some "reject:unparsable")
  | _ -> None

let () =
  let impl_tbl = Hashtbl.create 1024 in
  if Array.length Sys.argv > 2 then begin
    let ic = open_in Sys.argv.(2) in
    (try while true do
        let line = input_line ic in
        match String.index_opt line ' ' with
        | Some i -> Hashtbl.replace impl_tbl (String.sub line 0 i) (String.sub line (i + 1) (String.length line - i - 1))
        | None -> Hashtbl.replace impl_tbl line ""
      done with End_of_file -> ());
    close_in ic
  end;
  let ic = open_in Sys.argv.(1) in
  let out = Buffer.create (1 lsl 20) in
  (try
     while true do
       let line = input_line ic in
       if String.trim line <> "" then begin
         match parse line with
         | List (Atom "case" :: Atom id :: Atom kind :: body) ->
             let (m, s) =
               try run_case kind body
               with Failure msg -> ("MODEL-ERROR " ^ msg, "MODEL-ERROR " ^ msg) in
             Buffer.add_string out (id ^ " M " ^ m ^ "\n");
             Buffer.add_string out (id ^ " S " ^ s ^ "\n");
             (match (if m = "-" then None else try oracle kind body m with _ -> Some "reject:unparsable") with
              | Some v when v <> "ok" && not (String.length v >= 6 && String.sub v 0 6 = "known:") -> Buffer.add_string out (id ^ " X " ^ v ^ "\n")
              | _ -> ());
             (match Hashtbl.find_opt impl_tbl id with
              | Some impl ->
                  (match (try oracle kind body impl with _ -> Some "reject:unparsable") with
                   | Some v -> Buffer.add_string out (id ^ " O " ^ v ^ "\n")
                   | None -> ())
              | None -> ())
         | _ -> failwith "bad case line"
       end
     done
   with End_of_file -> ());
  print_string (Buffer.contents out)
