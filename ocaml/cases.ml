(* Case kinds: each returns (model result, specification result). *)
open Model
open Driver

let run_case (kind : string) (body : sexp list) : string * string =
  match kind with
  | "chain" ->
      let src = src_of (List.nth body 0) in
      let us = List.map uop_of (args (List.nth body 1)) in
      (show_trace (run_src src us), show_trace (uchain_spec us (src_spec src)))
  | "hotchain" ->
      let calls = List.map ev_of (args (List.nth body 0)) in
      let us = List.map uop_of (args (List.nth body 1)) in
      (show_trace (run_hot (expand_all us) (slot calls)), show_trace (uchain_spec us (slot calls)))
  | k -> failwith ("unknown case kind " ^ k)

let () =
  let ic = open_in Sys.argv.(1) in
  let out = Buffer.create (1 lsl 20) in
  (try
     while true do
       let line = input_line ic in
       if String.trim line <> "" then begin
         match parse line with
         | List (Atom "case" :: Atom id :: Atom kind :: body) ->
             let (m, s) =
               try run_case kind body
               with Failure msg -> ("MODEL-ERROR " ^ msg, "MODEL-ERROR " ^ msg) in
             Buffer.add_string out (id ^ " M " ^ m ^ "\n");
             Buffer.add_string out (id ^ " S " ^ s ^ "\n")
         | _ -> failwith "bad case line"
       end
     done
   with End_of_file -> ());
  print_string (Buffer.contents out)
