(* Case kinds: each returns (model result, specification result). *)
open Model
open Driver

let rec run_case (kind : string) (body : sexp list) : string * string =
  match kind with
  | "chain" ->
      let src = src_of (List.nth body 0) in
      let us = List.map uop_of (args (List.nth body 1)) in
      (show_trace (run_src src us), show_trace (uchain_spec us (src_spec src)))
  | "hotchain" ->
      let calls = List.map ev_of (args (List.nth body 0)) in
      let us = List.map uop_of (args (List.nth body 1)) in
      (show_trace (run_hot (expand_all us) (slot calls)), show_trace (uchain_spec us (slot calls)))
  | "chain_t" -> run_case "chain" body
  | "hotchain_t" -> run_case "hotchain" body
  | "op2" | "op2_t" ->
      let o = op2_of (List.nth body 0) in
      let input s = (atom (List.hd (args s)) = "hot", List.map ev_of (List.tl (args s))) in
      let (hot_a, script_a) = input (List.nth body 1) in
      let (hot_b, script_b) = input (List.nth body 2) in
      let side_ev s = ((match head s with "a" -> A | "b" -> B | _ -> failwith "bad side"), ev_of (List.hd (args s))) in
      let hot_tl = List.map side_ev (args (List.nth body 3)) in
      (* a cold input emits its script during its own subscription, in subscription order *)
      let cold sd hot script = if hot then [] else List.map (fun e -> (sd, e)) (slot script) in
      let ca = cold A hot_a script_a and cb = cold B hot_b script_b in
      let pre = (match first_side o with A -> ca @ cb | B -> cb @ ca) in
      let tl = pre @ hot_tl in
      (show_trace (run_op2 o tl), show_trace (spec_op2 o tl))
  | "subject" ->
      let h = List.map sop_of (args (List.nth body 1)) in
      (* sub_closed on a subscriber that does not exist yet is skipped by the harness *)
      (show_sobs_list (srun subj0 h),
       if size_ok false h then show_sobs_list (arun asub0 h) else "UNSPECIFIED")
  | "behavior" ->
      let init = val_of (List.nth body 1) in
      let h = List.map bop_of (args (List.nth body 2)) in
      (show_bobs_list (brun (bsubj0 init) h),
       if size_ok false (sops_of h) then show_bobs_list (abrun (asub0, init) h) else "UNSPECIFIED")
  | k -> failwith ("unknown case kind " ^ k)

let () =
  let ic = open_in Sys.argv.(1) in
  let out = Buffer.create (1 lsl 20) in
  (try
     while true do
       let line = input_line ic in
       if String.trim line <> "" then begin
         match parse line with
         | List (Atom "case" :: Atom id :: Atom kind :: body) ->
             let (m, s) =
               try run_case kind body
               with Failure msg -> ("MODEL-ERROR " ^ msg, "MODEL-ERROR " ^ msg) in
             Buffer.add_string out (id ^ " M " ^ m ^ "\n");
             Buffer.add_string out (id ^ " S " ^ s ^ "\n")
         | _ -> failwith "bad case line"
       end
     done
   with End_of_file -> ());
  print_string (Buffer.contents out)
