(* Hand-written glue around the extracted model: parses the case files the Rust harness
   reads, calls the extracted functions, prints the same canonical result lines.
   Output: "<id> M <trace>" (model) and "<id> S <trace>" (specification / oracle). *)
open Model

type sexp = Atom of string | List of sexp list

let parse (s : string) : sexp =
  let n = String.length s in
  let pos = ref 0 in
  let is_ws c = c = ' ' || c = '\t' || c = '\n' || c = '\r' in
  let rec skip () = if !pos < n && is_ws s.[!pos] then (incr pos; skip ()) in
  let rec go () =
    skip ();
    if s.[!pos] = '(' then begin
      incr pos;
      let items = ref [] in
      let rec loop () =
        skip ();
        if s.[!pos] = ')' then incr pos
        else begin items := go () :: !items; loop () end in
      loop ();
      List (List.rev !items)
    end else begin
      let start = !pos in
      while !pos < n && not (is_ws s.[!pos]) && s.[!pos] <> '(' && s.[!pos] <> ')' do incr pos done;
      Atom (String.sub s start (!pos - start))
    end in
  go ()

let atom = function Atom a -> a | List _ -> failwith "expected atom"
let atom_opt = function Atom a -> Some a | List _ -> None
let head = function Atom a -> a | List (h :: _) -> atom h | List [] -> failwith "empty list"
let args = function Atom _ -> [] | List (_ :: r) -> r | List [] -> []
(* big / big1 / mid: usize::MAX, usize::MAX - 1, 2^33 in the crate; the model runs them as counts that no case's script reaches *)
let int_of s = match atom s with "big" -> 5000 | "big1" -> 4999 | "mid" -> 4000 | a -> int_of_string a

(* numbers: built and read back constructor by constructor, no Extract Constant *)
let rec pos_of_int n = if n = 1 then XH else if n land 1 = 0 then XO (pos_of_int (n / 2)) else XI (pos_of_int (n / 2))
let z_of_int n = if n = 0 then Z0 else if n > 0 then Zpos (pos_of_int n) else Zneg (pos_of_int (-n))
let rec int_of_pos = function XH -> 1 | XO p -> 2 * int_of_pos p | XI p -> 2 * int_of_pos p + 1
let int_of_z = function Z0 -> 0 | Zpos p -> int_of_pos p | Zneg p -> - (int_of_pos p)
let rec nat_of_int n = if n <= 0 then O else S (nat_of_int (n - 1))
let rec int_of_nat = function O -> 0 | S n -> 1 + int_of_nat n
let zarg s = z_of_int (int_of s)
let z_of_int_val n = VZ (z_of_int n)
let narg s = nat_of_int (int_of s)

let rec val_of (s : sexp) : val0 =
  match s with
  | Atom "#t" -> VB true
  | Atom "#f" -> VB false
  | Atom "u" -> VU
  | Atom "none" -> VOpt None
  | Atom _ -> VZ (zarg s)
  | List (Atom "p" :: [a; b]) -> VP (val_of a, val_of b)
  | List (Atom "l" :: r) -> VL (List.map val_of r)
  | List (Atom "some" :: [a]) -> VOpt (Some (val_of a))
  | _ -> failwith "bad val"

let rec show_val b (v : val0) =
  match v with
  | VZ z -> Buffer.add_string b (string_of_int (int_of_z z))
  | VB true -> Buffer.add_string b "#t"
  | VB false -> Buffer.add_string b "#f"
  | VU -> Buffer.add_string b "u"
  | VP (x, y) -> Buffer.add_string b "(p "; show_val b x; Buffer.add_char b ' '; show_val b y; Buffer.add_char b ')'
  | VL l -> Buffer.add_string b "(l"; List.iter (fun x -> Buffer.add_char b ' '; show_val b x) l; Buffer.add_char b ')'
  | VOpt None -> Buffer.add_string b "none"
  | VOpt (Some x) -> Buffer.add_string b "(some "; show_val b x; Buffer.add_char b ')'

let ev_of (s : sexp) : ev =
  match s with
  | Atom "c" -> Done
  | List [Atom "n"; v] -> Next (val_of v)
  | List [Atom "e"; k] -> Err (zarg k)
  | _ -> failwith "bad ev"

let show_ev b = function
  | Next v -> Buffer.add_string b "(n "; show_val b v; Buffer.add_char b ')'
  | Err e -> Buffer.add_string b ("(e " ^ string_of_int (int_of_z e) ^ ")")
  | Done -> Buffer.add_char b 'c'

let show_trace (t : ev list) : string =
  let b = Buffer.create 64 in
  List.iteri (fun i e -> if i > 0 then Buffer.add_char b ' '; show_ev b e) t;
  Buffer.contents b

let fn_of (s : sexp) : fn =
  let a = args s in
  match head s with
  | "id" -> FId
  | "add" -> FAdd (zarg (List.hd a))
  | "mul" -> FMul (zarg (List.hd a))
  | "mod" -> FMod (zarg (List.hd a))
  | "lt" -> FLt (zarg (List.hd a))
  | "eq" -> FEq (zarg (List.hd a))
  | "even" -> FEven
  | "const" -> FConst (val_of (List.hd a))
  | "pair_self" -> FPairSelf
  | "some_if_even" -> FSomeIfEven
  | "not" -> FNot
  | h -> failwith ("bad fn " ^ h)

let fn2_of (s : sexp) : fn2 =
  match head s with
  | "add" -> F2Add | "snd" -> F2Snd | "fst" -> F2Fst | "pair" -> F2Pair
  | "max" -> F2Max | "min" -> F2Min | "count" -> F2Count
  | h -> failwith ("bad fn2 " ^ h)

let uop_of (s : sexp) : uop =
  let a = args s in
  let a0 () = List.nth a 0 and a1 () = List.nth a 1 in
  match head s with
  | "map" -> UPrim (OMap (apply_fn (fn_of (a0 ()))))
  | "map_to" -> UPrim (OMapTo (val_of (a0 ())))
  | "filter" -> UPrim (OFilter (pred_of (fn_of (a0 ()))))
  | "filter_map" -> UPrim (OFilterMap (opt_of (fn_of (a0 ()))))
  | "tap" -> UPrim OTap
  (* higher-order stages that hand every item on unchanged: identity nodes in the model *)
  | "flat_map_of" | "concat_map_of" | "group_flat" -> UPrim OTap
  | "on_error_map" -> let k = zarg (a0 ()) in UPrim (OOnErrorMap (fun e -> Z.add e k))
  | "take" -> UPrim (OTake (narg (a0 ())))
  | "skip" -> UPrim (OSkip (narg (a0 ())))
  | "take_while" -> UPrim (OTakeWhile (pred_of (fn_of (a0 ())), false))
  | "take_while_inclusive" -> UPrim (OTakeWhile (pred_of (fn_of (a0 ())), true))
  | "skip_while" -> UPrim (OSkipWhile (pred_of (fn_of (a0 ()))))
  | "take_last" -> UPrim (OTakeLast (narg (a0 ())))
  | "skip_last" -> UPrim (OSkipLast (narg (a0 ())))
  | "last" -> UPrim OLast
  | "scan" -> UPrim (OScan (apply_fn2 (fn2_of (a0 ())), val_of (a1 ())))
  | "scan_default" -> UPrim (OScan (apply_fn2 (fn2_of (a0 ())), VZ Z0))
  | "default_if_empty" -> UPrim (ODefaultIfEmpty (val_of (a0 ())))
  | "distinct" -> UPrim ODistinct
  | "distinct_key" -> UPrim (ODistinctKey (apply_fn (fn_of (a0 ()))))
  | "distinct_until_changed" -> UPrim ODistinctUntilChanged
  | "distinct_until_key_changed" -> UPrim (ODistinctUntilKeyChanged (apply_fn (fn_of (a0 ()))))
  | "pairwise" -> UPrim OPairwise
  | "buffer_with_count" -> UPrim (OBufferCount (narg (a0 ())))
  | "contains" -> UPrim (OContains (val_of (a0 ())))
  | "collect" -> UPrim OCollect
  | "start_with" -> UPrim (OStartWith (List.map val_of a))
  | "first" -> UFirst
  | "first_or" -> UFirstOr (val_of (a0 ()))
  | "last_or" -> ULastOr (val_of (a0 ()))
  | "element_at" -> UElementAt (narg (a0 ()))
  | "ignore_elements" -> UIgnoreElements
  | "all" -> UAll (pred_of (fn_of (a0 ())))
  | "reduce_initial" -> UReduceInitial (apply_fn2 (fn2_of (a0 ())), val_of (a1 ()))
  | "reduce" -> UReduceInitial (apply_fn2 (fn2_of (a0 ())), VZ Z0)
  | "count" -> UCount
  | "sum" -> USum
  | "max" -> UMax
  | "min" -> UMin
  | "average" -> UAverage
  | h -> failwith ("bad operator " ^ h)

let src_of (s : sexp) : src =
  let a = args s in
  match head s with
  | "of" -> SrcOf (val_of (List.hd a))
  | "of_some" -> SrcOfOption (Some (val_of (List.hd a)))
  | "of_none" -> SrcOfOption None
  | "of_ok" -> SrcOfResult (Inl (val_of (List.hd a)))
  | "of_err" -> SrcOfResult (Inr (zarg (List.hd a)))
  | "of_fn" -> SrcOfFn (val_of (List.hd a))
  | "start" -> SrcStart (val_of (List.hd a))
  | "from_iter" -> SrcFromIter (List.map val_of a)
  | "repeat" -> SrcRepeat (val_of (List.nth a 0), narg (List.nth a 1))
  | "empty" -> SrcEmpty
  | "never" -> SrcNever
  | "throw" -> SrcThrow (zarg (List.hd a))
  | "create" -> SrcCreate (List.map ev_of a)
  | h -> failwith ("bad source " ^ h)

let op2_of (s : sexp) : op2 =
  match head s with
  | "merge" -> OMerge
  | "zip" -> OZip
  | "combine_latest" -> let f = apply_fn2 (fn2_of (List.hd (args s))) in OCombineLatest (fun a b -> VP (f a b, b))
  | "with_latest_from" -> OWithLatestFrom
  | "take_until" -> OTakeUntil
  | "skip_until" -> OSkipUntil
  | "sample" -> OSample
  | "buffer" -> OBuffer
  | h -> failwith ("bad op2 " ^ h)

(* ---- subjects ---- *)
let sop_of (s : sexp) : sop =
  let a = args s in
  match head s with
  | "sub" -> OpSubscribe
  | "unsub" -> OpUnsubOne (narg (List.hd a))
  | "next" -> OpNext (val_of (List.hd a))
  | "next_sub_inside" -> OpNextSubInside (val_of (List.nth a 0), narg (List.nth a 1))
  | "error" -> OpError (zarg (List.hd a))
  | "complete" -> OpComplete
  | "clone" -> OpClone
  | "retain" -> OpRetain
  | "unsub_subject" -> OpUnsubSubject
  | "len" -> OpLen
  | "is_empty" -> OpIsEmpty
  | "is_closed" -> OpIsClosed
  | "is_finished" -> OpIsFinished
  | "sub_closed" -> OpSubClosed (narg (List.hd a))
  | h -> failwith ("bad subject op " ^ h)

let show_sobs b = function
  | Deliver (i, e) -> Buffer.add_string b ("(d " ^ string_of_int (int_of_nat i) ^ " "); show_ev b e; Buffer.add_char b ')'
  | Subscribed i -> Buffer.add_string b ("(s " ^ string_of_int (int_of_nat i) ^ ")")
  | RetN n -> Buffer.add_string b ("(rn " ^ string_of_int (int_of_nat n) ^ ")")
  | RetB x -> Buffer.add_string b (if x then "(rb #t)" else "(rb #f)")

let show_sobs_list (l : sobs list) : string =
  let b = Buffer.create 64 in
  List.iteri (fun i o -> if i > 0 then Buffer.add_char b ' '; show_sobs b o) l;
  Buffer.contents b

let bop_of (s : sexp) : bop =
  match head s with
  | "next_by" -> BNextBy (apply_fn (fn_of (List.hd (args s))))
  | "peek" -> BPeek
  | _ -> BSub (sop_of s)

let show_bobs_list (l : bobs list) : string =
  let b = Buffer.create 64 in
  List.iteri (fun i o -> if i > 0 then Buffer.add_char b ' ';
     match o with
     | BO x -> show_sobs b x
     | BPeeked v -> Buffer.add_string b "(peek "; show_val b v; Buffer.add_char b ')') l;
  Buffer.contents b

(* ---- group_by ---- *)
let show_gev b = function
  | Announce k -> Buffer.add_string b "(a "; show_val b k; Buffer.add_char b ')'
  | GItem (k, v) -> Buffer.add_string b "(g "; show_val b k; Buffer.add_string b " (n "; show_val b v; Buffer.add_string b "))"
  | GTerm (k, e) -> Buffer.add_string b "(g "; show_val b k; Buffer.add_char b ' '; show_ev b e; Buffer.add_char b ')'
  | OuterTerm e -> Buffer.add_string b "(o "; show_ev b e; Buffer.add_char b ')'

let show_gevs (l : gev list) : string =
  let b = Buffer.create 64 in
  List.iteri (fun i g -> if i > 0 then Buffer.add_char b ' '; show_gev b g) l;
  Buffer.contents b

(* ---- flattening ---- *)
let inner_of (s : sexp) : iobs =
  match head s with
  | "coldi" -> ICold (List.map ev_of (args s))
  | "hoti" -> IHot (narg (List.hd (args s)))
  | h -> failwith ("bad inner " ^ h)

let fstim_of (s : sexp) : fstim =
  let a = args s in
  match head s with
  | "o" -> (match List.hd a with
            | Atom "c" -> FOuter ODone
            | List [Atom "e"; k] -> FOuter (OErr (zarg k))
            | i -> FOuter (ONext (inner_of i)))
  | "i" -> FInner (narg (List.nth a 0), ev_of (List.nth a 1))
  | "u" | "ud" -> FUnsub
  | h -> failwith ("bad flatten stimulus " ^ h)

let show_fouts (l : fout list) : string =
  let b = Buffer.create 64 in
  List.iteri (fun i o -> if i > 0 then Buffer.add_char b ' ';
    match o with
    | FItem (k, v) -> Buffer.add_string b ("(i " ^ string_of_int (int_of_nat k) ^ " "); show_val b v; Buffer.add_char b ')'
    | FTerm e -> Buffer.add_string b "(t "; show_ev b e; Buffer.add_char b ')'
    | FSubscribed k -> Buffer.add_string b ("(sub " ^ string_of_int (int_of_nat k) ^ ")")
    | FInnerDone k -> Buffer.add_string b ("(done " ^ string_of_int (int_of_nat k) ^ ")")
    | FStuck -> Buffer.add_string b "STUCK"
    | FMark j -> Buffer.add_string b ("(m " ^ string_of_int (int_of_nat j) ^ ")")) l;
  Buffer.contents b

(* ---- timed operators / scheduler ---- *)
let rec pos_of_int' n = pos_of_int n
let n_of_int n = if n = 0 then N0 else Npos (pos_of_int n)
let int_of_n = function N0 -> 0 | Npos p -> int_of_pos p
let narg_n s = n_of_int (int_of s)
let opt_n s = match s with Atom "none" -> None | _ -> Some (narg_n s)

let top_of (s : sexp) : top =
  let a = args s in
  match head s with
  | "delay" -> TDelay (narg_n (List.hd a))
  | "observe_on" -> TObserveOn
  | "delay_subscription" -> TDelaySubscription (narg_n (List.hd a))
  | "subscribe_on" -> TSubscribeOn
  | "debounce" -> TDebounce (narg_n (List.hd a))
  | "throttle" -> TThrottle (narg_n (List.nth a 0),
                             (match atom (List.nth a 1) with "leading" -> ELeading | "tailing" -> ETailing | _ -> EAll))
  | "buffer_with_time" -> TBufferTime (narg_n (List.hd a))
  | "buffer_with_count_and_time" -> TBufferCountTime (narg (List.nth a 0), narg_n (List.nth a 1))
  | "interval" -> TInterval (narg_n (List.hd a))
  | "interval_at" -> TIntervalAt (narg_n (List.nth a 0), narg_n (List.nth a 1))
  | "timer" -> TTimer (val_of (List.nth a 0), narg_n (List.nth a 1))
  | "raw" -> TRaw
  | h -> failwith ("bad timed op " ^ h)

let tlab_of (s : sexp) : tlab =
  let a = args s in
  match head s with
  | "src" -> LSrc (ev_of (List.hd a))
  | "run" -> LRun (narg (List.hd a))
  | "adv" -> LAdv (narg_n (List.hd a))
  | "unsub" | "drop" -> LUnsub
  | "closed" -> LClosed
  | "finish" -> LFinish
  | "spawn_once" -> LSpawnOnce (opt_n (List.hd a))
  | "spawn_repeat" -> LSpawnRepeat (narg_n (List.nth a 0), opt_n (List.nth a 1), narg (List.nth a 2))
  | "spawn_sub" -> LSpawnSub (opt_n (List.hd a))
  | "cancel" -> LCancel (narg (List.hd a))
  | "handle_closed" -> LHandleClosed (narg (List.hd a))
  | h -> failwith ("bad timed label " ^ h)

let show_touts (l : tout list) : string =
  let b = Buffer.create 64 in
  List.iteri (fun i o -> if i > 0 then Buffer.add_char b ' ';
    match o with
    | TOut (at, e) -> Buffer.add_string b ("(t " ^ string_of_int (int_of_n at) ^ " "); show_ev b e; Buffer.add_char b ')'
    | TRet x -> Buffer.add_string b (if x then "(rb #t)" else "(rb #f)")
    | TRan (t, seq, at) -> Buffer.add_string b (Printf.sprintf "(ran %d %d %d)" (int_of_nat t) (int_of_nat seq) (int_of_n at))
    | TInnerUnsub t -> Buffer.add_string b (Printf.sprintf "(iu %d)" (int_of_nat t))
    | TMark j -> Buffer.add_string b (Printf.sprintf "(m %d)" (int_of_nat j))) l;
  Buffer.contents b

(* ---- async sources ---- *)
let presult_of (s : sexp) : presult =
  match head s with
  | "p" -> PPending
  | "i" -> PItem (val_of (List.hd (args s)))
  | "f" -> PFail (zarg (List.hd (args s)))
  | "end" -> PEnd
  | h -> failwith ("bad poll result " ^ h)

let akind_of = function
  | "from_stream" -> AStream | "from_stream_result" -> AStreamResult
  | "from_future" -> AFuture | "from_future_result" -> AFutureResult
  | h -> failwith ("bad async kind " ^ h)

let alab_of (s : sexp) : alab =
  match atom s with "poll" -> APoll | "unsub" -> AUnsub | "closed" -> AClosed | h -> failwith ("bad async label " ^ h)

let show_aouts (l : aout list) : string =
  let b = Buffer.create 64 in
  List.iteri (fun i o -> if i > 0 then Buffer.add_char b ' ';
    match o with
    | AOut e -> show_ev b e
    | ARet x -> Buffer.add_string b (if x then "(rb #t)" else "(rb #f)")) l;
  Buffer.contents b

(* ---- subscription algebra ---- *)
let rec sterm_of (s : sexp) : sterm =
  match head s with
  | "unit" -> SUnitT
  | "leaf" -> SLeafT (narg (List.hd (args s)))
  | "multi" -> SMultiT
  | "zip" -> SZipT (sterm_of (List.nth (args s) 0), sterm_of (List.nth (args s) 1))
  | h -> failwith ("bad subscription term " ^ h)

let cop_of (s : sexp) : cop =
  let a = args s in
  match head s with
  | "append" -> CAppend (narg (List.hd a))
  | "unsub" -> CUnsub (sterm_of (List.hd a))
  | "closed" -> CClosed (sterm_of (List.hd a))
  | "die" -> CDie (narg (List.hd a))
  | h -> failwith ("bad subscription op " ^ h)

let show_cobs (l : cobs list) : string =
  String.concat " " (List.map (function CKilled k -> Printf.sprintf "(k %d)" (int_of_nat k) | CRet b -> if b then "(rb #t)" else "(rb #f)") l)

let fshape_of (hot : bool) (s : sexp) : fshape =
  match head s with
  | "plain" -> FPlain
  | "take_before" -> FTakeBefore (narg (List.hd (args s)))
  | "take_after" -> FTakeAfter (hot, narg (List.hd (args s)))
  | h -> failwith ("bad finalize shape " ^ h)

let zstim_of (s : sexp) : zstim =
  match s with
  | Atom "u" | Atom "ud" -> ZUnsub
  | _ -> ZSrc (ev_of s)

(* one segment per stimulus, each closed by `|` *)
let show_segs (l : zout list list) : string =
  let b = Buffer.create 64 in
  List.iteri (fun i seg ->
      if i > 0 then Buffer.add_char b ' ';
      List.iter (fun o -> (match o with ZOut e -> show_ev b e | ZCall -> Buffer.add_string b "call"); Buffer.add_char b ' ') seg;
      Buffer.add_char b '|') l;
  Buffer.contents b

let segs_of (impl : string) : zout list list =
  match parse ("(" ^ impl ^ ")") with
  | List l ->
      let (cur, acc) = List.fold_left (fun (cur, acc) x ->
          match x with
          | Atom "|" -> ([], List.rev cur :: acc)
          | Atom "call" -> (ZCall :: cur, acc)
          | e -> (ZOut (ev_of e) :: cur, acc)) ([], []) l in
      if cur <> [] then failwith "unterminated segment" else List.rev acc
  | _ -> []

let rec pipe_of (s : sexp) : pipe =
  let a = args s in
  match head s with
  | "hot" -> PHot (narg (List.hd a))
  | "cold" -> PCold (List.map ev_of a)
  | "src" -> PSrc (src_of (List.hd a))
  | "chain" -> PChain (pipe_of (List.nth a 0), expand_all (List.map uop_of (args (List.nth a 1))))
  | "op2" -> POp2 (op2_of (List.nth a 0), pipe_of (List.nth a 1), pipe_of (List.nth a 2))
  | h -> failwith ("bad pipe " ^ h)

let stim_of (s : sexp) : nat * ev = (nat_of_int (int_of_string (head s)), ev_of (List.hd (args s)))
