(* Cold pipelines as values: where the state of each operator lives.  `HFresh`: created by
   actual_subscribe (or held in the operator value and copied by Clone): every subscription has
   its own.  `HShared a`: a cell reachable from the pipeline value, which Clone does not copy —
   no operator of the crate is built like this (Gen/OpState.v), the constructor exists so that
   the independence theorem says something.  No proofs here. *)
From RxModel Require Export Chain.
Local Open Scope nat_scope.

Inductive home := HFresh | HShared (addr : nat).

Definition pval := list (op1 * home).

Definition heap := list (nat * ost).      (* the shared cells, most recent binding first *)

Fixpoint hget (h : heap) (a : nat) : option ost :=
  match h with [] => None | (b, st) :: r => if Nat.eqb a b then Some st else hget r a end.

(* a subscribed operator: its state is its own, or lives in the heap *)
Record hnode := { h_op : op1; h_st : ost + nat; h_live : bool }.

Definition hnode_init (x : op1 * home) : hnode :=
  {| h_op := fst x; h_st := match snd x with HFresh => inl (init1 (fst x)) | HShared a => inr a end; h_live := true |}.

Definition read (h : heap) (nd : hnode) : ost :=
  match h_st nd with inl st => st | inr a => match hget h a with Some st => st | None => init1 (h_op nd) end end.

Definition write (h : heap) (nd : hnode) (st : ost) (live : bool) : heap * hnode :=
  match h_st nd with
  | inl _ => (h, {| h_op := h_op nd; h_st := inl st; h_live := live |})
  | inr a => ((a, st) :: h, {| h_op := h_op nd; h_st := inr a; h_live := live |})
  end.

Fixpoint hfeed (h : heap) (nd : hnode) (evs : list ev) : heap * hnode * list ev :=
  match evs with
  | [] => (h, nd, [])
  | e :: r =>
      if h_live nd then
        let '(st', out) := step1 (h_op nd) (read h nd) e in
        let '(h1, nd1) := write h nd st' (negb (is_term e)) in
        let '(h2, nd2, out') := hfeed h1 nd1 r in
        (h2, nd2, out ++ out')
      else (h, nd, [])
  end.

Fixpoint hpush (h : heap) (ch : list hnode) (evs : list ev) : heap * list hnode * list ev :=
  match ch with
  | [] => (h, [], evs)
  | nd :: rest =>
      let '(h1, nd', out) := hfeed h nd evs in
      let '(h2, rest', out') := hpush h1 rest out in
      (h2, nd' :: rest', out')
  end.

(* subscribing a clone of the pipeline value (start_with items first, as in Chain.subscribe_chain) *)
Fixpoint hsubscribe (h : heap) (pv : pval) : heap * list hnode * list ev :=
  match pv with
  | [] => (h, [], [])
  | x :: rest =>
      let '(h1, rest', out_rest) := hsubscribe h rest in
      let '(h2, rest'', out_o) := hpush h1 rest' (sub1 (fst x)) in
      (h2, hnode_init x :: rest'', out_rest ++ out_o)
  end.

(* one complete subscription of a cold pipeline whose source emits `s` *)
Definition sub_run (h : heap) (pv : pval) (s : list ev) : heap * list ev :=
  let '(h1, ch, pre) := hsubscribe h pv in
  let '(h2, _, out) := hpush h1 ch s in
  (h2, pre ++ out).

(* k successive subscriptions of clones *)
Fixpoint sub_runs (h : heap) (pv : pval) (s : list ev) (k : nat) : list (list ev) :=
  match k with
  | O => []
  | S k' => let '(h1, out) := sub_run h pv s in out :: sub_runs h1 pv s k'
  end.

(* a second subscription made from inside a callback of the first one, after the first has
   delivered the outputs of the first `at` source events *)
Definition nested_run (h : heap) (pv : pval) (s : list ev) (at_ : nat) : list ev * list ev :=
  let '(h1, ch, pre) := hsubscribe h pv in
  let '(h2, ch2, out_a) := hpush h1 ch (firstn at_ s) in
  let '(h3, inner) := sub_run h2 pv s in
  let '(_, _, out_b) := hpush h3 ch2 (skipn at_ s) in
  (pre ++ out_a ++ out_b, inner).

Definition all_fresh (pv : pval) : bool := forallb (fun x => match snd x with HFresh => true | _ => false end) pv.

(* ---------- laziness: sources whose closures / iterators are observed by the harness ---------- *)
Inductive lsrc :=
| LOfFn (v : val)                 (* of_fn(f): f is called by actual_subscribe *)
| LStart (v : val)                (* start(f): likewise *)
| LDefer (inner : lsrc)           (* defer(factory): the factory is called by actual_subscribe *)
| LCreate (script : list ev)      (* create(f): f is called with the subscriber *)
| LIter (n : nat)                 (* from_iter over a counting iterator 0..n-1 (pulls are counted) *)
| LColl (n : nat).                (* from_iter over a collection whose into_iter() is counted, and the pulls of its iterator *)

Fixpoint lscript (s : lsrc) : list ev :=
  match s with
  | LOfFn v | LStart v => [Next v; Done]
  | LDefer i => lscript i
  | LCreate script => slot script
  | LIter n | LColl n => map (fun k => Next (VZ (Z.of_nat k))) (seq 0 n) ++ [Done]
  end.

(* closure calls of the source caused by one subscription, not counting iterator pulls *)
Fixpoint factory_calls (s : lsrc) : nat :=
  match s with
  | LOfFn _ | LStart _ | LCreate _ | LColl _ => 1
  | LDefer i => 1 + factory_calls i
  | LIter _ => 0
  end.

Fixpoint is_iter (s : lsrc) : bool := match s with LIter _ | LColl _ => true | LDefer i => is_iter i | _ => false end.

(* building the pipeline value calls nothing; k subscriptions call k times what one calls *)
Definition calls_after (per_subscription : nat) (subscriptions : nat) : nat := subscriptions * per_subscription.
