(* The two-input operators: how the shared state of Model/Ops2.v is laid out in the crate's observer structs (the cells
   MutRc / MutArc are modelled as their content: both inputs' observers hold the same content), and the statements that
   Proofs/BodyTie2.v proves of the bodies translated from /repo/src.  No proofs in this file. *)
From RxModel Require Export Ops2 RustSem BodyAbs.
Open Scope string_scope.
Open Scope list_scope.

(* file and the type of the observer handed to this input *)
Definition src2 (o : op2) (sd : side) : string * string :=
  match o, sd with
  | OMerge, _ => ("ops/merge.rs", "MergeObserver")
  | OZip, A => ("ops/zip.rs", "AObserver")
  | OZip, B => ("ops/zip.rs", "BObserver")
  | OCombineLatest _, A => ("ops/combine_latest.rs", "AObserver")
  | OCombineLatest _, B => ("ops/combine_latest.rs", "BObserver")
  | OWithLatestFrom, A => ("ops/with_latest_from.rs", "AObserver")
  | OWithLatestFrom, B => ("ops/with_latest_from.rs", "BObserver")
  | OTakeUntil, A => ("ops/take_until.rs", "Option")          (* the main input gets the shared cell itself (observer.rs) *)
  | OTakeUntil, B => ("ops/take_until.rs", "TakeUntilNotifierObserver")
  | OSkipUntil, A => ("ops/skip_until.rs", "ShareObserver")
  | OSkipUntil, B => ("ops/skip_until.rs", "SkipUntilNotifierObserver")
  | OSample, A => ("ops/sample.rs", "SourceObserver")
  | OSample, B => ("ops/sample.rs", "SampleObserver")
  | OBuffer, A => ("ops/buffer.rs", "Option")               (* the cell that holds the whole BufferObserver *)
  | OBuffer, B => ("ops/buffer.rs", "NotifierObserver")
  end.

Definition wrap (ty : string) (cell : rv) : rv := VStruct ty [("0", cell); ("1", VUnit)].

Definition abs2 (o : op2) (sd : side) (s : st2) : option rv :=
  match o with
  | OMerge =>
      Some (VStruct "MergeObserver" [("observer", oslot (alive s)); ("completed_one", VBool (c1 s))])
  | OZip =>
      Some (wrap (snd (src2 o sd))
              (VStruct "ZipObserver" [("observer", oslot (alive s)); ("a", VItems (qa s)); ("b", VItems (qb s));
                                      ("completed_one", VBool (c1 s))]))
  | OCombineLatest f =>
      Some (wrap (snd (src2 o sd))
              (VStruct "CombineLatestObserver" [("observer", oslot (alive s)); ("a", VOptItem (la s)); ("b", VOptItem (lb s));
                                                ("binary_op", VF2 f); ("completed_one", VBool (c1 s))]))
  | OWithLatestFrom =>
      Some (match sd with
            | A => VStruct "AObserver" [("observer", oslot (alive s)); ("value", VOptItem (lb s))]
            | B => VStruct "BObserver" [("observer", oslot (alive s)); ("value", VOptItem (lb s)); ("_marker", VUnit)]
            end)
  | OTakeUntil =>
      Some (match sd with
            | A => oslot (alive s)
            | B => VStruct "TakeUntilNotifierObserver" [("main_observer", oslot (alive s)); ("_hint", VUnit)]
            end)
  | OSkipUntil =>
      let share := VStruct "ShareObserver" [("observer", oslot (alive s)); ("skip", VBool (skipping s))] in
      Some (match sd with A => share | B => wrap "SkipUntilNotifierObserver" share end)
  | OSample =>
      Some (VStruct (snd (src2 o sd)) [("observer", oslot (alive s)); ("value", VOptItem (la s))])
  | OBuffer =>
      let cell := if alive s then VSome (VStruct "BufferObserver" [("observer", VObs); ("data", VItems (qa s))]) else VOptItem None in
      Some (match sd with A => cell | B => VStruct "NotifierObserver" [("0", cell); ("1", VUnit)] end)
  end.

Definition src_call2 (P : prog) (o : op2) (sd : side) (m : string) (self : rv) (args : list rv) : option (rv * list ev) :=
  let '(file, ty) := src2 o sd in
  match call_method P file FUEL ty m self args with
  | Some (self', out, _) => Some (self', out)
  | None => None
  end.

(* One call on the observer of one input: the shared content afterwards (seen through that observer) and the
   notifications sent on are the machine's.  Terminals included: the cell outlives the observer that is consumed. *)
Definition step2_agrees (P : prog) (o : op2) : Prop :=
  forall (s : st2) (sd : side) (e : ev),
    match abs2 o sd s, abs2 o sd (fst (step2 o s sd e)) with
    | Some self, Some self' =>
        src_call2 P o sd (fst (arg_of e)) self (snd (arg_of e)) = Some (self', snd (step2 o s sd e))
    | _, _ => False
    end.
