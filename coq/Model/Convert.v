(* to_future / to_stream (ops/future.rs, ops/stream.rs: an observer feeding an unbounded channel,
   a future / stream polling its receiver) and complete_status (ops/complete_status.rs: a flag and
   a one-slot waker).  Transcribed from the code as repaired: error() of the future's observer
   sends what it recorded, error() of the stream's observer sends the end marker after the error,
   and the status future looks at the flag again after it has registered its waker.  The pinned
   forms are kept under `pinned = true` so that the refutations can be stated.  No proofs here. *)
From RxModel Require Export Base.
Local Open Scope nat_scope.

(* ---------- to_future ---------- *)
Inductive fmsg := MOk (v : val) | MErr (e : Z) | MEmpty | MMultiple.

Inductive flabel := FEv (e : ev) | FPoll.
Inductive fres := FReady (m : fmsg) | FPending.

Record fut := {
  f_last : option fmsg;       (* ObservableFutureObserver.last_value *)
  f_obs : bool;               (* the observer (and its sender) still exists *)
  f_queue : list fmsg;        (* messages in the channel *)
  f_open : bool               (* some sender is still alive and the channel has not been closed *)
}.

Definition fut0 : fut := {| f_last := None; f_obs := true; f_queue := []; f_open := true |}.

(* send_observable_value *)
Definition record (last : option fmsg) (m : fmsg) : option fmsg :=
  match last with Some _ => Some MMultiple | None => Some m end.

Definition fstep (pinned : bool) (s : fut) (l : flabel) : fut * list fres :=
  match l with
  | FEv e =>
      if f_obs s then
        match e with
        | Next v => ({| f_last := record (f_last s) (MOk v); f_obs := true; f_queue := f_queue s; f_open := f_open s |}, [])
        | Err x =>
            let last := record (f_last s) (MErr x) in
            if pinned
            then (* recorded, never sent; the observer is dropped and with it the only sender *)
              ({| f_last := last; f_obs := false; f_queue := f_queue s; f_open := false |}, [])
            else
              ({| f_last := None; f_obs := false; f_queue := f_queue s ++ [match last with Some m => m | None => MEmpty end]; f_open := false |}, [])
        | Done =>
            ({| f_last := None; f_obs := false; f_queue := f_queue s ++ [match f_last s with Some m => m | None => MEmpty end]; f_open := false |}, [])
        end
      else (s, [])
  | FPoll =>
      match f_queue s with
      | m :: r => ({| f_last := f_last s; f_obs := f_obs s; f_queue := r; f_open := f_open s |}, [FReady m])
      | [] => (s, [FPending])      (* open: the waker is registered; closed: None is turned into Pending *)
      end
  end.

Fixpoint frun_ (pinned : bool) (s : fut) (ls : list flabel) : list fres :=
  match ls with [] => [] | l :: r => let '(s1, o) := fstep pinned s l in o ++ frun_ pinned s1 r end.
Definition run_future (pinned : bool) (ls : list flabel) : list fres := frun_ pinned fut0 ls.

(* the documented outcome of a source history *)
Definition outcome (items : list val) (t : term) : option fmsg :=
  match t with
  | TNone => None
  | TDone => Some (match items with [] => MEmpty | [v] => MOk v | _ => MMultiple end)
  | TErr e => Some (match items with [] => MErr e | _ => MMultiple end)
  end.

(* ---------- to_stream ---------- *)
Inductive smsg := SItem (v : val) | SErrItem (e : Z) | SEnd.
Inductive sres := SReady (m : smsg) | SPending.

Record strm := { s_obs : bool; s_queue : list smsg; s_ended : bool }.
Definition strm0 : strm := {| s_obs := true; s_queue := []; s_ended := false |}.

Definition sstep_ (pinned : bool) (s : strm) (l : flabel) : strm * list sres :=
  match l with
  | FEv e =>
      if s_obs s then
        match e with
        | Next v => ({| s_obs := true; s_queue := s_queue s ++ [SItem v]; s_ended := s_ended s |}, [])
        | Err x => ({| s_obs := false; s_queue := s_queue s ++ SErrItem x :: (if pinned then [] else [SEnd]); s_ended := s_ended s |}, [])
        | Done => ({| s_obs := false; s_queue := s_queue s ++ [SEnd]; s_ended := s_ended s |}, [])
        end
      else (s, [])
  | FPoll =>
      if s_ended s then (s, [SPending])     (* the receiver has been closed and drained: None -> Pending *)
      else
        match s_queue s with
        | SEnd :: r => ({| s_obs := s_obs s; s_queue := []; s_ended := true |}, [SReady SEnd])
        | m :: r => ({| s_obs := s_obs s; s_queue := r; s_ended := false |}, [SReady m])
        | [] => (s, [SPending])
        end
  end.

Fixpoint srun_ (pinned : bool) (s : strm) (ls : list flabel) : list sres :=
  match ls with [] => [] | l :: r => let '(s1, o) := sstep_ pinned s l in o ++ srun_ pinned s1 r end.
Definition run_stream (pinned : bool) (ls : list flabel) : list sres := srun_ pinned strm0 ls.

(* ---------- complete_status: the producer's two steps against the waiter's steps ---------- *)
Inductive wstep :=
| PStore (error : bool)    (* StatusObserver: flag.store(1 / -1) *)
| PWake                    (* waker.wake() *)
| WCheck                   (* StatusFuture::poll: if is_closed() { return Ready } *)
| WRegister                (* waker.register(cx.waker()) *)
| WRecheck.                (* look at the flag again, then return Pending (absent in the pinned code) *)

Record wst := {
  w_flag : Z;              (* 0 running, 1 completed, -1 error *)
  w_registered : bool;     (* AtomicWaker holds the waiter's waker *)
  w_woken : bool;          (* the waiter's waker has been woken: the executor will poll it again *)
  w_pc : nat;              (* waiter: 0 before the check, 1 after it, 2 after registering, 3 returned Pending, 4 returned Ready *)
}.

Definition wst0 : wst := {| w_flag := 0; w_registered := false; w_woken := false; w_pc := 0 |}.

Definition wstep_ (pinned : bool) (s : wst) (x : wstep) : wst :=
  match x with
  | PStore err => {| w_flag := if err then (-1)%Z else 1%Z; w_registered := w_registered s; w_woken := w_woken s; w_pc := w_pc s |}
  | PWake => if w_registered s
             then {| w_flag := w_flag s; w_registered := false; w_woken := true; w_pc := w_pc s |}
             else s
  | WCheck => if Nat.eqb (w_pc s) 0
              then {| w_flag := w_flag s; w_registered := w_registered s; w_woken := w_woken s;
                      w_pc := if Z.eqb (w_flag s) 0 then 1 else 4 |}
              else s
  | WRegister => if Nat.eqb (w_pc s) 1
                 then {| w_flag := w_flag s; w_registered := true; w_woken := w_woken s; w_pc := if pinned then 3 else 2 |}
                 else s
  | WRecheck => if Nat.eqb (w_pc s) 2
                then {| w_flag := w_flag s; w_registered := w_registered s; w_woken := w_woken s;
                        w_pc := if Z.eqb (w_flag s) 0 then 3 else 4 |}
                else s
  end.

Definition wrun (pinned : bool) (xs : list wstep) : wst := fold_left (wstep_ pinned) xs wst0.

(* the waiter will not sleep for ever: it returned Ready, or it will be polled again *)
Definition waiter_safe (s : wst) : bool := Nat.eqb (w_pc s) 4 || w_woken s.
