(* finalize (ops/finalize.rs): FinalizerObserver{observer, func: $rc<Option<F>>} and FinalizerSubscription{subscription, func}
   laid out from the state of Model/Finalize.v; the callback and the upstream subscription are values whose call is an
   observation (VMark), so that WHERE the callback runs shows in the output.  No proofs in this file. *)
From RxModel Require Export Finalize RustSem BodyAbs.
Open Scope string_scope.
Open Scope list_scope.

(* the cell that holds the callback until somebody takes it *)
Definition func_cell (present : bool) (call : ev) : rv := if present then VSome (VMark call) else VOptItem None.

Definition fin_observer (s : zstate) (call : ev) : rv :=
  VStruct "FinalizerObserver" [("observer", VObs); ("func", func_cell (z_func s) call)].

Definition fin_subscription (s : zstate) (call upstream : ev) : rv :=
  VStruct "FinalizerSubscription" [("subscription", VMark upstream); ("func", func_cell (z_func s) call)].

Definition zout_ev (call : ev) (o : zout) : ev := match o with ZOut e => e | ZCall => call end.

Definition fin_call (P : prog) (ty m : string) (self : rv) (args : list rv) : option (rv * list ev) :=
  match call_method P "ops/finalize.rs" FUEL ty m self args with
  | Some (self', out, _) => Some (self', out)
  | None => None
  end.

(* FinalizerObserver: next / error / complete do what fin_step does: forward, and after a terminal run the callback if
   it is still in its cell (and take it out) *)
Definition fin_observer_agrees (P : prog) : Prop :=
  forall (s : zstate) (e call : ev),
    fin_call P "FinalizerObserver" (fst (arg_of e)) (fin_observer s call) (snd (arg_of e))
    = Some (fin_observer (fst (fin_step s e)) call, map (zout_ev call) (snd (fin_step s e))).

(* FinalizerSubscription::unsubscribe: the upstream subscription first, then the callback if it is still there *)
Definition fin_unsubscribe_agrees (P : prog) : Prop :=
  forall (s : zstate) (call upstream : ev),
    fin_call P "FinalizerSubscription" "unsubscribe" (fin_subscription s call upstream) []
    = Some (fin_subscription {| z_src := false; z_take_alive := z_take_alive s; z_take_hits := z_take_hits s; z_func := false; z_unsub := true |}
              call upstream,
            upstream :: (if z_func s then [call] else [])).
