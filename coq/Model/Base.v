(* Values, events and the small family of first-order closures used by cases. *)
From Coq Require Export List ZArith NArith Bool Arith Lia.
Export ListNotations.
Open Scope Z_scope.

(* Item values.  The harness crate has a Rust mirror of this type. *)
Inductive val :=
| VZ (z : Z)
| VB (b : bool)
| VU
| VP (a b : val)
| VL (l : list val)
| VOpt (o : option val).

Inductive ev :=
| Next (v : val)
| Err (e : Z)
| Done.

Definition is_term (e : ev) : bool :=
  match e with Next _ => false | _ => true end.

(* Terminal of a finite script: none yet, completed, failed. *)
Inductive term := TNone | TDone | TErr (e : Z).

Definition term_evs (t : term) : list ev :=
  match t with TNone => [] | TDone => [Done] | TErr e => [Err e] end.

(* The well-formed script with the given items and terminal. *)
Definition mk (items : list val) (t : term) : list ev :=
  map Next items ++ term_evs t.

(* Next* (Err|Done)? *)
Fixpoint wf (s : list ev) : bool :=
  match s with
  | [] => true
  | Next _ :: s' => wf s'
  | _ :: s' => match s' with [] => true | _ => false end
  end.

Fixpoint items_of (s : list ev) : list val :=
  match s with
  | Next v :: s' => v :: items_of s'
  | _ => []
  end.

Fixpoint term_of (s : list ev) : term :=
  match s with
  | [] => TNone
  | Next _ :: s' => term_of s'
  | Done :: _ => TDone
  | Err e :: _ => TErr e
  end.

(* Decidable equality on values (what Rust's PartialEq/Eq/Hash give on the mirror). *)
Fixpoint val_eqb (a b : val) {struct a} : bool :=
  match a, b with
  | VZ x, VZ y => Z.eqb x y
  | VB x, VB y => Bool.eqb x y
  | VU, VU => true
  | VP a1 a2, VP b1 b2 => val_eqb a1 b1 && val_eqb a2 b2
  | VL l1, VL l2 =>
      (fix go (l1 l2 : list val) {struct l1} : bool :=
         match l1, l2 with
         | [], [] => true
         | x :: l1', y :: l2' => val_eqb x y && go l1' l2'
         | _, _ => false
         end) l1 l2
  | VOpt None, VOpt None => true
  | VOpt (Some x), VOpt (Some y) => val_eqb x y
  | _, _ => false
  end.

Definition mem (v : val) (l : list val) : bool := existsb (val_eqb v) l.

(* A total order on integer items; other shapes compare as equal (only used on VZ). *)
Definition val_ltb (a b : val) : bool :=
  match a, b with VZ x, VZ y => Z.ltb x y | _, _ => false end.

Definition truthy (v : val) : bool :=
  match v with VB true => true | _ => false end.

(* First-order closure family: cases carry these, theorems quantify over all functions. *)
Inductive fn :=
| FId
| FAdd (k : Z)
| FMul (k : Z)
| FMod (k : Z)
| FLt (k : Z)
| FEq (k : Z)
| FEven
| FConst (v : val)
| FPairSelf
| FSomeIfEven
| FNot.

Definition apply_fn (f : fn) (v : val) : val :=
  match f, v with
  | FId, _ => v
  | FAdd k, VZ z => VZ (z + k)
  | FMul k, VZ z => VZ (z * k)
  | FMod k, VZ z => VZ (if Z.eqb k 0 then z else Z.modulo z k)
  | FLt k, VZ z => VB (Z.ltb z k)
  | FEq k, VZ z => VB (Z.eqb z k)
  | FEven, VZ z => VB (Z.even z)
  | FConst c, _ => c
  | FPairSelf, _ => VP v v
  | FSomeIfEven, VZ z => VOpt (if Z.even z then Some v else None)
  | FNot, VB b => VB (negb b)
  | _, _ => v
  end.

(* Binary closures for scan/reduce/combine. *)
Inductive fn2 :=
| F2Add | F2Snd | F2Fst | F2Pair | F2Max | F2Min | F2Count.

Definition apply_fn2 (f : fn2) (a b : val) : val :=
  match f, a, b with
  | F2Add, VZ x, VZ y => VZ (x + y)
  | F2Snd, _, _ => b
  | F2Fst, _, _ => a
  | F2Pair, _, _ => VP a b
  | F2Max, VZ x, VZ y => VZ (Z.max x y)
  | F2Min, VZ x, VZ y => VZ (Z.min x y)
  | F2Count, VZ x, _ => VZ (x + 1)
  | _, _, _ => a
  end.

Definition pred_of (f : fn) (v : val) : bool := truthy (apply_fn f v).

Definition opt_of (f : fn) (v : val) : option val :=
  match apply_fn f v with VOpt o => o | w => Some w end.
