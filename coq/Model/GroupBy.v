(* group_by (ops/group_by.rs): GroupByObserver{observer, discr, subjects: HashMap<Key, Subject>}.
   The subscriber attaches to each group's subject inside the callback that announces it. *)
From RxModel Require Export Base.

Inductive gev :=
| Announce (k : val)                 (* outer observer.next(KeyObservable{key,..}) *)
| GItem (k : val) (v : val)          (* the group's subject delivers an item to its subscriber *)
| GTerm (k : val) (e : ev)           (* the group's subject delivers the terminal *)
| OuterTerm (e : ev).                (* the stream of groups terminates *)

(* subjects: keys in order of first appearance (the HashMap's iteration order is arbitrary;
   the harness sorts a terminal block into this order before comparing) *)
Definition gstep (key : val -> val) (subjects : list val) (e : ev) : list val * list gev :=
  match e with
  | Next v =>
      let k := key v in
      if mem k subjects then (subjects, [GItem k v])
      else (subjects ++ [k], [Announce k; GItem k v])
  | _ => ([], map (fun k => GTerm k e) subjects ++ [OuterTerm e])
  end.

Fixpoint grun (key : val -> val) (subjects : list val) (s : list ev) : list gev :=
  match s with
  | [] => []
  | e :: r =>
      let '(subjects', out) := gstep key subjects e in
      out ++ (if is_term e then [] else grun key subjects' r)
  end.

Definition run_group_by (key : val -> val) (s : list ev) : list gev := grun key [] s.
