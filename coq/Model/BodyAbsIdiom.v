(* The closure idiom `.on_error(f).on_complete(g).subscribe(h)`: the chain of three observer structs that the source
   receives (ops/on_error.rs, ops/on_complete.rs, observable/subscribe_item.rs), with f, g, h as callbacks whose calls are
   observed.  No proofs in this file. *)
From RxModel Require Export Pipe RustSem BodyAbs.
Open Scope string_scope.
Open Scope list_scope.

Definition idiom_observer : rv :=
  VStruct "OnErrorObserver"
    [("observer", VStruct "OnCompleteObserver" [("observer", VStruct "ObserverItem" [("next", VMarkArg)]); ("func", VMark Done)]);
     ("func", VMarkArg)].

(* drive the translated observer with a call sequence; error(self) / complete(self) consume it *)
Fixpoint idiom_run (P : prog) (self : rv) (t : list ev) : option (list ev) :=
  match t with
  | [] => Some []
  | e :: r =>
      match call_method P "ops/on_error.rs" FUEL "OnErrorObserver" (fst (arg_of e)) self (snd (arg_of e)) with
      | Some (self', out, _) =>
          if is_term e then Some out
          else match idiom_run P self' r with Some rest => Some (out ++ rest) | None => None end
      | None => None
      end
  end.

(* one call: h, f or g is called with exactly this notification, and nothing else happens *)
Definition idiom_call_agrees (P : prog) : Prop :=
  forall e : ev,
    call_method P "ops/on_error.rs" FUEL "OnErrorObserver" (fst (arg_of e)) idiom_observer (snd (arg_of e))
    = Some (idiom_observer, [e], VUnit).
