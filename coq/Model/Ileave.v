(* SubjectThreads / BehaviorSubject over SubjectThreads at the granularity of mutex
   acquisitions, with the shared state the acquisitions protect (subject.rs, subscriber.rs,
   observer.rs impl_rc_observer, subject/behavior_subject.rs).

   A thread runs a script of operations.  Between two moves a thread is parked at a GATE: right
   before it locks a `MutArc` (the crate's lock_gate hook), or at the yield point a probe's
   callback contains.  One move = lock that mutex and run on to the next gate.  A schedule is a
   list of thread numbers; picking a thread whose mutex is iheld by another thread, or a
   finished thread, does nothing.  The state read and written under the locks is part of the
   model, so what `next` delivers depends on who subscribed and unsubscribed before, exactly as
   in the crate.  No proofs in this file. *)
From RxModel Require Export Base.
Local Open Scope nat_scope.

Inductive ilock := LObs | LCham | LVal | LCell (k : nat).

Inductive iop :=
| INext (v : Z)              (* Observer::next on a clone of the subject *)
| ITerm (e : option Z)       (* complete (None) / error *)
| ISub (k : nat)             (* subscribe probe k *)
| IUnsub (k : nat)           (* unsubscribe() on the subscription of probe k *)
| IBNext (v : Z)             (* BehaviorSubject::next *)
| IBSub (k : nat)            (* BehaviorSubject::actual_subscribe *)
| IBPeek
| ISUnsub.                   (* Subscription::unsubscribe on a clone of the subject itself *)

Inductive payload := YItem (v : Z) | YTerm (e : option Z).

(* where a thread is parked inside its current operation *)
Inductive ipc :=
| PIdle                                          (* before the first lock of the operation *)
| PLoad (p : payload)                            (* load(): iholds observers; gate: chamber *)
| PDeliver (p : payload)                         (* gate: observers, for the delivery *)
| PCell (v : Z) (rest : list nat)                (* iholds observers; gate: cell of (hd rest) *)
| PInCb (v : Z) (k : nat) (rest : list nat)      (* iholds observers and cell k: inside probe k's next *)
| PFin (e : option Z) (rest : list nat)          (* iholds observers (list taken); gate: cell, is_finished() *)
| PClosed (e : option Z) (rest : list nat)       (* ... gate: cell, is_closed() *)
| PTake (e : option Z) (rest : list nat)         (* ... gate: cell, take() and deliver *)
| PInCbT (e : option Z) (k : nat) (rest : list nat)
| PInCbB (k : nat) (x : Z)                       (* behavior subscribe: iholds the value cell, inside probe k's next *)
| PSubCham (k : nat)                             (* behavior subscribe: gate: chamber *)
| PSUnsub.                                       (* subject unsubscribe: the observer list is gone; gate: chamber *)

Record ithread := { t_pc : ipc; t_ops : list iop; t_idx : nat }.

Inductive itr :=
| TAcq (t : nat) (l : ilock)                     (* thread t locked l *)
| TEv (k : nat) (e : payload) (t j : nat)        (* probe k was handed e by operation j of thread t *)
| TPk (x : Z) (t j : nat)                        (* peek() answered x *)
| TUn (k : nat) (t j : nat)                      (* unsubscribe() of probe k's subscription returned *)
| TOverlap (k : nat)                             (* probe k entered while already inside a callback *)
| TPanic (t : nat).                              (* thread t panicked: load() found the observer list but no chamber *)

Record ish := {
  s_obs : option (list nat);      (* observers: the probes' cells, None once a terminal took the list *)
  s_cham : option (list nat);     (* chamber, None once the subject itself was unsubscribed *)
  s_cells : list (nat * bool);    (* SubscriberThreads cells: probe, still iholds its observer *)
  s_val : Z;                      (* BehaviorSubject's value cell *)
  s_busy : list nat               (* probes inside a callback *)
}.

Definition ish0 (v0 : Z) : ish := {| s_obs := Some []; s_cham := Some []; s_cells := []; s_val := v0; s_busy := [] |}.

Fixpoint imem (x : nat) (l : list nat) : bool := match l with [] => false | y :: r => Nat.eqb x y || imem x r end.

Fixpoint remove1 (x : nat) (l : list nat) : list nat :=
  match l with [] => [] | y :: r => if Nat.eqb x y then r else y :: remove1 x r end.

Definition cell_known (s : ish) (k : nat) : bool := existsb (fun c => Nat.eqb (fst c) k) (s_cells s).
Definition cell_alive (s : ish) (k : nat) : bool := existsb (fun c => Nat.eqb (fst c) k && snd c) (s_cells s).

Definition set_obs s o := {| s_obs := o; s_cham := s_cham s; s_cells := s_cells s; s_val := s_val s; s_busy := s_busy s |}.
Definition set_cham s c := {| s_obs := s_obs s; s_cham := c; s_cells := s_cells s; s_val := s_val s; s_busy := s_busy s |}.
Definition set_cells s c := {| s_obs := s_obs s; s_cham := s_cham s; s_cells := c; s_val := s_val s; s_busy := s_busy s |}.
Definition set_val s v := {| s_obs := s_obs s; s_cham := s_cham s; s_cells := s_cells s; s_val := v; s_busy := s_busy s |}.
Definition set_busy s b := {| s_obs := s_obs s; s_cham := s_cham s; s_cells := s_cells s; s_val := s_val s; s_busy := b |}.

Definition kill_cell (s : ish) (k : nat) : ish :=
  set_cells s (map (fun c => if Nat.eqb (fst c) k then (fst c, false) else c) (s_cells s)).

(* Subject::actual_subscribe under the chamber's mutex: a cell holding the observer is pushed; once
   the subject was unsubscribed the subscriber gets an empty cell *)
Definition subscribe_cell (s : ish) (k : nat) : ish :=
  match s_cham s with
  | Some c => set_cells (set_cham s (Some (c ++ [k]))) (s_cells s ++ [(k, true)])
  | None => set_cells s (s_cells s ++ [(k, false)])
  end.

Definition enter_cb (s : ish) (k : nat) : ish * list itr :=
  (set_busy s (k :: s_busy s), if imem k (s_busy s) then [TOverlap k] else []).
Definition leave_cb (s : ish) (k : nat) : ish := set_busy s (remove1 k (s_busy s)).

(* the mutexes a parked thread iholds *)
Definition iholds (pc : ipc) (l : ilock) : bool :=
  match pc, l with
  | (PLoad _ | PCell _ _ | PFin _ _ | PClosed _ _ | PTake _ _ | PInCb _ _ _ | PInCbT _ _ _), LObs => true
  | (PInCb _ k _ | PInCbT _ k _), LCell k' => Nat.eqb k k'
  | PInCbB _ _, LVal => true
  | _, _ => false
  end.

(* the gate a thread is parked at: None = its script is over; Some None = a yield point (no
   mutex); Some (Some l) = about to lock l *)
Definition ineed (s : ish) (th : ithread) : option (option ilock) :=
  match t_pc th with
  | PIdle =>
      match t_ops th with
      | [] => None
      | (INext _ | ITerm _) :: _ => Some (Some LObs)
      | ISub _ :: _ => Some (Some LCham)
      | IUnsub k :: _ => if cell_known s k then Some (Some (LCell k)) else Some None
      | (IBNext _ | IBSub _ | IBPeek) :: _ => Some (Some LVal)
      | ISUnsub :: _ => Some (Some LObs)
      end
  | PLoad _ | PSubCham _ | PSUnsub => Some (Some LCham)
  | PDeliver _ => Some (Some LObs)
  | PCell _ (k :: _) | PFin _ (k :: _) | PClosed _ (k :: _) | PTake _ (k :: _) => Some (Some (LCell k))
  | PCell _ [] | PFin _ [] | PClosed _ [] | PTake _ [] => Some None
  | PInCb _ _ _ | PInCbT _ _ _ | PInCbB _ _ => Some None
  end.

Definition iheld (ths : list ithread) (l : ilock) : bool := existsb (fun th => iholds (t_pc th) l) ths.

Definition ienabled (s : ish) (ths : list ithread) (t : nat) : bool :=
  match nth_error ths t with
  | Some th =>
      match ineed s th with
      | None => false
      | Some None => true
      | Some (Some l) => negb (iheld ths l)
      end
  | None => false
  end.

(* the operation is over: on to the next one *)
Definition op_done (th : ithread) : ithread := {| t_pc := PIdle; t_ops := tl (t_ops th); t_idx := S (t_idx th) |}.
Definition at_pc (th : ithread) (pc : ipc) : ithread := {| t_pc := pc; t_ops := t_ops th; t_idx := t_idx th |}.

Definition acq (t : nat) (o : option ilock) : list itr := match o with Some l => [TAcq t l] | None => [] end.

(* one move of thread t (assumed ienabled): lock and run on to the next gate *)
Definition imove (s : ish) (t : nat) (th : ithread) : ish * ithread * list itr :=
  let j := t_idx th in
  match t_pc th with
  | PIdle =>
      match t_ops th with
      | [] => (s, th, [])
      (* load(): the chamber is locked only when the observer list is still there *)
      | INext v :: _ =>
          (s, at_pc th (match s_obs s with Some _ => PLoad (YItem v) | None => PDeliver (YItem v) end), [TAcq t LObs])
      | ITerm e :: _ =>
          (s, at_pc th (match s_obs s with Some _ => PLoad (YTerm e) | None => PDeliver (YTerm e) end), [TAcq t LObs])
      | ISub k :: _ => (subscribe_cell s k, op_done th, [TAcq t LCham])
      | ISUnsub :: _ => (set_obs s None, at_pc th PSUnsub, [TAcq t LObs])
      | IUnsub k :: _ =>
          if cell_known s k then (kill_cell s k, op_done th, [TAcq t (LCell k); TUn k t j])
          else (s, op_done th, [TUn k t j])
      | IBNext v :: r =>
          (* *self.value.rc_deref_mut() = value.clone(); then Observer::next(&mut self.subject, value) *)
          (set_val s v, {| t_pc := PIdle; t_ops := INext v :: r; t_idx := j |}, [TAcq t LVal])
      | IBSub k :: _ =>
          (* observer.next(self.value.rc_deref().clone()): the guard lives to the end of the statement *)
          let '(s1, o1) := enter_cb s k in (s1, at_pc th (PInCbB k (s_val s)), TAcq t LVal :: o1)
      | IBPeek :: _ => (s, op_done th, [TAcq t LVal; TPk (s_val s) t j])
      end
  | PLoad p =>
      (* observers.append(chamber) under both mutexes; both released *)
      match s_obs s, s_cham s with
      | Some o, Some c => (set_cham (set_obs s (Some (o ++ c))) (Some []), at_pc th (PDeliver p), [TAcq t LCham])
      | Some _, None => (s, {| t_pc := PIdle; t_ops := []; t_idx := t_idx th |}, [TAcq t LCham; TPanic t])   (* unwrap() on None *)
      | None, _ => (s, at_pc th (PDeliver p), [TAcq t LCham])
      end
  | PDeliver (YItem v) =>
      match s_obs s with
      | Some (k :: r) => (s, at_pc th (PCell v (k :: r)), [TAcq t LObs])
      | _ => (s, op_done th, [TAcq t LObs])
      end
  | PDeliver (YTerm e) =>
      match s_obs s with
      | Some (k :: r) => (set_obs s None, at_pc th (PFin e (k :: r)), [TAcq t LObs])
      | Some [] => (set_obs s None, op_done th, [TAcq t LObs])
      | None => (s, op_done th, [TAcq t LObs])
      end
  | PCell v (k :: rest) =>
      if cell_alive s k then
        let '(s1, o1) := enter_cb s k in (s1, at_pc th (PInCb v k rest), TAcq t (LCell k) :: o1)
      else (s, match rest with [] => op_done th | _ => at_pc th (PCell v rest) end, [TAcq t (LCell k)])
  | PInCb v k rest =>
      (leave_cb s k, match rest with [] => op_done th | _ => at_pc th (PCell v rest) end, [TEv k (YItem v) t j])
  | PFin e (k :: rest) =>
      (* filter(|o| !o.p_is_closed()): is_finished() first; an empty cell answers true *)
      if cell_alive s k then (s, at_pc th (PClosed e (k :: rest)), [TAcq t (LCell k)])
      else (s, match rest with [] => op_done th | _ => at_pc th (PFin e rest) end, [TAcq t (LCell k)])
  | PClosed e (k :: rest) =>
      if cell_alive s k then (s, at_pc th (PTake e (k :: rest)), [TAcq t (LCell k)])
      else (s, match rest with [] => op_done th | _ => at_pc th (PFin e rest) end, [TAcq t (LCell k)])
  | PTake e (k :: rest) =>
      if cell_alive s k then
        let '(s1, o1) := enter_cb (kill_cell s k) k in (s1, at_pc th (PInCbT e k rest), TAcq t (LCell k) :: o1)
      else (s, match rest with [] => op_done th | _ => at_pc th (PFin e rest) end, [TAcq t (LCell k)])
  | PInCbT e k rest =>
      (leave_cb s k, match rest with [] => op_done th | _ => at_pc th (PFin e rest) end, [TEv k (YTerm e) t j])
  | PInCbB k x =>
      (leave_cb s k, at_pc th (PSubCham k), [TEv k (YItem x) t j])
  | PSubCham k => (subscribe_cell s k, op_done th, [TAcq t LCham])
  | PSUnsub => (set_cham s None, op_done th, [TAcq t LCham])
  | PCell _ [] | PFin _ [] | PClosed _ [] | PTake _ [] => (s, op_done th, [])
  end.

Fixpoint set_th (l : list ithread) (i : nat) (x : ithread) : list ithread :=
  match l, i with
  | [], _ => []
  | _ :: r, O => x :: r
  | y :: r, S i' => y :: set_th r i' x
  end.

Definition ipick (s : ish) (ths : list ithread) (t : nat) : ish * list ithread * list itr :=
  if ienabled s ths t then
    match nth_error ths t with
    | Some th => let '(s1, th1, o) := imove s t th in (s1, set_th ths t th1, o)
    | None => (s, ths, [])
    end
  else (s, ths, []).

Fixpoint irun (s : ish) (ths : list ithread) (sched : list nat) : ish * list ithread * list itr :=
  match sched with
  | [] => (s, ths, [])
  | t :: r =>
      let '(s1, ths1, o1) := ipick s ths t in
      let '(s2, ths2, o2) := irun s1 ths1 r in
      (s2, ths2, o1 ++ o2)
  end.

Definition start_thread (ops : list iop) : ithread := {| t_pc := PIdle; t_ops := ops; t_idx := 0 |}.

Definition ifinished (ths : list ithread) : bool :=
  forallb (fun th => match t_pc th, t_ops th with PIdle, [] => true | _, _ => false end) ths.

(* nobody can move although somebody's script is not over *)
Definition istuck (s : ish) (ths : list ithread) : bool :=
  negb (ifinished ths) && forallb (fun t => negb (ienabled s ths t)) (seq 0 (length ths)).

(* the setup script runs alone, to its end, before the threads start; `fuel` moves suffice
   when fuel >= the number of gates of the script *)
Fixpoint run_alone (fuel : nat) (s : ish) (th : ithread) : ish :=
  match fuel with
  | O => s
  | S f =>
      match ineed s th with
      | None => s
      | Some _ => let '(s1, th1, _) := imove s 9 th in run_alone f s1 th1
      end
  end.

Inductive iend := EFinished | EDeadlock | EShort.

(* the trace of the threads, how it ends, and the value cell at the end *)
Definition run_case (v0 : Z) (setup : list iop) (scripts : list (list iop)) (sched : list nat) : list itr * iend * Z :=
  let s0 := run_alone 1000 (ish0 v0) (start_thread setup) in
  let '(s, ths, tr) := irun s0 (map start_thread scripts) sched in
  (tr, if ifinished ths then EFinished else if istuck s ths then EDeadlock else EShort, s_val s).
