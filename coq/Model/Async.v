(* from_future(_result) / from_stream(_result): a task that relays what a future or stream
   yields (observable/from_future.rs, from_stream.rs, from_stream_result.rs).  The future /
   stream is a script of poll results.  No proofs here. *)
From RxModel Require Export Base.

Inductive presult :=
| PPending                    (* Poll::Pending *)
| PItem (v : val)             (* Ready(v) / Ready(Some(v)) / Ready(Some(Ok(v))) *)
| PFail (e : Z)               (* Ready(Err(e)) / Ready(Some(Err(e))) *)
| PEnd.                       (* Ready(None) *)

Inductive akind := AStream | AStreamResult | AFuture | AFutureResult.

(* one poll of the task: the stream variants loop until the stream is pending or exhausted *)
Fixpoint pump (k : akind) (script : list presult) : list ev * list presult * bool :=
  match script with
  | [] => match k with
          | AStream | AStreamResult => ([Done], [], true)       (* an exhausted script ends the stream *)
          | _ => ([], [], false)                                 (* a future that is never ready *)
          end
  | PPending :: r => ([], r, false)
  | PItem v :: r =>
      match k with
      | AStream | AStreamResult => let '(o, r', f) := pump k r in (Next v :: o, r', f)
      | _ => ([Next v; Done], r, true)
      end
  | PFail e :: r =>
      match k with
      | AStreamResult | AFutureResult => ([Err e], r, true)
      | AStream => let '(o, r', f) := pump k r in (o, r', f)     (* not expressible for an infallible stream: skipped *)
      | AFuture => ([], r, false)
      end
  | PEnd :: r =>
      match k with
      | AStream | AStreamResult => ([Done], r, true)
      | _ => ([], r, false)
      end
  end.

Inductive alab := APoll | AUnsub | AClosed.

Inductive aout := AOut (e : ev) | ARet (b : bool).

Record astate := { a_script : list presult; a_finished : bool; a_keep : bool; a_value : bool }.

Definition astep (k : akind) (s : astate) (l : alab) : astate * list aout :=
  match l with
  | APoll =>
      if a_finished s then (s, [])
      else if negb (a_keep s) then ({| a_script := a_script s; a_finished := true; a_keep := false; a_value := a_value s |}, [])
      else
        let '(o, r, f) := pump k (a_script s) in
        ({| a_script := r; a_finished := f; a_keep := true; a_value := f |}, map AOut o)
  | AUnsub => ({| a_script := a_script s; a_finished := a_finished s; a_keep := false; a_value := false |}, [])
  | AClosed => (s, [ARet (a_value s)])
  end.

Fixpoint arun' (k : akind) (s : astate) (ls : list alab) : list aout :=
  match ls with
  | [] => []
  | l :: r => let '(s', o) := astep k s l in o ++ arun' k s' r
  end.

Definition run_async (k : akind) (script : list presult) (ls : list alab) : list aout :=
  arun' k {| a_script := script; a_finished := false; a_keep := true; a_value := false |} ls.

(* what the future / stream yields in the end: its values, then the error or completion *)
Fixpoint yields (k : akind) (script : list presult) : list ev :=
  match script with
  | [] => match k with AStream | AStreamResult => [Done] | _ => [] end
  | PPending :: r => yields k r
  | PItem v :: r => match k with AStream | AStreamResult => Next v :: yields k r | _ => [Next v; Done] end
  | PFail e :: r => match k with
                    | AStreamResult | AFutureResult => [Err e]
                    | _ => yields k r end
  | PEnd :: r => match k with AStream | AStreamResult => [Done] | _ => yields k r end
  end.

Fixpoint pendings (script : list presult) : nat :=
  match script with [] => 0 | PPending :: r => S (pendings r) | _ :: r => pendings r end.
