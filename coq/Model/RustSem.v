(* Meaning of the syntax trees of Model/RustAst.v: a small evaluator for the subset of Rust in
   which the crate's observer methods are written.  Values are items, counters, flags, options,
   sequences (Vec / VecDeque / HashSet), tuples, structs, user closures (Gallina functions), and
   `VObs`, the downstream observer: calling next / error / complete on it appends an event to
   the output.  Whatever the evaluator does not understand (unknown syntax, an unknown method,
   `unwrap` of None, arithmetic underflow, a missing field) evaluates to None.
   No proofs in this file. *)
From RxModel Require Export Base RustAst.
Open Scope string_scope.
Open Scope list_scope.

Inductive rv :=
| VItem (v : val)
| VErrv (e : Z)
| VNat (n : nat)
| VBool (b : bool)
| VUnit
| VOptItem (o : option val)               (* Option<Item>; VOptItem None is the None of every option type *)
| VSome (x : rv)                         (* Some(x) for an x that is not an item *)
| VItems (q : list val)                  (* Vec / VecDeque / HashSet of items; VItems [] is every empty collection *)
| VSeq (l : list rv)                     (* a non-empty collection of other things *)
| VTup (l : list rv)
| VStruct (name : string) (fs : list (string * rv))
| VObs                                   (* the downstream observer *)
| VF1 (f : val -> val)
| VPred (p : val -> bool)
| VFOpt (f : val -> option val)
| VF2 (f : val -> val -> val)
| VFErr (g : Z -> Z)
| VCallback                              (* a user callback whose effect is outside the model (tap) *)
| VSrc                                   (* the upstream observable: actual_subscribe(o) hands o over *)
| VPanic                                 (* the result of a usize subtraction that underflows *)
| VEnum (c : string) (args : list rv)    (* a variant of one of the crate's enums: ZipItem::ItemA(v) *)
| VRef (path : list string)              (* `let inner = self.rc_deref_mut()`: a name for a place inside self *)
| VMark (e : ev)                         (* a user callback / an upstream subscription whose call is an observation: calling it
                                            (f(), or .unsubscribe()) appends e to the output *)
| VMarkArg                               (* a user callback whose call with an item / an error appends Next item / Err error *)
| VClosTok                               (* a closure / function item that is only passed on (an operator's parameter) *)
| VSubTok (closed : bool) (e : ev).      (* a subscription behind a Box<dyn Subscription>: is_closed() answers `closed`,
                                            unsubscribe() is an observed call (appends e) *)

Definition env := list (string * rv).

(* concatenation and length for the evaluator's own book-keeping (environments, output, paths), under
   names of their own: symbolic evaluation computes these and keeps `app` / `length` on data folded *)
Fixpoint cat {A} (a b : list A) : list A := match a with [] => b | x :: a' => x :: cat a' b end.
Fixpoint elen {A} (a : list A) : nat := match a with [] => O | _ :: a' => S (elen a') end.

Fixpoint lookup (x : string) (e : env) : option rv :=
  match e with
  | [] => None
  | (y, v) :: e' => if String.eqb x y then Some v else lookup x e'
  end.

Fixpoint update (x : string) (v : rv) (e : env) : option env :=
  match e with
  | [] => None
  | (y, w) :: e' =>
      if String.eqb x y then Some ((y, v) :: e')
      else match update x v e' with Some e'' => Some ((y, w) :: e'') | None => None end
  end.

Record frame := { fself : rv; flocals : env }.

(* ---- values as items *)
Fixpoint to_item (a : rv) : option val :=
  match a with
  | VItem v => Some v
  | VBool b => Some (VB b)
  | VNat n => Some (VZ (Z.of_nat n))
  | VUnit => Some VU
  | VOptItem o => Some (VOpt o)
  | VSome x => match to_item x with Some v => Some (VOpt (Some v)) | None => None end
  | VItems q => Some (VL q)
  | VTup [x; y] => match to_item x, to_item y with Some a, Some b => Some (VP a b) | _, _ => None end
  | VSeq l =>
      match (fix go (l : list rv) : option (list val) :=
               match l with
               | [] => Some []
               | x :: l' => match to_item x, go l' with Some v, Some vs => Some (v :: vs) | _, _ => None end
               end) l with
      | Some vs => Some (VL vs)
      | None => None
      end
  | _ => None
  end.


(* usize arithmetic and the comparisons of items, under names of their own: symbolic evaluation
   (Proofs/BodyTie.v) keeps them folded *)
Definition u_ltb := Nat.ltb.
Definition u_leb := Nat.leb.
Definition u_eqb := Nat.eqb.
Definition u_add := Nat.add.
Definition u_sub := Nat.sub.
Definition u_len (l : list rv) := length l.

Definition item_eqb := val_eqb.

(* equality as PartialEq gives it on the harness's mirror type *)
Fixpoint rv_eqb (a b : rv) {struct a} : option bool :=
  match a, b with
  | VItem x, VItem y => Some (item_eqb x y)
  | VNat x, VNat y => Some (Nat.eqb x y)
  | VBool x, VBool y => Some (Bool.eqb x y)
  | VUnit, VUnit => Some true
  | VErrv x, VErrv y => Some (Z.eqb x y)
  | VOptItem None, VOptItem None => Some true
  | VOptItem (Some x), VOptItem (Some y) => Some (item_eqb x y)
  | VOptItem _, VOptItem _ => Some false
  | VSome x, VSome y => rv_eqb x y
  | VSome _, VOptItem None | VOptItem None, VSome _ => Some false
  | _, _ => None
  end.

Fixpoint mem_rv (x : rv) (l : list rv) : option bool :=
  match l with
  | [] => Some false
  | y :: l' =>
      match rv_eqb x y, mem_rv x l' with
      | Some b, Some c => Some (b || c)
      | _, _ => None
      end
  end.

Fixpoint default_of (v : rv) : option rv :=
  match v with
  | VNat _ => Some (VNat 0)
  | VBool _ => Some (VBool false)
  | VUnit => Some VUnit
  | VOptItem _ | VSome _ => Some (VOptItem None)
  | VItems _ | VSeq _ => Some (VItems [])
  | VTup l =>
      match (fix go (l : list rv) : option (list rv) :=
               match l with
               | [] => Some []
               | x :: l' => match default_of x, go l' with Some d, Some ds => Some (d :: ds) | _, _ => None end
               end) l with
      | Some ds => Some (VTup ds)
      | None => None
      end
  | _ => None
  end.

(* ---- places: self or a local, then fields *)
Definition place := (option string * list string)%type.

Fixpoint place_of (e : rx) : option place :=
  match e with
  | XSelf => Some (None, [])
  | XVar x => Some (Some x, [])
  | XRef e' => place_of e'
  | XField e' f => match place_of e' with Some (r, p) => Some (r, cat p [f]) | None => None end
  | XMeth e' m [] =>
      if String.eqb m "rc_deref_mut" || String.eqb m "rc_deref" || String.eqb m "as_mut" || String.eqb m "as_ref"
         || String.eqb m "iter" || String.eqb m "iter_mut" || String.eqb m "into_iter"
      then place_of e' else None
  | _ => None
  end.

Definition digit_index (f : string) : option nat :=
  if String.eqb f "0" then Some 0%nat else if String.eqb f "1" then Some 1%nat
  else if String.eqb f "2" then Some 2%nat else if String.eqb f "3" then Some 3%nat else None.

Fixpoint set_nth {A} (n : nat) (x : A) (l : list A) : option (list A) :=
  match n, l with
  | O, _ :: l' => Some (x :: l')
  | S n', y :: l' => match set_nth n' x l' with Some l'' => Some (y :: l'') | None => None end
  | _, [] => None
  end.

(* "?" names the payload of Some(x): `if let Some(o) = &mut *cell` binds o to that place *)
Definition get_field (v : rv) (f : string) : option rv :=
  match v with
  | VSome x => if String.eqb f "?" then Some x else None
  | VStruct _ fs => lookup f fs
  | VTup l => match digit_index f with Some n => nth_error l n | None => None end
  | _ => None
  end.

Definition set_field (v : rv) (f : string) (x : rv) : option rv :=
  match v with
  | VSome _ => if String.eqb f "?" then Some (VSome x) else None
  | VStruct n fs => match update f x fs with Some fs' => Some (VStruct n fs') | None => None end
  | VTup l => match digit_index f with
              | Some n => match set_nth n x l with Some l' => Some (VTup l') | None => None end
              | None => None end
  | _ => None
  end.

Fixpoint get_path (v : rv) (p : list string) : option rv :=
  match p with
  | [] => Some v
  | f :: p' => match get_field v f with Some w => get_path w p' | None => None end
  end.

Fixpoint set_path (v : rv) (p : list string) (x : rv) : option rv :=
  match p with
  | [] => Some x
  | f :: p' =>
      match get_field v f with
      | Some w => match set_path w p' x with Some w' => set_field v f w' | None => None end
      | None => None
      end
  end.

Definition get_place (fr : frame) (pl : place) : option rv :=
  match fst pl with
  | None => get_path (fself fr) (snd pl)
  | Some x =>
      match lookup x (flocals fr) with
      | Some (VRef p0) => get_path (fself fr) (cat p0 (snd pl))
      | Some v => get_path v (snd pl)
      | None => None
      end
  end.

Definition set_place (fr : frame) (pl : place) (x : rv) : option frame :=
  match fst pl with
  | None => match set_path (fself fr) (snd pl) x with
            | Some s => Some {| fself := s; flocals := flocals fr |} | None => None end
  | Some y =>
      match lookup y (flocals fr) with
      | Some (VRef p0) =>
          match set_path (fself fr) (cat p0 (snd pl)) x with
          | Some s => Some {| fself := s; flocals := flocals fr |} | None => None end
      | Some v => match set_path v (snd pl) x with
                  | Some v' => match update y v' (flocals fr) with
                               | Some l => Some {| fself := fself fr; flocals := l |} | None => None end
                  | None => None end
      | None => None
      end
  end.

(* the path inside self that a place denotes: directly, or through a local that names a place inside self *)
Definition self_path (fr : frame) (pl : place) : option (list string) :=
  match fst pl with
  | None => Some (snd pl)
  | Some x => match lookup x (flocals fr) with Some (VRef p0) => Some (cat p0 (snd pl)) | _ => None end
  end.

(* ---- patterns *)
Inductive mres := MYes (b : env) | MNo | MBad.

Fixpoint bind_pat (p : rpat) (v : rv) {struct p} : mres :=
  match p with
  | PWild => MYes []
  | PVar x => MYes [(x, v)]
  | PRef p' => bind_pat p' v
  | PTup ps =>
      match v with
      | VTup vs =>
          (fix go (ps : list rpat) (vs : list rv) : mres :=
             match ps, vs with
             | [], [] => MYes []
             | p1 :: ps', v1 :: vs' =>
                 match bind_pat p1 v1 with
                 | MYes b1 => match go ps' vs' with MYes b2 => MYes (cat b2 b1) | r => r end
                 | r => r
                 end
             | _, _ => MBad
             end) ps vs
      | _ => MBad
      end
  | PCtor c ps =>
      match v with
      | VOptItem o =>
          if String.eqb c "Some" then
            match ps, o with
            | [p1], Some x => bind_pat p1 (VItem x)
            | [_], None => MNo
            | _, _ => MBad
            end
          else if String.eqb c "None" then
            match ps, o with [], None => MYes [] | [], Some _ => MNo | _, _ => MBad end
          else MBad
      | VSome x =>
          if String.eqb c "Some" then match ps with [p1] => bind_pat p1 x | _ => MBad end
          else if String.eqb c "None" then match ps with [] => MNo | _ => MBad end
          else MBad
      | VEnum c' vs =>
          if String.eqb c c' then
            (fix go (ps : list rpat) (vs : list rv) : mres :=
               match ps, vs with
               | [], [] => MYes []
               | p1 :: ps', v1 :: vs' =>
                   match bind_pat p1 v1 with
                   | MYes b1 => match go ps' vs' with MYes b2 => MYes (cat b2 b1) | r => r end
                   | r => r
                   end
               | _, _ => MBad
               end) ps vs
          else MNo
      | _ => MBad
      end
  | PStruct _ fps =>
      match v with
      | VStruct _ fs =>
          (fix go (fps : list (string * rpat)) : mres :=
             match fps with
             | [] => MYes []
             | (f, p1) :: fps' =>
                 match lookup f fs with
                 | Some v1 =>
                     match bind_pat p1 v1 with
                     | MYes b1 => match go fps' with MYes b2 => MYes (cat b2 b1) | r => r end
                     | r => r
                     end
                 | None => MBad
                 end
             end) fps
      | _ => MBad
      end
  | PBool b => match v with VBool c => if Bool.eqb b c then MYes [] else MNo | _ => MBad end
  | PNum n => match v with VNat m => if Nat.eqb n m then MYes [] else MNo | _ => MBad end
  | _ => MBad
  end.

(* ---- built-in methods: result, new receiver *)
Definition opt_last {A} (l : list A) : option A := match rev l with x :: _ => Some x | [] => None end.

Definition builtin (m : string) (recv : rv) (args : list rv) : option (rv * rv * list ev) :=
  let same r := Some (r, recv, []) in
  match recv with
  | VObs =>
      if String.eqb m "next" then
        match args with [a] => match to_item a with Some v => Some (VUnit, recv, [Next v]) | None => None end | _ => None end
      else if String.eqb m "error" then
        match args with [VErrv e] => Some (VUnit, recv, [Err e]) | _ => None end
      else if String.eqb m "complete" then
        match args with [] => Some (VUnit, recv, [Done]) | _ => None end
      else None
  | VOptItem o =>
      if String.eqb m "as_mut" || String.eqb m "as_ref" || String.eqb m "clone" || String.eqb m "cloned"
         || String.eqb m "rc_deref" || String.eqb m "rc_deref_mut" then
        match args with [] => same recv | _ => None end
      else if String.eqb m "take" then
        match args with [] => Some (recv, VOptItem None, []) | _ => None end
      else if String.eqb m "unwrap" then
        match args, o with [], Some x => same (VItem x) | _, _ => None end
      else if String.eqb m "is_none" then
        match args with [] => same (VBool (match o with None => true | Some _ => false end)) | _ => None end
      else if String.eqb m "is_some" then
        match args with [] => same (VBool (match o with None => false | Some _ => true end)) | _ => None end
      else if String.eqb m "replace" then
        match args with [VItem x] => Some (recv, VOptItem (Some x), []) | [x] => Some (recv, VSome x, []) | _ => None end
      else None
  | VSome x =>
      if String.eqb m "as_mut" || String.eqb m "as_ref" || String.eqb m "clone" || String.eqb m "cloned"
         || String.eqb m "rc_deref" || String.eqb m "rc_deref_mut" then
        match args with [] => same recv | _ => None end
      else if String.eqb m "take" then
        match args with [] => Some (recv, VOptItem None, []) | _ => None end
      else if String.eqb m "unwrap" then
        match args with [] => same x | _ => None end
      else if String.eqb m "is_none" then
        match args with [] => same (VBool false) | _ => None end
      else if String.eqb m "is_some" then
        match args with [] => same (VBool true) | _ => None end
      else if String.eqb m "replace" then
        match args with [VItem y] => Some (recv, VOptItem (Some y), []) | [y] => Some (recv, VSome y, []) | _ => None end
      else None
  | VItems q =>
      if String.eqb m "push_back" || String.eqb m "push" then
        match args, q with
        | [VItem x], _ => Some (VUnit, VItems (q ++ [x]), [])
        | [x], [] => Some (VUnit, VSeq [x], [])
        | _, _ => None end
      else if String.eqb m "insert" then          (* HashSet::insert: the model keeps the newest first *)
        match args, q with
        | [VItem x], _ => Some (VBool true, VItems (x :: q), [])
        | [x], [] => Some (VBool true, VSeq [x], [])
        | _, _ => None end
      else if String.eqb m "pop_front" then
        match args with
        | [] => Some (VOptItem (hd_error q), VItems (tl q), [])
        | _ => None end
      else if String.eqb m "len" then
        match args with [] => same (VNat (length q)) | _ => None end
      else if String.eqb m "is_empty" then
        match args with [] => same (VBool (match q with [] => true | _ => false end)) | _ => None end
      else if String.eqb m "contains" then
        match args with [VItem x] => same (VBool (mem x q)) | _ => None end
      else if String.eqb m "drain" then
        match args with [VUnit] => Some (recv, VItems [], []) | _ => None end      (* the full range *)
      else if String.eqb m "extend" then
        match args with
        | [VOptItem (Some x)] => Some (VUnit, VItems (q ++ [x]), [])
        | [VOptItem None] => Some (VUnit, recv, [])
        | [VItems q2] => Some (VUnit, VItems (q ++ q2), [])
        | _ => None end
      else if String.eqb m "clear" then
        match args with [] => Some (VUnit, VItems [], []) | _ => None end
      else if String.eqb m "clone" || String.eqb m "into_iter" || String.eqb m "iter" then
        match args with [] => same recv | _ => None end
      else None
  | VSeq l =>
      if String.eqb m "push_back" || String.eqb m "push" then
        match args with [x] => Some (VUnit, VSeq (l ++ [x]), []) | _ => None end
      else if String.eqb m "pop_front" then
        match args, l with
        | [], [x] => Some (VSome x, VItems [], [])
        | [], x :: l' => Some (VSome x, VSeq l', [])
        | _, _ => None end
      else if String.eqb m "len" then
        match args with [] => same (VNat (u_len l)) | _ => None end
      else if String.eqb m "is_empty" then
        match args with [] => same (VBool (match l with [] => true | _ => false end)) | _ => None end
      else if String.eqb m "drain" then
        match args with [VUnit] => Some (recv, VItems [], []) | _ => None end
      else if String.eqb m "clear" then
        match args with [] => Some (VUnit, VItems [], []) | _ => None end
      else if String.eqb m "clone" || String.eqb m "into_iter" || String.eqb m "iter" then
        match args with [] => same recv | _ => None end
      else None
  | VStruct _ _ =>
      if String.eqb m "rc_deref_mut" || String.eqb m "rc_deref" || String.eqb m "clone" then
        match args with [] => same recv | _ => None end
      else None
  | VMark e0 =>
      if String.eqb m "unsubscribe" then match args with [] => Some (VUnit, recv, [e0]) | _ => None end else None
  | VSubTok c e0 =>
      if String.eqb m "unsubscribe" || String.eqb m "boxed_unsubscribe" then
        match args with [] => Some (VUnit, VSubTok true e0, [e0]) | _ => None end
      else if String.eqb m "is_closed" || String.eqb m "boxed_is_closed" then
        match args with [] => same (VBool c) | _ => None end
      else None
  | VSrc =>
      if String.eqb m "actual_subscribe" then match args with [o] => Some (o, recv, []) | _ => None end else None
  | VBool _ =>
      (* Cell<bool> / AtomicBool *)
      if String.eqb m "clone" || String.eqb m "get" then match args with [] => same recv | _ => None end
      else if String.eqb m "load" then match args with [_] => same recv | _ => None end
      else if String.eqb m "set" then match args with [VBool b] => Some (VUnit, VBool b, []) | _ => None end
      else if String.eqb m "store" then match args with [VBool b; _] => Some (VUnit, VBool b, []) | _ => None end
      else None
  | VItem _ | VNat _ | VTup _ =>
      if String.eqb m "clone" then match args with [] => same recv | _ => None end else None
  | _ => None
  end.

Definition apply_closure (f : rv) (args : list rv) : option rv :=
  match f, args with
  | VF1 g, [VItem v] => Some (VItem (g v))
  | VPred p, [VItem v] => Some (VBool (p v))
  | VFOpt g, [VItem v] => Some (VOptItem (g v))
  | VF2 g, [VItem a; VItem b] => Some (VItem (g a b))
  | VFErr g, [VErrv e] => Some (VErrv (g e))
  | VCallback, [_] => Some VUnit
  | _, _ => None
  end.

Definition binop (op : string) (a b : rv) : option rv :=
  match a, b with
  | VNat x, VNat y =>
      if String.eqb op "<" then Some (VBool (u_ltb x y))
      else if String.eqb op ">" then Some (VBool (u_ltb y x))
      else if String.eqb op "<=" then Some (VBool (u_leb x y))
      else if String.eqb op ">=" then Some (VBool (u_leb y x))
      else if String.eqb op "==" then Some (VBool (u_eqb x y))
      else if String.eqb op "!=" then Some (VBool (negb (u_eqb x y)))
      else if String.eqb op "+" then Some (VNat (u_add x y))
      else if String.eqb op "-" then Some (if u_ltb x y then VPanic else VNat (u_sub x y))
      else None
  | _, _ =>
      if String.eqb op "==" then match rv_eqb a b with Some r => Some (VBool r) | None => None end
      else if String.eqb op "!=" then match rv_eqb a b with Some r => Some (VBool (negb r)) | None => None end
      else None
  end.

(* a fold that may fail: the body of a `for` loop over the elements of a sequence *)
Fixpoint for_loop {S} (step : S -> rv -> option S) (l : list rv) (s : S) : option S :=
  match l with
  | [] => Some s
  | x :: l' => match step s x with Some s' => for_loop step l' s' | None => None end
  end.

(* comparisons for the evaluator's own book-keeping (symbolic evaluation computes these; Nat.leb / Nat.eqb stay folded on data) *)
Fixpoint nleb (a b : nat) : bool := match a, b with O, _ => true | S _, O => false | S a', S b' => nleb a' b' end.
Definition neqb (a b : nat) : bool := nleb a b && nleb b a.

(* `ZipItem::ItemA` -> `ItemA` *)
Fixpoint last_seg_aux (acc : string) (p : string) : string :=
  match p with
  | EmptyString => acc
  | String c1 (String c2 r as r1) =>
      if (neqb (Ascii.nat_of_ascii c1) 58 && neqb (Ascii.nat_of_ascii c2) 58)%bool then last_seg_aux r r else last_seg_aux acc r1
  | String _ r => last_seg_aux acc r
  end.
Definition last_seg (p : string) : string := last_seg_aux p p.

(* `TakeOp::new` -> `TakeOp` *)
Fixpoint before_last_seg (p : string) : string :=
  match p with
  | EmptyString => EmptyString
  | String c r =>
      if String.eqb (last_seg p) p then EmptyString
      else match r with
           | String c2 r2 =>
               if (neqb (Ascii.nat_of_ascii c) 58 && neqb (Ascii.nat_of_ascii c2) 58 && String.eqb (last_seg r2) r2)%bool
               then EmptyString else String c (before_last_seg r)
           | EmptyString => String c EmptyString
           end
  end.

Definition digit_name (n : nat) : string :=
  match n with 0 => "0" | 1 => "1" | 2 => "2" | 3 => "3" | 4 => "4" | _ => "5" end%nat.

Fixpoint positional {A} (n : nat) (vs : list A) : list (string * A) :=
  match vs with [] => [] | v :: r => (digit_name n, v) :: positional (S n) r end.

Definition capitalised (p : string) : bool :=
  match p with
  | String c _ => let n := Ascii.nat_of_ascii c in nleb 65 n && nleb n 90
  | EmptyString => false
  end.

Definition prog := list (string * string * (list string * list rs)).

Fixpoint find_method (p : prog) (key m : string) : option (list string * list rs) :=
  match p with
  | [] => None
  | (k, n, b) :: p' => if String.eqb k key && String.eqb n m then Some b else find_method p' key m
  end.

(* what follows the first ':' of a key "file:Type" *)
Fixpoint after_colon (k : string) : string :=
  match k with
  | EmptyString => EmptyString
  | String c r => if neqb (Ascii.nat_of_ascii c) 58 then r else after_colon r
  end.

Fixpoint find_any (p : prog) (name m : string) : option (list string * list rs) :=
  match p with
  | [] => None
  | (k, n, b) :: p' => if String.eqb (after_colon k) name && String.eqb n m then Some b else find_any p' name m
  end.

Fixpoint has_prefix (pre k : string) : bool :=
  match pre, k with
  | EmptyString, _ => true
  | String a pre', String b k' => neqb (Ascii.nat_of_ascii a) (Ascii.nat_of_ascii b) && has_prefix pre' k'
  | _, _ => false
  end.

Fixpoint find_macro (p : prog) (pre m : string) : option (list string * list rs) :=
  match p with
  | [] => None
  | (k, n, b) :: p' => if has_prefix pre k && String.eqb n m then Some b else find_macro p' pre m
  end.

(* the impl of method m for a struct: under its own name, or under the names the macros give it *)
Definition find_impl (p : prog) (file name m : string) : option (list string * list rs) :=
  if String.eqb name "Option" then find_method p "observer.rs:$rc<Option>" m
  else
  match find_method p (file ++ ":" ++ name)%string m with
  | Some b => Some b
  | None =>
      match find_method p (file ++ ":$rc<" ++ name ++ ">")%string m with
      | Some b => Some b
      | None =>
          match find_macro p (file ++ ":$")%string m with   (* an impl written for a macro parameter: $name<O>, $subscriber<O> *)
          | Some b => Some b
          | None =>
              match find_any p name m with      (* a struct of another file (an observer wrapped by this one) *)
              | Some b => Some b
              | None => find_method p "observable.rs:ObservableExt" m     (* an operator value: the trait's default methods *)
              end
          end
      end
  end.

Definition st := (frame * list ev)%type.

Definition leave_block (outer : frame) (inner : frame) : frame :=
  {| fself := fself inner;
     flocals := skipn (elen (flocals inner) - elen (flocals outer)) (flocals inner) |}.

Definition push_locals (fr : frame) (b : env) : frame :=
  {| fself := fself fr; flocals := cat b (flocals fr) |}.

(* is this loop `for x in .. { r.next(x); }` with r a place that holds the downstream observer? *)
Definition emit_loop (fr : frame) (p : rpat) (b : list rs) : bool :=
  match p, b with
  | PVar x, [SExpr (XMeth r m [XVar y]) _] =>
      String.eqb m "next" && String.eqb x y &&
      match place_of r with
      | Some pl => match get_place fr pl with Some VObs => true | _ => false end
      | None => false
      end
  | _, _ => false
  end.

Section Eval.
Variable P : prog.
Variable file : string.

Fixpoint zip_params (ps : list string) (vs : list rv) : option env :=
  match ps, vs with
  | [], [] => Some []
  | p :: ps', v :: vs' => match zip_params ps' vs' with Some e => Some ((p, v) :: e) | None => None end
  | _, _ => None
  end.

Fixpoint eval_x (fuel : nat) (s : st) (e : rx) {struct fuel} : option (st * rv) :=
  match fuel with
  | O => None
  | S f =>
    let '(fr, out) := s in
    match e with
    | XSelf => Some (s, fself fr)
    | XVar x =>
        match lookup x (flocals fr) with
        | Some (VRef p0) => match get_path (fself fr) p0 with Some v => Some (s, v) | None => None end
        | Some v => Some (s, v)
        | None => None
        end
    | XNum n => Some (s, VNat n)
    | XBool b => Some (s, VBool b)
    | XUnit => Some (s, VUnit)
    | XRange => Some (s, VUnit)
    | XRef e' => eval_x f s e'
    | XField e' fld =>
        match eval_x f s e' with
        | Some (s', v) => match get_field v fld with Some w => Some (s', w) | None => None end
        | None => None
        end
    | XNot e' =>
        match eval_x f s e' with Some (s', VBool b) => Some (s', VBool (negb b)) | _ => None end
    | XBin op a b =>
        if String.eqb op "&&" then
          match eval_x f s a with
          | Some (s', VBool true) => match eval_x f s' b with Some (s'', VBool c) => Some (s'', VBool c) | _ => None end
          | Some (s', VBool false) => Some (s', VBool false)
          | _ => None end
        else if String.eqb op "||" then
          match eval_x f s a with
          | Some (s', VBool false) => match eval_x f s' b with Some (s'', VBool c) => Some (s'', VBool c) | _ => None end
          | Some (s', VBool true) => Some (s', VBool true)
          | _ => None end
        else
          match eval_x f s a with
          | Some (s', va) =>
              match eval_x f s' b with
              | Some (s'', vb) => match binop op va vb with Some r => Some (s'', r) | None => None end
              | None => None end
          | None => None end
    | XTuple es =>
        match eval_args f s es with Some (s', vs) => Some (s', VTup vs) | None => None end
    | XStruct name fs =>
        match eval_fields f s fs with Some (s', vs) => Some (s', VStruct name vs) | None => None end
    | XPath p args =>
        if String.eqb p "Some" then
          match eval_args f s args with
          | Some (s', [VItem v]) => Some (s', VOptItem (Some v))
          | Some (s', [v]) => Some (s', VSome v)
          | _ => None end
        else if String.eqb p "None" then
          match args with [] => Some (s, VOptItem None) | _ => None end
        else if String.eqb p "Vec::new" || String.eqb p "VecDeque::new" || String.eqb p "HashSet::new" then
          match args with [] => Some (s, VItems []) | _ => None end
        else if String.eqb p "drop" then
          match args with [_] => Some (s, VUnit) | _ => None end          (* releasing a guard: the cells are modelled as their content *)
        else if String.eqb p "std::mem::take" || String.eqb p "mem::take" then
          match args with
          | [a] =>
              match place_of a with
              | Some pl =>
                  match get_place fr pl with
                  | Some old =>
                      match default_of old with
                      | Some d => match set_place fr pl d with Some fr' => Some ((fr', out), old) | None => None end
                      | None => None end
                  | None => None end
              | None => None end
          | _ => None end
        else if String.eqb p "std::mem::replace" || String.eqb p "mem::replace" then
          match args with
          | [a; b] =>
              match place_of a, eval_x f s b with
              | Some pl, Some ((fr', out'), nv) =>
                  match get_place fr' pl with
                  | Some old => match set_place fr' pl nv with Some fr'' => Some ((fr'', out'), old) | None => None end
                  | None => None end
              | _, _ => None end
          | _ => None end
        else
          match lookup p (flocals fr) with
          | Some (VMark e0) =>                         (* a callback whose call is observed: func() *)
              match args with [] => Some ((fr, out ++ [e0]), VUnit) | _ => None end
          | Some clo =>                                (* a closure held in a local: binary_op(a, b) *)
              match eval_args f s args with
              | Some (s', vs) => match apply_closure clo vs with Some r => Some (s', r) | None => None end
              | None => None end
          | None =>
              if String.eqb (last_seg p) "new" then        (* Type::new(a, b): the operator value, fields by position *)
                match eval_args f s args with
                | Some (s', vs) => Some (s', VStruct (before_last_seg p) (positional 0 vs))
                | None => None end
              else
              if capitalised (last_seg p) then           (* a variant of one of the crate's enums *)
                match eval_args f s args with
                | Some (s', vs) => Some (s', VEnum (last_seg p) vs)
                | None => None end
              else None
          end
    | XCall g args =>
        match eval_x f s g with
        | Some (s', clo) =>
            match eval_args f s' args with
            | Some ((fr'', out''), vs) =>
                match clo, vs with
                | VMark e0, [] => Some ((fr'', out'' ++ [e0]), VUnit)
                | VMarkArg, [VItem v] => Some ((fr'', out'' ++ [Next v]), VUnit)
                | VMarkArg, [VErrv x] => Some ((fr'', out'' ++ [Err x]), VUnit)
                | _, _ => match apply_closure clo vs with Some r => Some ((fr'', out''), r) | None => None end
                end
            | None => None end
        | None => None end
    | XMeth r m args =>
        if String.eqb m "for_each" || String.eqb m "all" || String.eqb m "retain" then
          (* seq.into_iter().for_each(|x| body) / seq.iter().all(|x| body) / seq.retain(|x| body): the closure runs in the current
             frame, once per element, in order; `all` stops at the first false *)
          match args with
          | [XClosure [p] body] =>
              match eval_recv f s r m with
              | Some ((fr', out'), pl, coll) =>
                  let l := match coll with VSeq l => Some l | VItems q => Some (map VItem q) | _ => None end in
                  match l with
                  | Some l =>
                      let run1 (s1 : st) (x : rv) : option (st * rv) :=
                        let '(fr1, out1) := s1 in
                        match bind_pat p x with
                        | MYes b =>
                            match eval_x f (push_locals fr1 b, out1) body with
                            | Some ((fr2, out2), v) => Some ((leave_block fr1 fr2, out2), v)
                            | None => None end
                        | _ => None end in
                      if String.eqb m "for_each" then
                        match for_loop (fun s1 x => match run1 s1 x with Some (s2, _) => Some s2 | None => None end) l (fr', out') with
                        | Some s2 => Some (s2, VUnit)
                        | None => None end
                      else if String.eqb m "all" then
                        (fix go (l : list rv) (s1 : st) : option (st * rv) :=
                           match l with
                           | [] => Some (s1, VBool true)
                           | x :: l' =>
                               match run1 s1 x with
                               | Some (s2, VBool true) => go l' s2
                               | Some (s2, VBool false) => Some (s2, VBool false)
                               | _ => None end
                           end) l (fr', out')
                      else
                        (* retain: keep the elements for which the closure answers true; the place is updated *)
                        match (fix go (l : list rv) (s1 : st) : option (st * list rv) :=
                                 match l with
                                 | [] => Some (s1, [])
                                 | x :: l' =>
                                     match run1 s1 x with
                                     | Some (s2, VBool keep) =>
                                         match go l' s2 with
                                         | Some (s3, kept) => Some (s3, if keep then x :: kept else kept)
                                         | None => None end
                                     | _ => None end
                                 end) l (fr', out') with
                        | Some ((fr2, out2), kept) =>
                            let newv := match kept with [] => VItems [] | _ => VSeq kept end in
                            match pl with
                            | Some pl' => match set_place fr2 pl' newv with Some fr3 => Some ((fr3, out2), VUnit) | None => None end
                            | None => Some ((fr2, out2), VUnit)
                            end
                        | None => None end
                  | None => None end
              | None => None end
          | _ => None end
        else
        if String.eqb m "map_or" then
          (* Option::map_or(default, |x| body): the closure runs in the current frame *)
          match args with
          | [d; XClosure [p] body] =>
              match eval_x f s r with
              | Some (s', VOptItem None) => eval_x f s' d
              | Some ((fr', out'), (VOptItem (Some _) | VSome _) as ov) =>
                  match bind_pat (PCtor "Some" [p]) ov with
                  | MYes b =>
                      match eval_x f (push_locals fr' b, out') body with
                      | Some ((fr'', out''), v) => Some ((leave_block fr' fr'', out''), v)
                      | None => None end
                  | _ => None end
              | _ => None end
          | _ => None end
        else
        match eval_recv f s r m with
        | Some (s', pl, recv) =>
            match eval_args f s' args with
            | Some ((fr2, out2), vs) =>
                (* the receiver is read after the arguments have been evaluated when it is a place *)
                let recv2 := match pl with Some pl' => get_place fr2 pl' | None => Some recv end in
                let recv2 :=
                  (* an Option cell used as an observer: `impl Observer for $rc<Option<O>>` (observer.rs) *)
                  match recv2 with
                  | Some (VSome _ as c) | Some (VOptItem None as c) =>
                      if (String.eqb m "next" || String.eqb m "error" || String.eqb m "complete")%bool
                      then Some (VStruct "Option" [("", c)]) else recv2
                  | _ => recv2
                  end in
                match recv2 with
                | Some (VStruct name flds) =>
                    match find_impl P file name m with
                    | Some (ps, body) =>
                        match zip_params ps vs with
                        | Some locals =>
                            let self0 := if String.eqb name "Option" then match flds with [(_, c)] => c | _ => VUnit end
                                         else VStruct name flds in
                            match eval_block f ({| fself := self0; flocals := locals |}, out2) body with
                            | Some ((cfr, out3), res) =>
                                match pl with
                                | Some pl' => match set_place fr2 pl' (fself cfr) with
                                              | Some fr3 => Some ((fr3, out3), res) | None => None end
                                | None => Some ((fr2, out3), res)
                                end
                            | None => None end
                        | None => None end
                    | None => None end
                | Some rcv =>
                    match (match rcv with VSrc => find_method P "observable.rs:ObservableExt" m | _ => None end) with
                    | Some (ps, body) =>
                        (* a default method of ObservableExt called on the upstream observable *)
                        match zip_params ps vs with
                        | Some locals =>
                            match eval_block f ({| fself := rcv; flocals := locals |}, out2) body with
                            | Some ((_, out3), res) => Some ((fr2, out3), res)
                            | None => None end
                        | None => None end
                    | None =>
                    match builtin m rcv vs with
                    | Some (res, rcv', evs) =>
                        match pl with
                        | Some pl' => match set_place fr2 pl' rcv' with
                                      | Some fr3 => Some ((fr3, out2 ++ evs), res) | None => None end
                        | None => Some ((fr2, out2 ++ evs), res)
                        end
                    | None => None end
                    end
                | None => None end
            | None => None end
        | None => None end
    | XBlock b =>
        match eval_block f s b with
        | Some ((fr', out'), v) => Some ((leave_block fr fr', out'), v)
        | None => None end
    | XIf c t el =>
        match eval_x f s c with
        | Some (s', VBool true) => eval_x f s' (XBlock t)
        | Some (s', VBool false) => eval_x f s' (XBlock el)
        | _ => None end
    | XIfLet p e' t el =>
        match eval_x f s e' with
        | Some ((fr', out'), v) =>
            let run_then (b : env) :=
              match eval_block f (push_locals fr' b, out') t with
              | Some ((fr'', out''), r) => Some ((leave_block fr' fr'', out''), r)
              | None => None end in
            let run_else := eval_x f (fr', out') (XBlock el) in
            let generic :=
              match bind_pat p v with
              | MYes b => run_then b
              | MNo => run_else
              | MBad => None
              end in
            (* `if let Some(p1) = <an Option<Item>>`: the case distinction on the option itself comes first,
               so that both branches are evaluated to the end (same meaning as the generic path) *)
            match v, p with
            | VSome _, PCtor c [PVar x] =>
                (* Some(x) of something that is not an item, read from a place inside self: x names the payload, it is not a copy *)
                if String.eqb c "Some" then
                  match place_of e' with
                  | Some pl =>
                      match self_path fr' pl with
                      | Some p0 => run_then [(x, VRef (cat p0 ["?"]))]
                      | None => generic
                      end
                  | None => generic
                  end
                else generic
            | VOptItem o, PCtor c [p1] =>
                if String.eqb c "Some" then
                  match o with
                  | Some w => match bind_pat p1 (VItem w) with MYes b => run_then b | MNo => run_else | MBad => None end
                  | None => run_else
                  end
                else generic
            | _, _ => generic
            end
        | None => None end
    | XMatch e' arms =>
        match eval_x f s e' with
        | Some ((fr', out'), v) =>
            (fix go (arms : list (rpat * rx)) : option (st * rv) :=
               match arms with
               | [] => None
               | (p, body) :: arms' =>
                   match bind_pat p v with
                   | MYes b =>
                       match eval_x f (push_locals fr' b, out') body with
                       | Some ((fr'', out''), r) => Some ((leave_block fr' fr'', out''), r)
                       | None => None end
                   | MNo => go arms'
                   | MBad => None
                   end
               end) arms
        | None => None end
    | XFor p e' b =>
        match eval_x f s e' with
        | Some ((fr', out'), (VSeq _ | VItems _) as coll) =>
            let l := match coll with VSeq l => l | VItems q => map VItem q | _ => [] end in
            (* `for x in <items> { <downstream observer>.next(x); }`: every item is handed downstream, in order.
               This form is given its meaning directly (the same as the general loop below gives it), so that
               a sequence of unknown length can be run symbolically. *)
            match emit_loop fr' p b, coll with
            | true, VItems q => Some ((fr', out' ++ map Next q), VUnit)
            | _, _ =>
            match for_loop (fun (s1 : st) x =>
                              let '(fr1, out1) := s1 in
                              match bind_pat p x with
                              | MYes bd =>
                                  match eval_block f (push_locals fr1 bd, out1) b with
                                  | Some ((fr2, out2), _) => Some (leave_block fr1 fr2, out2)
                                  | None => None end
                              | _ => None end) l (fr', out') with
            | Some s'' => Some (s'', VUnit)
            | None => None end
            end
        | _ => None end
    | XWhile c b =>
        (fix loop (k : nat) (s1 : st) : option (st * rv) :=
           match k with
           | O => None
           | S k' =>
               match eval_x f s1 c with
               | Some (s2, VBool true) =>
                   match eval_x f s2 (XBlock b) with
                   | Some (s3, _) => loop k' s3
                   | None => None end
               | Some (s2, VBool false) => Some (s2, VUnit)
               | _ => None end
           end) fuel s
    | XClosure _ _ => Some (s, VClosTok)
    | XWhileLet _ _ _ | XReturn _ | XUnknown _ => None
    end
  end

with eval_recv (fuel : nat) (s : st) (r0 : rx) (m : string) {struct fuel} : option (st * option place * rv) :=
  match fuel with
  | O => None
  | S f =>
      (* `cell.clone().complete()`: the clone of a shared observer cell (Rc / Arc) is the same cell *)
      let r := match r0 with
               | XMeth r' c [] =>
                   if String.eqb c "clone" && (String.eqb m "next" || String.eqb m "error" || String.eqb m "complete")
                   then r' else r0
               | _ => r0
               end in
      match place_of r with
      | Some pl => match get_place (fst s) pl with Some v => Some (s, Some pl, v) | None => None end
      | None => match eval_x f s r with Some (s', v) => Some (s', None, v) | None => None end
      end
  end

with eval_args (fuel : nat) (s : st) (es : list rx) {struct fuel} : option (st * list rv) :=
  match fuel with
  | O => None
  | S f =>
      match es with
      | [] => Some (s, [])
      | e :: es' =>
          match eval_x f s e with
          | Some (s', v) => match eval_args f s' es' with Some (s'', vs) => Some (s'', v :: vs) | None => None end
          | None => None end
      end
  end

with eval_fields (fuel : nat) (s : st) (fs : list (string * rx)) {struct fuel} : option (st * env) :=
  match fuel with
  | O => None
  | S f =>
      match fs with
      | [] => Some (s, [])
      | (n, e) :: fs' =>
          match eval_x f s e with
          | Some (s', v) => match eval_fields f s' fs' with Some (s'', vs) => Some (s'', (n, v) :: vs) | None => None end
          | None => None end
      end
  end

(* the value of a block is that of its last statement when that is an expression without `;` *)
with eval_block (fuel : nat) (s : st) (b : list rs) {struct fuel} : option (st * rv) :=
  match fuel with
  | O => None
  | S f =>
      match b with
      | [] => Some (s, VUnit)
      | stmt :: b' =>
          let continue_with (s' : st) (v : rv) (is_value : bool) :=
            match b' with
            | [] => Some (s', if is_value then v else VUnit)
            | _ => eval_block f s' b'
            end in
          match stmt with
          | SLet (PVar x) (XMeth r m []) =>
              (* `let inner = self.rc_deref_mut();` names the content of the cell: a reference, not a copy *)
              let as_value :=
                match eval_x f s (XMeth r m []) with
                | Some ((fr', out'), v) => continue_with (push_locals fr' [(x, v)], out') VUnit false
                | None => None end in
              if String.eqb m "rc_deref_mut" || String.eqb m "rc_deref" then
                match place_of r with
                | Some (None, p0) => continue_with (push_locals (fst s) [(x, VRef p0)], snd s) VUnit false
                | _ => as_value
                end
              else as_value
          | SLet p e =>
              match eval_x f s e with
              | Some ((fr', out'), v) =>
                  match bind_pat p v with
                  | MYes bd => continue_with (push_locals fr' bd, out') VUnit false
                  | _ => None end
              | None => None end
          | SExpr e semi =>
              match eval_x f s e with
              | Some (s', v) => continue_with s' v (negb semi)
              | None => None end
          | SAssign l e =>
              match place_of l, eval_x f s e with
              | Some pl, Some ((fr', out'), v) =>
                  match set_place fr' pl v with
                  | Some fr'' => continue_with (fr'', out') VUnit false
                  | None => None end
              | _, _ => None end
          | SOpAssign op l e =>
              match place_of l, eval_x f s e with
              | Some pl, Some ((fr', out'), v) =>
                  match get_place fr' pl with
                  | Some old =>
                      let op' := if String.eqb op "+=" then Some "+" else if String.eqb op "-=" then Some "-" else None in
                      match op' with
                      | Some o =>
                          match binop o old v with
                          | Some nv => match set_place fr' pl nv with
                                       | Some fr'' => continue_with (fr'', out') VUnit false
                                       | None => None end
                          | None => None end
                      | None => None end
                  | None => None end
              | _, _ => None end
          end
      end
  end.

(* One call of a method of a struct value: the events it sends downstream, the struct afterwards, the result. *)
Definition call_method (fuel : nat) (ty m : string) (self : rv) (args : list rv) : option (rv * list ev * rv) :=
  match find_impl P file ty m with
  | Some (ps, body) =>
      match zip_params ps args with
      | Some locals =>
          match eval_block fuel ({| fself := self; flocals := locals |}, []) body with
          | Some ((fr, out), res) => Some (fself fr, out, res)
          | None => None end
      | None => None end
  | None => None
  end.

End Eval.
