(* Operators that observable.rs defines as compositions, expanded exactly as written
   there, and the basic sources. *)
From RxModel Require Export Chain.

Definition not_b (v : val) : bool := match v with VB b => negb b | _ => false end.

(* observable.rs `max`: |max, v| match max { Some(max) if max > v => Some(max), _ => Some(v) } *)
Definition max_fn (acc v : val) : val :=
  match acc with
  | VOpt (Some m) => if val_ltb v m then VOpt (Some m) else VOpt (Some v)
  | _ => VOpt (Some v)
  end.

Definition min_fn (acc v : val) : val :=
  match acc with
  | VOpt (Some m) => if val_ltb m v then VOpt (Some m) else VOpt (Some v)
  | _ => VOpt (Some v)
  end.

Definition unwrap (v : val) : val := match v with VOpt (Some x) => x | _ => v end.

Definition add_v (a b : val) : val :=
  match a, b with VZ x, VZ y => VZ (x + y) | _, _ => a end.

Definition count_fn (acc _v : val) : val := match acc with VZ x => VZ (x + 1) | _ => acc end.

(* accumulate_item: (sum, count) *)
Definition avg_acc (acc v : val) : val :=
  match acc with VP s (VZ c) => VP (add_v s v) (VZ (c + 1)) | _ => acc end.

(* average_floats computes acc.0 * (1.0 / acc.1 as f64).  The float arithmetic is
   modelled, not verified: the model returns the exact rational scaled by 2520
   (divisible by every count up to 10); the harness scales and rounds the f64 the same way. *)
Definition avg_scale : Z := 2520.
Definition avg_fin (acc : val) : val :=
  match acc with VP (VZ s) (VZ c) => VZ (s * avg_scale / c) | _ => acc end.

Inductive uop :=
| UPrim (o : op1)
| UFirst
| UFirstOr (d : val)
| ULastOr (d : val)
| UElementAt (n : nat)
| UIgnoreElements
| UAll (p : val -> bool)
| UReduceInitial (f : val -> val -> val) (init : val)
| UCount
| USum
| UMax
| UMin
| UAverage.

Definition expand (u : uop) : list op1 :=
  match u with
  | UPrim o => [o]
  | UFirst => [OTake 1]
  | UFirstOr d => [OTake 1; ODefaultIfEmpty d]
  | ULastOr d => [OLast; ODefaultIfEmpty d]
  | UElementAt n => [OSkip n; OTake 1]
  | UIgnoreElements => [OFilter (fun _ => false)]
  | UAll p => [OMap (fun v => VB (p v)); OFilter not_b; OTake 1; ODefaultIfEmpty (VB true)]
  | UReduceInitial f init => [OScan f init; OLast; ODefaultIfEmpty init]
  | UCount => [OScan count_fn (VZ 0); OLast; ODefaultIfEmpty (VZ 0)]
  | USum => [OScan add_v (VZ 0); OLast; ODefaultIfEmpty (VZ 0)]
  | UMax => [OScan max_fn (VOpt None); OLast; OMap unwrap]
  | UMin => [OScan min_fn (VOpt None); OLast; OMap unwrap]
  | UAverage => [OScan avg_acc (VP (VZ 0) (VZ 0)); OLast; OMap avg_fin]
  end.

Definition expand_all (us : list uop) : list op1 := flat_map expand us.

(* Basic sources: what `actual_subscribe` pushes into the observer. *)
Inductive src :=
| SrcOf (v : val)
| SrcOfOption (o : option val)
| SrcOfResult (r : val + Z)
| SrcOfFn (v : val)                 (* the value the closure returns *)
| SrcStart (v : val)
| SrcFromIter (l : list val)
| SrcRepeat (v : val) (n : nat)
| SrcEmpty
| SrcNever
| SrcThrow (e : Z)
| SrcCreate (calls : list ev).      (* what the closure calls on the Subscriber it is given *)

Definition src_script (k : src) : list ev :=
  match k with
  | SrcOf v => [Next v; Done]
  | SrcOfOption o => match o with Some v => [Next v; Done] | None => [Done] end
  | SrcOfResult r => match r with inl v => [Next v; Done] | inr e => [Err e] end
  | SrcOfFn v => [Next v; Done]
  | SrcStart v => [Next v; Done]
  | SrcFromIter l => map Next l ++ [Done]
  | SrcRepeat v n => map Next (repeat v n) ++ [Done]
  | SrcEmpty => [Done]
  | SrcNever => []
  | SrcThrow e => [Err e]
  | SrcCreate calls => slot calls
  end.

Definition run_src (k : src) (us : list uop) : list ev :=
  run_cold (expand_all us) (src_script k).
