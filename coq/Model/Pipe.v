(* Pipelines as trees: hot inputs (subjects, indexed), cold sources, chains of single-input
   operators, two-input operators — executed stimulus by stimulus.  The output is kept in
   chunks: chunk 0 is what is emitted while the pipeline is being subscribed, chunk k+1 what is
   emitted while stimulus k (one call on one hot input) is being delivered.  No proofs here. *)
From RxModel Require Export Derived Ops2.
Local Open Scope nat_scope.

Inductive pipe :=
| PHot (i : nat)                      (* subject number i (the same subject may occur several times) *)
| PCold (script : list ev)            (* create(): calls `script` on its Subscriber during subscription *)
| PSrc (s : src)                      (* a basic source *)
| PChain (p : pipe) (os : list op1)
| POp2 (o : op2) (a b : pipe).

Definition stim := (nat * ev)%type.   (* (subject, call) *)

(* the Subscriber slot of one subscription to subject i *)
Fixpoint hot_chunks (i : nat) (live : bool) (sts : list stim) : list (list ev) :=
  match sts with
  | [] => []
  | (j, e) :: r =>
      if Nat.eqb i j && live then [e] :: hot_chunks i (negb (is_term e)) r
      else [] :: hot_chunks i live r
  end.

Fixpoint chain_chunks (ch : list node) (cs : list (list ev)) : list (list ev) :=
  match cs with
  | [] => []
  | c :: r => let '(ch', out) := push ch c in out :: chain_chunks ch' r
  end.

Definition tag (sd : side) (l : list ev) : timeline := map (fun e => (sd, e)) l.

(* within one stimulus the input subscribed first is served first *)
Definition chunk_tl (o : op2) (a b : list ev) : timeline :=
  match first_side o with A => tag A a ++ tag B b | B => tag B b ++ tag A a end.

Fixpoint op2_chunks (o : op2) (s : st2) (la lb : bool) (ca cb : list (list ev)) : list (list ev) :=
  match ca, cb with
  | a :: ra, b :: rb =>
      let tl := chunk_tl o a b in
      let '(s', la', lb') := final2 o s la lb tl in
      run2 o s la lb tl :: op2_chunks o s' la' lb' ra rb
  | _, _ => []
  end.

Fixpoint chunks (p : pipe) (sts : list stim) : list (list ev) :=
  match p with
  | PHot i => [] :: hot_chunks i true sts
  | PCold script => slot script :: map (fun _ => []) sts
  | PSrc s => src_script s :: map (fun _ => []) sts
  | PChain p' os =>
      let '(ch, pre) := subscribe_chain os in
      match chunks p' sts with
      | [] => [pre]
      | c0 :: r => let '(ch', out) := push ch c0 in (pre ++ out) :: chain_chunks ch' r
      end
  | POp2 o a b => op2_chunks o (init2 o) true true (chunks a sts) (chunks b sts)
  end.

Definition exec (p : pipe) (sts : list stim) : list ev := concat (chunks p sts).

(* ---- the closure idiom: `.on_error(f).on_complete(g).subscribe(h)`; what f, g, h are called with,
   in order.  OnErrorObserver consumes the error (ops/on_error.rs), OnCompleteObserver calls g and
   forwards (ops/on_complete.rs), ObserverItem calls h (observable/subscribe_item.rs); a terminal
   moves the observer it reaches. ---- *)
Fixpoint idiom_log (live : bool) (t : list ev) : list ev :=
  match t with
  | [] => []
  | e :: r => if live then e :: idiom_log (negb (is_term e)) r else []
  end.
