(* The two forms of an operator instantiate one macro body with a different cell type:
   Rc<RefCell<_>> (MutRc) or Arc<Mutex<_>> (MutArc).  A body, as far as its cells are
   concerned, is a sequence of acquisitions, releases and calls on the downstream observer.
   In one thread the two cell types differ only in how a re-entrant acquisition fails:
   RefCell::borrow_mut panics, Mutex::lock never returns.  No proofs here. *)
From RxModel Require Export Base.
Local Open Scope nat_scope.

Inductive cop :=
| CAcquire (c : nat)      (* rc_deref_mut(): borrow_mut / lock *)
| CRelease (c : nat)      (* the guard is dropped *)
| CEmit (e : ev).         (* a call on the downstream observer *)

Inductive outcome :=
| Finished (t : list ev)
| Panicked (t : list ev)  (* "already borrowed": the subscriber saw t before *)
| Hung (t : list ev).     (* self-deadlock: the subscriber saw t and the call never returns *)

Fixpoint memn (c : nat) (l : list nat) : bool := match l with [] => false | x :: r => Nat.eqb c x || memn c r end.
Fixpoint remove1 (c : nat) (l : list nat) : list nat :=
  match l with [] => [] | x :: r => if Nat.eqb c x then r else x :: remove1 c r end.

Inductive cellkind := RefCellKind | MutexKind.

Fixpoint run_cells (k : cellkind) (held : list nat) (p : list cop) (seen : list ev) : outcome :=
  match p with
  | [] => Finished seen
  | CAcquire c :: r =>
      if memn c held
      then match k with RefCellKind => Panicked seen | MutexKind => Hung seen end
      else run_cells k (c :: held) r seen
  | CRelease c :: r => run_cells k (remove1 c held) r seen
  | CEmit e :: r => run_cells k held r (seen ++ [e])
  end.

Definition trace_of (o : outcome) : list ev := match o with Finished t | Panicked t | Hung t => t end.
Definition finished (o : outcome) : bool := match o with Finished _ => true | _ => false end.
