(* The operators that observable.rs defines by COMPOSITION (default methods of ObservableExt): which operator values
   they build, in which order, with which counts.  The translated method is evaluated on the upstream observable (a
   token); the result is a nest of operator structs, read off as a skeleton - names and counts, innermost first - and
   compared with Derived.expand / the limits of the flattening family.  Closures and item parameters are passed on as
   they are and do not show in the skeleton (their meaning is tied by the case runs).  No proofs in this file. *)
From RxModel Require Export Derived Flatten RustSem BodyAbs.
Open Scope string_scope.
Open Scope list_scope.

Inductive par := PNone | PNum (n : nat) | PMax.

Definition par_of (fs : list (string * rv)) : par :=
  (fix go (fs : list (string * rv)) : par :=
     match fs with
     | [] => PNone
     | (_, VNat n) :: _ => PNum n
     | (_, VEnum c []) :: r => if String.eqb c "MAX" then PMax else go r
     | _ :: r => go r
     end) fs.

(* innermost operator first *)
Fixpoint skeleton (v : rv) : option (list (string * par)) :=
  match v with
  | VSrc => Some []
  | VStruct name fs =>
      let this := (name, par_of fs) in
      (fix go (l : list (string * rv)) : option (list (string * par)) :=
         match l with
         | [] => None                                   (* an operator value without a source *)
         | (_, (VStruct _ _) as src) :: _ | (_, VSrc as src) :: _ =>
             match skeleton src with Some sk => Some (sk ++ [this]) | None => None end
         | _ :: r => go r
         end) fs
  | _ => None
  end.

Definition ext_skeleton (P : prog) (m : string) (args : list rv) : option (list (string * par)) :=
  match call_method P "observable.rs" FUEL "ObservableExt" m VSrc args with
  | Some (_, _, r) => skeleton r
  | None => None
  end.

(* what the model's machines are called in the source, and their count *)
Definition op_skeleton (o : op1) : string * par :=
  match o with
  | OMap _ => ("MapOp", PNone) | OMapTo _ => ("MapToOp", PNone) | OFilter _ => ("FilterOp", PNone)
  | OFilterMap _ => ("FilterMapOp", PNone) | OTap => ("TapOp", PNone) | OOnErrorMap _ => ("OnErrorMapOp", PNone)
  | OTake n => ("TakeOp", PNum n) | OSkip n => ("SkipOp", PNum n)
  | OTakeWhile _ _ => ("TakeWhileOp", PNone) | OSkipWhile _ => ("SkipWhileOp", PNone)
  | OTakeLast n => ("TakeLastOp", PNum n) | OSkipLast n => ("SkipLastOp", PNum n)
  | OLast => ("LastOp", PNone) | OScan _ _ => ("ScanOp", PNone) | ODefaultIfEmpty _ => ("DefaultIfEmptyOp", PNone)
  | ODistinct => ("DistinctOp", PNone) | ODistinctKey _ => ("DistinctKeyOp", PNone)
  | ODistinctUntilChanged => ("DistinctUntilChangedOp", PNone) | ODistinctUntilKeyChanged _ => ("DistinctUntilKeyChangedOp", PNone)
  | OPairwise => ("PairwiseOp", PNone) | OBufferCount n => ("BufferWithCountOp", PNum n)
  | OContains _ => ("ContainsOp", PNone) | OCollect => ("CollectOp", PNone) | OStartWith _ => ("StartWithOp", PNone)
  end.

(* the derived operators whose translated method the evaluator can run, with the arguments to call it with *)
Definition derived_call (u : uop) : option (string * list rv) :=
  match u with
  | UFirst => Some ("first", [])
  | UFirstOr d => Some ("first_or", [VItem d])
  | ULastOr d => Some ("last_or", [VItem d])
  | UElementAt n => Some ("element_at", [VNat n])
  | UIgnoreElements => Some ("ignore_elements", [])
  | UAll _ => Some ("all", [VClosTok])
  | UReduceInitial _ init => Some ("reduce_initial", [VItem init; VClosTok])
  | UMax => Some ("max", [])
  | UMin => Some ("min", [])
  | _ => None               (* sum / count / average go through generic helper types the evaluator does not know *)
  end.

Definition derived_agrees (P : prog) : Prop :=
  forall u : uop,
    match derived_call u with
    | Some (m, args) => ext_skeleton P m args = Some (map op_skeleton (expand u))
    | None => True
    end.

(* the flattening family: one operator, merge_all(limit), possibly behind a map *)
Inductive fapi := AMergeAll (n : nat) | AConcatAll | AFlatten | AFlatMap | AConcatMap.

(* the concurrency limit the machine of Model/Flatten.v is run with (None: usize::MAX) *)
Definition api_limit (a : fapi) : option nat :=
  match a with AMergeAll n => Some n | AConcatAll | AConcatMap => Some 1%nat | AFlatten | AFlatMap => None end.

Definition api_call (a : fapi) (threads : bool) : string * list rv :=
  let suffix := if threads then "_threads" else "" in
  match a with
  | AMergeAll n => (("merge_all" ++ suffix)%string, [VNat n])
  | AConcatAll => (("concat_all" ++ suffix)%string, [])
  | AFlatten => (("flatten" ++ suffix)%string, [])
  | AFlatMap => (("flat_map" ++ suffix)%string, [VClosTok])
  | AConcatMap => (("concat_map" ++ suffix)%string, [VClosTok])
  end.

Definition api_skeleton (a : fapi) (threads : bool) : list (string * par) :=
  let op := if threads then "MergeAllOpThreads" else "MergeAllOp" in
  let lim := match api_limit a with Some n => PNum n | None => PMax end in
  match a with
  | AFlatMap | AConcatMap => [("MapOp", PNone); (op, lim)]
  | _ => [(op, lim)]
  end.

Definition flatten_family_agrees (P : prog) : Prop :=
  forall (a : fapi) (threads : bool),
    ext_skeleton P (fst (api_call a threads)) (snd (api_call a threads)) = Some (api_skeleton a threads).
