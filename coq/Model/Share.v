(* share() / publish() + connect() (ops/ref_count.rs, observable/connectable_observable.rs) on top of
   the subject machine.  Upstream of the shared point sit a counted subscription and a tap, so that
   "the source is subscribed" and "the source is driven" are observable.
   `ideal = false` is the code as it is: RefCountSubscription::unsubscribe asks the inner subject
   whether it is empty, but the subject's vectors still hold the slots of the subscribers that
   have left (they are pruned by retain() only), so the inner subject is never unsubscribed, and
   the subscription returned by connect() is dropped.  `ideal = true` is what the property asks
   for: when the last subscriber leaves, the shared observable lets go of its source.
   No proofs here. *)
From RxModel Require Export Subject.
Local Open Scope nat_scope.

Inductive shsrc := ShHot | ShCold (script : list ev).
Inductive shmode := MShare | MPublish.

Inductive shop :=
| ShSub                   (* a clone of the shared observable (a fork of the published one) is subscribed *)
| ShUnsub (i : nat)       (* the i-th subscription is unsubscribed *)
| ShSrc (e : ev)          (* a call on the hot source *)
| ShConnect               (* publish: connect() *)
| ShClosed (i : nat).     (* is_closed() of the i-th subscription *)

Inductive shobs :=
| SSub                    (* the source is subscribed *)
| STap (v : val)          (* an item passes the tap upstream of the shared point *)
| SDeliver (i : nat) (e : ev)
| SRet (b : bool)
| SMark.                  (* end of one operation *)

Record shst := {
  sh_subj : subj;
  sh_connected : bool;
  sh_src_live : bool;     (* the source has not terminated and the slot through which it delivers has not been emptied *)
  sh_left : list nat      (* subscriptions unsubscribed by their owner *)
}.

Definition shst0 : shst := {| sh_subj := subj0; sh_connected := false; sh_src_live := true; sh_left := [] |}.

Definition with_subj (s : shst) (x : subj) : shst :=
  {| sh_subj := x; sh_connected := sh_connected s; sh_src_live := sh_src_live s; sh_left := sh_left s |}.

Definition obs_of (o : sobs) : list shobs :=
  match o with Deliver i e => [SDeliver i e] | RetB b => [SRet b] | _ => [] end.

Definition on_subject (s : shst) (op : sop) : shst * list shobs :=
  let '(x, out) := sstep (sh_subj s) op in (with_subj s x, flat_map obs_of out).

(* one event of the source reaches the tap and then the inner subject *)
Definition src_event (s : shst) (e : ev) : shst * list shobs :=
  if sh_src_live s then
    if sh_connected s then
      match e with
      | Next v => let '(s1, o) := on_subject s (OpNext v) in (s1, STap v :: o)
      | Err x =>
          let '(s1, o) := on_subject s (OpError x) in
          ({| sh_subj := sh_subj s1; sh_connected := true; sh_src_live := false; sh_left := sh_left s1 |}, o)
      | Done =>
          let '(s1, o) := on_subject s OpComplete in
          ({| sh_subj := sh_subj s1; sh_connected := true; sh_src_live := false; sh_left := sh_left s1 |}, o)
      end
    else
      (* nobody is subscribed to the source yet; a terminal still ends the source itself *)
      ({| sh_subj := sh_subj s; sh_connected := false; sh_src_live := negb (is_term e); sh_left := sh_left s |}, [])
  else (s, []).

Fixpoint src_events (s : shst) (es : list ev) : shst * list shobs :=
  match es with
  | [] => (s, [])
  | e :: r => let '(s1, o1) := src_event s e in let '(s2, o2) := src_events s1 r in (s2, o1 ++ o2)
  end.

(* connect(): source.actual_subscribe(subject); a cold source plays its script at once *)
Definition connect (src : shsrc) (s : shst) : shst * list shobs :=
  let s1 := {| sh_subj := sh_subj s; sh_connected := true; sh_src_live := sh_src_live s; sh_left := sh_left s |} in
  match src with
  | ShHot => (s1, [SSub])
  | ShCold script => let '(s2, o) := src_events s1 script in (s2, SSub :: o)
  end.

Definition all_left (s : shst) : bool :=
  forallb (fun i => memn i (sh_left s)) (seq 0 (next_id (sh_subj s))).

Definition is_empty_answer (x : subj) : bool :=
  match observers x with
  | Some o => match o with [] => match chamber x with Some [] => true | Some _ => false | None => true end | _ => false end
  | None => true
  end.

Definition shstep (ideal : bool) (m : shmode) (src : shsrc) (s : shst) (op : shop) : shst * list shobs :=
  match op with
  | ShSub =>
      let '(s1, _) := on_subject s OpSubscribe in
      match m with
      | MShare => if sh_connected s then (s1, []) else connect src s1
      | MPublish => (s1, [])
      end
  | ShConnect =>
      match m with
      | MPublish => if sh_connected s then (s, []) else connect src s
      | MShare => (s, [])
      end
  | ShUnsub i =>
      if Nat.ltb i (next_id (sh_subj s)) && negb (memn i (sh_left s)) then
        let '(s1, _) := on_subject s (OpUnsubOne i) in
        let s2 := {| sh_subj := sh_subj s1; sh_connected := sh_connected s1; sh_src_live := sh_src_live s1; sh_left := i :: sh_left s1 |} in
        match m with
        | MPublish => (s2, [])
        | MShare =>
            if ideal then
              if all_left s2
              then ({| sh_subj := fst (sstep (sh_subj s2) OpUnsubSubject); sh_connected := sh_connected s2; sh_src_live := false; sh_left := sh_left s2 |}, [])
              else (s2, [])
            else
              if is_empty_answer (sh_subj s2) then (fst (on_subject s2 OpUnsubSubject), []) else (s2, [])
        end
      else (s, [])
  | ShSrc e => match src with ShHot => src_event s e | ShCold _ => (s, []) end
  | ShClosed i => if memn i (sh_left s) then (s, []) else on_subject s (OpSubClosed i)
  end.

Fixpoint shrun (ideal : bool) (m : shmode) (src : shsrc) (s : shst) (h : list shop) : list shobs :=
  match h with
  | [] => []
  | op :: r => let '(s1, o) := shstep ideal m src s op in o ++ SMark :: shrun ideal m src s1 r
  end.

Definition run_share (ideal : bool) (m : shmode) (src : shsrc) (h : list shop) : list shobs := shrun ideal m src shst0 h.
