(* Syntax trees of the subset of Rust in which the crate's observer methods are written.
   tools/gen_bodies.py (translator T5) parses /repo/src into these trees on every run
   (Gen/Bodies.v); Model/RustSem.v gives them their meaning.  No proofs in this file. *)
From Coq Require Export String List.
Export ListNotations.

Inductive rpat :=
| PWild
| PVar (x : string)
| PRef (p : rpat)                                  (* &p, &mut p *)
| PTup (ps : list rpat)
| PCtor (c : string) (ps : list rpat)              (* Some(p), None, Ok(p), Err(p) *)
| PStruct (name : string) (fs : list (string * rpat))
| PNum (n : nat)
| PBool (b : bool)
| POr (a b : rpat)
| PGuard (p : rpat) (g : rx)

with rx :=
| XSelf
| XVar (x : string)
| XNum (n : nat)
| XBool (b : bool)
| XUnit
| XRange                                           (* `..` *)
| XField (e : rx) (f : string)                     (* e.f, tuple fields as "0", "1" *)
| XCall (f : rx) (args : list rx)                  (* (self.callback)(&value) *)
| XPath (p : string) (args : list rx)              (* Some(e), None, std::mem::take(e) *)
| XMeth (r : rx) (m : string) (args : list rx)     (* r.m(args) *)
| XRef (e : rx)                                    (* &e, &mut e, *e *)
| XNot (e : rx)
| XBin (op : string) (a b : rx)
| XTuple (es : list rx)
| XClosure (ps : list rpat) (body : rx)
| XBlock (b : list rs)
| XIf (c : rx) (t e : list rs)
| XIfLet (p : rpat) (e : rx) (t el : list rs)
| XMatch (e : rx) (arms : list (rpat * rx))
| XWhile (c : rx) (b : list rs)
| XWhileLet (p : rpat) (e : rx) (b : list rs)
| XFor (p : rpat) (e : rx) (b : list rs)
| XReturn (e : rx)
| XStruct (name : string) (fs : list (string * rx))
| XUnknown (what : string)                         (* not understood by the translator: has no meaning *)

with rs :=
| SLet (p : rpat) (e : rx)
| SExpr (e : rx) (semi : bool)
| SAssign (l : rx) (e : rx)
| SOpAssign (op : string) (l : rx) (e : rx).
