(* MultiSubscription / MultiSubscriptionThreads (subscription.rs, one macro body): the composite that merge_all, delay,
   observe_on, ... collect their inner subscriptions and task handles in.  Its state is the shared cell
   Option<vector of Option<boxed subscription>>; a member is a token whose unsubscribe() is an observed call and whose
   is_closed() answers a given flag.  No proofs in this file. *)
From RxModel Require Export Base RustSem BodyAbs.
Open Scope string_scope.
Open Scope list_scope.

Definition member := (bool * nat)%type.                  (* is_closed() answer, identity *)
Definition mstate := option (list (option member)).      (* None: unsubscribed *)

Definition mark (k : nat) : ev := Next (VZ (Z.of_nat k)).

Inductive mop := MUnsubscribe | MIsClosed | MAppend (m : member) | MRetain | MSize.

Definition member_closed (o : option member) : bool := match o with Some (c, _) => c | None => true end.

(* the composite as a machine: new state, the members' unsubscribe() calls in order, the answer *)
Definition mstep (s : mstate) (o : mop) : mstate * list ev * rv :=
  match o, s with
  | MUnsubscribe, Some l =>
      (None, flat_map (fun x => match x with Some (_, k) => [mark k] | None => [] end) l, VUnit)
  | MUnsubscribe, None => (None, [], VUnit)
  | MIsClosed, Some l => (s, [], VBool (forallb member_closed l))
  | MIsClosed, None => (s, [], VBool true)
  | MAppend m, Some l => (Some (l ++ [Some m]), [], VUnit)
  | MAppend (_, k), None => (None, [mark k], VUnit)          (* already unsubscribed: the addition is torn down at once *)
  | MRetain, Some l => (Some (filter (fun x => match x with Some _ => true | None => false end) l), [], VUnit)
  | MRetain, None => (None, [], VUnit)
  | MSize, Some l => (s, [], VNat (length l))
  | MSize, None => (s, [], VNat 0)
  end.

Definition boxed (m : member) : rv := VStruct "BoxSubscription" [("0", VSubTok (fst m) (mark (snd m)))].

Definition members_rv (l : list (option member)) : rv :=
  match l with
  | [] => VItems []
  | _ => VSeq (map (fun x => match x with Some m => VSome (boxed m) | None => VOptItem None end) l)
  end.

Definition multi (s : mstate) : rv :=
  VStruct "MultiSubscription" [("0", match s with Some l => VSome (members_rv l) | None => VOptItem None end)].

Definition mcall (o : mop) : string * list rv :=
  match o with
  | MUnsubscribe => ("unsubscribe", [])
  | MIsClosed => ("is_closed", [])
  | MAppend m => ("append", [boxed m])
  | MRetain => ("retain", [])
  | MSize => ("teardown_size", [])
  end.

(* members after their unsubscribe() has been called answer closed; the comparison of states ignores that flag of members
   that are gone anyway (after unsubscribe the vector is dropped) *)
Definition multi_agrees_upto (P : prog) (bound : nat) : Prop :=
  forall (s : mstate) (o : mop),
    (match s with Some l => length l <= bound | None => True end)%nat ->
    call_method P "subscription.rs" FUEL "MultiSubscription" (fst (mcall o)) (multi s) (snd (mcall o))
    = let '(s', out, r) := mstep s o in Some (multi s', out, r).
