(* Scheduler bookkeeping (scheduler.rs): what `Scheduler::schedule` spawns — the async block
   `{ if let Some(d) = delay { new_timer(d).await }; task.await }` wrapped in `Remote` — and
   the `TaskHandle` that cancels it.  Which task the executor polls next is not decided here:
   it is a label of the system.  No proofs in this file. *)
From RxModel Require Export Base.
Open Scope N_scope.

(* the task handed to the scheduler *)
Inductive body :=
| BOnce (job : nat)                                  (* OnceTask / FutureTask: runs its function once *)
| BRepeat (job : nat) (period : N) (due : N) (seq : nat).
    (* RepeatTask: `fur` is a timer created by RepeatTask::new (due = construction time + period) *)

Inductive stage :=
| StDelay (d : N)        (* the async block has not been polled yet: it will create new_timer(d) on its first poll *)
| StWait (due : N)       (* awaiting that timer *)
| StBody                 (* polling the task itself *)
| StFinished.            (* Remote returned Ready *)

Record task := {
  t_stage : stage;
  t_body : body;
  t_keep : bool;          (* HandleInfo.keep_running *)
  t_value : bool          (* HandleInfo.value is Some(Ok(..)) *)
}.

(* RepeatTask::new(period, ..) at time `now`: its first timer is armed at construction;
   RepeatTask::starting_now(period, ..): the first run is due at once *)
Definition repeat_new (now : N) (job : nat) (period : N) : body := BRepeat job period (now + period) 0.
Definition repeat_starting_now (job : nat) (period : N) : body := BRepeat job period 0 0.

(* Scheduler::schedule(task, delay) *)
Definition spawn (b : body) (delay : option N) : task :=
  {| t_stage := match delay with Some d => StDelay d | None => StBody end;
     t_body := b; t_keep := true; t_value := false |}.

Definition with_stage (t : task) (s : stage) : task :=
  {| t_stage := s; t_body := t_body t; t_keep := t_keep t; t_value := t_value t |}.
Definition with_body (t : task) (b : body) : task :=
  {| t_stage := t_stage t; t_body := b; t_keep := t_keep t; t_value := t_value t |}.
Definition finished_ok (t : task) : task :=
  {| t_stage := StFinished; t_body := t_body t; t_keep := t_keep t; t_value := true |}.

(* what one poll asks the system to run *)
Inductive pollres :=
| PNone
| PRun (job : nat) (seq : nat) (repeating : bool).

Definition poll_body (now : N) (t : task) : task * pollres :=
  match t_body t with
  | BOnce j => (finished_ok t, PRun j 0 false)
  | BRepeat j p due seq => if now <? due then (t, PNone) else (t, PRun j seq true)
  end.

(* Remote::poll at time `now` *)
Definition poll (now : N) (t : task) : task * pollres :=
  match t_stage t with
  | StFinished => (t, PNone)
  | st =>
      if negb (t_keep t) then (with_stage t StFinished, PNone)      (* cancelled: bail out, body never polled *)
      else
        match st with
        | StDelay d =>
            let due := now + d in
            if now <? due then (with_stage t (StWait due), PNone) else poll_body now (with_stage t StBody)
        | StWait due =>
            if now <? due then (t, PNone) else poll_body now (with_stage t StBody)
        | _ => poll_body now t
        end
  end.

(* RepeatTask::poll after its function returned `continue` *)
Definition after_tick (now : N) (t : task) (continue : bool) : task :=
  match t_body t with
  | BRepeat j p _ seq =>
      if continue then with_body t (BRepeat j p (now + p) (S seq)) else finished_ok t
  | BOnce _ => t
  end.

(* TaskHandle::unsubscribe: keep_running = false; value.take() *)
Definition cancel (t : task) : task :=
  {| t_stage := t_stage t; t_body := t_body t; t_keep := false; t_value := false |}.

(* TaskHandle<NormalReturn>::is_closed *)
Definition handle_closed (t : task) : bool := t_value t.

(* ---- one task followed through time (tasks do not interact inside the scheduler) ---- *)

Inductive tlabel :=
| TPoll (dt : N)          (* the clock has advanced by dt since the previous label; the executor polls the task *)
| TCancel (dt : N)        (* ... ; its handle is unsubscribed *)
| TClosed (dt : N).       (* ... ; is_closed() is asked *)

Inductive tobs :=
| ORan (seq : nat) (at_time : N)
| OClosed (b : bool) (at_time : N)
| OCancelled (at_time : N).

(* `cont seq` is what the repeating function answers at tick `seq` *)
Fixpoint trun (cont : nat -> bool) (now : N) (t : task) (ls : list tlabel) : list tobs :=
  match ls with
  | [] => []
  | TPoll dt :: r =>
      let now := now + dt in
      let '(t1, res) := poll now t in
      match res with
      | PNone => trun cont now t1 r
      | PRun _ seq false => ORan seq now :: trun cont now t1 r
      | PRun _ seq true => ORan seq now :: trun cont now (after_tick now t1 (cont seq)) r
      end
  | TCancel dt :: r => let now := now + dt in OCancelled now :: trun cont now (cancel t) r
  | TClosed dt :: r => let now := now + dt in OClosed (handle_closed t) now :: trun cont now t r
  end.
