(* The scheduler-using operators and sources as one system: an operator (or time source)
   between one hot input and the subscriber, the tasks it has scheduled, and a virtual clock.
   Labels say what happens next: the input emits, the executor polls a task of its choice,
   the clock advances, the subscription is unsubscribed / queried, the downstream starts to
   report finished.  Transcribed from ops/{delay,observe_on,subscribe_on,debounce,throttle,
   buffer}.rs, observable/{interval,timer}.rs and scheduler.rs.  No proofs in this file. *)
From RxModel Require Export Sched.
Open Scope N_scope.

Inductive edge := ELeading | ETailing | EAll.

Inductive top :=
| TDelay (d : N)
| TObserveOn
| TDelaySubscription (d : N)
| TSubscribeOn
| TDebounce (d : N)
| TThrottle (d : N) (e : edge)
| TBufferTime (d : N)
| TBufferCountTime (count : nat) (d : N)
| TInterval (period : N)
| TIntervalAt (delay : N) (period : N)     (* delay = at - now when interval_at was called *)
| TTimer (v : val) (d : N)
| TRaw.                                    (* no operator: raw tasks scheduled by the labels (C19) *)

(* what a task does when its function runs *)
Inductive job :=
| JEmit (v : val)
| JEmitErr (e : Z)
| JComplete
| JTrailing
| JFlush
| JInterval
| JTimer (v : val)
| JSubscribe
| JRaw (decline_at : nat)        (* logs; a repeating one declines at that sequence number *)
| JRawSub.                       (* logs and returns a subscription (SubscribeReturn) *)

Inductive tlab :=
| LSrc (e : ev)                  (* next / error / complete called on the hot input *)
| LRun (t : nat)                 (* the executor polls task t *)
| LAdv (dt : N)                  (* the clock advances *)
| LUnsub                         (* unsubscribe() on the subscription returned by subscribe *)
| LClosed                        (* is_closed() on it *)
| LFinish                        (* from now on the downstream observer reports is_finished() *)
| LSpawnOnce (delay : option N)                       (* TRaw: schedule(OnceTask, delay) *)
| LSpawnRepeat (period : N) (delay : option N) (decline_at : nat)
| LSpawnSub (delay : option N)                        (* a subscribing task *)
| LCancel (t : nat)              (* TRaw: unsubscribe() on task t's handle *)
| LHandleClosed (t : nat).       (* TRaw: is_closed() on task t's handle *)

Inductive tout :=
| TOut (at_time : N) (e : ev)    (* the subscriber is called *)
| TRet (b : bool)                (* answer of is_closed() *)
| TRan (t : nat) (seq : nat) (at_time : N)   (* a raw task's function ran *)
| TInnerUnsub (t : nat)          (* the subscription produced by a subscribing task was unsubscribed *)
| TMark (j : nat).               (* observation aid: the j-th label starts here *)

Record tsys := {
  now : N;
  tasks : list task;
  jobs : list job;                 (* job of task i *)
  alive : bool;                    (* the Option<O> slot / the Option<BufferObserver> cell *)
  down_fin : bool;
  src_on : bool;                   (* the input is subscribed and neither unsubscribed nor terminated *)
  src_done : bool;                 (* the input has terminated (a subject delivers nothing afterwards) *)
  trailing : option val;
  handler : option nat;            (* debounce: the handle cell; throttle: the current window task *)
  multi : option (list nat);       (* delay / observe_on: MultiSubscription of task handles *)
  data : list val;
  main_task : option nat;          (* interval / timer / buffer flush / subscribing task *)
  inner_subs : list (nat * bool)   (* subscriptions produced by subscribing tasks: (task, still alive) *)
}.

Definition upd_tasks (s : tsys) (ts : list task) : tsys :=
  {| now := now s; tasks := ts; jobs := jobs s; alive := alive s; down_fin := down_fin s; src_on := src_on s;
     src_done := src_done s; trailing := trailing s; handler := handler s; multi := multi s; data := data s;
     main_task := main_task s; inner_subs := inner_subs s |}.
Definition upd_alive (s : tsys) (b : bool) : tsys :=
  {| now := now s; tasks := tasks s; jobs := jobs s; alive := b; down_fin := down_fin s; src_on := src_on s;
     src_done := src_done s; trailing := trailing s; handler := handler s; multi := multi s; data := data s;
     main_task := main_task s; inner_subs := inner_subs s |}.
Definition upd_src (s : tsys) (on done : bool) : tsys :=
  {| now := now s; tasks := tasks s; jobs := jobs s; alive := alive s; down_fin := down_fin s; src_on := on;
     src_done := done; trailing := trailing s; handler := handler s; multi := multi s; data := data s;
     main_task := main_task s; inner_subs := inner_subs s |}.
Definition upd_trailing (s : tsys) (v : option val) : tsys :=
  {| now := now s; tasks := tasks s; jobs := jobs s; alive := alive s; down_fin := down_fin s; src_on := src_on s;
     src_done := src_done s; trailing := v; handler := handler s; multi := multi s; data := data s;
     main_task := main_task s; inner_subs := inner_subs s |}.
Definition upd_handler (s : tsys) (h : option nat) : tsys :=
  {| now := now s; tasks := tasks s; jobs := jobs s; alive := alive s; down_fin := down_fin s; src_on := src_on s;
     src_done := src_done s; trailing := trailing s; handler := h; multi := multi s; data := data s;
     main_task := main_task s; inner_subs := inner_subs s |}.
Definition upd_multi (s : tsys) (m : option (list nat)) : tsys :=
  {| now := now s; tasks := tasks s; jobs := jobs s; alive := alive s; down_fin := down_fin s; src_on := src_on s;
     src_done := src_done s; trailing := trailing s; handler := handler s; multi := m; data := data s;
     main_task := main_task s; inner_subs := inner_subs s |}.
Definition upd_data (s : tsys) (d : list val) : tsys :=
  {| now := now s; tasks := tasks s; jobs := jobs s; alive := alive s; down_fin := down_fin s; src_on := src_on s;
     src_done := src_done s; trailing := trailing s; handler := handler s; multi := multi s; data := d;
     main_task := main_task s; inner_subs := inner_subs s |}.
Definition upd_main (s : tsys) (t : option nat) : tsys :=
  {| now := now s; tasks := tasks s; jobs := jobs s; alive := alive s; down_fin := down_fin s; src_on := src_on s;
     src_done := src_done s; trailing := trailing s; handler := handler s; multi := multi s; data := data s;
     main_task := t; inner_subs := inner_subs s |}.
Definition upd_now (s : tsys) (n : N) : tsys :=
  {| now := n; tasks := tasks s; jobs := jobs s; alive := alive s; down_fin := down_fin s; src_on := src_on s;
     src_done := src_done s; trailing := trailing s; handler := handler s; multi := multi s; data := data s;
     main_task := main_task s; inner_subs := inner_subs s |}.
Definition upd_fin (s : tsys) : tsys :=
  {| now := now s; tasks := tasks s; jobs := jobs s; alive := alive s; down_fin := true; src_on := src_on s;
     src_done := src_done s; trailing := trailing s; handler := handler s; multi := multi s; data := data s;
     main_task := main_task s; inner_subs := inner_subs s |}.
Definition upd_inner (s : tsys) (l : list (nat * bool)) : tsys :=
  {| now := now s; tasks := tasks s; jobs := jobs s; alive := alive s; down_fin := down_fin s; src_on := src_on s;
     src_done := src_done s; trailing := trailing s; handler := handler s; multi := multi s; data := data s;
     main_task := main_task s; inner_subs := l |}.

(* scheduler.schedule(task, delay): the new task's id is its position *)
Definition schedule (s : tsys) (b : nat -> body) (j : job) (delay : option N) : tsys * nat :=
  let id := length (tasks s) in
  ({| now := now s; tasks := tasks s ++ [spawn (b id) delay]; jobs := jobs s ++ [j];
      alive := alive s; down_fin := down_fin s; src_on := src_on s; src_done := src_done s; trailing := trailing s;
      handler := handler s; multi := multi s; data := data s; main_task := main_task s; inner_subs := inner_subs s |}, id).

Fixpoint set_nth {A} (l : list A) (i : nat) (x : A) : list A :=
  match l, i with
  | [], _ => []
  | _ :: r, O => x :: r
  | y :: r, S i' => y :: set_nth r i' x
  end.

Definition cancel_task (s : tsys) (t : nat) : tsys :=
  match nth_error (tasks s) t with
  | Some tk => upd_tasks s (set_nth (tasks s) t (cancel tk))
  | None => s
  end.

(* the observer slot *)
Definition slot_next (s : tsys) (v : val) : tsys * list tout :=
  (s, if alive s then [TOut (now s) (Next v)] else []).
Definition slot_term (s : tsys) (e : ev) : tsys * list tout :=
  if alive s then (upd_alive s false, [TOut (now s) e]) else (s, []).

(* BufferObserver::emit inside the Option cell *)
Definition buffer_emit (s : tsys) : tsys * list tout :=
  if alive s then
    match data s with
    | [] => (s, [])
    | d => (upd_data s [], [TOut (now s) (Next (VL d))])
    end
  else (s, []).

Definition append_multi (s : tsys) (id : nat) : tsys :=
  match multi s with
  | Some l => upd_multi s (Some (l ++ [id]))
  | None => cancel_task s id       (* MultiSubscription::append on an unsubscribed composite unsubscribes the addition *)
  end.

Definition task_finished (s : tsys) (t : nat) : bool :=
  match nth_error (tasks s) t with Some tk => handle_closed tk | None => true end.

(* ---- the input emits ---- *)
Definition on_src (o : top) (s : tsys) (e : ev) : tsys * list tout :=
  match o with
  | TDelay d =>
      match e with
      | Next v => let '(s1, id) := schedule s BOnce (JEmit v) (Some d) in (append_multi s1 id, [])
      | Err _ => slot_term s e
      | Done => let '(s1, id) := schedule s BOnce JComplete (Some d) in (append_multi s1 id, [])
      end
  | TObserveOn =>
      let j := match e with Next v => JEmit v | Err x => JEmitErr x | Done => JComplete end in
      let '(s1, id) := schedule s BOnce j None in (append_multi s1 id, [])
  | TDelaySubscription _ | TSubscribeOn =>
      (* the subscriber is subscribed to the input directly *)
      (s, [TOut (now s) e])
  | TDebounce d =>
      match e with
      | Next v =>
          let s1 := upd_trailing s (Some v) in
          let s2 := match handler s1 with Some h => upd_handler (cancel_task s1 h) None | None => s1 end in
          let '(s3, id) := schedule s2 BOnce JTrailing (Some d) in
          (upd_handler s3 (Some id), [])
      | Err _ => slot_term s e
      | Done =>
          let '(s1, o1) := match trailing s with
                           | Some v => slot_next (upd_trailing s None) v
                           | None => (s, []) end in
          let '(s2, o2) := slot_term s1 Done in (s2, o1 ++ o2)
      end
  | TThrottle d ed =>
      match e with
      | Next v =>
          let closed := match handler s with Some h => task_finished s h | None => true end in
          (* an item delivered on the leading edge is not a trailing candidate as well *)
          let s1 := match ed with
                    | ELeading => s
                    | ETailing => upd_trailing s (Some v)
                    | EAll => if closed then s else upd_trailing s (Some v)
                    end in
          if closed then
            let '(s2, o2) := match ed with ETailing => (s1, []) | _ => slot_next s1 v end in
            let '(s3, id) := schedule s2 BOnce JTrailing (Some d) in
            (upd_handler s3 (Some id), o2)
          else (s1, [])
      | Err _ =>
          let '(s1, o1) := slot_term s e in
          (match handler s1 with Some h => cancel_task s1 h | None => s1 end, o1)
      | Done =>
          let '(s1, o1) := match trailing s with
                           | Some v => slot_next (upd_trailing s None) v
                           | None => (s, []) end in
          let s2 := match handler s1 with Some h => cancel_task s1 h | None => s1 end in
          let '(s3, o3) := slot_term s2 Done in (s3, o1 ++ o3)
      end
  | TBufferTime _ =>
      match e with
      | Next v => (if alive s then upd_data s (data s ++ [v]) else s, [])
      | Err _ => slot_term s e
      | Done => let '(s1, o1) := buffer_emit s in let '(s2, o2) := slot_term s1 Done in (s2, o1 ++ o2)
      end
  | TBufferCountTime n _ =>
      match e with
      | Next v =>
          if alive s then
            let s1 := upd_data s (data s ++ [v]) in
            if Nat.leb n (length (data s1)) then buffer_emit s1 else (s1, [])
          else (s, [])
      | Err _ => slot_term s e
      | Done => let '(s1, o1) := buffer_emit s in let '(s2, o2) := slot_term s1 Done in (s2, o1 ++ o2)
      end
  | _ => (s, [])
  end.

(* ---- a task's function runs (the scheduler bookkeeping is in Sched.poll) ----
   returns the answer of a repeating function as well *)
Definition on_job (o : top) (s : tsys) (t : nat) (j : job) (seq : nat) : tsys * list tout * bool :=
  match j with
  | JEmit v => let '(s1, o1) := slot_next s v in (s1, o1, false)
  | JEmitErr e => let '(s1, o1) := slot_term s (Err e) in (s1, o1, false)
  | JComplete => let '(s1, o1) := slot_term s Done in (s1, o1, false)
  | JTrailing =>
      match trailing s with
      | Some v => let '(s1, o1) := slot_next (upd_trailing s None) v in (s1, o1, false)
      | None => (s, [], false)
      end
  | JFlush =>
      (* emit_buffer: if !observer.is_finished() { emit } ; is_finished of the cell = None or downstream finished *)
      if alive s && negb (down_fin s) then let '(s1, o1) := buffer_emit s in (s1, o1, true) else (s, [], false)
  | JInterval =>
      if down_fin s then (s, [], false) else (s, [TOut (now s) (Next (VZ (Z.of_nat seq)))], true)
  | JTimer v => (s, [TOut (now s) (Next v); TOut (now s) Done], false)
  | JSubscribe =>
      (* source.actual_subscribe(observer): a Subscriber slot is created in the input subject (also when the
         subject has already terminated: it is then never notified) *)
      (upd_src s true (src_done s), [], false)
  | JRaw decline_at => (s, [TRan t seq (now s)], Nat.ltb seq decline_at)
  | JRawSub => (upd_inner s (inner_subs s ++ [(t, true)]), [TRan t seq (now s)], false)
  end.

(* is this a SubscribeReturn task? *)
Definition subscribing (j : job) : bool :=
  match j with JSubscribe | JRawSub => true | _ => false end.

(* TaskHandle::unsubscribe on task t (NormalReturn or SubscribeReturn by its job) *)
Definition unsub_handle (o : top) (s : tsys) (t : nat) : tsys * list tout :=
  match nth_error (tasks s) t, nth_error (jobs s) t with
  | Some tk, Some j =>
      let s1 := cancel_task s t in
      if subscribing j && handle_closed tk then
        (* value.take() = Some(Ok(sub)) => sub.unsubscribe() *)
        match j with
        | JSubscribe => (upd_src s1 false (src_done s1), [])
        | _ => if existsb (fun p => Nat.eqb (fst p) t && snd p) (inner_subs s1)
               then (upd_inner s1 (map (fun p => if Nat.eqb (fst p) t then (fst p, false) else p) (inner_subs s1)), [TInnerUnsub t])
               else (s1, [])
        end
      else (s1, [])
  | _, _ => (s, [])
  end.

Fixpoint unsub_handles (o : top) (s : tsys) (ts : list nat) : tsys * list tout :=
  match ts with
  | [] => (s, [])
  | t :: r => let '(s1, o1) := unsub_handle o s t in let '(s2, o2) := unsub_handles o s1 r in (s2, o1 ++ o2)
  end.

(* unsubscribe() on the subscription returned by actual_subscribe *)
Definition on_unsub (o : top) (s : tsys) : tsys * list tout :=
  match o with
  | TDelay _ | TObserveOn =>
      (* ZipSubscription(source, MultiSubscription) *)
      let s1 := upd_src s false (src_done s) in
      match multi s1 with
      | Some l => unsub_handles o (upd_multi s1 None) l
      | None => (s1, [])
      end
  | TDelaySubscription _ | TSubscribeOn | TInterval _ | TIntervalAt _ _ | TTimer _ _ =>
      match main_task s with Some t => unsub_handle o s t | None => (s, []) end
  | TDebounce _ =>
      (* ZipSubscription(source, MutArc<Option<TaskHandle>>) *)
      let s1 := upd_src s false (src_done s) in
      match handler s1 with
      | Some h => (upd_handler (cancel_task s1 h) None, [])
      | None => (s1, [])
      end
  | TThrottle _ _ =>
      (* ZipSubscription(source, ObserverSlot): the slot shared with the window task is emptied *)
      (upd_alive (upd_src s false (src_done s)) false, [])
  | TBufferTime _ | TBufferCountTime _ _ =>
      (* ZipSubscription(flush task handle, source) *)
      let '(s1, o1) := match main_task s with Some t => unsub_handle o s t | None => (s, []) end in
      (upd_src s1 false (src_done s1), o1)
  | TRaw => (s, [])
  end.

(* is_closed() on the subscription returned by actual_subscribe *)
Definition sub_closed (o : top) (s : tsys) : bool :=
  match o with
  | TDelay _ | TObserveOn =>
      (* ZipSubscription(source, MultiSubscription): both halves closed *)
      negb (src_on s) &&
      match multi s with
      | Some l => forallb (task_finished s) l
      | None => true
      end
  | TDelaySubscription _ | TSubscribeOn =>
      (* TaskHandle<SubscribeReturn>: Some(Ok(u)) => u.is_closed() (the Subscriber slot of the input), else false *)
      match main_task s with
      | Some t => task_finished s t && negb (src_on s)
      | None => false
      end
  | TInterval _ | TIntervalAt _ _ | TTimer _ _ =>
      match main_task s with Some t => task_finished s t | None => true end
  | TDebounce _ => negb (src_on s) && match handler s with Some _ => false | None => true end
  | TThrottle _ _ => negb (src_on s) && negb (alive s)      (* (source, ObserverSlot) *)
  | TBufferTime _ | TBufferCountTime _ _ =>
      (match main_task s with Some t => task_finished s t | None => true end) && negb (src_on s)
  | TRaw => true
  end.

(* actual_subscribe *)
Definition tinit (o : top) : tsys :=
  let s0 := {| now := 0; tasks := []; jobs := []; alive := true; down_fin := false; src_on := true; src_done := false;
               trailing := None; handler := None; multi := Some []; data := []; main_task := None; inner_subs := [] |} in
  match o with
  | TDelaySubscription d =>
      let '(s1, id) := schedule (upd_src s0 false false) BOnce JSubscribe (Some d) in upd_main s1 (Some id)
  | TSubscribeOn =>
      let '(s1, id) := schedule (upd_src s0 false false) BOnce JSubscribe None in upd_main s1 (Some id)
  | TBufferTime d | TBufferCountTime _ d =>
      let '(s1, id) := schedule s0 (fun i => repeat_new 0 i d) JFlush None in upd_main s1 (Some id)
  | TInterval p =>
      let '(s1, id) := schedule (upd_src s0 false false) (fun i => repeat_new 0 i p) JInterval None in upd_main s1 (Some id)
  | TIntervalAt dl p =>
      (* interval_at: RepeatTask::starting_now behind the initial delay *)
      let '(s1, id) := schedule (upd_src s0 false false) (fun i => repeat_starting_now i p) JInterval (Some dl) in upd_main s1 (Some id)
  | TTimer v d =>
      let '(s1, id) := schedule (upd_src s0 false false) BOnce (JTimer v) (Some d) in upd_main s1 (Some id)
  | TRaw => upd_src s0 false false
  | _ => s0
  end.

Definition tstep (o : top) (s : tsys) (l : tlab) : tsys * list tout :=
  match l with
  | LSrc e =>
      if src_done s then (s, [])                                   (* a terminated subject delivers nothing *)
      else if src_on s then
        let s1 := if is_term e then upd_src s false true else s in on_src o s1 e
      else (if is_term e then upd_src s false true else s, [])    (* not (or no longer) subscribed: dropped *)
  | LRun t =>
      match nth_error (tasks s) t, nth_error (jobs s) t with
      | Some tk, Some j =>
          let '(tk1, res) := poll (now s) tk in
          let s1 := upd_tasks s (set_nth (tasks s) t tk1) in
          match res with
          | PNone => (s1, [])
          | PRun _ seq repeating =>
              let '(s2, out, continue) := on_job o s1 t j seq in
              if repeating then
                match nth_error (tasks s2) t with
                | Some tk2 => (upd_tasks s2 (set_nth (tasks s2) t (after_tick (now s2) tk2 continue)), out)
                | None => (s2, out)
                end
              else (s2, out)
          end
      | _, _ => (s, [])
      end
  | LAdv dt => (upd_now s (now s + dt), [])
  | LUnsub => on_unsub o s
  | LClosed => (s, [TRet (sub_closed o s)])
  | LFinish => (upd_fin s, [])
  | LSpawnOnce delay =>
      match o with TRaw => let '(s1, _) := schedule s BOnce (JRaw 0) delay in (s1, []) | _ => (s, []) end
  | LSpawnRepeat p delay k =>
      match o with TRaw => let '(s1, _) := schedule s (fun i => repeat_new (now s) i p) (JRaw k) delay in (s1, []) | _ => (s, []) end
  | LSpawnSub delay =>
      match o with TRaw => let '(s1, _) := schedule s BOnce JRawSub delay in (s1, []) | _ => (s, []) end
  | LCancel t => match o with TRaw => unsub_handle o s t | _ => (s, []) end
  | LHandleClosed t =>
      match o with
      | TRaw =>
          match nth_error (tasks s) t, nth_error (jobs s) t with
          | Some tk, Some j =>
              (s, [TRet (if subscribing j
                         then handle_closed tk && negb (existsb (fun p => Nat.eqb (fst p) t && snd p) (inner_subs s))
                         else handle_closed tk)])
          | _, _ => (s, [])
          end
      | _ => (s, [])
      end
  end.

Fixpoint trun_sys (o : top) (s : tsys) (j : nat) (ls : list tlab) : list tout :=
  match ls with
  | [] => []
  | l :: r => let '(s1, out) := tstep o s l in TMark j :: out ++ trun_sys o s1 (S j) r
  end.

Definition run_timed (o : top) (ls : list tlab) : list tout := trun_sys o (tinit o) 0 ls.
