(* Subscriber / SubscriberThreads (subscriber.rs): the slot between a source and the observer it was given - the value that
   `create` hands to user code, that a Subject keeps per subscriber, and that `subscribe` returns as the subscription.
   Its whole state is whether the observer is still in the cell.  No proofs in this file. *)
From RxModel Require Export Base RustSem BodyAbs.
Open Scope string_scope.
Open Scope list_scope.

Inductive slot_op := SNotify (e : ev) | SUnsubscribe.

(* the slot machine: a notification passes while the observer is there, a terminal takes it out, so does unsubscribe() *)
Definition slot_step (alive : bool) (o : slot_op) : bool * list ev :=
  match o with
  | SNotify e => if alive then (negb (is_term e), [e]) else (false, [])
  | SUnsubscribe => (false, [])
  end.

Fixpoint slot_run (alive : bool) (os : list slot_op) : list ev :=
  match os with
  | [] => []
  | o :: r => let '(a, out) := slot_step alive o in out ++ slot_run a r
  end.

Definition subscriber (alive : bool) : rv := VStruct "Subscriber" [("0", oslot alive)].

Definition slot_call (o : slot_op) : string * list rv :=
  match o with SNotify e => arg_of e | SUnsubscribe => ("unsubscribe", []) end.

(* every method of the translated Subscriber is the machine's step; is_closed() answers "the observer is gone" *)
Definition subscriber_agrees (P : prog) : Prop :=
  forall (alive : bool) (o : slot_op),
    call_method P "subscriber.rs" FUEL "Subscriber" (fst (slot_call o)) (subscriber alive) (snd (slot_call o))
    = Some (subscriber (fst (slot_step alive o)), snd (slot_step alive o), VUnit)
  /\ (exists out,
      call_method P "subscriber.rs" FUEL "Subscriber" "is_closed" (subscriber alive) [] = Some (subscriber alive, out, VBool (negb alive))
      /\ out = []).

(* the translated Subscriber driven by a whole history (the same value through clones: one cell) *)
Fixpoint subscriber_run (P : prog) (self : rv) (os : list slot_op) : option (list ev) :=
  match os with
  | [] => Some []
  | o :: r =>
      match call_method P "subscriber.rs" FUEL "Subscriber" (fst (slot_call o)) self (snd (slot_call o)) with
      | Some (self', out, _) => match subscriber_run P self' r with Some rest => Some (out ++ rest) | None => None end
      | None => None
      end
  end.
