(* The back channel: Observer::is_finished of every operator's observer, and the producers
   that consult it (from_iter, from_stream, interval).  A producer feeds a *sink*: a chain of
   single-input operators in front of the subscriber, optionally reached through one input of a
   two-input operator.  No proofs here. *)
From Coq Require Export String.
From RxModel Require Export Chain Ops2.
Local Open Scope nat_scope.

(* ---------- what a `fn is_finished` body can be (tools/gen_isfinished.py emits these) ---------- *)
Inductive fin_kind :=
| KFwd              (* self.<field>.is_finished() *)
| KSlotOrFwd        (* self.observer.as_ref().map_or(true, |o| o.is_finished()) *)
| KCellSlotOrFwd    (* the same through a shared cell ($rc<Option<..>>) *)
| KBoxFwd           (* boxed observer *)
| KChannelClosed    (* self.sender.is_closed() *)
| KSubjectClosed    (* the subject has terminated *)
| KConstFalse
| KConstTrue
| KUnknown.

Definition fin_kind_eqb (a b : fin_kind) : bool :=
  match a, b with
  | KFwd, KFwd | KSlotOrFwd, KSlotOrFwd | KCellSlotOrFwd, KCellSlotOrFwd | KBoxFwd, KBoxFwd
  | KChannelClosed, KChannelClosed | KSubjectClosed, KSubjectClosed | KConstFalse, KConstFalse
  | KConstTrue, KConstTrue | KUnknown, KUnknown => true
  | _, _ => false
  end.

(* `gone`: the observer's own slot is empty (it has terminated its downstream) *)
Definition interp_kind (k : fin_kind) (gone down : bool) : bool :=
  match k with
  | KFwd | KBoxFwd => down
  | KSlotOrFwd | KCellSlotOrFwd => gone || down
  | KChannelClosed | KSubjectClosed => gone
  | KConstTrue => true
  | KConstFalse | KUnknown => false
  end.

Definition interp_path (ks : list fin_kind) (gone down : bool) : bool :=
  fold_right (fun k d => interp_kind k gone d) down ks.

Fixpoint lookup (key : string) (t : list (string * fin_kind)) : option fin_kind :=
  match t with
  | [] => None
  | (k, v) :: r => if String.eqb k key then Some v else lookup key r
  end.

(* ---------- single-input operators: observer types (source-side first) and their bodies ---------- *)
Open Scope string_scope.
Definition path1 (o : op1) : list string :=
  match o with
  | OMap _ => ["ops/map.rs:MapObserver"]
  | OMapTo _ => ["ops/map_to.rs:MapToObserver"]
  | OFilter _ => ["ops/filter.rs:FilterObserver"]
  | OFilterMap _ => ["ops/filter_map.rs:FilterMapObserver"]
  | OTap => ["ops/tap.rs:TapObserver"]
  | OOnErrorMap _ => ["ops/on_error_map.rs:OnErrorMapObserver"]
  | OTake _ => ["ops/take.rs:TakeObserver"]
  | OSkip _ => ["ops/skip.rs:SkipObserver"]
  | OTakeWhile _ _ => ["ops/take_while.rs:TakeWhileObserver"]
  | OSkipWhile _ => ["ops/skip_while.rs:SkipWhileObserver"]
  | OTakeLast _ => ["ops/take_last.rs:TakeLastObserver"]
  | OSkipLast _ => ["ops/skip_last.rs:SkipLastObserver"]
  | OLast => ["ops/last.rs:LastObserver"]
  | OScan _ _ => ["ops/scan.rs:ScanObserver"]
  | ODefaultIfEmpty _ => ["ops/default_if_empty.rs:DefaultIfEmptyObserver"]
  | ODistinct => ["ops/distinct.rs:DistinctObserver"]
  | ODistinctKey _ => ["ops/distinct.rs:DistinctKeyObserver"]
  | ODistinctUntilChanged => ["ops/distinct.rs:DistinctUntilChangedObserver"]
  | ODistinctUntilKeyChanged _ => ["ops/distinct.rs:DistinctUntilKeyChangedObserver"]
  | OPairwise => ["ops/pairwise.rs:PairwiseObserver"]
  | OBufferCount _ => ["ops/buffer.rs:BufferWithCountObserver"; "ops/buffer.rs:BufferObserver"]
  | OContains _ => ["ops/contains.rs:ContainsObserver"]
  | OCollect => ["ops/collect.rs:CollectObserver"]
  | OStartWith _ => []                       (* start_with subscribes the source with the observer it was given *)
  end.
Close Scope string_scope.

Definition kinds1 (o : op1) : list fin_kind :=
  match o with
  | OTake _ | OTakeWhile _ _ | OContains _ => [KSlotOrFwd]
  | OBufferCount _ => [KFwd; KFwd]
  | OStartWith _ => []
  | _ => [KFwd]
  end.

Definition gone1 (st : ost) : bool :=
  match st with SCount a _ => negb a | SAlive a => negb a | _ => false end.

Definition fin1 (o : op1) (st : ost) (down : bool) : bool := interp_path (kinds1 o) (gone1 st) down.

Definition node_fin (nd : node) (down : bool) : bool := fin1 (n_op nd) (n_st nd) down.

(* what the source-side end of a chain answers; `probe` is the subscriber's own answer *)
Fixpoint chain_fin (ch : list node) (probe : bool) : bool :=
  match ch with
  | [] => probe
  | nd :: r => node_fin nd (chain_fin r probe)
  end.

(* ---------- two-input operators: the observer handed to each input ---------- *)
Open Scope string_scope.
Definition cell := "observer.rs:$rc<Option<O>>".
Definition path2 (o : op2) (sd : side) : list string :=
  match o, sd with
  | OMerge, _ => ["ops/merge.rs:$rc<MergeObserver<O>>"]
  | OZip, A => ["ops/zip.rs:AObserver"; "ops/zip.rs:$rc<ZipObserver<O,ItemA,ItemB>>"]
  | OZip, B => ["ops/zip.rs:BObserver"; "ops/zip.rs:$rc<ZipObserver<O,ItemA,ItemB>>"]
  | OCombineLatest _, A => ["ops/combine_latest.rs:AObserver"; "ops/combine_latest.rs:$rc<CombineLatestObserver<O,A,B,BinaryOp>>"]
  | OCombineLatest _, B => ["ops/combine_latest.rs:BObserver"; "ops/combine_latest.rs:$rc<CombineLatestObserver<O,A,B,BinaryOp>>"]
  | OWithLatestFrom, A => ["ops/with_latest_from.rs:AObserver"; cell]
  | OWithLatestFrom, B => ["ops/with_latest_from.rs:BObserver"; cell]
  | OTakeUntil, A => [cell]
  | OTakeUntil, B => ["ops/take_until.rs:TakeUntilNotifierObserver"; cell]
  | OSkipUntil, A => ["ops/skip_until.rs:$name<O>"; cell]
  | OSkipUntil, B => ["ops/skip_until.rs:SkipUntilNotifierObserver"; "ops/skip_until.rs:$name<O>"; cell]
  | OSample, A => ["ops/sample.rs:SourceObserver"; cell]
  | OSample, B => ["ops/sample.rs:SampleObserver"; cell]
  | OBuffer, A => [cell; "ops/buffer.rs:BufferObserver"]
  | OBuffer, B => ["ops/buffer.rs:NotifierObserver"; cell; "ops/buffer.rs:BufferObserver"]
  end.
Close Scope string_scope.

Definition kinds2 (o : op2) (sd : side) : list fin_kind :=
  match o, sd with
  | OMerge, _ => [KCellSlotOrFwd]
  | (OZip | OCombineLatest _), _ => [KFwd; KCellSlotOrFwd]
  | OWithLatestFrom, _ => [KFwd; KCellSlotOrFwd]
  | OTakeUntil, A => [KCellSlotOrFwd]
  | OTakeUntil, B => [KFwd; KCellSlotOrFwd]
  | OSkipUntil, A => [KFwd; KCellSlotOrFwd]
  | OSkipUntil, B => [KFwd; KFwd; KCellSlotOrFwd]
  | OSample, _ => [KFwd; KCellSlotOrFwd]
  | OBuffer, A => [KCellSlotOrFwd; KFwd]
  | OBuffer, B => [KFwd; KCellSlotOrFwd; KFwd]
  end.

(* is_finished of the observer handed to input `sd`, given the downstream's answer *)
Definition fin2 (o : op2) (s : st2) (sd : side) (down : bool) : bool :=
  interp_path (kinds2 o sd) (negb (alive s)) down.

(* ---------- sinks ---------- *)
Record sink := {
  sk_two : option (op2 * st2 * side);   (* the producer is input `side` of this operator *)
  sk_live : bool;                        (* the observer handed to the producer has not been moved by a terminal *)
  sk_ch : list node
}.

Definition sink_fin (k : sink) : bool :=
  let down := chain_fin (sk_ch k) false in
  match sk_two k with
  | None => down
  | Some (o, s, sd) => fin2 o s sd down
  end.

(* one event arrives on input `sd` (for a plain chain the side is ignored) *)
Definition sink_put (k : sink) (sd : side) (e : ev) : sink * list ev :=
  match sk_two k with
  | None =>
      let '(ch', out) := push (sk_ch k) [e] in
      ({| sk_two := None; sk_live := sk_live k; sk_ch := ch' |}, out)
  | Some (o, s, me) =>
      let '(s', mid) := step2 o s sd e in
      let '(ch', out) := push (sk_ch k) mid in
      ({| sk_two := Some (o, s', me); sk_live := sk_live k; sk_ch := ch' |}, out)
  end.

Definition sink_side (k : sink) : side := match sk_two k with Some (_, _, sd) => sd | None => A end.

(* the producer's own events *)
Definition prod_put (k : sink) (e : ev) : sink * list ev :=
  if sk_live k then
    let '(k', out) := sink_put k (sink_side k) e in
    ({| sk_two := sk_two k'; sk_live := negb (is_term e); sk_ch := sk_ch k' |}, out)
  else (k, []).

(* ---------- from_iter: `for v in iter { if observer.is_finished() { break }; observer.next(v) }; complete` ---------- *)
Fixpoint iter_loop (k : sink) (items : list val) : sink * nat * list ev :=
  match items with
  | [] => (k, 0, [])
  | v :: r =>
      if sink_fin k then (k, 0, [])
      else
        let '(k1, out) := prod_put k (Next v) in
        let '(k2, pulls, out2) := iter_loop k1 r in
        (k2, S pulls, out ++ out2)
  end.

Definition iter_run (k : sink) (items : list val) : sink * nat * list ev :=
  let '(k1, pulls, out) := iter_loop k items in
  let '(k2, out2) := prod_put k1 Done in
  (k2, pulls, out ++ out2).

(* ---------- from_stream: one poll of the task.  `ready`: the items the stream yields before it is
   pending again (or ends: `ended`).  The task looks at is_finished before every poll_next. ---------- *)
Definition stream_poll (k : sink) (ready : list val) (ended : bool) : sink * nat * list ev * bool :=
  let '(k1, pulls, out) := iter_loop k ready in
  if sink_fin k1 || (Nat.eqb pulls (length ready) && ended)
  then let '(k2, out2) := prod_put k1 Done in (k2, pulls, out ++ out2, true)      (* Poll::Ready: the task is over *)
  else (k1, pulls, out, false).

(* ---------- interval: `if !observer.is_finished() { observer.next(seq); true } else { false }` ---------- *)
Record ivst := { iv_sink : sink; iv_seq : nat; iv_retired : bool }.

Definition iv_tick (s : ivst) : ivst * list ev :=
  if iv_retired s then (s, [])
  else if sink_fin (iv_sink s) then ({| iv_sink := iv_sink s; iv_seq := iv_seq s; iv_retired := true |}, [])
  else
    let '(k1, out) := prod_put (iv_sink s) (Next (VZ (Z.of_nat (iv_seq s)))) in
    ({| iv_sink := k1; iv_seq := S (iv_seq s); iv_retired := false |}, out).

(* ---------- the cases of the correspondence check ---------- *)
Inductive rstim :=
| RSide (e : ev)      (* the other input of the two-input operator emits *)
| RTick.               (* the interval's period elapses and its task is polled *)

Definition sink_init (two : option (op2 * side)) (os : list op1) : sink * list ev :=
  let '(ch, pre) := subscribe_chain os in
  ({| sk_two := match two with Some (o, sd) => Some (o, init2 o, sd) | None => None end; sk_live := true; sk_ch := ch |}, pre).

Definition other (sd : side) : side := match sd with A => B | B => A end.

(* The other input is played by a `create` source (which does not consult is_finished) when it is
   cold; `first_side` says which input is subscribed first. *)
Fixpoint put_all (k : sink) (sd : side) (es : list ev) : sink * list ev :=
  match es with
  | [] => (k, [])
  | e :: r => let '(k1, o1) := sink_put k sd e in let '(k2, o2) := put_all k1 sd r in (k2, o1 ++ o2)
  end.

Definition run_iter_case (two : option (op2 * side)) (os : list op1) (cold_other : list ev) (items : list val) : nat * list ev :=
  let '(k0, pre) := sink_init two os in
  match two with
  | None => let '(_, pulls, out) := iter_run k0 items in (pulls, pre ++ out)
  | Some (o, me) =>
      if match first_side o, me with A, A | B, B => true | _, _ => false end
      then
        let '(k1, pulls, out) := iter_run k0 items in
        let '(_, out2) := put_all k1 (other me) (slot cold_other) in
        (pulls, pre ++ out ++ out2)
      else
        let '(k1, out1) := put_all k0 (other me) (slot cold_other) in
        let '(_, pulls, out) := iter_run k1 items in
        (pulls, pre ++ out1 ++ out)
  end.

(* ---------- a chain of single-input operators BETWEEN the producer and the two-input operator ----------
   `iter.skip(2).merge(other).take(1)`: the producer's observer is the first node of `pre`; what `pre` lets through
   arrives on the producer's input of the sink; `pre` answers is_finished with the sink's answer at its end.  (Added for
   the cases in which the stream is ended from the side while an operator above the cut is still holding items back.) *)
Fixpoint prod_put_all (k : sink) (es : list ev) : sink * list ev :=
  match es with
  | [] => (k, [])
  | e :: r => let '(k1, o1) := prod_put k e in let '(k2, o2) := prod_put_all k1 r in (k2, o1 ++ o2)
  end.

Definition pre_fin (pre : list node) (k : sink) : bool := chain_fin pre (sink_fin k).

Definition pre_put (pre : list node) (k : sink) (e : ev) : list node * sink * list ev :=
  let '(pre', mid) := push pre [e] in
  let '(k', out) := prod_put_all k mid in
  (pre', k', out).

Fixpoint iter_loop_pre (pre : list node) (k : sink) (items : list val) : list node * sink * nat * list ev :=
  match items with
  | [] => (pre, k, 0, [])
  | v :: r =>
      if pre_fin pre k then (pre, k, 0, [])
      else
        let '(pre1, k1, out) := pre_put pre k (Next v) in
        let '(pre2, k2, pulls, out2) := iter_loop_pre pre1 k1 r in
        (pre2, k2, S pulls, out ++ out2)
  end.

Definition iter_run_pre (pre : list node) (k : sink) (items : list val) : sink * nat * list ev :=
  let '(pre1, k1, pulls, out) := iter_loop_pre pre k items in
  let '(_, k2, out2) := pre_put pre1 k1 Done in
  (k2, pulls, out ++ out2).

(* as run_iter_case, with the chain `pre_ops` between the iterator and its input of the two-input operator *)
Definition run_iter_case_pre (pre_ops : list op1) (two : option (op2 * side)) (os : list op1) (cold_other : list ev) (items : list val)
  : nat * list ev :=
  let '(k0, pre0) := sink_init two os in
  let '(pre, started) := subscribe_chain pre_ops in
  match two with
  | None =>
      let '(k0', o0) := prod_put_all k0 started in
      let '(_, pulls, out) := iter_run_pre pre k0' items in (pulls, pre0 ++ o0 ++ out)
  | Some (o, me) =>
      if match first_side o, me with A, A | B, B => true | _, _ => false end
      then
        let '(k0', o0) := prod_put_all k0 started in
        let '(k1, pulls, out) := iter_run_pre pre k0' items in
        let '(_, out2) := put_all k1 (other me) (slot cold_other) in
        (pulls, pre0 ++ o0 ++ out ++ out2)
      else
        let '(k1, out1) := put_all k0 (other me) (slot cold_other) in
        let '(k1', o0) := prod_put_all k1 started in
        let '(_, pulls, out) := iter_run_pre pre k1' items in
        (pulls, pre0 ++ out1 ++ o0 ++ out)
  end.

(* `olive`: the observer handed to the other input has not been moved by a terminal of that input *)
Fixpoint iv_run (s : ivst) (other_sd : side) (olive : bool) (sts : list rstim) : ivst * list ev :=
  match sts with
  | [] => (s, [])
  | RSide e :: r =>
      if olive then
        let '(k1, o1) := sink_put (iv_sink s) other_sd e in
        let '(s2, o2) := iv_run {| iv_sink := k1; iv_seq := iv_seq s; iv_retired := iv_retired s |} other_sd (negb (is_term e)) r in
        (s2, o1 ++ o2)
      else iv_run s other_sd false r
  | RTick :: r =>
      let '(s1, o1) := iv_tick s in
      let '(s2, o2) := iv_run s1 other_sd olive r in (s2, o1 ++ o2)
  end.

(* answer: is the interval's task still alive at the end, and what the subscriber saw *)
Definition run_interval_case (two : option (op2 * side)) (os : list op1) (sts : list rstim) : bool * list ev :=
  let '(k0, pre) := sink_init two os in
  let me := match two with Some (_, sd) => sd | None => A end in
  let '(s, out) := iv_run {| iv_sink := k0; iv_seq := 0; iv_retired := false |} (other me) true sts in
  (negb (iv_retired s), pre ++ out).

Fixpoint stream_run (k : sink) (polls : list (list val * bool)) (done : bool) : nat * list ev * bool :=
  match polls with
  | [] => (0, [], done)
  | (ready, ended) :: r =>
      if done then (0, [], true)
      else
        let '(k1, p1, o1, d1) := stream_poll k ready ended in
        let '(p2, o2, d2) := stream_run k1 r d1 in
        (p1 + p2, o1 ++ o2, d2)
  end.

(* answer: items pulled from the stream, what the subscriber saw, whether the task has finished *)
Definition run_stream_case (os : list op1) (polls : list (list val * bool)) : nat * list ev * bool :=
  let '(k0, pre) := sink_init None os in
  let '(p, out, d) := stream_run k0 polls false in (p, pre ++ out, d).
