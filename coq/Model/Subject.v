(* Subject / SubjectThreads / MutRef*Subject (one macro body in subject.rs) and
   BehaviorSubject, as a state machine over histories of API calls.  No proofs here. *)
From RxModel Require Export Base.

(* A subscriber is the slot `$rc<Option<O>>` created by `actual_subscribe`; it is
   identified by the order of creation. *)
Record subj := {
  observers : option (list nat);     (* PublisherVec: Some(vec) until a terminal / unsubscribe takes it *)
  chamber : option (list nat);       (* subscribers added since the last load() *)
  dead : list nat;                   (* slots whose cell is None *)
  next_id : nat
}.

Definition subj0 : subj := {| observers := Some []; chamber := Some []; dead := []; next_id := 0 |}.

Definition memn (i : nat) (l : list nat) : bool := existsb (Nat.eqb i) l.
Definition slot_alive (s : subj) (i : nat) : bool := negb (memn i (dead s)).

Inductive sop :=
| OpSubscribe
| OpUnsubOne (i : nat)
| OpNext (v : val)
| OpNextSubInside (v : val) (i : nat)   (* an emission during which subscriber i's callback subscribes a new subscriber *)
| OpError (e : Z)
| OpComplete
| OpClone                               (* handles share both cells: no effect *)
| OpRetain
| OpUnsubSubject
| OpLen
| OpIsEmpty
| OpIsClosed
| OpIsFinished
| OpSubClosed (i : nat).                (* is_closed() on subscriber i's subscription *)

Inductive sobs :=
| Deliver (i : nat) (e : ev)
| Subscribed (i : nat)
| RetN (n : nat)
| RetB (b : bool).

(* fn load: observers.append(chamber) *)
Definition load (s : subj) : subj :=
  match observers s, chamber s with
  | Some o, Some c => {| observers := Some (o ++ c); chamber := Some []; dead := dead s; next_id := next_id s |}
  | _, _ => s
  end.

Definition subscribe (s : subj) : subj * nat :=
  let id := next_id s in
  match chamber s with
  | Some c => ({| observers := observers s; chamber := Some (c ++ [id]); dead := dead s; next_id := S id |}, id)
  | None => ({| observers := observers s; chamber := None; dead := id :: dead s; next_id := S id |}, id)
  end.

Definition kill (s : subj) (ids : list nat) : subj :=
  {| observers := observers s; chamber := chamber s; dead := ids ++ dead s; next_id := next_id s |}.

Definition sstep (s : subj) (op : sop) : subj * list sobs :=
  match op with
  | OpSubscribe => let '(s', id) := subscribe s in (s', [Subscribed id])
  | OpUnsubOne i => (if Nat.ltb i (next_id s) then kill s [i] else s, [])
  | OpNext v =>
      let s1 := load s in
      match observers s1 with
      | Some o => (s1, map (fun i => Deliver i (Next v)) (filter (slot_alive s1) o))
      | None => (s1, [])
      end
  | OpNextSubInside v i =>
      let s1 := load s in
      match observers s1 with
      | Some o =>
          if memn i o && slot_alive s1 i then
            let '(s2, id) := subscribe s1 in
            (s2, flat_map (fun j => if slot_alive s1 j
                                    then Deliver j (Next v) :: (if Nat.eqb j i then [Subscribed id] else [])
                                    else []) o)
          else (s1, map (fun j => Deliver j (Next v)) (filter (slot_alive s1) o))
      | None => (s1, [])
      end
  | OpError e =>
      let s1 := load s in
      match observers s1 with
      | Some o =>
          let targets := filter (slot_alive s1) o in
          ({| observers := None; chamber := chamber s1; dead := targets ++ dead s1; next_id := next_id s1 |},
           map (fun i => Deliver i (Err e)) targets)
      | None => (s1, [])
      end
  | OpComplete =>
      let s1 := load s in
      match observers s1 with
      | Some o =>
          let targets := filter (slot_alive s1) o in
          ({| observers := None; chamber := chamber s1; dead := targets ++ dead s1; next_id := next_id s1 |},
           map (fun i => Deliver i Done) targets)
      | None => (s1, [])
      end
  | OpClone => (s, [])
  | OpRetain =>
      match observers s with
      | Some o => ({| observers := Some (filter (slot_alive s) o); chamber := chamber s; dead := dead s; next_id := next_id s |}, [])
      | None => (s, [])
      end
  | OpUnsubSubject =>
      ({| observers := None; chamber := None; dead := dead s; next_id := next_id s |}, [])
  | OpLen =>
      (s, [RetN match observers s with
                | Some o => length o + match chamber s with Some c => length c | None => 0 end
                | None => 0 end])
  | OpIsEmpty =>
      (s, [RetB match observers s with
                | Some o => match o with [] => match chamber s with Some [] => true | Some _ => false | None => true end
                                      | _ => false end
                | None => true end])
  | OpIsClosed | OpIsFinished =>
      (s, [RetB match observers s with Some _ => false | None => true end])
  | OpSubClosed i => (s, if Nat.ltb i (next_id s) then [RetB (negb (slot_alive s i))] else [])
  end.

Fixpoint srun (s : subj) (h : list sop) : list sobs :=
  match h with
  | [] => []
  | op :: r => let '(s', out) := sstep s op in out ++ srun s' r
  end.

Fixpoint sfinal (s : subj) (h : list sop) : subj :=
  match h with
  | [] => s
  | op :: r => sfinal (fst (sstep s op)) r
  end.

(* ---------- BehaviorSubject ---------- *)

Record bsubj := { inner : subj; value : val }.

Inductive bop :=
| BSub (op : sop)                  (* every Subject operation, forwarded *)
| BNextBy (f : val -> val)
| BPeek.

Inductive bobs :=
| BO (o : sobs)
| BPeeked (v : val).

Definition bstep (b : bsubj) (op : bop) : bsubj * list bobs :=
  match op with
  | BSub OpSubscribe =>
      (* observer.next(value) first, then the subject's own actual_subscribe *)
      let '(s', id) := subscribe (inner b) in
      ({| inner := s'; value := value b |}, [BO (Subscribed id); BO (Deliver id (Next (value b)))])
  | BSub (OpNext v) =>
      let '(s', out) := sstep (inner b) (OpNext v) in
      ({| inner := s'; value := v |}, map BO out)
  | BSub (OpNextSubInside v i) =>
      (* the subscriber added from inside the callback is handed the value already stored *)
      let '(s', out) := sstep (inner b) (OpNextSubInside v i) in
      ({| inner := s'; value := v |},
       flat_map (fun o => match o with
                          | Subscribed id => [BO o; BO (Deliver id (Next v))]
                          | _ => [BO o] end) out)
  | BSub op' =>
      let '(s', out) := sstep (inner b) op' in ({| inner := s'; value := value b |}, map BO out)
  | BNextBy f =>
      let v := f (value b) in
      let '(s', out) := sstep (inner b) (OpNext v) in
      ({| inner := s'; value := v |}, map BO out)
  | BPeek => (b, [BPeeked (value b)])
  end.

Fixpoint brun (b : bsubj) (h : list bop) : list bobs :=
  match h with
  | [] => []
  | op :: r => let '(b', out) := bstep b op in out ++ brun b' r
  end.

Definition bsubj0 (init : val) : bsubj := {| inner := subj0; value := init |}.
