(* The subscription algebra (subscription.rs): unit, leaf subscriptions, pairs
   (ZipSubscription) and the shared composite (MultiSubscription), under histories of
   append / unsubscribe / is_closed.  No proofs here. *)
From RxModel Require Export Base.
Local Open Scope nat_scope.

Inductive sterm :=
| SUnitT                       (* () *)
| SLeafT (k : nat)             (* a leaf subscription (a Subscriber slot, a task handle, ...) *)
| SMultiT                      (* a clone of the one MultiSubscription of the history *)
| SZipT (a b : sterm).         (* ZipSubscription::new(a, b) *)

Record cstate := {
  leaves : list (nat * bool);           (* leaf k -> still alive (absent = alive) *)
  multi_cell : option (list nat);       (* Some(vec) until unsubscribed *)
  appended : list nat                   (* every leaf ever handed to append (ghost) *)
}.

Definition cstate0 : cstate := {| leaves := []; multi_cell := Some []; appended := [] |}.

Definition leaf_alive (s : cstate) (k : nat) : bool :=
  match find (fun p => Nat.eqb (fst p) k) (leaves s) with Some (_, b) => b | None => true end.

Definition kill_leaf (s : cstate) (k : nat) : cstate :=
  {| leaves := (k, false) :: leaves s; multi_cell := multi_cell s; appended := appended s |}.

Inductive cop :=
| CAppend (k : nat)            (* multi.append(leaf k) *)
| CUnsub (t : sterm)           (* t.unsubscribe() *)
| CClosed (t : sterm)          (* t.is_closed() *)
| CDie (k : nat).              (* leaf k ends by itself (its source terminated) *)

Inductive cobs :=
| CKilled (k : nat)            (* leaf k's unsubscribe() ran while it was alive *)
| CRet (b : bool).

Fixpoint closed_t (s : cstate) (t : sterm) : bool :=
  match t with
  | SUnitT => true
  | SLeafT k => negb (leaf_alive s k)
  | SMultiT => match multi_cell s with
               | None => true
               | Some l => forallb (fun k => negb (leaf_alive s k)) l
               end
  | SZipT a b => closed_t s a && closed_t s b
  end.

Fixpoint kill_all (s : cstate) (ks : list nat) : cstate * list cobs :=
  match ks with
  | [] => (s, [])
  | k :: r =>
      let '(s1, o1) := if leaf_alive s k then (kill_leaf s k, [CKilled k]) else (s, []) in
      let '(s2, o2) := kill_all s1 r in (s2, o1 ++ o2)
  end.

Fixpoint unsub_t (s : cstate) (t : sterm) : cstate * list cobs :=
  match t with
  | SUnitT => (s, [])
  | SLeafT k => kill_all s [k]
  | SMultiT =>
      match multi_cell s with
      | Some l => kill_all {| leaves := leaves s; multi_cell := None; appended := appended s |} l
      | None => (s, [])
      end
  | SZipT a b =>
      let '(s1, o1) := unsub_t s a in let '(s2, o2) := unsub_t s1 b in (s2, o1 ++ o2)
  end.

Definition cstep (s : cstate) (op : cop) : cstate * list cobs :=
  match op with
  | CAppend k =>
      let s' := {| leaves := leaves s; multi_cell := multi_cell s; appended := k :: appended s |} in
      match multi_cell s with
      | Some l => ({| leaves := leaves s'; multi_cell := Some (l ++ [k]); appended := appended s' |}, [])
      | None => kill_all s' [k]          (* already unsubscribed: the addition is unsubscribed at once *)
      end
  | CUnsub t => unsub_t s t
  | CClosed t => (s, [CRet (closed_t s t)])
  | CDie k => (if leaf_alive s k then kill_leaf s k else s, [])
  end.

Fixpoint crun (s : cstate) (h : list cop) : list cobs :=
  match h with
  | [] => []
  | op :: r => let '(s', o) := cstep s op in o ++ crun s' r
  end.

Fixpoint cfinal (s : cstate) (h : list cop) : cstate :=
  match h with [] => s | op :: r => cfinal (fst (cstep s op)) r end.

(* the leaves a term holds *)
Fixpoint under (s : cstate) (t : sterm) : list nat :=
  match t with
  | SUnitT => []
  | SLeafT k => [k]
  | SMultiT => appended s
  | SZipT a b => under s a ++ under s b
  end.
