(* Two-input operators as state machines over a merged timeline.
   Each clause transcribes the Rust observers of ops/{merge,zip,combine_latest,
   with_latest_from,take_until,skip_until,sample,buffer}.rs.  No proofs here. *)
From RxModel Require Export Base.

Inductive side := A | B.          (* A: main / first input, B: second input / notifier *)
Definition timeline := list (side * ev).

Inductive op2 :=
| OMerge
| OZip
| OCombineLatest (f : val -> val -> val)
| OWithLatestFrom
| OTakeUntil
| OSkipUntil
| OSample
| OBuffer.

(* The shared cells of the observers.  Every operator uses a subset. *)
Record st2 := {
  alive : bool;                 (* the Option<O> slot holding the downstream observer *)
  qa : list val;                (* zip: VecDeque a ; buffer: data *)
  qb : list val;                (* zip: VecDeque b *)
  la : option val;              (* combine_latest a ; sample value *)
  lb : option val;              (* combine_latest b ; with_latest_from latest *)
  c1 : bool;                    (* completed_one *)
  skipping : bool               (* skip_until: ShareObserver.skip *)
}.

Definition init2 (o : op2) : st2 :=
  {| alive := true; qa := []; qb := []; la := None; lb := None; c1 := false; skipping := true |}.

Definition set_alive (s : st2) (b : bool) : st2 :=
  {| alive := b; qa := qa s; qb := qb s; la := la s; lb := lb s; c1 := c1 s; skipping := skipping s |}.
Definition set_qa (s : st2) (q : list val) : st2 :=
  {| alive := alive s; qa := q; qb := qb s; la := la s; lb := lb s; c1 := c1 s; skipping := skipping s |}.
Definition set_qb (s : st2) (q : list val) : st2 :=
  {| alive := alive s; qa := qa s; qb := q; la := la s; lb := lb s; c1 := c1 s; skipping := skipping s |}.
Definition set_la (s : st2) (x : option val) : st2 :=
  {| alive := alive s; qa := qa s; qb := qb s; la := x; lb := lb s; c1 := c1 s; skipping := skipping s |}.
Definition set_lb (s : st2) (x : option val) : st2 :=
  {| alive := alive s; qa := qa s; qb := qb s; la := la s; lb := x; c1 := c1 s; skipping := skipping s |}.
Definition set_c1 (s : st2) : st2 :=
  {| alive := alive s; qa := qa s; qb := qb s; la := la s; lb := lb s; c1 := true; skipping := skipping s |}.
Definition stop_skipping (s : st2) : st2 :=
  {| alive := alive s; qa := qa s; qb := qb s; la := la s; lb := lb s; c1 := c1 s; skipping := false |}.

(* $rc<Option<O>> as observer (observer.rs impl_rc_observer) *)
Definition slot_next (s : st2) (v : val) : st2 * list ev :=
  (s, if alive s then [Next v] else []).
Definition slot_term (s : st2) (e : ev) : st2 * list ev :=
  if alive s then (set_alive s false, [e]) else (s, []).

(* merge / zip / combine_latest: complete() counts; the second one completes downstream *)
Definition complete_second (s : st2) : st2 * list ev :=
  if c1 s then slot_term s Done else (set_c1 s, []).

(* BufferObserver::emit *)
Definition emit_data (s : st2) : st2 * list ev :=
  match qa s with
  | [] => (s, [])
  | d => (set_qa s [], if alive s then [Next (VL d)] else [])
  end.

Definition step2 (o : op2) (s : st2) (sd : side) (e : ev) : st2 * list ev :=
  match o with
  | OMerge =>
      match e with
      | Next v => slot_next s v
      | Err _ => slot_term s e
      | Done => complete_second s
      end
  | OZip =>
      match e with
      | Next v =>
          match sd with
          | A => match qb s with
                 | b :: r => slot_next (set_qb s r) (VP v b)
                 | [] => (set_qa s (qa s ++ [v]), [])
                 end
          | B => match qa s with
                 | a :: r => slot_next (set_qa s r) (VP a v)
                 | [] => (set_qb s (qb s ++ [v]), [])
                 end
          end
      | Err _ => slot_term s e
      | Done => complete_second s
      end
  | OCombineLatest f =>
      match e with
      | Next v =>
          let s' := match sd with A => set_la s (Some v) | B => set_lb s (Some v) end in
          match la s', lb s' with
          | Some a, Some b => slot_next s' (f a b)
          | _, _ => (s', [])
          end
      | Err _ => slot_term s e
      | Done => complete_second s
      end
  | OWithLatestFrom =>
      match sd, e with
      | B, Next v => (set_lb s (Some v), [])
      | B, Err _ => slot_term s e
      | B, Done => (s, [])
      | A, Next v => match lb s with Some b => slot_next s (VP v b) | None => (s, []) end
      | A, _ => slot_term s e
      end
  | OTakeUntil =>
      match sd, e with
      | A, Next v => slot_next s v
      | A, _ => slot_term s e
      | B, Next _ => slot_term s Done
      | B, _ => (s, [])
      end
  | OSkipUntil =>
      match sd, e with
      | A, Next v => if skipping s then (s, []) else slot_next s v
      | A, _ => slot_term s e
      | B, Next _ => (stop_skipping s, [])
      | B, Done => (stop_skipping s, [])
      | B, Err _ => (s, [])
      end
  | OSample =>
      match sd, e with
      | A, Next v => (set_la s (Some v), [])
      | A, _ => slot_term s e
      | B, Err _ => slot_term s e
      | B, _ =>   (* next and complete both release the stored value; complete does not end the output *)
          match la s with
          | Some x => slot_next (set_la s None) x
          | None => (s, [])
          end
      end
  | OBuffer =>
      (* the whole BufferObserver lives in the Option cell: after a terminal nothing is stored *)
      if alive s then
        match sd, e with
        | A, Next v => (set_qa s (qa s ++ [v]), [])
        | B, Next _ => emit_data s
        | _, Err _ => slot_term s e
        | _, Done => (set_alive (set_qa s []) false, snd (emit_data s) ++ [Done])
        end
      else (s, [])
  end.

(* Which input `actual_subscribe` subscribes first (matters for cold inputs). *)
Definition first_side (o : op2) : side :=
  match o with
  | OWithLatestFrom | OSkipUntil => B
  | _ => A
  end.

(* One subscribed operator driven by a merged timeline.  The observer handed to each
   input is moved by that input's terminal call: later events of that side do not reach it. *)
Fixpoint run2 (o : op2) (s : st2) (live_a live_b : bool) (tl : timeline) : list ev :=
  match tl with
  | [] => []
  | (sd, e) :: r =>
      let live := match sd with A => live_a | B => live_b end in
      if live then
        let '(s', out) := step2 o s sd e in
        let la' := match sd with A => negb (is_term e) | B => live_a end in
        let lb' := match sd with B => negb (is_term e) | A => live_b end in
        out ++ run2 o s' la' lb' r
      else run2 o s live_a live_b r
  end.

Definition run_op2 (o : op2) (tl : timeline) : list ev := run2 o (init2 o) true true tl.

(* state and input liveness after a timeline *)
Fixpoint final2 (o : op2) (s : st2) (la lb : bool) (tl : timeline) : st2 * bool * bool :=
  match tl with
  | [] => (s, la, lb)
  | (sd, e) :: r =>
      let live := match sd with A => la | B => lb end in
      if live then
        let '(s', _) := step2 o s sd e in
        final2 o s' (match sd with A => negb (is_term e) | B => la end)
                    (match sd with B => negb (is_term e) | A => lb end) r
      else final2 o s la lb r
  end.

