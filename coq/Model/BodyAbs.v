(* How a state of the hand-written machines of Model/Ops1.v is laid out in the fields of the crate's
   observer structs, and which source file / types each operator lives in.  The tie theorems of
   Proofs/BodyTie.v evaluate the method bodies translated from /repo/src (Gen/Bodies.v) on these
   structs and compare with step1 / init1.  No proofs in this file. *)
From RxModel Require Export Ops1 RustSem.
Open Scope string_scope.
Open Scope list_scope.

Definition FUEL : nat := 100.

(* file, observer type, operator type *)
Definition src1 (o : op1) : string * string * string :=
  match o with
  | OMap _ => ("ops/map.rs", "MapObserver", "MapOp")
  | OMapTo _ => ("ops/map_to.rs", "MapToObserver", "MapToOp")
  | OFilter _ => ("ops/filter.rs", "FilterObserver", "FilterOp")
  | OFilterMap _ => ("ops/filter_map.rs", "FilterMapObserver", "FilterMapOp")
  | OTap => ("ops/tap.rs", "TapObserver", "TapOp")
  | OOnErrorMap _ => ("ops/on_error_map.rs", "OnErrorMapObserver", "OnErrorMapOp")
  | OTake _ => ("ops/take.rs", "TakeObserver", "TakeOp")
  | OSkip _ => ("ops/skip.rs", "SkipObserver", "SkipOp")
  | OTakeWhile _ _ => ("ops/take_while.rs", "TakeWhileObserver", "TakeWhileOp")
  | OSkipWhile _ => ("ops/skip_while.rs", "SkipWhileObserver", "SkipWhileOp")
  | OTakeLast _ => ("ops/take_last.rs", "TakeLastObserver", "TakeLastOp")
  | OSkipLast _ => ("ops/skip_last.rs", "SkipLastObserver", "SkipLastOp")
  | OLast => ("ops/last.rs", "LastObserver", "LastOp")
  | OScan _ _ => ("ops/scan.rs", "ScanObserver", "ScanOp")
  | ODefaultIfEmpty _ => ("ops/default_if_empty.rs", "DefaultIfEmptyObserver", "DefaultIfEmptyOp")
  | ODistinct => ("ops/distinct.rs", "DistinctObserver", "DistinctOp")
  | ODistinctKey _ => ("ops/distinct.rs", "DistinctKeyObserver", "DistinctKeyOp")
  | ODistinctUntilChanged => ("ops/distinct.rs", "DistinctUntilChangedObserver", "DistinctUntilChangedOp")
  | ODistinctUntilKeyChanged _ => ("ops/distinct.rs", "DistinctUntilKeyChangedObserver", "DistinctUntilKeyChangedOp")
  | OPairwise => ("ops/pairwise.rs", "PairwiseObserver", "PairwiseOp")
  | OBufferCount _ => ("ops/buffer.rs", "BufferWithCountObserver", "BufferWithCountOp")
  | OContains _ => ("ops/contains.rs", "ContainsObserver", "ContainsOp")
  | OCollect => ("ops/collect.rs", "CollectObserver", "CollectOp")
  | OStartWith _ => ("ops/start_with.rs", "-", "StartWithOp")
  end.

Definition oslot (alive : bool) : rv := if alive then VSome VObs else VOptItem None.
Definition seq (q : list val) : rv := VItems q.
Definition opt (o : option val) : rv := VOptItem o.

(* the observer struct for a state of the machine *)
Definition abs1 (o : op1) (st : ost) : option rv :=
  match o, st with
  | OMap f, SUnit => Some (VStruct "MapObserver" [("observer", VObs); ("map", VF1 f)])
  | OMapTo c, SUnit => Some (VStruct "MapToObserver" [("observer", VObs); ("value", VItem c)])
  | OFilter p, SUnit => Some (VStruct "FilterObserver" [("filter", VPred p); ("observer", VObs)])
  | OFilterMap f, SUnit => Some (VStruct "FilterMapObserver" [("down_observer", VObs); ("f", VFOpt f)])
  | OTap, SUnit => Some (VStruct "TapObserver" [("observer", VObs); ("func", VCallback)])
  | OOnErrorMap g, SUnit => Some (VStruct "OnErrorMapObserver" [("observer", VObs); ("map", VFErr g)])
  | OTake n, SCount alive hits =>
      Some (VStruct "TakeObserver" [("observer", oslot alive); ("count", VNat n); ("hits", VNat hits)])
  | OSkip n, SHits hits =>
      Some (VStruct "SkipObserver" [("observer", VObs); ("count", VNat n); ("hits", VNat hits)])
  | OTakeWhile p inclusive, SAlive alive =>
      Some (VStruct "TakeWhileObserver" [("observer", oslot alive); ("callback", VPred p); ("inclusive", VBool inclusive)])
  | OSkipWhile p, SFlag d =>
      Some (VStruct "SkipWhileObserver" [("observer", VObs); ("predicate", VPred p); ("done_skipping", VBool d)])
  | OTakeLast n, SQueue q =>
      Some (VStruct "TakeLastObserver" [("observer", VObs); ("count", VNat n); ("queue", seq q)])
  | OSkipLast _, SCountQ cd q =>
      Some (VStruct "SkipLastObserver" [("observer", VObs); ("count_down", VNat cd); ("queue", seq q)])
  | OLast, SOpt l => Some (VStruct "LastObserver" [("observer", VObs); ("last", opt l)])
  | OScan f _, SAcc a =>
      Some (VStruct "ScanObserver" [("target_observer", VObs); ("binary_op", VF2 f); ("acc", VItem a)])
  | ODefaultIfEmpty d, SFlag e =>
      Some (VStruct "DefaultIfEmptyObserver" [("observer", VObs); ("is_empty", VBool e); ("default_value", VItem d)])
  | ODistinct, SQueue seen => Some (VStruct "DistinctObserver" [("observer", VObs); ("seen", seq seen)])
  | ODistinctKey k, SQueue seen =>
      Some (VStruct "DistinctKeyObserver" [("observer", VObs); ("key", VF1 k); ("seen", seq seen)])
  | ODistinctUntilChanged, SOpt l => Some (VStruct "DistinctUntilChangedObserver" [("observer", VObs); ("last", opt l)])
  | ODistinctUntilKeyChanged k, SOpt l =>
      Some (VStruct "DistinctUntilKeyChangedObserver" [("observer", VObs); ("key", VF1 k); ("last", opt l)])
  | OPairwise, SPair a b => Some (VStruct "PairwiseObserver" [("observer", VObs); ("pair", VTup [opt a; opt b])])
  | OBufferCount n, SQueue data =>
      Some (VStruct "BufferWithCountObserver"
              [("buffer", VStruct "BufferObserver" [("observer", VObs); ("data", seq data)]); ("count", VNat n)])
  | OContains t, SAlive alive => Some (VStruct "ContainsObserver" [("observer", oslot alive); ("target", VItem t)])
  | OCollect, SQueue c => Some (VStruct "CollectObserver" [("observer", VObs); ("collection", seq c)])
  | _, _ => None
  end.

(* the operator value as its constructor function builds it (the source is the upstream token) *)
Definition opval1 (o : op1) : option rv :=
  match o with
  | OMap f => Some (VStruct "MapOp" [("source", VSrc); ("func", VF1 f)])
  | OMapTo c => Some (VStruct "MapToOp" [("source", VSrc); ("value", VItem c)])
  | OFilter p => Some (VStruct "FilterOp" [("source", VSrc); ("filter", VPred p)])
  | OFilterMap f => Some (VStruct "FilterMapOp" [("source", VSrc); ("f", VFOpt f)])
  | OTap => Some (VStruct "TapOp" [("source", VSrc); ("func", VCallback)])
  | OOnErrorMap g => Some (VStruct "OnErrorMapOp" [("source", VSrc); ("func", VFErr g)])
  | OTake n => Some (VStruct "TakeOp" [("source", VSrc); ("count", VNat n)])
  | OSkip n => Some (VStruct "SkipOp" [("source", VSrc); ("count", VNat n)])
  | OTakeWhile p i => Some (VStruct "TakeWhileOp" [("source", VSrc); ("callback", VPred p); ("inclusive", VBool i)])
  | OSkipWhile p => Some (VStruct "SkipWhileOp" [("source", VSrc); ("predicate", VPred p)])
  | OTakeLast n => Some (VStruct "TakeLastOp" [("source", VSrc); ("count", VNat n)])
  | OSkipLast n => Some (VStruct "SkipLastOp" [("source", VSrc); ("count", VNat n)])
  | OLast => Some (VStruct "LastOp" [("source", VSrc); ("last", VOptItem None)])
  | OScan f init => Some (VStruct "ScanOp" [("source", VSrc); ("binary_op", VF2 f); ("initial_value", VItem init)])
  | ODefaultIfEmpty d => Some (VStruct "DefaultIfEmptyOp" [("source", VSrc); ("is_empty", VBool true); ("default_value", VItem d)])
  | ODistinct => Some (VStruct "DistinctOp" [("source", VSrc)])
  | ODistinctKey k => Some (VStruct "DistinctKeyOp" [("source", VSrc); ("key", VF1 k)])
  | ODistinctUntilChanged => Some (VStruct "DistinctUntilChangedOp" [("source", VSrc)])
  | ODistinctUntilKeyChanged k => Some (VStruct "DistinctUntilKeyChangedOp" [("source", VSrc); ("key", VF1 k)])
  | OPairwise => Some (VStruct "PairwiseOp" [("source", VSrc)])
  | OBufferCount n => Some (VStruct "BufferWithCountOp" [("source", VSrc); ("count", VNat n)])
  | OContains t => Some (VStruct "ContainsOp" [("source", VSrc); ("target", VItem t)])
  | OCollect => Some (VStruct "CollectOp" [("source", VSrc); ("collection", VItems [])])
  | OStartWith vs => Some (VStruct "StartWithOp" [("source", VSrc); ("values", VItems vs)])
  end.

(* what a method call of the translated source does: struct afterwards and events *)
Definition src_call (P : prog) (o : op1) (m : string) (self : rv) (args : list rv) : option (rv * list ev) :=
  let '(file, oty, _) := src1 o in
  match call_method P file FUEL oty m self args with
  | Some (self', out, _) => Some (self', out)
  | None => None
  end.

(* the observer handed to the source by actual_subscribe, and what is pushed into the downstream before that *)
Definition src_subscribe (P : prog) (o : op1) : option (rv * list ev) :=
  let '(file, _, opty) := src1 o in
  match opval1 o with
  | Some opv =>
      match call_method P file FUEL opty "actual_subscribe" opv [VObs] with
      | Some (_, out, res) => Some (res, out)
      | None => None
      end
  | None => None
  end.

(* the method and its arguments for a notification *)
Definition arg_of (e : ev) : string * list rv :=
  match e with
  | Next v => ("next", [VItem v])
  | Err x => ("error", [VErrv x])
  | Done => ("complete", [])
  end.

(* what holds of every state the machine reaches (needed where the source has a loop: the evaluator runs
   `while` under a bound, and take_last's queue never holds more than `count` items between two calls) *)
Definition inv1 (o : op1) (st : ost) : Prop :=
  match o, st with
  | OTakeLast n, SQueue q => (length q <= n)%nat
  | _, _ => True
  end.

(* the statements tied by Proofs/BodyTie.v *)
Definition next_agrees (P : prog) (o : op1) : Prop :=
  forall st v self, abs1 o st = Some self -> inv1 o st ->
    match abs1 o (fst (step1 o st (Next v))) with
    | Some self' => src_call P o "next" self [VItem v] = Some (self', snd (step1 o st (Next v)))
    | None => False
    end.

Definition outs (r : option (rv * list ev)) : option (list ev) :=
  match r with Some (_, o) => Some o | None => None end.

(* error(self) and complete(self) consume the observer: only what they send downstream matters *)
Definition terminal_agrees (P : prog) (o : op1) : Prop :=
  forall st self, abs1 o st = Some self -> inv1 o st ->
    outs (src_call P o "complete" self []) = Some (snd (step1 o st Done)) /\
    (forall e, outs (src_call P o "error" self [VErrv e]) = Some (snd (step1 o st (Err e)))).

Definition init_agrees (P : prog) (o : op1) : Prop :=
  match abs1 o (init1 o) with
  | Some self0 => src_subscribe P o = Some (self0, sub1 o)
  | None => src_subscribe P o = Some (VObs, sub1 o)        (* start_with has no observer of its own *)
  end.

(* The translated observer driven by a whole script (error(self) / complete(self) consume it). *)
Fixpoint src_run (P : prog) (o : op1) (self : rv) (s : list ev) : option (list ev) :=
  match s with
  | [] => Some []
  | Next v :: s' =>
      match src_call P o "next" self [VItem v] with
      | Some (self', out) => match src_run P o self' s' with Some rest => Some (out ++ rest) | None => None end
      | None => None
      end
  | Done :: _ => outs (src_call P o "complete" self [])
  | Err e :: _ => outs (src_call P o "error" self [VErrv e])
  end.

(* subscribe through the translated actual_subscribe, then drive the observer it handed to the source *)
Definition src_run_op (P : prog) (o : op1) (s : list ev) : option (list ev) :=
  match src_subscribe P o with
  | Some (VObs, pre) => Some (pre ++ run1 o (init1 o) s)   (* no observer of its own: pass-through *)
  | Some (self0, pre) => match src_run P o self0 s with Some out => Some (pre ++ out) | None => None end
  | None => None
  end.
