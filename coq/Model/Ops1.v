(* Single-input operator observers as state machines.
   Each clause transcribes one Rust `impl Observer for XxxObserver`
   (next / error / complete), field for field.  No proofs in this file. *)
From RxModel Require Export Base.

Inductive op1 :=
| OMap (f : val -> val)                         (* ops/map.rs *)
| OMapTo (c : val)                              (* ops/map_to.rs *)
| OFilter (p : val -> bool)                     (* ops/filter.rs *)
| OFilterMap (f : val -> option val)            (* ops/filter_map.rs *)
| OTap                                          (* ops/tap.rs (callback effect observed by the harness only) *)
| OOnErrorMap (g : Z -> Z)                      (* ops/on_error_map.rs *)
| OTake (n : nat)                               (* ops/take.rs *)
| OSkip (n : nat)                               (* ops/skip.rs *)
| OTakeWhile (p : val -> bool) (inclusive : bool) (* ops/take_while.rs *)
| OSkipWhile (p : val -> bool)                  (* ops/skip_while.rs *)
| OTakeLast (n : nat)                           (* ops/take_last.rs *)
| OSkipLast (n : nat)                           (* ops/skip_last.rs *)
| OLast                                         (* ops/last.rs *)
| OScan (f : val -> val -> val) (init : val)    (* ops/scan.rs *)
| ODefaultIfEmpty (d : val)                     (* ops/default_if_empty.rs *)
| ODistinct                                     (* ops/distinct.rs: DistinctObserver *)
| ODistinctKey (k : val -> val)                 (* DistinctKeyObserver *)
| ODistinctUntilChanged                         (* DistinctUntilChangedObserver *)
| ODistinctUntilKeyChanged (k : val -> val)     (* DistinctUntilKeyChangedObserver *)
| OPairwise                                     (* ops/pairwise.rs *)
| OBufferCount (n : nat)                        (* ops/buffer.rs: BufferWithCountObserver *)
| OContains (target : val)                      (* ops/contains.rs *)
| OCollect                                      (* ops/collect.rs *)
| OStartWith (vs : list val).                   (* ops/start_with.rs: no observer of its own *)

Inductive ost :=
| SUnit
| SCount (alive : bool) (hits : nat)            (* TakeObserver{observer:Option, hits} *)
| SHits (hits : nat)                            (* SkipObserver{hits} *)
| SAlive (alive : bool)                         (* TakeWhileObserver / ContainsObserver {observer:Option} *)
| SFlag (b : bool)                              (* SkipWhile.done_skipping / DefaultIfEmpty.is_empty *)
| SQueue (q : list val)                         (* TakeLast.queue / Distinct.seen / Buffer.data / Collect.collection *)
| SCountQ (count_down : nat) (q : list val)     (* SkipLastObserver *)
| SOpt (o : option val)                         (* LastObserver.last / DistinctUntil*.last *)
| SAcc (a : val)                                (* ScanObserver.acc *)
| SPair (a b : option val).                     (* PairwiseObserver.pair *)

Definition init1 (o : op1) : ost :=
  match o with
  | OTake _ => SCount true 0
  | OSkip _ => SHits 0
  | OTakeWhile _ _ => SAlive true
  | OSkipWhile _ => SFlag false
  | OTakeLast _ => SQueue []
  | OSkipLast n => SCountQ n []
  | OLast => SOpt None
  | OScan _ init => SAcc init
  | ODefaultIfEmpty _ => SFlag true
  | ODistinct | ODistinctKey _ => SQueue []
  | ODistinctUntilChanged | ODistinctUntilKeyChanged _ => SOpt None
  | OPairwise => SPair None None
  | OBufferCount _ => SQueue []
  | OContains _ => SAlive true
  | OCollect => SQueue []
  | _ => SUnit
  end.

(* Items pushed straight into the downstream observer by `actual_subscribe`
   before the source is subscribed (only start_with does this). *)
Definition sub1 (o : op1) : list ev :=
  match o with OStartWith vs => map Next vs | _ => [] end.

(* VecDeque: push_back, then pop_front while len > count *)
Fixpoint trim (n : nat) (q : list val) : list val :=
  if Nat.leb (length q) n then q
  else match q with [] => [] | _ :: q' => trim n q' end.

(* BufferObserver::emit *)
Definition emit_buf (q : list val) : list ev :=
  match q with [] => [] | _ => [Next (VL q)] end.

Definition step1 (o : op1) (st : ost) (e : ev) : ost * list ev :=
  match o with
  | OMap f =>
      (st, match e with Next v => [Next (f v)] | _ => [e] end)
  | OMapTo c =>
      (st, match e with Next _ => [Next c] | _ => [e] end)
  | OFilter p =>
      (st, match e with Next v => if p v then [e] else [] | _ => [e] end)
  | OFilterMap f =>
      (st, match e with
           | Next v => match f v with Some w => [Next w] | None => [] end
           | _ => [e] end)
  | OTap => (st, [e])
  | OOnErrorMap g =>
      (st, match e with Err x => [Err (g x)] | _ => [e] end)
  | OTake n =>
      match st with
      | SCount alive hits =>
          match e with
          | Next v =>
              if Nat.ltb hits n then
                if alive then
                  if Nat.eqb (S hits) n then (SCount false (S hits), [Next v; Done])
                  else (SCount true (S hits), [Next v])
                else (st, [])
              else (st, [])
          | _ => if alive then (SCount false hits, [e]) else (st, [])
          end
      | _ => (st, [])
      end
  | OSkip n =>
      match st with
      | SHits hits =>
          match e with
          | Next v => (SHits (S hits), if Nat.ltb n (S hits) then [e] else [])
          | _ => (st, [e])
          end
      | _ => (st, [])
      end
  | OTakeWhile p inclusive =>
      match st with
      | SAlive alive =>
          if alive then
            match e with
            | Next v =>
                if p v then (st, [e])
                else (SAlive false, (if inclusive then [e] else []) ++ [Done])
            | _ => (SAlive false, [e])
            end
          else (st, [])
      | _ => (st, [])
      end
  | OSkipWhile p =>
      match st with
      | SFlag done_skipping =>
          match e with
          | Next v =>
              if done_skipping then (st, [e])
              else if negb (p v) then (SFlag true, [e]) else (st, [])
          | _ => (st, [e])
          end
      | _ => (st, [])
      end
  | OTakeLast n =>
      match st with
      | SQueue q =>
          match e with
          | Next v => (SQueue (trim n (q ++ [v])), [])
          | Err _ => (st, [e])
          | Done => (SQueue [], map Next q ++ [Done])
          end
      | _ => (st, [])
      end
  | OSkipLast _ =>
      match st with
      | SCountQ cd q =>
          match e with
          | Next v =>
              match cd with
              | O => match q ++ [v] with
                     | x :: q' => (SCountQ O q', [Next x])
                     | [] => (st, [])
                     end
              | S cd' => (SCountQ cd' (q ++ [v]), [])
              end
          | _ => (st, [e])
          end
      | _ => (st, [])
      end
  | OLast =>
      match st with
      | SOpt l =>
          match e with
          | Next v => (SOpt (Some v), [])
          | Err _ => (st, [e])
          | Done => (SOpt None, match l with Some v => [Next v; Done] | None => [Done] end)
          end
      | _ => (st, [])
      end
  | OScan f _ =>
      match st with
      | SAcc a =>
          match e with
          | Next v => let a' := f a v in (SAcc a', [Next a'])
          | _ => (st, [e])
          end
      | _ => (st, [])
      end
  | ODefaultIfEmpty d =>
      match st with
      | SFlag is_empty =>
          match e with
          | Next _ => (SFlag false, [e])
          | Err _ => (st, [e])
          | Done => (st, if is_empty then [Next d; Done] else [Done])
          end
      | _ => (st, [])
      end
  | ODistinct =>
      match st with
      | SQueue seen =>
          match e with
          | Next v => if mem v seen then (st, []) else (SQueue (v :: seen), [e])
          | _ => (st, [e])
          end
      | _ => (st, [])
      end
  | ODistinctKey k =>
      match st with
      | SQueue seen =>
          match e with
          | Next v => if mem (k v) seen then (st, []) else (SQueue (k v :: seen), [e])
          | _ => (st, [e])
          end
      | _ => (st, [])
      end
  | ODistinctUntilChanged =>
      match st with
      | SOpt l =>
          match e with
          | Next v =>
              match l with
              | Some w => if val_eqb w v then (st, []) else (SOpt (Some v), [e])
              | None => (SOpt (Some v), [e])
              end
          | _ => (st, [e])
          end
      | _ => (st, [])
      end
  | ODistinctUntilKeyChanged k =>
      match st with
      | SOpt l =>
          match e with
          | Next v =>
              match l with
              | Some w => if val_eqb (k w) (k v) then (st, []) else (SOpt (Some v), [e])
              | None => (SOpt (Some v), [e])
              end
          | _ => (st, [e])
          end
      | _ => (st, [])
      end
  | OPairwise =>
      match st with
      | SPair _ y =>
          match e with
          | Next v =>
              (SPair y (Some v), match y with Some a => [Next (VP a v)] | None => [] end)
          | _ => (st, [e])
          end
      | _ => (st, [])
      end
  | OBufferCount n =>
      match st with
      | SQueue data =>
          match e with
          | Next v =>
              let data' := data ++ [v] in
              if Nat.leb n (length data') then (SQueue [], emit_buf data')
              else (SQueue data', [])
          | Err _ => (st, [e])
          | Done => (SQueue [], emit_buf data ++ [Done])
          end
      | _ => (st, [])
      end
  | OContains target =>
      match st with
      | SAlive alive =>
          if alive then
            match e with
            | Next v => if val_eqb target v then (SAlive false, [Next (VB true); Done]) else (st, [])
            | Err _ => (SAlive false, [e])
            | Done => (SAlive false, [Next (VB false); Done])
            end
          else (st, [])
      | _ => (st, [])
      end
  | OCollect =>
      match st with
      | SQueue c =>
          match e with
          | Next v => (SQueue (c ++ [v]), [])
          | Err _ => (st, [e])
          | Done => (SQueue [], [Next (VL c); Done])
          end
      | _ => (st, [])
      end
  | OStartWith _ => (st, [e])
  end.

(* is_finished back-channel: answer of this observer given the downstream's answer. *)
Definition fin1 (o : op1) (st : ost) (down : bool) : bool :=
  match o, st with
  | OTake _, SCount alive _ => negb alive || down
  | OTakeWhile _ _, SAlive alive => negb alive || down
  | OContains _, SAlive alive => negb alive || down
  | _, _ => down
  end.

(* One observer value driven by a script.  `error(self)`/`complete(self)` consume the
   observer, so nothing after the first terminal reaches it (move semantics). *)
Fixpoint run1 (o : op1) (st : ost) (s : list ev) : list ev :=
  match s with
  | [] => []
  | e :: s' =>
      let '(st', out) := step1 o st e in
      out ++ (if is_term e then [] else run1 o st' s')
  end.

Definition run_op (o : op1) (s : list ev) : list ev := sub1 o ++ run1 o (init1 o) s.
