(* finalize / finalize_threads (ops/finalize.rs): FinalizerObserver{observer, func: $rc<Option<F>>}
   and FinalizerSubscription{subscription, func}.  The operator sits behind a hot input,
   optionally with a take(n) before or after it.  No proofs here. *)
From RxModel Require Export Base.
Local Open Scope nat_scope.

(* FTakeAfter evict n: `evict` says that the input is a subject, which — before it delivers a
   terminal — drops every observer whose is_finished() answers true (subject.rs, `filter(|o|
   !o.p_is_closed())`); FinalizerObserver::is_finished asks its downstream, here the take. *)
Inductive fshape := FPlain | FTakeBefore (n : nat) | FTakeAfter (evict : bool) (n : nat).

Inductive zstim := ZSrc (e : ev) | ZUnsub.

Inductive zout := ZOut (e : ev) | ZCall.

Record zstate := {
  z_src : bool;          (* the input's Subscriber slot is alive *)
  z_take_alive : bool;   (* TakeObserver.observer is Some *)
  z_take_hits : nat;
  z_func : bool;         (* the callback is still in its cell *)
  z_unsub : bool
}.

(* `connected`: false for an input that never holds the observer (never(): its subscription is `()`,
   closed from the start) or a subject that had terminated before the subscription was made *)
Definition zstate1 (connected : bool) : zstate :=
  {| z_src := connected; z_take_alive := true; z_take_hits := 0; z_func := true; z_unsub := false |}.
Definition zstate0 : zstate := zstate1 true.

(* TakeObserver (ops/take.rs) *)
Definition take_step (n : nat) (s : zstate) (e : ev) : zstate * list ev :=
  match e with
  | Next v =>
      if Nat.ltb (z_take_hits s) n then
        if z_take_alive s then
          let h := S (z_take_hits s) in
          if Nat.eqb h n
          then ({| z_src := z_src s; z_take_alive := false; z_take_hits := h; z_func := z_func s; z_unsub := z_unsub s |}, [Next v; Done])
          else ({| z_src := z_src s; z_take_alive := true; z_take_hits := h; z_func := z_func s; z_unsub := z_unsub s |}, [Next v])
        else (s, [])
      else (s, [])
  | _ => if z_take_alive s
         then ({| z_src := z_src s; z_take_alive := false; z_take_hits := z_take_hits s; z_func := z_func s; z_unsub := z_unsub s |}, [e])
         else (s, [])
  end.

(* FinalizerObserver: forward, and on a terminal run the callback if it is still there *)
Definition fin_step (s : zstate) (e : ev) : zstate * list zout :=
  match e with
  | Next _ => (s, [ZOut e])
  | _ => if z_func s
         then ({| z_src := z_src s; z_take_alive := z_take_alive s; z_take_hits := z_take_hits s; z_func := false; z_unsub := z_unsub s |}, [ZOut e; ZCall])
         else (s, [ZOut e])
  end.

Fixpoint fin_steps (s : zstate) (es : list ev) : zstate * list zout :=
  match es with
  | [] => (s, [])
  | e :: r => let '(s1, o1) := fin_step s e in let '(s2, o2) := fin_steps s1 r in (s2, o1 ++ o2)
  end.

(* what is downstream of finalize filters what the subscriber sees, not the callback *)
Fixpoint after_steps (n : nat) (s : zstate) (os : list zout) : zstate * list zout :=
  match os with
  | [] => (s, [])
  | ZCall :: r => let '(s2, o2) := after_steps n s r in (s2, ZCall :: o2)
  | ZOut e :: r =>
      let '(s1, o1) := take_step n s e in
      let '(s2, o2) := after_steps n s1 r in (s2, map ZOut o1 ++ o2)
  end.

Definition zstep (sh : fshape) (s : zstate) (st : zstim) : zstate * list zout :=
  match st with
  | ZSrc e =>
      if z_src s then
        let s0 := if is_term e
                  then {| z_src := false; z_take_alive := z_take_alive s; z_take_hits := z_take_hits s; z_func := z_func s; z_unsub := z_unsub s |}
                  else s in
        match sh with
        | FPlain => fin_step s0 e
        | FTakeBefore n => let '(s1, es) := take_step n s0 e in fin_steps s1 es
        | FTakeAfter evict n =>
            if evict && is_term e && negb (z_take_alive s0) then (s0, [])    (* dropped unseen: no callback *)
            else let '(s1, os) := fin_step s0 e in after_steps n s1 os
        end
      else (s, [])
  | ZUnsub =>
      (* FinalizerSubscription::unsubscribe: the source's subscription first, then the callback *)
      if z_unsub s then (s, [])
      else
        let s1 := {| z_src := false; z_take_alive := z_take_alive s; z_take_hits := z_take_hits s; z_func := false; z_unsub := true |} in
        (s1, if z_func s then [ZCall] else [])
  end.

Fixpoint zrun (sh : fshape) (s : zstate) (sts : list zstim) : list zout :=
  match sts with
  | [] => []
  | st :: r => let '(s1, o) := zstep sh s st in o ++ zrun sh s1 r
  end.

Definition run_finalize (sh : fshape) (sts : list zstim) : list zout := zrun sh zstate0 sts.

Definition calls (o : list zout) : nat := length (filter (fun x => match x with ZCall => true | _ => false end) o).

(* ---------- the racing form (finalize_threads) at the granularity of the shared cell ----------
   Every thread that reaches a trigger (terminal in FinalizerObserver, unsubscribe in
   FinalizerSubscription) runs `func.rc_deref_mut().take()` and calls what it got; the take
   happens under the Mutex of MutArc, hence is one step.  The observation is, per step, which
   thread (if any) ran the callback. *)
Inductive rstep := RTake (thread : nat) | ROther (thread : nat).

Fixpoint rrun (cell : bool) (sched : list rstep) : list (option nat) :=
  match sched with
  | [] => []
  | RTake t :: r => (if cell then Some t else None) :: rrun false r
  | ROther _ :: r => None :: rrun cell r
  end.

Definition rcalls (o : list (option nat)) : nat := length (filter (fun x => match x with Some _ => true | None => false end) o).

