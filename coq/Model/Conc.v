(* The thread-safe forms at the granularity of mutex acquisitions.  A thread's work is a
   sequence of actions: lock / unlock a mutex (every thread-safe shared cell is an Arc<Mutex<_>>),
   enter / leave a subscriber's callback, deliver an item to it.  A schedule picks which thread
   moves next; a thread whose next action is to lock a mutex somebody holds does not move.
   No proofs here. *)
From RxModel Require Export Base.
Local Open Scope nat_scope.

Inductive act :=
| Acq (l : nat)
| Rel (l : nat)
| Enter (o : nat)          (* subscriber o's callback begins *)
| Leave (o : nat)
| See (o : nat) (v : nat). (* ... and is handed item v *)

Definition prog := list act.

(* a thread: what it still has to do, and the mutexes it holds, most recent first *)
Definition thread := (prog * list nat)%type.
Definition conf := list thread.

Fixpoint memn (x : nat) (l : list nat) : bool := match l with [] => false | y :: r => Nat.eqb x y || memn x r end.

Definition held (c : conf) (l : nat) : bool := existsb (fun th => memn l (snd th)) c.

Definition enabled (c : conf) (t : nat) : bool :=
  match nth_error c t with
  | Some (Acq l :: _, _) => negb (held c l)
  | Some (_ :: _, _) => true
  | _ => false
  end.

Fixpoint upd {A} (l : list A) (i : nat) (x : A) : list A :=
  match l, i with
  | [], _ => []
  | _ :: r, O => x :: r
  | y :: r, S i' => y :: upd r i' x
  end.

Definition stack_after (st : list nat) (a : act) : list nat :=
  match a with
  | Acq l => l :: st
  | Rel l => match st with x :: r => if Nat.eqb x l then r else st | [] => [] end
  | _ => st
  end.

(* one move of thread t (nothing happens when it cannot move); the action performed, if any *)
Definition step (c : conf) (t : nat) : conf * option act :=
  if enabled c t then
    match nth_error c t with
    | Some (a :: p, st) => (upd c t (p, stack_after st a), Some a)
    | _ => (c, None)
    end
  else (c, None).

Fixpoint exec (c : conf) (sched : list nat) : conf * list (nat * act) :=
  match sched with
  | [] => (c, [])
  | t :: r =>
      let '(c1, oa) := step c t in
      let '(c2, tr) := exec c1 r in
      (c2, match oa with Some a => (t, a) :: tr | None => tr end)
  end.

Definition start (ps : list prog) : conf := map (fun p => (p, [])) ps.

Definition finished (c : conf) : bool := forallb (fun th => match fst th with [] => true | _ => false end) c.

(* nobody can move although somebody still has work: a deadlock *)
Definition stuck (c : conf) : bool :=
  negb (finished c) && forallb (fun t => negb (enabled c t)) (seq 0 (length c)).

(* ---------- the discipline the crate follows ----------
   `lock_of o`: the mutex around subscriber o's observer.  A thread locks only mutexes that rank
   above all it holds (ranks are the numbers: upstream before downstream, a subject's observer
   list before its chamber before its subscribers' cells), unlocks in reverse order, runs a
   callback only under its mutex, and ends holding nothing. *)
Fixpoint ok_prog (lock_of : nat -> nat) (st : list nat) (ins : list nat) (p : prog) : bool :=
  match p with
  | [] => match st, ins with [], [] => true | _, _ => false end
  | Acq l :: r => forallb (fun h => Nat.ltb h l) st && ok_prog lock_of (l :: st) ins r
  | Rel l :: r =>
      match st with
      | x :: st' => Nat.eqb x l && negb (existsb (fun o => Nat.eqb (lock_of o) l) ins) && ok_prog lock_of st' ins r
      | [] => false
      end
  | Enter o :: r => memn (lock_of o) st && negb (memn o ins) && ok_prog lock_of st (o :: ins) r
  | Leave o :: r => match ins with x :: ins' => Nat.eqb x o && ok_prog lock_of st ins' r | [] => false end
  | See o _ :: r => memn o ins && ok_prog lock_of st ins r
  end.

Definition disciplined (lock_of : nat -> nat) (ps : list prog) : bool := forallb (ok_prog lock_of [] []) ps.

(* who is inside subscriber o's callback after a trace *)
Fixpoint inside (tr : list (nat * act)) (o : nat) (acc : list nat) : list nat :=
  match tr with
  | [] => acc
  | (t, Enter o') :: r => inside r o (if Nat.eqb o o' then t :: acc else acc)
  | (t, Leave o') :: r => inside r o (if Nat.eqb o o' then filter (fun x => negb (Nat.eqb x t)) acc else acc)
  | _ :: r => inside r o acc
  end.

(* ---------- the crate's operations as programs ---------- *)
(* SubjectThreads with mutexes: observers = base, chamber = base+1, subscriber i's cell = base+2+i.
   `tail i v`: what happens under subscriber i's cell when it is handed v (a probe: its callback;
   an operator: further locks downstream). *)
Definition deliver_to (base : nat) (tail : nat -> nat -> prog) (v : nat) (subs : list nat) : prog :=
  flat_map (fun i => Acq (base + 2 + i) :: tail i v ++ [Rel (base + 2 + i)]) subs.

Definition load_prog (base : nat) : prog := [Acq base; Acq (base + 1); Rel (base + 1); Rel base].

(* Subject::next *)
Definition next_prog (base : nat) (tail : nat -> nat -> prog) (v : nat) (subs : list nat) : prog :=
  load_prog base ++ Acq base :: deliver_to base tail v subs ++ [Rel base].

(* Subject::actual_subscribe: push into the chamber *)
Definition subscribe_prog (base : nat) : prog := [Acq (base + 1); Rel (base + 1)].

(* Subscriber::unsubscribe: empty the cell *)
Definition unsubscribe_prog (base : nat) (i : nat) : prog := [Acq (base + 2 + i); Rel (base + 2 + i)].

(* the final subscriber: its callback *)
Definition probe_tail (o : nat) : nat -> nat -> prog := fun _ v => [Enter o; See o v; Leave o].

(* a subscriber that is a probe itself: callback o = the cell's number *)
Definition probe_cell (base : nat) : nat -> nat -> prog := fun i v => [Enter (base + 2 + i); See (base + 2 + i) v; Leave (base + 2 + i)].

(* two subjects feeding one shared cell (merge_threads, zip_threads, combine_latest_threads,
   take_until_threads, skip_until_threads): input k's single subscriber locks the shared cell
   `shared`, under which the final subscriber's callback runs *)
Definition shared_tail (shared : nat) : nat -> nat -> prog :=
  fun _ v => [Acq shared; Enter shared; See shared v; Leave shared; Rel shared].

Definition acquisitions (p : prog) : list nat := flat_map (fun a => match a with Acq l => [l] | _ => [] end) p.

(* a thread is inside subscriber o's callback when, in what it still has to do, it leaves o
   before it enters it again *)
Fixpoint inside_cb (o : nat) (p : prog) : bool :=
  match p with
  | [] => false
  | Enter o' :: r => if Nat.eqb o o' then false else inside_cb o r
  | Leave o' :: r => if Nat.eqb o o' then true else inside_cb o r
  | _ :: r => inside_cb o r
  end.

(* ---------- task cancellation against a running poll (scheduler.rs) ----------
   Remote::poll: lock the handle; if !keep_running return; poll the task (its body runs); store
   the result; unlock.   TaskHandle::unsubscribe: lock the handle; keep_running = false; take the
   value; unlock.  `hold = false` is the variant that lets go of the lock while the body runs. *)
Inductive kstep :=
| ELock | ECheck | EUnlockEarly | EBody | ERelock | EStore | EUnlock      (* the executor's poll *)
| ULock | USet | UUnlock.                                                 (* the user's unsubscribe *)

Record kst := {
  k_owner : option bool;     (* who holds the handle's mutex: true = executor *)
  k_keep : bool;
  k_go : bool;               (* the executor saw keep_running = true *)
  k_body_runs : nat;         (* how often the body has run *)
  k_unsub_returned : bool;
  k_bad : bool;              (* a step that could not happen (a lock taken while held) or the body ran after unsubscribe returned *)
}.

Definition kst0 : kst := {| k_owner := None; k_keep := true; k_go := false; k_body_runs := 0; k_unsub_returned := false; k_bad := false |}.

Definition kbad (s : kst) : kst :=
  {| k_owner := k_owner s; k_keep := k_keep s; k_go := k_go s; k_body_runs := k_body_runs s; k_unsub_returned := k_unsub_returned s; k_bad := true |}.

Definition kstep_ (s : kst) (x : kstep) : kst :=
  match x with
  | ELock | ERelock => match k_owner s with
             | None => {| k_owner := Some true; k_keep := k_keep s; k_go := k_go s; k_body_runs := k_body_runs s; k_unsub_returned := k_unsub_returned s; k_bad := k_bad s |}
             | Some _ => kbad s end
  | ECheck => {| k_owner := k_owner s; k_keep := k_keep s; k_go := k_keep s; k_body_runs := k_body_runs s; k_unsub_returned := k_unsub_returned s; k_bad := k_bad s |}
  | EBody => if k_go s
             then {| k_owner := k_owner s; k_keep := k_keep s; k_go := true; k_body_runs := S (k_body_runs s); k_unsub_returned := k_unsub_returned s;
                     k_bad := k_bad s || k_unsub_returned s |}
             else s
  | EStore => s
  | EUnlock | EUnlockEarly => {| k_owner := None; k_keep := k_keep s; k_go := k_go s; k_body_runs := k_body_runs s; k_unsub_returned := k_unsub_returned s; k_bad := k_bad s |}
  | ULock => match k_owner s with
             | None => {| k_owner := Some false; k_keep := k_keep s; k_go := k_go s; k_body_runs := k_body_runs s; k_unsub_returned := k_unsub_returned s; k_bad := k_bad s |}
             | Some _ => kbad s end
  | USet => {| k_owner := k_owner s; k_keep := false; k_go := k_go s; k_body_runs := k_body_runs s; k_unsub_returned := k_unsub_returned s; k_bad := k_bad s |}
  | UUnlock => {| k_owner := None; k_keep := k_keep s; k_go := k_go s; k_body_runs := k_body_runs s; k_unsub_returned := true; k_bad := k_bad s |}
  end.

Definition executor (hold : bool) : list kstep :=
  if hold then [ELock; ECheck; EBody; EStore; EUnlock] else [ELock; ECheck; EUnlockEarly; EBody; ERelock; EStore; EUnlock].
Definition canceller : list kstep := [ULock; USet; UUnlock].

(* a schedule in which a mutex is taken while held is not an execution *)
Fixpoint kvalid (s : kst) (xs : list kstep) : bool :=
  match xs with
  | [] => true
  | x :: r =>
      match x, k_owner s with
      | (ELock | ERelock | ULock), Some _ => false
      | _, _ => kvalid (kstep_ s x) r
      end
  end.

Definition krun (xs : list kstep) : kst := fold_left kstep_ xs kst0.

(* Subject::complete / error: load, take the observer list, and for each subscriber ask
   is_finished (and is_closed) under its cell before the terminal is delivered under it;
   a subscriber whose cell is already empty answers finished at the first look *)
Definition complete_prog (base : nat) (subs : list (nat * bool)) : prog :=
  load_prog base ++ Acq base ::
  flat_map (fun x : nat * bool => let c := base + 2 + fst x in
                     if snd x then [Acq c; Rel c]
                     else [Acq c; Rel c; Acq c; Rel c; Acq c; Enter c; Leave c; Rel c]) subs
  ++ [Rel base].
