(* A chain of single-input operators between one source and the final observer,
   executed event by event the way nested `next`/`error`/`complete` calls run. *)
From RxModel Require Export Ops1.

(* One subscribed operator: description, observer state, and whether the observer
   value still exists (a terminal call moves it). *)
Record node := { n_op : op1; n_st : ost; n_live : bool }.

Definition node_init (o : op1) : node := {| n_op := o; n_st := init1 o; n_live := true |}.

(* Deliver a batch of events to one node, in order. *)
Fixpoint feed (nd : node) (evs : list ev) : node * list ev :=
  match evs with
  | [] => (nd, [])
  | e :: r =>
      if n_live nd then
        let '(st', out) := step1 (n_op nd) (n_st nd) e in
        let nd' := {| n_op := n_op nd; n_st := st'; n_live := negb (is_term e) |} in
        let '(nd'', out') := feed nd' r in
        (nd'', out ++ out')
      else (nd, [])
  end.

(* Nodes are listed source-side first.  Deliver a batch to the first node, its
   outputs to the second, and so on; what leaves the last node reaches the subscriber. *)
Fixpoint push (ch : list node) (evs : list ev) : list node * list ev :=
  match ch with
  | [] => ([], evs)
  | nd :: rest =>
      let '(nd', out) := feed nd evs in
      let '(rest', out') := push rest out in
      (nd' :: rest', out')
  end.

(* Subscribe a chain (source-side first).  start_with items of operator i pass through
   operators i+1.. only (they are pushed into the observer downstream of i). *)
Fixpoint subscribe_chain (os : list op1) : list node * list ev :=
  match os with
  | [] => ([], [])
  | o :: rest =>
      let '(rest', out_rest) := subscribe_chain rest in
      (* rest subscribed first (they are nearer the subscriber): their start_with items first *)
      let '(rest'', out_o) := push rest' (sub1 o) in
      (node_init o :: rest'', out_rest ++ out_o)
  end.

(* A cold source emits its whole script during subscription; a hot one later, one
   stimulus at a time. *)
Definition run_cold (os : list op1) (s : list ev) : list ev :=
  let '(ch, pre) := subscribe_chain os in
  let '(_, out) := push ch s in
  pre ++ out.

Fixpoint drive (ch : list node) (s : list ev) : list ev :=
  match s with
  | [] => []
  | e :: r => let '(ch', out) := push ch [e] in out ++ drive ch' r
  end.

Definition run_hot (os : list op1) (s : list ev) : list ev :=
  let '(ch, pre) := subscribe_chain os in
  pre ++ drive ch s.

(* The subscriber slot behind which a hot source (Subject + Subscriber, or the
   Subscriber handed to `create`) delivers: everything up to and including the first
   terminal. *)
Fixpoint slot (s : list ev) : list ev :=
  match s with
  | [] => []
  | e :: r => e :: (if is_term e then [] else slot r)
  end.
