(* merge_all(n) / concat_all / flatten / flat_map / concat_map  (ops/merge_all.rs).
   One shared cell `Option<ObserverData{observer, subscribe_tasks, outside_completed,
   subscribed, concurrent}>`; OutsideObserver feeds it with inner observables,
   InnerObserver with the items of the subscribed inner observables.  No proofs here. *)
From RxModel Require Export Base.

(* An inner observable: synchronous (emits its script during actual_subscribe) or hot
   (a Subject driven later). *)
Inductive iobs :=
| ICold (s : list ev)
| IHot (id : nat).

Inductive oev := ONext (i : iobs) | OErr (e : Z) | ODone.

Inductive fstim :=
| FOuter (e : oev)               (* a notification of the outer stream *)
| FInner (id : nat) (e : ev)     (* a notification of hot inner subject `id` *)
| FUnsub.                        (* unsubscribe() on the MultiSubscription returned by the operator *)

Inductive fout :=
| FItem (k : nat) (v : val)      (* item of the k-th inner observable delivered downstream *)
| FTerm (e : ev)                 (* terminal delivered downstream *)
| FSubscribed (k : nat)          (* k-th inner observable subscribed *)
| FInnerDone (k : nat)           (* k-th inner observable completed (its slot is released or handed over) *)
| FStuck                         (* model ran out of fuel: excluded by theorem no_stuck *)
| FMark (j : nat).               (* observation aid: the j-th stimulus starts here *)

Record fstate := {
  f_alive : bool;                      (* the cell holds Some(ObserverData) *)
  f_queue : list (nat * iobs);        (* subscribe_tasks, oldest first, with their arrival index *)
  f_outside_completed : bool;
  f_subscribed : nat;
  f_active : list (nat * nat);         (* (subject id, arrival index) of subscribed hot inners, in subscription order *)
  f_hot_done : list nat;               (* hot subjects that have terminated *)
  f_next : nat                         (* arrival index of the next inner observable *)
}.

Definition fstate0 : fstate :=
  {| f_alive := true; f_queue := []; f_outside_completed := false; f_subscribed := 0;
     f_active := []; f_hot_done := []; f_next := 0 |}.

Definition upd_alive s b := {| f_alive := b; f_queue := f_queue s; f_outside_completed := f_outside_completed s;
  f_subscribed := f_subscribed s; f_active := f_active s; f_hot_done := f_hot_done s; f_next := f_next s |}.
Definition upd_queue s q := {| f_alive := f_alive s; f_queue := q; f_outside_completed := f_outside_completed s;
  f_subscribed := f_subscribed s; f_active := f_active s; f_hot_done := f_hot_done s; f_next := f_next s |}.
Definition upd_subscribed s n := {| f_alive := f_alive s; f_queue := f_queue s; f_outside_completed := f_outside_completed s;
  f_subscribed := n; f_active := f_active s; f_hot_done := f_hot_done s; f_next := f_next s |}.
Definition upd_active s a := {| f_alive := f_alive s; f_queue := f_queue s; f_outside_completed := f_outside_completed s;
  f_subscribed := f_subscribed s; f_active := a; f_hot_done := f_hot_done s; f_next := f_next s |}.
Definition upd_outside s := {| f_alive := f_alive s; f_queue := f_queue s; f_outside_completed := true;
  f_subscribed := f_subscribed s; f_active := f_active s; f_hot_done := f_hot_done s; f_next := f_next s |}.
Definition upd_hot_done s l := {| f_alive := f_alive s; f_queue := f_queue s; f_outside_completed := f_outside_completed s;
  f_subscribed := f_subscribed s; f_active := f_active s; f_hot_done := l; f_next := f_next s |}.
Definition upd_next s := {| f_alive := f_alive s; f_queue := f_queue s; f_outside_completed := f_outside_completed s;
  f_subscribed := f_subscribed s; f_active := f_active s; f_hot_done := f_hot_done s; f_next := S (f_next s) |}.

(* the concurrency limit: None is usize::MAX *)
Definition below_limit (n : option nat) (k : nat) : bool :=
  match n with None => true | Some m => Nat.ltb k m end.

(* InnerObserver::next / error *)
Definition inner_next (s : fstate) (k : nat) (v : val) : fstate * list fout :=
  (s, if f_alive s then [FItem k v] else []).
Definition inner_error (s : fstate) (e : Z) : fstate * list fout :=
  if f_alive s then (upd_alive s false, [FTerm (Err e)]) else (s, []).

(* InnerObserver::complete when no task is queued *)
Definition release_slot (s : fstate) (k : nat) : fstate * list fout :=
  let s' := upd_subscribed s (pred (f_subscribed s)) in
  if Nat.eqb (f_subscribed s') 0 && f_outside_completed s'
  then (upd_alive s' false, [FInnerDone k; FTerm Done])
  else (s', [FInnerDone k]).

(* InnerObserver::complete: hand the slot to the oldest queued observable, or release it *)
Definition done_with (starter : fstate -> nat -> iobs -> fstate * list fout) (s : fstate) (k : nat)
  : fstate * list fout :=
  if f_alive s then
    match f_queue s with
    | (k', i') :: q => let '(s1, o1) := starter (upd_queue s q) k' i' in (s1, FInnerDone k :: o1)
    | [] => release_slot s k
    end
  else (s, []).

(* a synchronous inner observable pushes its script into its InnerObserver; the observer is
   moved by the first terminal *)
Fixpoint cold_go (on_done : fstate -> fstate * list fout) (k : nat) (s : fstate) (sc : list ev)
  : fstate * list fout :=
  match sc with
  | [] => (s, [])
  | Next v :: r =>
      let '(s1, o1) := inner_next s k v in
      let '(s2, o2) := cold_go on_done k s1 r in (s2, o1 ++ o2)
  | Err e :: _ => inner_error s e
  | Done :: _ => on_done s
  end.

(* Subscribe the k-th inner observable (directly from OutsideObserver::next, or as the queued
   task run by a completing inner observer, which hands its slot over).  A synchronous inner
   observable emits and may complete during its subscription, which may start the next queued
   one, and so on: `fuel` bounds that nesting by the queue length. *)
Fixpoint start (fuel : nat) (s : fstate) (k : nat) (i : iobs) {struct fuel} : fstate * list fout :=
  match fuel with
  | O => (s, [FStuck])
  | S fuel' =>
      match i with
      | IHot id => (upd_active s (f_active s ++ [(id, k)]), [FSubscribed k])
      | ICold script =>
          let '(s', out) := cold_go (fun s0 => done_with (start fuel') s0 k) k s script in
          (s', FSubscribed k :: out)
      end
  end.

(* completion of a subscribed hot inner observable *)
Definition inner_done (s : fstate) (k : nat) : fstate * list fout :=
  done_with (start (S (length (f_queue s)))) s k.

Definition memn (i : nat) (l : list nat) : bool := existsb (Nat.eqb i) l.

(* a notification of hot subject `id` reaches, in subscription order, every inner observer
   subscribed to it; a terminal consumes those observers *)
Fixpoint hot_event (s : fstate) (targets : list nat) (e : ev) : fstate * list fout :=
  match targets with
  | [] => (s, [])
  | k :: r =>
      let '(s1, o1) := match e with
                       | Next v => inner_next s k v
                       | Err x => inner_error s x
                       | Done => inner_done s k
                       end in
      let '(s2, o2) := hot_event s1 r e in (s2, o1 ++ o2)
  end.

Definition fstep (n : option nat) (s : fstate) (st : fstim) : fstate * list fout :=
  match st with
  | FOuter (ONext i) =>
      if f_alive s then
        let k := f_next s in
        let s := upd_next s in
        if below_limit n (f_subscribed s) then
          start (S (length (f_queue s))) (upd_subscribed s (S (f_subscribed s))) k i
        else (upd_queue s (f_queue s ++ [(k, i)]), [])
      else (s, [])
  | FOuter (OErr e) =>
      if f_alive s then (upd_alive s false, [FTerm (Err e)]) else (s, [])
  | FOuter ODone =>
      if f_alive s then
        let s := upd_outside s in
        if Nat.eqb (f_subscribed s) 0 && match f_queue s with [] => true | _ => false end
        then (upd_alive s false, [FTerm Done]) else (s, [])
      else (s, [])
  | FUnsub => (s, [])            (* handled by frun: every input is unsubscribed *)
  | FInner id e =>
      if memn id (f_hot_done s) then (s, [])
      else
        let targets := map snd (filter (fun p => Nat.eqb (fst p) id) (f_active s)) in
        let s := if is_term e
                 then upd_hot_done (upd_active s (filter (fun p => negb (Nat.eqb (fst p) id)) (f_active s))) (id :: f_hot_done s)
                 else s in
        hot_event s targets e
  end.

(* The outer observer is moved by the outer stream's terminal.  Every stimulus is preceded
   by a marker with its index so that traces say which stimulus caused which outputs. *)
Fixpoint frun (n : option nat) (s : fstate) (outer_live : bool) (j : nat) (sts : list fstim) : list fout :=
  match sts with
  | [] => []
  | st :: r =>
      match st with
      | FOuter e =>
          if outer_live then
            let '(s', out) := fstep n s st in
            FMark j :: out ++ frun n s' (match e with ONext _ => true | _ => false end) (S j) r
          else FMark j :: frun n s outer_live (S j) r
      | FInner _ _ =>
          let '(s', out) := fstep n s st in FMark j :: out ++ frun n s' outer_live (S j) r
      | FUnsub =>
          (* the outer subscription and every subscribed inner observable are unsubscribed (their
             Subscriber slots are emptied): nothing reaches the operator any more *)
          FMark j :: map FMark (seq (S j) (length r))
      end
  end.

Definition run_flatten (n : option nat) (sts : list fstim) : list fout := frun n fstate0 true 0 sts.

(* what the downstream subscriber sees *)
Definition downstream (out : list fout) : list ev :=
  flat_map (fun o => match o with FItem _ v => [Next v] | FTerm e => [e] | _ => [] end) out.
