(* C18: one body, two cell types, one thread: the same notifications. *)
From RxModel Require Import Forms.
Local Open Scope nat_scope.

Theorem cells_same_trace : forall p held seen,
  trace_of (run_cells RefCellKind held p seen) = trace_of (run_cells MutexKind held p seen) /\
  finished (run_cells RefCellKind held p seen) = finished (run_cells MutexKind held p seen).
Proof.
  induction p as [|op r IH]; intros held seen; [split; reflexivity|].
  destruct op as [c|c|e]; cbn [run_cells].
  - destruct (memn c held); [split; reflexivity|apply IH].
  - apply IH.
  - apply IH.
Qed.

Theorem cells_agree_when_finished p held seen :
  finished (run_cells RefCellKind held p seen) = true ->
  run_cells RefCellKind held p seen = run_cells MutexKind held p seen.
Proof.
  revert held seen. induction p as [|op r IH]; intros held seen H; [reflexivity|].
  destruct op as [c|c|e]; cbn [run_cells] in *.
  - destruct (memn c held); [discriminate|apply IH, H].
  - apply IH, H.
  - apply IH, H.
Qed.

Theorem failure_modes p held seen :
  (forall t, run_cells RefCellKind held p seen <> Hung t) /\ (forall t, run_cells MutexKind held p seen <> Panicked t).
Proof.
  revert held seen. induction p as [|op r IH]; intros held seen; [split; intros t; discriminate|].
  destruct op as [c|c|e]; cbn [run_cells].
  - destruct (memn c held); [split; intros t; discriminate|apply IH].
  - apply IH.
  - apply IH.
Qed.
