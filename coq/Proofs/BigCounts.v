(* Counts that no script reaches: the cases write `big`, `big1`, `mid` for usize::MAX, usize::MAX - 1 and 2^33 in the
   crate and the model runs them as 5000, 4999 and 4000.  That is sound because, for a script shorter than both, the
   documented list function does not depend on which of two such counts it is given. *)
From RxModel Require Import Ops1.
From RxSpec Require Import Lists Ops1Spec.
From Coq Require Import Lia.

Lemma chunks_never_full n cur l :
  (length cur + length l < n)%nat -> chunks_l n cur l = ([], cur ++ l).
Proof.
  revert cur. induction l as [|x r IH]; intros cur H; cbn [chunks_l].
  - rewrite app_nil_r. reflexivity.
  - cbn [length] in H.
    destruct (Nat.leb_spec n (length (cur ++ [x]))) as [L|L].
    + rewrite app_length in L. cbn [length] in L. lia.
    + rewrite IH; [rewrite <- app_assoc; reflexivity | rewrite app_length; cbn [length]; lia].
Qed.

Theorem count_beyond_the_script (mk1 : nat -> op1) :
  (mk1 = OTake \/ mk1 = OSkip \/ mk1 = OTakeLast \/ mk1 = OSkipLast \/ mk1 = OBufferCount) ->
  forall (n m : nat) (items : list val) (t : term),
    (length items < n)%nat -> (length items < m)%nat -> spec1 (mk1 n) items t = spec1 (mk1 m) items t.
Proof.
  intros Hk n m items t Hn Hm.
  destruct Hk as [-> | [-> | [-> | [-> | ->]]]]; cbn [spec1].
  - destruct n as [|n']; [lia|]. destruct m as [|m']; [lia|].
    destruct (Nat.leb_spec (S n') (length items)); [lia|]. destruct (Nat.leb_spec (S m') (length items)); [lia|]. reflexivity.
  - rewrite !skipn_all2 by lia. reflexivity.
  - unfold lastn. replace (length items - n)%nat with 0%nat by lia. replace (length items - m)%nat with 0%nat by lia. reflexivity.
  - replace (length items - n)%nat with 0%nat by lia. replace (length items - m)%nat with 0%nat by lia. reflexivity.
  - rewrite (chunks_never_full n [] items) by (cbn [length]; lia).
    rewrite (chunks_never_full m [] items) by (cbn [length]; lia). reflexivity.
Qed.
