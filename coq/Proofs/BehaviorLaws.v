From RxModel Require Import Subject.
From RxSpec Require Import SubjectSpec BehaviorSpec.
From RxProofs Require Import SubjectLaws.

Local Open Scope nat_scope.

(* all operations, given the size-query side condition *)
Lemma refines_any s op cl :
  WF s -> (cl = true -> observers s = None) -> size_ok cl [op] = true -> refines s op.
Proof.
  intros W Hcl Hs. destruct op.
  - apply ref_subscribe, W.
  - apply ref_unsub_one, W.
  - apply ref_next, W.
  - apply ref_next_sub_inside, W.
  - apply ref_error, W.
  - apply ref_complete, W.
  - apply ref_queries; [exact W|exact I].
  - apply ref_retain, W.
  - apply ref_unsub_subject, W.
  - cbn in Hs. apply andb_prop in Hs. apply ref_size_closed; [exact W| apply Hcl, Hs | exact I].
  - cbn in Hs. apply andb_prop in Hs. apply ref_size_closed; [exact W| apply Hcl, Hs | exact I].
  - apply ref_queries; [exact W|exact I].
  - apply ref_queries; [exact W|exact I].
  - apply ref_queries; [exact W|exact I].
Qed.

Definition bsize_ok (cl : bool) (h : list bop) : bool := size_ok cl (sops_of h).

Lemma size_ok_app cl a b :
  size_ok cl (a ++ b) = true -> size_ok cl a = true.
Proof.
  revert cl. induction a as [|op r IH]; intros cl H; [reflexivity|].
  destruct op; cbn in *; try (apply IH; exact H).
  - apply andb_prop in H. destruct H as [-> H]. cbn. apply IH. exact H.
  - apply andb_prop in H. destruct H as [-> H]. cbn. apply IH. exact H.
Qed.

(* what size_ok needs to know after one operation *)
Definition cl_after (cl : bool) (op : sop) : bool :=
  match op with OpError _ | OpComplete | OpUnsubSubject => true | _ => cl end.

Lemma size_ok_cons cl op r :
  size_ok cl (op :: r) = true -> size_ok cl [op] = true /\ size_ok (cl_after cl op) r = true.
Proof.
  destruct op; cbn; intros H; try (split; [reflexivity|exact H]).
  - apply andb_prop in H. destruct H as [-> H]. split; [reflexivity|exact H].
  - apply andb_prop in H. destruct H as [-> H]. split; [reflexivity|exact H].
Qed.

Lemma cl_after_sound s op cl :
  (cl = true -> observers s = None) ->
  (cl_after cl op = true -> observers (fst (sstep s op)) = None).
Proof.
  intros Hcl H. destruct op; cbn [cl_after] in H;
    try (apply closed_stays, Hcl, H); apply terminal_closes; exact I.
Qed.

Theorem behavior_refines_from b cl h :
  WF (inner b) -> (cl = true -> observers (inner b) = None) -> bsize_ok cl h = true ->
  brun b h = abrun (absf (inner b), value b) h.
Proof.
  revert b cl. induction h as [|op r IH]; intros b cl W Hcl Hs; [reflexivity|].
  cbn [brun abrun]. unfold bsize_ok in *.
  destruct op as [op'| f |].
  - cbn [sops_of flat_map app] in Hs. apply size_ok_cons in Hs. destruct Hs as [Hs1 Hs2].
    pose proof (refines_any (inner b) op' cl W Hcl Hs1) as [W' E].
    pose proof (cl_after_sound (inner b) op' cl Hcl) as Hcl'.
    destruct op'; cbn [bstep abstep];
      try (rewrite E; destruct (sstep (inner b) _) as [s' out]; cbn [fst snd] in *; f_equal;
           apply (IH {| inner := s'; value := _ |} _ W' Hcl' Hs2)).
    (* subscribe *)
    cbn [sstep] in E, W', Hcl'. cbn [astep] in E |- *.
    destruct (subscribe (inner b)) as [s' id] eqn:Esub. cbn [fst snd] in *.
    assert (Hid : id = next_id (inner b)).
    { unfold subscribe in Esub. destruct (chamber (inner b)); inversion Esub; reflexivity. }
    cbn [astep] in E. rewrite E. cbn [map app]. subst id. cbn [fresh absf]. f_equal. f_equal.
    apply (IH {| inner := s'; value := value b |} _ W' Hcl' Hs2).
  - (* next_by *)
    cbn [sops_of flat_map app] in Hs. apply size_ok_cons in Hs. destruct Hs as [Hs1 Hs2].
    cbn [bstep abstep].
    pose proof (refines_any (inner b) (OpNext (f (value b))) cl W Hcl eq_refl) as [W' E].
    pose proof (cl_after_sound (inner b) (OpNext (f (value b))) cl Hcl) as Hcl'.
    rewrite E. destruct (sstep (inner b) _) as [s' out]. cbn [fst snd] in *. f_equal.
    apply (IH {| inner := s'; value := _ |} _ W' Hcl' Hs2).
  - (* peek *)
    cbn [bstep abstep]. cbn [app]. f_equal. cbn [sops_of flat_map app] in Hs.
    apply (IH b cl W Hcl Hs).
Qed.

Theorem behavior_refines init h :
  bsize_ok false h = true -> brun (bsubj0 init) h = abrun (asub0, init) h.
Proof.
  intros H. change asub0 with (absf (inner (bsubj0 init))).
  apply (behavior_refines_from (bsubj0 init) false h WF0); [discriminate|exact H].
Qed.

(* The value cell is always the most recent value passed to next / next_by. *)
Lemma abstep_value a cur op : snd (fst (abstep (a, cur) op)) = latest cur [op].
Proof.
  destruct op as [op'|f|]; [destruct op'|..]; cbn [abstep latest];
    try (destruct (astep a _) as [a' out]; reflexivity); reflexivity.
Qed.

Fixpoint abfinal (st : asub * val) (h : list bop) : asub * val :=
  match h with
  | [] => st
  | op :: r => abfinal (fst (abstep st op)) r
  end.

(* After any history the stored value is the most recent one passed to next / next_by
   through any handle (or the initial value). *)
Theorem behavior_latest a cur h : snd (abfinal (a, cur) h) = latest cur h.
Proof.
  revert a cur. induction h as [|op r IH]; intros a cur; [reflexivity|].
  cbn [abfinal]. destruct (abstep (a, cur) op) as [[a' cur'] out] eqn:E. cbn [fst].
  rewrite IH. pose proof (abstep_value a cur op) as V. rewrite E in V. cbn [fst snd] in V.
  rewrite V. destruct op as [op'|f|]; [destruct op'|..]; reflexivity.
Qed.

(* ... and it is what a new subscriber is handed first, what peek returns, and what
   next_by applies its function to. *)
Theorem behavior_hands_latest a cur :
  snd (abstep (a, cur) (BSub OpSubscribe)) =
    [BO (Subscribed (fresh a)); BO (Deliver (fresh a) (Next cur))] /\
  snd (abstep (a, cur) BPeek) = [BPeeked cur] /\
  forall f, snd (abstep (a, cur) (BNextBy f)) = snd (abstep (a, cur) (BSub (OpNext (f cur)))).
Proof.
  split; [|split; [reflexivity|]].
  - cbn [abstep astep]. destruct (torn a); [reflexivity|]. destruct (closed a); reflexivity.
  - intros f. cbn [abstep]. destruct (astep a (OpNext (f cur))). reflexivity.
Qed.
