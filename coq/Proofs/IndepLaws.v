(* C13: subscriptions of clones of a cold pipeline are independent. *)
From RxModel Require Import Indep.
From RxProofs Require Import ChainLaws.
Local Open Scope nat_scope.

Definition erase (nd : hnode) : option node :=
  match h_st nd with inl st => Some {| n_op := h_op nd; n_st := st; n_live := h_live nd |} | inr _ => None end.

Definition fresh_node (nd : hnode) : Prop := exists st, h_st nd = inl st.

Definition to_node (nd : hnode) : node :=
  {| n_op := h_op nd; n_st := match h_st nd with inl st => st | inr _ => SUnit end; n_live := h_live nd |}.

Lemma hfeed_fresh h : forall evs nd,
  fresh_node nd ->
  let '(h', nd', out) := hfeed h nd evs in
  h' = h /\ fresh_node nd' /\ (to_node nd', out) = feed (to_node nd) evs.
Proof.
  induction evs as [|e r IH]; intros nd [st Hst]; cbn [hfeed feed].
  - repeat split. exists st; exact Hst.
  - assert (Eo : n_op (to_node nd) = h_op nd) by reflexivity.
    assert (Es : n_st (to_node nd) = st) by (unfold to_node; cbn [n_st]; rewrite Hst; reflexivity).
    assert (El' : n_live (to_node nd) = h_live nd) by reflexivity.
    rewrite Eo, Es, El'. destruct (h_live nd) eqn:El.
    + unfold read, write. rewrite Hst.
      destruct (step1 (h_op nd) st e) as [st' out].
      set (nd1 := {| h_op := h_op nd; h_st := inl st'; h_live := negb (is_term e) |}).
      specialize (IH nd1 (ex_intro _ st' eq_refl)).
      destruct (hfeed h nd1 r) as [[h2 nd2] out']. destruct IH as (-> & F & E).
      change {| n_op := h_op nd; n_st := st'; n_live := negb (is_term e) |} with (to_node nd1).
      rewrite <- E. repeat split; assumption.
    + repeat split. exists st; exact Hst.
Qed.

Lemma hpush_fresh h : forall ch evs,
  Forall fresh_node ch ->
  let '(h', ch', out) := hpush h ch evs in
  h' = h /\ Forall fresh_node ch' /\ (map to_node ch', out) = push (map to_node ch) evs.
Proof.
  induction ch as [|nd rest IH]; intros evs F; cbn [hpush push map]; [auto|].
  inversion F as [|? ? Fn Fr]; subst.
  pose proof (hfeed_fresh h evs nd Fn) as H. destruct (hfeed h nd evs) as [[h1 nd'] out]. destruct H as (-> & Fn' & E).
  rewrite <- E. specialize (IH out Fr). destruct (hpush h rest out) as [[h2 rest'] out']. destruct IH as (-> & Fr' & E2).
  rewrite <- E2. repeat split. constructor; assumption.
Qed.

Lemma hsubscribe_fresh h : forall pv,
  all_fresh pv = true ->
  let '(h', ch, pre) := hsubscribe h pv in
  h' = h /\ Forall fresh_node ch /\ (map to_node ch, pre) = subscribe_chain (map fst pv).
Proof.
  induction pv as [|[o hm] rest IH]; intros A; cbn [hsubscribe subscribe_chain map fst]; [auto|].
  cbn in A. destruct hm; [|discriminate]. specialize (IH A).
  destruct (hsubscribe h rest) as [[h1 rest'] out_rest]. destruct IH as (-> & F & E). rewrite <- E.
  pose proof (hpush_fresh h rest' (sub1 o) F) as P. destruct (hpush h rest' (sub1 o)) as [[h2 rest''] out_o].
  destruct P as (-> & F2 & E2). rewrite <- E2. repeat split.
  constructor; [exists (init1 o); reflexivity|exact F2].
Qed.

(* one subscription: the shared heap is not touched, the output is the pure run *)
Theorem sub_run_pure h pv s : all_fresh pv = true -> sub_run h pv s = (h, run_cold (map fst pv) s).
Proof.
  intros A. unfold sub_run, run_cold. pose proof (hsubscribe_fresh h pv A) as S.
  destruct (hsubscribe h pv) as [[h1 ch] pre]. destruct S as (-> & F & E). rewrite <- E.
  pose proof (hpush_fresh h ch s F) as P. destruct (hpush h ch s) as [[h2 ch'] out]. destruct P as (-> & _ & E2).
  rewrite <- E2. reflexivity.
Qed.

(* any number of successive subscriptions of clones see the same *)
Theorem successive_subscriptions_agree pv s : all_fresh pv = true ->
  forall k h, sub_runs h pv s k = repeat (run_cold (map fst pv) s) k.
Proof.
  intros A. induction k as [|k IH]; intros h; [reflexivity|]. cbn [sub_runs repeat].
  rewrite (sub_run_pure h pv s A). rewrite IH. reflexivity.
Qed.

(* a subscription made from inside a callback of another one: both see the same *)
Theorem nested_subscriptions_agree pv s at_ h : all_fresh pv = true ->
  nested_run h pv s at_ = (run_cold (map fst pv) s, run_cold (map fst pv) s).
Proof.
  intros A. unfold nested_run, run_cold. pose proof (hsubscribe_fresh h pv A) as S.
  destruct (hsubscribe h pv) as [[h1 ch] pre]. destruct S as (-> & F & E).
  pose proof (hpush_fresh h ch (firstn at_ s) F) as P1. destruct (hpush h ch (firstn at_ s)) as [[h2 ch2] out_a].
  destruct P1 as (-> & F2 & E1). rewrite (sub_run_pure h pv s A).
  pose proof (hpush_fresh h ch2 (skipn at_ s) F2) as P2. destruct (hpush h ch2 (skipn at_ s)) as [[h3 ch3] out_b].
  destruct P2 as (-> & _ & E2). unfold run_cold. rewrite <- E.
  assert (Hp : push (map to_node ch) s = (map to_node ch3, out_a ++ out_b)).
  { rewrite <- (firstn_skipn at_ s) at 1. rewrite push_app, <- E1, <- E2. reflexivity. }
  rewrite Hp. reflexivity.
Qed.

(* the hypothesis matters: with a counter shared between clones the second subscription differs *)
Theorem shared_state_breaks_independence :
  exists pv s, sub_runs [] pv s 2 <> repeat (run_cold (map fst pv) s) 2.
Proof.
  exists [(OTake 1, HShared 0)], [Next (VZ 1); Next (VZ 2); Done]. vm_compute. discriminate.
Qed.
