(* Ileave.v, C06 (completeness under concurrency): a probe subscribed by the setup script and never
   unsubscribed sees EVERY broadcast that reaches anybody, and -- when all threads have returned and
   nobody terminated the subject -- every `next` of every script has reached it. *)
From RxProofs Require Export IleaveLaws.
Local Open Scope nat_scope.

(* ------------------------------------------------------------------ *)
(* more frame lemmas                                                   *)
(* ------------------------------------------------------------------ *)

Lemma in_tl {A} (x : A) l : In x (tl l) -> In x l.
Proof. destruct l; cbn; auto. Qed.

(* the remaining script of a thread only shrinks (IBNext v becomes INext v) *)
Lemma F_ops_sub s t th s1 th1 o x :
  imove s t th = (s1, th1, o) -> In x (t_ops th1) -> In x (t_ops th) \/ exists v, x = INext v.
Proof.
  destruct th as [pc ops idx]. intros H Hx. imove_cases H.
  all: cbn [tl] in Hx; try (left; exact Hx); try (left; right; exact Hx); try (left; apply in_tl; exact Hx).
  all: try (destruct Hx; fail).
  destruct Hx as [<-|Hx]; [right; eexists; reflexivity|left; right; exact Hx].
Qed.

(* a thread that filters / delivers a terminal has taken the observer list *)
Definition tloc (s : ish) (th : ithread) : Prop :=
  match t_pc th with
  | PFin _ _ | PClosed _ _ | PTake _ _ | PInCbT _ _ _ => s_obs s = None
  | _ => True
  end.

Lemma F_tloc_self s t th s1 th1 o : imove s t th = (s1, th1, o) -> tloc s th -> tloc s1 th1.
Proof.
  destruct th as [pc ops idx]. intros H Hl. imove_cases H.
  all: unfold tloc in *; cbn [t_pc at_pc op_done] in *; auto.
Qed.

Lemma tloc_other s t th s1 th1 o x : imove s t th = (s1, th1, o) -> tloc s x -> tloc s1 x.
Proof.
  intros Hm. unfold tloc. destruct (t_pc x); auto; intros H; eapply F_obs_none; eauto.
Qed.

Lemma F_obs_lose s t th s1 th1 o :
  imove s t th = (s1, th1, o) -> s_obs s <> None -> s_obs s1 = None -> ineed s th = Some (Some LObs).
Proof.
  destruct th as [pc ops idx]. intros H Hs H1. imove_cases H.
  all: unfold ineed; cbn [t_pc t_ops]; try reflexivity.
  all: try (exfalso; apply Hs; exact H1).
  all: try (cbn in H1; discriminate H1).
  all: try (exfalso; apply Hs; unfold subscribe_cell in H1; destruct (s_cham _); exact H1).
  all: congruence.
Qed.

Definition is_pdel (pc : ipc) : bool := match pc with PDeliver _ => true | _ => false end.

(* a broadcast starts with the observer list as it is under LObs *)
Lemma F_enter s t th s1 th1 o :
  imove s t th = (s1, th1, o) -> deliv (t_pc th1) = true -> deliv (t_pc th) = false ->
  is_pdel (t_pc th) = true /\ s_obs s = Some (pending (t_pc th1)).
Proof.
  destruct th as [pc ops idx]. intros H H1 H0. imove_cases H.
  all: cbn [deliv] in *; try discriminate.
  all: cbn [is_pdel pending]; split; [reflexivity|]; first [assumption|reflexivity|congruence].
Qed.

Lemma F_dobs_self s t th s1 th1 o :
  imove s t th = (s1, th1, o) -> (deliv (t_pc th) = true -> s_obs s <> None) ->
  deliv (t_pc th1) = true -> s_obs s1 <> None.
Proof.
  destruct th as [pc ops idx]. intros H H0 H1. imove_cases H.
  all: cbn [deliv] in *; try discriminate.
  all: cbn [s_obs set_busy leave_cb]; try (apply H0; reflexivity); try congruence.
Qed.

(* what the callback of a broadcast is followed by *)
Lemma F_cb_next s t th s1 th1 o v k0 rest :
  imove s t th = (s1, th1, o) -> t_pc th = PInCb v k0 rest ->
  pending (t_pc th1) = rest /\ (deliv (t_pc th1) = true -> t_idx th1 = t_idx th) /\
  (rest <> [] -> deliv (t_pc th1) = true).
Proof.
  destruct th as [pc ops idx]. cbn [t_pc]. intros H ->.
  unfold imove in H. cbn [t_pc t_ops t_idx] in H. inversion H; subst; clear H.
  destruct rest as [|k1 rest']; cbn; repeat split; auto; try discriminate; try (intros Hn; exfalso; apply Hn; reflexivity).
Qed.

Section FullTime.
Variable k : nat.     (* the full-time probe *)

(* its cell dies only by unsubscribe() or when a terminal is delivered to it *)
Lemma F_killk s t th s1 th1 o :
  imove s t th = (s1, th1, o) -> cell_alive s k = true -> cell_alive s1 k = false ->
  (t_pc th = PIdle /\ exists r, t_ops th = IUnsub k :: r) \/ (exists e rest, t_pc th = PTake e (k :: rest)).
Proof.
  destruct th as [pc ops idx]. intros H Ha Hd. imove_cases H.
  all: autorewrite with il in Hd; try congruence.
  all: try (rewrite Ha in Hd; cbn in Hd; rewrite ?orb_true_l in Hd; try discriminate).
  all: rewrite ?andb_true_r in Hd; bsimp.
  all: first [ left; split; [reflexivity|eexists; reflexivity] | right; eexists; eexists; reflexivity ].
Qed.

(* while the observer list exists, the probe is in it or in the chamber, and its cell is alive *)
Definition KIn (s : ish) : Prop :=
  forall o, s_obs s = Some o -> In k (o ++ olist (s_cham s)) /\ cell_alive s k = true.

Lemma mem_sub s k0 ob ob1 :
  s_obs s = Some ob -> s_obs (subscribe_cell s k0) = Some ob1 ->
  In k (ob ++ olist (s_cham s)) -> In k (ob1 ++ olist (s_cham (subscribe_cell s k0))).
Proof.
  unfold subscribe_cell. destruct (s_cham s) as [c|] eqn:Ec; cbn; rewrite ?Ec; cbn; intros Ho Ho1 Hin;
    assert (ob1 = ob) by congruence; subst ob1; auto.
  rewrite app_assoc. apply in_or_app. left. exact Hin.
Qed.

Lemma F_mem s t th s1 th1 o ob ob1 :
  imove s t th = (s1, th1, o) -> local s th -> s_obs s = Some ob -> s_obs s1 = Some ob1 ->
  In k (ob ++ olist (s_cham s)) -> In k (ob1 ++ olist (s_cham s1)).
Proof.
  destruct th as [pc ops idx]. intros H Hl Ho Ho1 Hin. imove_cases H.
  all: unfold local in Hl; cbn [t_pc] in Hl.
  all: try (cbn [s_obs s_cham set_busy set_cells set_val set_obs set_cham kill_cell] in *; congruence).
  all: try (cbn [s_obs s_cham set_busy set_cells set_val set_obs set_cham kill_cell] in *;
            assert (ob1 = ob) by congruence; subst ob1; exact Hin).
  - eapply mem_sub; eauto.
  - cbn [s_obs s_cham set_obs set_cham olist] in *. rewrite app_nil_r.
    inversion Ho; subst. inversion Ho1; subst. exact Hin.
  - eapply mem_sub; eauto.
Qed.

Lemma F_KIn s t th s1 th1 o :
  imove s t th = (s1, th1, o) -> local s th -> tloc s th -> ~ In (IUnsub k) (t_ops th) ->
  KIn s -> KIn s1.
Proof.
  intros Hm Hl Ht Hu HK o1 Ho1. destruct (s_obs s) as [ob|] eqn:Eo.
  2:{ rewrite (F_obs_none _ _ _ _ _ _ Hm Eo) in Ho1. discriminate. }
  destruct (HK ob Eo) as [Hin Ha]. split.
  - eapply F_mem; eauto.
  - destruct (cell_alive s1 k) eqn:E; [reflexivity|]. exfalso.
    destruct (F_killk _ _ _ _ _ _ Hm Ha E) as [(_ & r & Hr)|(e & rest & Hpc)].
    + apply Hu. rewrite Hr. left. reflexivity.
    + unfold tloc in Ht. rewrite Hpc in Ht. congruence.
Qed.

(* subscribing the probe establishes KIn *)
Lemma F_sub_KIn s t th s1 th1 o :
  imove s t th = (s1, th1, o) -> sub_now th = Some k -> chamP s -> KIn s1.
Proof.
  destruct th as [pc ops idx]. intros H Hs Hc. imove_cases H.
  all: unfold sub_now in Hs; cbn [t_pc t_ops] in Hs; try discriminate; inversion Hs; subst.
  all: intros o1 Ho1; rewrite alive_sub, Nat.eqb_refl; unfold subscribe_cell in *; unfold chamP in Hc;
    destruct (s_cham s) as [c|] eqn:Ec; cbn in *; [|rewrite (Hc eq_refl) in Ho1; discriminate].
  all: split; [apply in_or_app; right; apply in_or_app; right; left; reflexivity|apply orb_true_r].
Qed.

(* the probe is in the observer list itself *)
Definition ObsK (s : ish) : Prop := forall o, s_obs s = Some o -> In k o.

Lemma F_ObsK s t th s1 th1 o : imove s t th = (s1, th1, o) -> ObsK s -> ObsK s1.
Proof.
  destruct th as [pc ops idx]. intros H HK. imove_cases H.
  all: try exact HK.
  all: unfold ObsK in *; cbn [s_obs s_cham set_busy set_cells set_val set_obs set_cham kill_cell]; try discriminate.
  all: try (unfold subscribe_cell; destruct (s_cham s); exact HK).
  intros o1 Ho1. inversion Ho1; subst. apply in_or_app. left. apply HK. assumption.
Qed.

(* a thread that is about to take the snapshot for a delivery has loaded the chamber *)
Lemma F_pdel s t th s1 th1 o :
  imove s t th = (s1, th1, o) -> KIn s -> (is_pdel (t_pc th) = true -> ObsK s) ->
  is_pdel (t_pc th1) = true -> ObsK s1.
Proof.
  destruct th as [pc ops idx]. intros H HK H0 H1. imove_cases H.
  all: cbn [is_pdel] in *; try discriminate.
  all: unfold ObsK; cbn [s_obs s_cham set_busy set_cells set_val set_obs set_cham kill_cell].
  all: try (intros o1 Ho1; congruence).
  intros o1 Ho1. inversion Ho1; subst.
  match goal with Eo : s_obs s = Some ?a, Ec : s_cham s = Some ?c |- _ =>
    destruct (HK _ Eo) as [Hin _]; rewrite Ec in Hin; exact Hin end.
Qed.

(* a delivery that still has the probe in front of it keeps it there until it is served *)
Lemma F_keepk s t th s1 th1 o v rest :
  imove s t th = (s1, th1, o) -> t_pc th = PCell v rest -> In k rest -> cell_alive s k = true ->
  deliv (t_pc th1) = true /\ In k (pending (t_pc th1)) /\ t_idx th1 = t_idx th.
Proof.
  destruct th as [pc ops idx]. cbn [t_pc]. intros H -> Hin Ha.
  destruct rest as [|k0 rest]; [destruct Hin|].
  unfold imove in H. cbn [t_pc t_ops t_idx] in H. destruct (cell_alive s k0) eqn:E.
  - unfold enter_cb in H. inversion H; subst; clear H. cbn. auto.
  - destruct Hin as [->|Hin]; [congruence|]. destruct rest as [|k1 rest]; [destruct Hin|].
    inversion H; subst; clear H. cbn. auto.
Qed.

End FullTime.

(* ------------------------------------------------------------------ *)
(* the invariant of the shared state, for a full-time probe k          *)
(* ------------------------------------------------------------------ *)

Section Complete.
Variable k : nat.

Record SInv (s : ish) (ths : list ithread) : Prop := {
  si_kin : KIn k s;
  si_tloc : forall i th, nth_error ths i = Some th -> tloc s th;
  si_noun : forall i th, nth_error ths i = Some th -> ~ In (IUnsub k) (t_ops th);
  si_pdel : forall i th, nth_error ths i = Some th -> is_pdel (t_pc th) = true -> ObsK k s;
  si_dobs : forall i th, nth_error ths i = Some th -> deliv (t_pc th) = true -> s_obs s <> None
}.

Lemma SInv_step s ths t t' th s1 th1 o :
  Core s ths -> SInv s ths -> ienabled s ths t = true -> nth_error ths t = Some th ->
  imove s t' th = (s1, th1, o) -> SInv s1 (set_th ths t th1).
Proof.
  intros HC [Hkin Htl Hnu Hpd Hdo] He Ht Hm. constructor.
  - eapply F_KIn; eauto. eapply c_local; eauto.
  - intros i x Hi. destruct (nth_set_th_inv _ _ _ _ _ _ Ht Hi) as [[-> ->]|[Hni Hi']].
    + eapply F_tloc_self; eauto.
    + eapply tloc_other; eauto.
  - intros i x Hi Hin. destruct (nth_set_th_inv _ _ _ _ _ _ Ht Hi) as [[-> ->]|[Hni Hi']].
    + destruct (F_ops_sub _ _ _ _ _ _ _ Hm Hin) as [H|(v & H)]; [|discriminate]. eapply Hnu; eauto.
    + eapply Hnu; eauto.
  - intros i x Hi Hp. destruct (nth_set_th_inv _ _ _ _ _ _ Ht Hi) as [[-> ->]|[Hni Hi']].
    + eapply F_pdel; eauto.
    + eapply F_ObsK; eauto.
  - intros i x Hi Hd. destruct (nth_set_th_inv _ _ _ _ _ _ Ht Hi) as [[-> ->]|[Hni Hi']].
    + eapply F_dobs_self; eauto.
    + intros H1. pose proof (F_obs_lose _ _ _ _ _ _ Hm (Hdo _ _ Hi' Hd) H1) as Hn.
      pose proof (enabled_free _ _ _ _ _ _ _ He Ht Hn Hi') as Hf.
      rewrite (deliv_holds _ Hd) in Hf. discriminate.
Qed.

Lemma SInv_alive s ths i th :
  SInv s ths -> nth_error ths i = Some th -> deliv (t_pc th) = true -> cell_alive s k = true.
Proof.
  intros HS Hi Hd. pose proof (si_dobs _ _ HS _ _ Hi Hd) as Hn.
  destruct (s_obs s) as [ob|] eqn:Eo; [|congruence]. apply (si_kin _ _ HS ob Eo).
Qed.

(* ------------------------------------------------------------------ *)
(* what the probe has seen, against the global order                   *)
(* ------------------------------------------------------------------ *)

Variable scripts : list (list iop).

(* every broadcast in progress has the probe still in front of it, or has served it *)
Definition D1 (L : list bent) (ths : list ithread) : Prop :=
  forall t th, nth_error ths t = Some th -> deliv (t_pc th) = true ->
               In k (pending (t_pc th)) \/ In (t, t_idx th) (bidsL L k).

(* the probe has seen the whole order -- or all of it but the broadcast in progress, which has
   reached somebody else and has the probe still in front of it *)
Definition P2 (L : list bent) (ths : list ithread) : Prop :=
  bidsL L k = ordL L \/
  exists t th, nth_error ths t = Some th /\ deliv (t_pc th) = true /\ In k (pending (t_pc th)) /\
               ordL L = bidsL L k ++ [(t, t_idx th)].

Lemma deliv_cases pc : deliv pc = true -> (exists v rest, pc = PCell v rest) \/ (exists v k0 rest, pc = PInCb v k0 rest).
Proof. destruct pc; cbn; try discriminate; eauto. Qed.

Lemma L_silent L s ths t th s1 th1 o :
  Core s ths -> SInv s ths -> D1 L ths -> P2 L ths ->
  nth_error ths t = Some th -> imove s t th = (s1, th1, o) ->
  (forall v k0 rest, t_pc th <> PInCb v k0 rest) ->
  D1 L (set_th ths t th1) /\ P2 L (set_th ths t th1).
Proof.
  intros HC HS HD HP Ht Hm Hnc.
  assert (Hkeep : deliv (t_pc th) = true -> In k (pending (t_pc th)) ->
                  deliv (t_pc th1) = true /\ In k (pending (t_pc th1)) /\ t_idx th1 = t_idx th).
  { intros Hd Hin. destruct (deliv_cases _ Hd) as [(v & rest & Hpc)|(v & k0 & rest & Hpc)].
    - rewrite Hpc in Hin. cbn in Hin. eapply F_keepk; eauto. eapply SInv_alive; eauto.
    - exfalso. eapply Hnc; eauto. }
  split.
  - intros i x Hi Hd. destruct (nth_set_th_inv _ _ _ _ _ _ Ht Hi) as [[-> ->]|[Hni Hi']]; [|eauto].
    destruct (deliv (t_pc th)) eqn:Edt.
    + destruct (HD _ _ Ht Edt) as [Hin|Hin].
      * left. apply Hkeep; auto.
      * right. destruct (F_deliv _ _ _ _ _ _ Hm) as [[_ Hp]|[Hidx _]].
        -- rewrite Hp in Hd. discriminate.
        -- rewrite Hidx. exact Hin.
    + left. destruct (F_enter _ _ _ _ _ _ Hm Hd Edt) as [Hp Ho].
      eapply (si_pdel _ _ HS); eauto.
  - destruct HP as [HP|(t' & th' & Ht' & Hd' & Hin' & Ho')]; [left; exact HP|]. right.
    destruct (Nat.eq_dec t' t) as [->|Hne].
    + assert (th' = th) by congruence. subst th'. destruct (Hkeep Hd' Hin') as (H1 & H2 & H3).
      exists t, th1. rewrite H3. repeat split; auto. eapply nth_set_th_same; eauto.
    + exists t', th'. repeat split; auto. rewrite nth_set_th_other; auto.
Qed.

Lemma memb_ordL L b : memb b (map snd L) = true <-> In b (ordL L).
Proof. rewrite memb_In, ordL_in. tauto. Qed.

Lemma L_bcast L s ths t th s1 th1 o v k0 rest :
  Core s ths -> CO L ths -> D1 L ths -> P2 L ths ->
  nth_error ths t = Some th -> imove s t th = (s1, th1, o) ->
  t_pc th = PInCb v k0 rest ->
  D1 (L ++ [(k0, v, (t, t_idx th))]) (set_th ths t th1) /\
  P2 (L ++ [(k0, v, (t, t_idx th))]) (set_th ths t th1).
Proof.
  intros HC [_ HCO] HD HP Ht Hm Hpc.
  destruct (HCO _ _ Ht) as (_ & C2 & C3). rewrite Hpc in C3. cbn [pending] in C3.
  destruct (F_cb_next _ _ _ _ _ _ _ _ _ Hm Hpc) as (Hpend & Hidx & Hrest).
  assert (Hdl : deliv (t_pc th) = true) by (rewrite Hpc; reflexivity).
  remember (t, t_idx th) as b eqn:Eb.
  (* the thread that broadcasts is the only one *)
  assert (Honly : forall i x, nth_error ths i = Some x -> deliv (t_pc x) = true -> i = t).
  { intros i x Hi Hd. eapply (c_mutex _ _ HC i t x th LObs); eauto using deliv_holds. }
  (* the broadcast in progress of P2 is this one *)
  assert (HP' : bidsL L k = ordL L \/ (In k (k0 :: rest) /\ ordL L = bidsL L k ++ [b])).
  { destruct HP as [HP|(t' & th' & Ht' & Hd' & Hin' & Ho')]; [left; exact HP|]. right.
    assert (t' = t) by (eapply Honly; eauto). subst t'. assert (th' = th) by congruence. subst th'.
    rewrite Hpc in Hin'. cbn [pending] in Hin'. rewrite Eb. auto. }
  (* D1 for the other threads: there is none *)
  assert (HD1 : (deliv (t_pc th1) = true -> In k (pending (t_pc th1)) \/
                                           In (t, t_idx th1) (bidsL (L ++ [(k0, v, b)]) k)) ->
                D1 (L ++ [(k0, v, b)]) (set_th ths t th1)).
  { intros H i x Hi Hd. destruct (nth_set_th_inv _ _ _ _ _ _ Ht Hi) as [[-> ->]|[Hni Hi']]; [auto|].
    exfalso. apply Hni. eapply Honly; eauto. }
  assert (Hord : ordL (L ++ [(k0, v, b)]) = ordL L ++ (if memb b (map snd L) then [] else [b]))
    by apply ordL_snoc.
  assert (Hbid : bidsL (L ++ [(k0, v, b)]) k = bidsL L k ++ (if Nat.eqb k0 k then [b] else []))
    by apply bidsL_snoc.
  (* the two outcomes *)
  assert (Hserved : In b (bidsL (L ++ [(k0, v, b)]) k) -> bidsL (L ++ [(k0, v, b)]) k = ordL (L ++ [(k0, v, b)]) ->
                    D1 (L ++ [(k0, v, b)]) (set_th ths t th1) /\ P2 (L ++ [(k0, v, b)]) (set_th ths t th1)).
  { intros Hin Heq. split; [|left; exact Heq]. apply HD1. intros Hd. right. rewrite (Hidx Hd), <- Eb. exact Hin. }
  destruct (Nat.eqb k0 k) eqn:Ek.
  - (* the probe itself is served *)
    apply Nat.eqb_eq in Ek. subst k0. apply Hserved.
    + rewrite Hbid. apply in_or_app. right. left. reflexivity.
    + rewrite Hbid, Hord. destruct HP' as [HP'|[_ HP']].
      * destruct (memb b (map snd L)) eqn:Em.
        -- exfalso. apply memb_ordL in Em. rewrite <- HP' in Em. eapply C3; [left; reflexivity|exact Em].
        -- rewrite HP'. reflexivity.
      * assert (memb b (map snd L) = true) as Em.
        { apply memb_ordL. rewrite HP'. apply in_or_app. right. left. reflexivity. }
        rewrite Em, app_nil_r. symmetry. exact HP'.
  - apply Nat.eqb_neq in Ek. rewrite app_nil_r in Hbid.
    destruct (HD _ _ Ht Hdl) as [Hin|Hin].
    + (* the probe is still in front of the broadcast *)
      rewrite Hpc in Hin. cbn [pending] in Hin. destruct Hin as [Hin|Hin]; [congruence|].
      assert (rest <> []) as Hne by (intros ->; destruct Hin).
      specialize (Hrest Hne). specialize (Hidx Hrest).
      split.
      * apply HD1. intros _. left. rewrite Hpend. exact Hin.
      * right. exists t, th1. split; [eapply nth_set_th_same; eauto|]. split; [exact Hrest|].
        split; [rewrite Hpend; exact Hin|]. rewrite Hidx, <- Eb, Hbid, Hord.
        destruct HP' as [HP'|[_ HP']].
        -- destruct (memb b (map snd L)) eqn:Em.
           ++ exfalso. apply memb_ordL in Em. rewrite <- HP' in Em. eapply C3; [right; exact Hin|exact Em].
           ++ rewrite HP'. reflexivity.
        -- assert (memb b (map snd L) = true) as Em.
           { apply memb_ordL. rewrite HP'. apply in_or_app. right. left. reflexivity. }
           rewrite Em, app_nil_r. exact HP'.
    + (* the probe has been served before *)
      rewrite <- Eb in Hin. apply Hserved.
      * rewrite Hbid. exact Hin.
      * rewrite Hbid, Hord. destruct HP' as [HP'|[Hk _]].
        -- assert (memb b (map snd L) = true) as Em.
           { apply memb_ordL. rewrite <- HP'. exact Hin. }
           rewrite Em, app_nil_r. exact HP'.
        -- exfalso. eapply C3; eauto.
Qed.

Definition FT (L : list bent) (s : ish) (ths : list ithread) : Prop :=
  Inv7 scripts L s ths /\ SInv s ths /\ D1 L ths /\ P2 L ths.

Lemma FT_step L s ths t th s1 th1 o :
  FT L s ths -> ienabled s ths t = true -> nth_error ths t = Some th -> imove s t th = (s1, th1, o) ->
  exists L', walks (bstep scripts) L o = Some L' /\ FT L' s1 (set_th ths t th1).
Proof.
  intros (HI & HS & HD & HP) He Ht Hm.
  destruct (Inv7_step scripts _ _ _ _ _ _ _ _ HI He Ht Hm) as (L' & Hw & HI').
  exists L'. split; [exact Hw|]. rewrite walks_bstep in Hw. inversion Hw as [HL]. clear Hw.
  split; [rewrite HL; exact HI'|]. split; [eapply SInv_step; eauto; apply HI|].
  destruct HI as (HC & HSt & _ & _ & HCO).
  rewrite (move_bcasts scripts _ _ _ _ _ _ _ HSt Ht Hm).
  destruct (t_pc th) as [ | p | p | v rest | v k0 rest | e rest | e rest | e rest | e k0 rest | k0 x | k0 | ] eqn:Epc;
    rewrite ?app_nil_r;
    try (eapply L_silent; eauto; rewrite Epc; intros; discriminate).
  eapply L_bcast; eauto.
Qed.

Lemma FT_irun sched L s ths s' ths' tr :
  FT L s ths -> irun s ths sched = (s', ths', tr) -> FT (L ++ bcasts scripts tr) s' ths'.
Proof.
  intros HI Hr.
  destruct (irun_walks (bstep scripts) FT FT_step sched L s ths s' ths' tr HI Hr) as (L' & Hw & HI').
  rewrite walks_bstep in Hw. inversion Hw; subst L'. exact HI'.
Qed.

End Complete.

(* ------------------------------------------------------------------ *)
(* the setup script establishes the invariant                          *)
(* ------------------------------------------------------------------ *)

Lemma unsub_in k ops : In (IUnsub k) ops -> In k (unsubscribed_in ops).
Proof.
  intros H. unfold unsubscribed_in. apply in_flat_map. exists (IUnsub k). split; [exact H|left; reflexivity].
Qed.

Definition SetupInv (k : nat) (s : ish) (ths : list ithread) : Prop :=
  Core s ths /\
  exists th, nth_error ths 0 = Some th /\ ~ In (IUnsub k) (t_ops th) /\ tloc s th /\
             (In k (subs th) \/ KIn k s).

Lemma SetupInv_step k s ths t' th s1 th1 o :
  SetupInv k s ths -> ienabled s ths 0 = true -> nth_error ths 0 = Some th ->
  imove s t' th = (s1, th1, o) -> SetupInv k s1 (set_th ths 0 th1).
Proof.
  intros (HC & th' & Ht' & Hnu & Htl & Hk) He Ht Hm.
  assert (th' = th) by congruence. subst th'.
  split; [eapply Core_step; eauto|]. exists th1. split; [eapply nth_set_th_same; eauto|].
  split.
  { intros Hin. destruct (F_ops_sub _ _ _ _ _ _ _ Hm Hin) as [H|(v & H)]; [auto|discriminate]. }
  split; [eapply F_tloc_self; eauto|].
  destruct Hk as [Hk|Hk].
  - destruct (sub_now th) as [k'|] eqn:Es.
    + destruct (Nat.eq_dec k' k) as [->|Hne].
      * right. eapply F_sub_KIn; eauto. apply HC.
      * left. pose proof (F_sub_step _ _ _ _ _ _ _ Hm Es (c_pcok _ _ HC _ _ Ht)) as Hs.
        unfold subs in *. rewrite Hs in Hk. destruct Hk as [Hk|Hk]; [congruence|exact Hk].
    + left. unfold subs in *. rewrite (F_nosub _ _ _ _ _ _ Hm Es (c_pcok _ _ HC _ _ Ht)); [exact Hk|].
      apply HC.
  - right. eapply F_KIn; eauto. eapply c_local; eauto.
Qed.

Lemma KIn_after_setup k v0 setup scripts :
  names_ok setup scripts = true -> setup_completes v0 setup = true ->
  In k (subscribed_in setup) -> ~ In k (unsubscribed_in setup) ->
  KIn k (run_alone 1000 (ish0 v0) (start_thread setup)).
Proof.
  intros Hn Hc Hs Hu. rewrite run_alone_fst.
  pose proof (setup_cfg (SetupInv k) (map start_thread scripts) (starts_idle scripts)
                        (fun s ths t' th s1 th1 o => SetupInv_step k s ths t' th s1 th1 o)
                        1000 (ish0 v0) (start_thread setup)) as H.
  destruct H as (_ & th & Ht & _ & _ & Hk).
  - split; [apply (Core_init v0 (setup :: scripts)); apply names_ok_nodup; auto|].
    exists (start_thread setup). split; [reflexivity|]. split; [|split; [exact I|left; exact Hs]].
    intros Hin. apply Hu. apply unsub_in. exact Hin.
  - cbn in Ht. inversion Ht; subst th. destruct Hk as [Hk|Hk]; [|exact Hk]. exfalso.
    unfold setup_completes, fin_th in Hc. unfold subs in Hk.
    destruct (t_pc _); try discriminate. destruct (t_ops _); [destruct Hk|discriminate].
Qed.

Lemma full_time_in k setup scripts :
  In k (full_time setup scripts) ->
  In k (subscribed_in setup) /\ ~ In k (unsubscribed_in setup) /\
  forall sc, In sc scripts -> ~ In (IUnsub k) sc.
Proof.
  unfold full_time. rewrite filter_In. intros [Hs Hu]. apply negb_true_iff in Hu. apply imem_false in Hu.
  split; [exact Hs|]. unfold unsubscribed_in in *. rewrite flat_map_app in Hu. split.
  - intros H. apply Hu. apply in_or_app. left. exact H.
  - intros sc Hsc Hin. apply Hu. apply in_or_app. right. apply in_flat_map. exists (IUnsub k).
    split; [|left; reflexivity]. apply in_concat. exists sc. auto.
Qed.

Lemma FT_init k v0 setup scripts :
  names_ok setup scripts = true -> setup_completes v0 setup = true -> In k (full_time setup scripts) ->
  FT k scripts [] (run_alone 1000 (ish0 v0) (start_thread setup)) (map start_thread scripts).
Proof.
  intros Hn Hc Hk. destruct (full_time_in _ _ _ Hk) as (Hs & Hu & Hsc).
  split.
  { split; [apply Core_after_setup; auto|]. split; [apply Static_init|].
    split; [eapply ObsInv_after_setup; eauto|]. split.
    - intros t th Ht. apply nth_map_start in Ht. destruct Ht as (sc & _ & ->). constructor.
    - apply CO_init. apply starts_idle. }
  split.
  { constructor.
    - eapply KIn_after_setup; eauto.
    - intros i th Hi. apply nth_map_start in Hi. destruct Hi as (sc & _ & ->). exact I.
    - intros i th Hi. apply nth_map_start in Hi. destruct Hi as (sc & Hi & ->). cbn.
      apply Hsc. eapply nth_error_In; eauto.
    - intros i th Hi. apply nth_map_start in Hi. destruct Hi as (sc & _ & ->). discriminate.
    - intros i th Hi. apply nth_map_start in Hi. destruct Hi as (sc & _ & ->). discriminate. }
  split.
  - intros t th Ht. apply nth_map_start in Ht. destruct Ht as (sc & _ & ->). discriminate.
  - left. reflexivity.
Qed.

(* ------------------------------------------------------------------ *)
(* C06, theorem 1: a full-time probe sees every broadcast              *)
(* ------------------------------------------------------------------ *)

Lemma list_bid_eqb_refl a : list_bid_eqb a a = true.
Proof.
  unfold list_bid_eqb. rewrite Nat.eqb_refl. cbn. induction a as [|x a IH]; cbn; [reflexivity|].
  rewrite bid_eqb_refl. exact IH.
Qed.

(* the threads at the end of the schedule *)
Definition final_threads (v0 : Z) (setup : list iop) (scripts : list (list iop)) (sched : list nat) : list ithread :=
  snd (fst (irun (run_alone 1000 (ish0 v0) (start_thread setup)) (map start_thread scripts) sched)).

(* the schedule does not stop in the middle of a broadcast (a thread parked between two of the
   subscribers its `next` is handing the item to) *)
Definition no_broadcast_in_progress (v0 : Z) (setup : list iop) (scripts : list (list iop)) (sched : list nat) : bool :=
  forallb (fun th => negb (deliv (t_pc th))) (final_threads v0 setup scripts sched).

(* every schedule: a full-time probe has seen the whole global order, or all of it but its last
   broadcast -- and then that broadcast is still in progress, with the probe in front of it *)
Definition all_but_maybe_last (a b : list bid) : bool :=
  list_bid_eqb a b || list_bid_eqb a (removelast b).

Definition full_time_sees_all_but_last (setup : list iop) (scripts : list (list iop)) (tr : list itr) : bool :=
  forallb (fun k => all_but_maybe_last (bids_of scripts tr k) (order scripts tr)) (full_time setup scripts).

Lemma full_time_run k v0 setup scripts sched s ths tr :
  names_ok setup scripts = true -> setup_completes v0 setup = true -> In k (full_time setup scripts) ->
  irun (run_alone 1000 (ish0 v0) (start_thread setup)) (map start_thread scripts) sched = (s, ths, tr) ->
  FT k scripts (bcasts scripts tr) s ths.
Proof.
  intros Hn Hc Hk Hr.
  apply (FT_irun k scripts sched [] _ _ _ _ _ (FT_init k v0 setup scripts Hn Hc Hk) Hr).
Qed.

Theorem il_full_time_sees_all_but_last v0 setup scripts sched :
  names_ok setup scripts = true -> setup_completes v0 setup = true ->
  let '(tr, e, fin) := run_case v0 setup scripts sched in
  full_time_sees_all_but_last setup scripts tr = true.
Proof.
  intros Hn Hc. rewrite run_case_eq. cbv zeta.
  destruct (irun _ _ sched) as [[s ths] tr] eqn:Er.
  unfold full_time_sees_all_but_last. apply forallb_forall. intros k Hk.
  destruct (full_time_run k v0 setup scripts sched s ths tr Hn Hc Hk Er) as (_ & _ & _ & HP).
  unfold all_but_maybe_last. rewrite bids_of_L, order_L.
  destruct HP as [HP|(t & th & _ & _ & _ & HP)]; rewrite HP.
  - rewrite list_bid_eqb_refl. reflexivity.
  - rewrite removelast_last, list_bid_eqb_refl. apply orb_true_r.
Qed.

Theorem il_full_time_sees_all_quiet v0 setup scripts sched :
  names_ok setup scripts = true -> setup_completes v0 setup = true ->
  no_broadcast_in_progress v0 setup scripts sched = true ->
  let '(tr, e, fin) := run_case v0 setup scripts sched in
  full_time_sees_all setup scripts tr = true.
Proof.
  intros Hn Hc Hq. unfold no_broadcast_in_progress, final_threads in Hq. rewrite run_case_eq. cbv zeta.
  destruct (irun _ _ sched) as [[s ths] tr] eqn:Er. cbn [fst snd] in Hq.
  unfold full_time_sees_all. apply forallb_forall. intros k Hk.
  destruct (full_time_run k v0 setup scripts sched s ths tr Hn Hc Hk Er) as (_ & _ & _ & HP).
  rewrite bids_of_L, order_L.
  destruct HP as [HP|(t & th & Ht & Hd & _ & _)].
  - rewrite HP. apply list_bid_eqb_refl.
  - exfalso. rewrite forallb_forall in Hq. apply nth_error_In in Ht. apply Hq in Ht.
    rewrite Hd in Ht. discriminate.
Qed.

Lemma finished_quiet ths : ifinished ths = true -> forallb (fun th => negb (deliv (t_pc th))) ths = true.
Proof.
  unfold ifinished. rewrite !forallb_forall. intros H th Hin. specialize (H th Hin).
  destruct (t_pc th); try discriminate; reflexivity.
Qed.

(* the statement of the task, for the executions in which every thread has returned *)
Theorem il_full_time_sees_all v0 setup scripts sched :
  names_ok setup scripts = true -> setup_completes v0 setup = true ->
  let '(tr, e, fin) := run_case v0 setup scripts sched in
  e = EFinished -> full_time_sees_all setup scripts tr = true.
Proof.
  intros Hn Hc.
  pose proof (il_full_time_sees_all_quiet v0 setup scripts sched Hn Hc) as H.
  unfold no_broadcast_in_progress, final_threads in H. rewrite run_case_eq in *. cbv zeta in *.
  destruct (irun _ _ sched) as [[s ths] tr] eqn:Er. cbn [fst snd] in H.
  intros He. apply H. apply finished_quiet. destruct (ifinished ths); [reflexivity|].
  destruct (istuck s ths); discriminate.
Qed.

(* the unrestricted statement is false: a schedule can stop when a broadcast has reached the first
   of two full-time probes and not yet the second *)
Example full_time_sees_all_fails_mid_broadcast :
  (let '(tr, e, fin) := run_case 0%Z [ISub 0; ISub 1] [[INext 1%Z]] [0;0;0;0;0] in
   (names_ok [ISub 0; ISub 1] [[INext 1%Z]], setup_completes 0%Z [ISub 0; ISub 1],
    full_time [ISub 0; ISub 1] [[INext 1%Z]], e,
    no_broadcast_in_progress 0%Z [ISub 0; ISub 1] [[INext 1%Z]] [0;0;0;0;0],
    full_time_sees_all [ISub 0; ISub 1] [[INext 1%Z]] tr,
    full_time_sees_all_but_last [ISub 0; ISub 1] [[INext 1%Z]] tr))
  = (true, true, [0; 1], EShort, false, false, true).
Proof. vm_compute. reflexivity. Qed.

(* the added hypothesis is satisfiable by an unfinished execution with broadcasts: it is weaker than
   "every thread has returned" *)
Example quiet_satisfiable :
  (let '(tr, e, fin) := run_case 0%Z [ISub 0; ISub 1] [[INext 1%Z; INext 2%Z]] (repeat 0 8) in
   (e, no_broadcast_in_progress 0%Z [ISub 0; ISub 1] [[INext 1%Z; INext 2%Z]] (repeat 0 8),
    order [[INext 1%Z; INext 2%Z]] tr, full_time_sees_all [ISub 0; ISub 1] [[INext 1%Z; INext 2%Z]] tr))
  = (EShort, true, [(0, 0)], true).
Proof. vm_compute. reflexivity. Qed.

(* ------------------------------------------------------------------ *)
(* C06, theorem 2: nothing is lost                                     *)
(* ------------------------------------------------------------------ *)

Definition is_termop (o : iop) : bool := match o with ITerm _ | ISUnsub => true | _ => false end.

Lemma has_term_existsb ops : has_term ops = existsb is_termop ops.
Proof. reflexivity. Qed.

Lemma existsb_false_all {A} (f : A -> bool) l : existsb f l = false -> forall x, In x l -> f x = false.
Proof.
  intros H x Hx. destruct (f x) eqn:E; [|reflexivity].
  assert (existsb f l = true) by (apply existsb_exists; eauto). congruence.
Qed.

(* without a terminal operation the observer list stays *)
Lemma F_noterm s t th s1 th1 o :
  imove s t th = (s1, th1, o) -> pc_ok th -> (forall x, In x (t_ops th) -> is_termop x = false) ->
  s_obs s <> None -> s_obs s1 <> None.
Proof.
  destruct th as [pc ops idx]. intros H Hp Hn Hs. imove_cases H.
  all: unfold pc_ok in Hp; cbn [t_pc t_ops pc_op pay_op] in *.
  all: try exact Hs.
  all: try (cbn [s_obs s_cham set_busy set_cells set_val set_obs set_cham kill_cell]; first [exact Hs|discriminate]).
  all: try (unfold subscribe_cell; destruct (s_cham _); exact Hs).
  all: try (destruct Hp as (r0 & ->)).
  all: try (exfalso; specialize (Hn _ (or_introl eq_refl)); discriminate Hn).
  all: congruence.
Qed.

(* the operations done and the operations still to do make up the script *)
Lemma F_len s t th s1 th1 o :
  imove s t th = (s1, th1, o) -> pc_ok th -> chamP s ->
  length (t_ops th1) + t_idx th1 = length (t_ops th) + t_idx th.
Proof.
  destruct th as [pc ops idx]. intros H Hp Hc. imove_cases H.
  all: unfold pc_ok in Hp; cbn [t_pc t_ops pc_op pay_op] in *.
  all: try reflexivity.
  all: try (destruct Hp as (r0 & ->)).
  all: cbn [tl length]; try lia.
  all: exfalso; unfold chamP in Hc; match goal with E : s_cham _ = None |- _ => apply Hc in E; congruence end.
Qed.

(* how a `next` returns *)
Definition exits (s : ish) (th : ithread) : Prop :=
  (is_pdel (t_pc th) = true /\ (s_obs s = None \/ s_obs s = Some [])) \/
  (deliv (t_pc th) = true /\
   (pending (t_pc th) = [] \/
    exists k0, pending (t_pc th) = [k0] /\ (cell_alive s k0 = false \/ exists v, t_pc th = PInCb v k0 []))).

Lemma F_done s t th s1 th1 o :
  imove s t th = (s1, th1, o) -> t_idx th1 = S (t_idx th) -> pc_ok th ->
  exists o0 r, t_ops th = o0 :: r /\ (forall v, o0 = INext v \/ o0 = IBNext v -> exits s th).
Proof.
  destruct th as [pc ops idx]. intros H Hi Hp. imove_cases H.
  all: try (exfalso; lia).
  all: unfold pc_ok in Hp; cbn [t_pc t_ops pc_op pay_op] in *.
  all: try (destruct Hp as (r0 & ->)).
  all: eexists; eexists; (split; [reflexivity|]); intros v0 [Hv|Hv]; try discriminate Hv.
  all: unfold exits; cbn [t_pc is_pdel deliv pending].
  all: try (left; split; [reflexivity|]; auto; fail).
  all: right; split; [reflexivity|]; eauto 6.
Qed.

Definition is_nextop (o : option iop) : bool :=
  match o with Some (INext _) | Some (IBNext _) => true | _ => false end.

Section Lost.
Variable k : nat.
Variable scripts : list (list iop).

Definition NTInv (s : ish) (ths : list ithread) : Prop :=
  s_obs s <> None /\
  forall i th x, nth_error ths i = Some th -> In x (t_ops th) -> is_termop x = false.

Lemma NTInv_step s ths t t' th s1 th1 o :
  Core s ths -> NTInv s ths -> nth_error ths t = Some th -> imove s t' th = (s1, th1, o) ->
  NTInv s1 (set_th ths t th1).
Proof.
  intros HC [Hs Hn] Ht Hm. split.
  - eapply F_noterm; eauto. eapply c_pcok; eauto.
  - intros i y x Hi Hx. destruct (nth_set_th_inv _ _ _ _ _ _ Ht Hi) as [[-> ->]|[Hni Hi']]; [|eauto].
    destruct (F_ops_sub _ _ _ _ _ _ _ Hm Hx) as [H|(v & ->)]; [eauto|reflexivity].
Qed.

(* every `next` a thread has returned from has reached the probe *)
Definition Done (L : list bent) (ths : list ithread) : Prop :=
  forall t th j, nth_error ths t = Some th -> j < t_idx th ->
                 is_nextop (op_at scripts (t, j)) = true -> In (t, j) (bidsL L k).

Definition LenInv (ths : list ithread) : Prop :=
  length ths = length scripts /\
  forall t th sc, nth_error ths t = Some th -> nth_error scripts t = Some sc ->
                  length (t_ops th) + t_idx th = length sc.

Lemma length_set_th l i x : length (set_th l i x) = length l.
Proof. revert i. induction l as [|y l IH]; intros [|i]; cbn; auto. Qed.

Lemma LenInv_step s ths t t' th s1 th1 o :
  Core s ths -> LenInv ths -> nth_error ths t = Some th -> imove s t' th = (s1, th1, o) ->
  LenInv (set_th ths t th1).
Proof.
  intros HC [Hl Hn] Ht Hm. split; [rewrite length_set_th; exact Hl|].
  intros i x sc Hi Hsc. destruct (nth_set_th_inv _ _ _ _ _ _ Ht Hi) as [[-> ->]|[Hni Hi']]; [|eauto].
  rewrite (F_len _ _ _ _ _ _ Hm (c_pcok _ _ HC _ _ Ht) (c_cham _ _ HC)). eauto.
Qed.

Lemma bidsL_mono L X b : In b (bidsL L k) -> In b (bidsL (L ++ X) k).
Proof. unfold bidsL. rewrite flat_map_app. intros H. apply in_or_app. left. exact H. Qed.

Lemma Done_step L s ths t th s1 th1 o :
  FT k scripts L s ths -> NTInv s ths -> Done L ths ->
  nth_error ths t = Some th -> imove s t th = (s1, th1, o) ->
  Done (L ++ bcasts scripts o) (set_th ths t th1).
Proof.
  intros (HI & HS & HD & _) [Hobs _] HDn Ht Hm i x j Hi Hj Hop.
  destruct (nth_set_th_inv _ _ _ _ _ _ Ht Hi) as [[-> ->]|[Hni Hi']].
  2:{ apply bidsL_mono. eapply HDn; eauto. }
  destruct HI as (HC & HSt & _).
  destruct (F_deliv _ _ _ _ _ _ Hm) as [[Hidx _]|[Hidx _]].
  2:{ apply bidsL_mono. eapply HDn; eauto. rewrite <- Hidx. exact Hj. }
  destruct (Nat.eq_dec j (t_idx th)) as [->|Hne].
  2:{ apply bidsL_mono. eapply HDn; eauto. lia. }
  destruct (F_done _ _ _ _ _ _ Hm Hidx (c_pcok _ _ HC _ _ Ht)) as (o0 & r & Hops & Hex).
  destruct (HSt _ _ Ht) as (_ & sc & Hsc & Hl). unfold link in Hl. rewrite Hops in Hl.
  destruct Hl as (o' & Hn & _ & Ho').
  unfold op_at in Hop. cbn [fst snd] in Hop. rewrite Hsc, Hn in Hop.
  assert (exists v, o0 = INext v \/ o0 = IBNext v) as (v & Hv).
  { destruct Ho' as [->|(v & -> & ->)]; [|eauto]. destruct o0; try discriminate; eauto. }
  destruct (Hex v Hv) as [[Hp [Hno|Hno]]|[Hd Hpend]].
  - congruence.
  - exfalso. apply (si_pdel _ _ _ HS _ _ Ht Hp _ Hno).
  - destruct (HD _ _ Ht Hd) as [Hin|Hin]; [|apply bidsL_mono; exact Hin].
    destruct Hpend as [Hpend|(k0 & Hpend & Hk0)]; rewrite Hpend in Hin; [destruct Hin|].
    destruct Hin as [->|[]]. destruct Hk0 as [Hdead|(v' & Hpc)].
    + rewrite (SInv_alive _ _ _ _ _ HS Ht Hd) in Hdead. discriminate.
    + rewrite (move_bcasts scripts _ _ _ _ _ _ _ HSt Ht Hm), Hpc, bidsL_snoc, Nat.eqb_refl.
      apply in_or_app. right. left. reflexivity.
Qed.

Definition FT2 (L : list bent) (s : ish) (ths : list ithread) : Prop :=
  FT k scripts L s ths /\ NTInv s ths /\ Done L ths /\ LenInv ths.

Lemma FT2_step L s ths t th s1 th1 o :
  FT2 L s ths -> ienabled s ths t = true -> nth_error ths t = Some th -> imove s t th = (s1, th1, o) ->
  exists L', walks (bstep scripts) L o = Some L' /\ FT2 L' s1 (set_th ths t th1).
Proof.
  intros (HF & HN & HD & HL) He Ht Hm.
  destruct (FT_step k scripts _ _ _ _ _ _ _ _ HF He Ht Hm) as (L' & Hw & HF').
  exists L'. split; [exact Hw|]. rewrite walks_bstep in Hw. inversion Hw as [HL']. clear Hw.
  assert (HC : Core s ths) by apply HF.
  split; [rewrite HL'; exact HF'|]. split; [eapply NTInv_step; eauto|].
  split; [eapply Done_step; eauto|eapply LenInv_step; eauto].
Qed.

Lemma FT2_irun sched L s ths s' ths' tr :
  FT2 L s ths -> irun s ths sched = (s', ths', tr) -> FT2 (L ++ bcasts scripts tr) s' ths'.
Proof.
  intros HI Hr.
  destruct (irun_walks (bstep scripts) FT2 FT2_step sched L s ths s' ths' tr HI Hr) as (L' & Hw & HI').
  rewrite walks_bstep in Hw. inversion Hw; subst L'. exact HI'.
Qed.

End Lost.

(* the setup script, when it has no terminal operation, leaves the observer list in place *)
Lemma obs_after_setup v0 setup :
  has_term setup = false -> s_obs (run_alone 1000 (ish0 v0) (start_thread setup)) <> None.
Proof.
  intros Hn. rewrite run_alone_fst.
  pose proof (run_alone_th_inv
    (fun s th => pc_ok th /\ (forall x, In x (t_ops th) -> is_termop x = false) /\ s_obs s <> None)) as H.
  apply H.
  - intros s th s1 th1 o (Hp & Hx & Hs) _ Hm. split; [eapply F_pcok; eauto|]. split.
    + intros x Hin. destruct (F_ops_sub _ _ _ _ _ _ _ Hm Hin) as [Hi|(v & ->)]; [auto|reflexivity].
    + eapply F_noterm; eauto.
  - split; [exact I|]. split; [|discriminate]. cbn. apply existsb_false_all. exact Hn.
Qed.

Lemma combine_seq_in {A} (l : list A) a n x :
  In (n, x) (combine (seq a (length l)) l) -> a <= n /\ nth_error l (n - a) = Some x.
Proof.
  revert a. induction l as [|y l IH]; intros a; cbn; [intros []|].
  intros [H|H].
  - inversion H; subst. rewrite Nat.sub_diag. split; [lia|reflexivity].
  - apply IH in H. destruct H as [H1 H2]. split; [lia|].
    replace (n - a) with (S (n - S a)) by lia. exact H2.
Qed.

Lemma next_ops_in scripts b :
  In b (next_ops scripts) -> exists sc, nth_error scripts (fst b) = Some sc /\ is_nextop (nth_error sc (snd b)) = true.
Proof.
  unfold next_ops. rewrite in_concat. intros (l & Hl & Hb). apply in_map_iff in Hl.
  destruct Hl as ([t sc] & <- & Hp). apply combine_seq_in in Hp. destruct Hp as [_ Hsc].
  rewrite Nat.sub_0_r in Hsc. cbn [fst snd] in Hb. apply in_flat_map in Hb.
  destruct Hb as ([j op] & Hq & Hb). apply combine_seq_in in Hq. destruct Hq as [_ Hop].
  rewrite Nat.sub_0_r in Hop. cbn [fst snd] in Hb.
  exists sc. destruct op; cbn in Hb; try contradiction; destruct Hb as [<-|[]]; cbn [fst snd];
    rewrite Hop; auto.
Qed.

Lemma FT2_init k v0 setup scripts :
  names_ok setup scripts = true -> setup_completes v0 setup = true -> In k (full_time setup scripts) ->
  has_term (setup ++ concat scripts) = false ->
  FT2 k scripts [] (run_alone 1000 (ish0 v0) (start_thread setup)) (map start_thread scripts).
Proof.
  intros Hn Hc Hk Ht. rewrite has_term_existsb, existsb_app in Ht. apply orb_false_iff in Ht.
  destruct Ht as [Ht1 Ht2].
  split; [apply FT_init; auto|]. split; [|split].
  - split; [apply obs_after_setup; exact Ht1|].
    intros i th x Hi Hx. apply nth_map_start in Hi. destruct Hi as (sc & Hsc & ->). cbn in Hx.
    apply (existsb_false_all _ _ Ht2). apply in_concat. exists sc. split; [eapply nth_error_In; eauto|exact Hx].
  - intros t th j Hi Hj. apply nth_map_start in Hi. destruct Hi as (sc & _ & ->). cbn in Hj. lia.
  - split; [apply map_length|]. intros t th sc Hi Hsc. apply nth_map_start in Hi.
    destruct Hi as (sc' & Hsc' & ->). cbn. assert (sc' = sc) by congruence. subst. lia.
Qed.

Theorem il_nothing_lost v0 setup scripts sched :
  names_ok setup scripts = true -> setup_completes v0 setup = true ->
  let '(tr, e, fin) := run_case v0 setup scripts sched in
  nothing_lost setup scripts tr e = true.
Proof.
  intros Hn Hc. rewrite run_case_eq. cbv zeta.
  destruct (irun _ _ sched) as [[s ths] tr] eqn:Er.
  unfold nothing_lost. destruct (ifinished ths) eqn:Ef.
  2:{ destruct (istuck s ths); reflexivity. }
  destruct (full_time setup scripts) as [|k ft] eqn:Eft; [reflexivity|].
  destruct (has_term (setup ++ concat scripts)) eqn:Eh; [reflexivity|]. cbn [orb].
  assert (Hk : In k (full_time setup scripts)) by (rewrite Eft; left; reflexivity).
  pose proof (FT2_irun k scripts sched [] _ _ _ _ _ (FT2_init k v0 setup scripts Hn Hc Hk Eh) Er) as HF.
  cbn [app] in HF. destruct HF as (_ & _ & HD & [Hlen HL]).
  apply forallb_forall. intros [t j] Hb. apply next_ops_in in Hb. cbn [fst snd] in Hb.
  destruct Hb as (sc & Hsc & Hop).
  destruct (nth_error ths t) as [th|] eqn:Eth.
  2:{ apply nth_error_None in Eth. assert (t < length scripts) by (apply nth_error_Some; congruence). lia. }
  unfold ifinished in Ef. rewrite forallb_forall in Ef. specialize (Ef th (nth_error_In _ _ Eth)).
  assert (t_ops th = []) as Hops by (destruct (t_pc th); try discriminate; destruct (t_ops th); [reflexivity|discriminate]).
  pose proof (HL _ _ _ Eth Hsc) as Hl. rewrite Hops in Hl. cbn in Hl.
  assert (j < length sc) as Hj.
  { apply nth_error_Some. intros E. rewrite E in Hop. discriminate. }
  apply memb_In. rewrite order_L. apply (bidsL_in _ k). apply (HD t th j Eth); [lia|].
  unfold op_at. cbn [fst snd]. rewrite Hsc. exact Hop.
Qed.

(* ------------------------------------------------------------------ *)
(* theorem 1, exactly: when does a full-time probe lag behind?         *)
(* ------------------------------------------------------------------ *)

(* no thread is parked inside a broadcast that has already reached somebody and still has a
   full-time probe in front of it *)
Definition no_full_time_probe_behind (v0 : Z) (setup : list iop) (scripts : list (list iop)) (sched : list nat) : bool :=
  let '(s, ths, tr) := irun (run_alone 1000 (ish0 v0) (start_thread setup)) (map start_thread scripts) sched in
  forallb (fun p : nat * ithread =>
             negb (deliv (t_pc (snd p)) && memb (fst p, t_idx (snd p)) (order scripts tr) &&
                   existsb (fun k => imem k (pending (t_pc (snd p)))) (full_time setup scripts)))
          (combine (seq 0 (length ths)) ths).

Lemma in_combine_seq {A} (l : list A) a n x :
  nth_error l n = Some x -> In (a + n, x) (combine (seq a (length l)) l).
Proof.
  revert a n. induction l as [|y l IH]; intros a [|n]; cbn; try discriminate.
  - intros H. inversion H; subst. left. rewrite Nat.add_0_r. reflexivity.
  - intros H. right. replace (a + S n) with (S a + n) by lia. apply IH. exact H.
Qed.

Lemma list_bid_eqb_true a b : list_bid_eqb a b = true -> a = b.
Proof.
  unfold list_bid_eqb. revert b. induction a as [|x a IH]; intros [|y b]; cbn; try discriminate; [reflexivity|].
  intros H. apply andb_true_iff in H. destruct H as [Hl H]. apply andb_true_iff in H. destruct H as [Hxy H].
  apply bid_eqb_eq in Hxy. subst y. f_equal. apply IH. rewrite Hl. exact H.
Qed.

Theorem il_full_time_sees_all_iff v0 setup scripts sched :
  names_ok setup scripts = true -> setup_completes v0 setup = true ->
  let '(tr, e, fin) := run_case v0 setup scripts sched in
  full_time_sees_all setup scripts tr = no_full_time_probe_behind v0 setup scripts sched.
Proof.
  intros Hn Hc. unfold no_full_time_probe_behind. rewrite run_case_eq. cbv zeta.
  destruct (irun _ _ sched) as [[s ths] tr] eqn:Er.
  assert (HFT : forall k, In k (full_time setup scripts) -> FT k scripts (bcasts scripts tr) s ths).
  { intros k Hk. eapply full_time_run; eauto. }
  apply eq_iff_eq_true. unfold full_time_sees_all. rewrite !forallb_forall. split.
  - intros Hall [t th] Hp. apply combine_seq_in in Hp. destruct Hp as [_ Ht]. rewrite Nat.sub_0_r in Ht.
    cbn [fst snd]. apply negb_true_iff. apply not_true_iff_false. intros H.
    apply andb_true_iff in H. destruct H as [H Hex]. apply andb_true_iff in H. destruct H as [Hd Hm].
    apply existsb_exists in Hex. destruct Hex as (k & Hk & Hin). apply imem_In in Hin.
    specialize (Hall k Hk). apply list_bid_eqb_true in Hall. rewrite bids_of_L in Hall.
    apply memb_In in Hm. rewrite <- Hall in Hm.
    destruct (HFT k Hk) as ((_ & _ & _ & _ & [_ HCO]) & _).
    destruct (HCO _ _ Ht) as (_ & _ & C3). exact (C3 k Hin Hm).
  - intros Hno k Hk. destruct (HFT k Hk) as (_ & _ & _ & HP). rewrite bids_of_L, order_L.
    destruct HP as [HP|(t & th & Ht & Hd & Hin & Ho)]; [rewrite HP; apply list_bid_eqb_refl|].
    exfalso. specialize (Hno (t, th) (in_combine_seq ths 0 t th Ht)). cbn [fst snd] in Hno.
    rewrite Hd in Hno. rewrite order_L, Ho in Hno.
    assert (memb (t, t_idx th) (bidsL (bcasts scripts tr) k ++ [(t, t_idx th)]) = true) as Hm.
    { apply memb_In. apply in_or_app. right. left. reflexivity. }
    rewrite Hm in Hno. cbn [andb] in Hno. apply negb_true_iff in Hno.
    assert (existsb (fun k0 => imem k0 (pending (t_pc th))) (full_time setup scripts) = true) as Hex.
    { apply existsb_exists. exists k. split; [exact Hk|]. apply imem_In. exact Hin. }
    congruence.
Qed.

(* a schedule that stops inside a broadcast which has reached nobody yet: the exact condition holds
   (and so does full_time_sees_all) although a broadcast is in progress *)
Example behind_weaker_than_quiet :
  (let '(tr, e, fin) := run_case 0%Z [ISub 0; ISub 1] [[INext 1%Z]] [0;0;0;0] in
   (no_broadcast_in_progress 0%Z [ISub 0; ISub 1] [[INext 1%Z]] [0;0;0;0],
    no_full_time_probe_behind 0%Z [ISub 0; ISub 1] [[INext 1%Z]] [0;0;0;0],
    full_time_sees_all [ISub 0; ISub 1] [[INext 1%Z]] tr))
  = (false, true, true).
Proof. vm_compute. reflexivity. Qed.

(* the hypotheses are needed.  Without names_ok: a probe subscribed twice sees every broadcast twice *)
Example sees_all_needs_names :
  (let '(tr, e, fin) := run_case 0%Z [ISub 0; ISub 0] [[INext 1%Z]] (repeat 0 30) in
   (names_ok [ISub 0; ISub 0] [[INext 1%Z]], setup_completes 0%Z [ISub 0; ISub 0], e,
    full_time_sees_all [ISub 0; ISub 0] [[INext 1%Z]] tr))
  = (false, true, EFinished, false).
Proof. vm_compute. reflexivity. Qed.

(* without setup_completes: `run_case` cuts the setup script off before it subscribes probe 0, which
   the definition of full_time counts as subscribed *)
Definition cut_setup : list iop := repeat (INext 1%Z) 400 ++ [ISub 0].
Example sees_all_needs_setup_completes :
  (let '(tr, e, fin) := run_case 0%Z cut_setup [[ISub 1; INext 5%Z]] (repeat 0 30) in
   (names_ok cut_setup [[ISub 1; INext 5%Z]], setup_completes 0%Z cut_setup, e,
    full_time_sees_all cut_setup [[ISub 1; INext 5%Z]] tr, nothing_lost cut_setup [[ISub 1; INext 5%Z]] tr e))
  = (true, false, EFinished, false, true).
Proof. vm_compute. reflexivity. Qed.

(* a non-trivial case (ex_setup, ex_scripts, ex_sched of IleaveLaws): three threads, subject and behavior operations, a terminal *)
Example complete_case_runs :
  (let '(tr, e, f) := run_case 0%Z ex_setup ex_scripts ex_sched in
   (full_time ex_setup ex_scripts, e, full_time_sees_all ex_setup ex_scripts tr,
    nothing_lost ex_setup ex_scripts tr e, no_full_time_probe_behind 0%Z ex_setup ex_scripts ex_sched,
    Nat.ltb 2 (length (order ex_scripts tr)))) = ([1], EFinished, true, true, true, true).
Proof. vm_compute. reflexivity. Qed.

Print Assumptions il_full_time_sees_all_but_last.
Print Assumptions il_full_time_sees_all_quiet.
Print Assumptions il_full_time_sees_all.
Print Assumptions il_full_time_sees_all_iff.
Print Assumptions il_nothing_lost.
