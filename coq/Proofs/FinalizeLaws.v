(* finalize runs its callback exactly once per subscription that terminates or is unsubscribed,
   never before, never twice — for every sequence of input calls and unsubscriptions. *)
From RxModel Require Import Finalize.
Local Open Scope nat_scope.

Lemma calls_app a b : calls (a ++ b) = calls a + calls b.
Proof. unfold calls. rewrite filter_app, app_length. reflexivity. Qed.

(* the cell holds the callback exactly as long as it has not run *)
Lemma fin_step_calls s e :
  calls (snd (fin_step s e)) = (if z_func s && is_term e then 1 else 0) /\
  z_func (fst (fin_step s e)) = z_func s && negb (is_term e).
Proof. unfold fin_step, calls. destruct e; cbn; destruct (z_func s) eqn:E; cbn; rewrite ?E; auto. Qed.

Lemma fin_steps_calls : forall es s,
  calls (snd (fin_steps s es)) + (if z_func (fst (fin_steps s es)) then 1 else 0) = (if z_func s then 1 else 0).
Proof.
  induction es as [|e r IH]; intros s; [cbn; lia|].
  cbn [fin_steps]. destruct (fin_step_calls s e) as [C F]. destruct (fin_step s e) as [s1 o1]. cbn [fst snd] in *.
  specialize (IH s1). destruct (fin_steps s1 r) as [s2 o2]. cbn [fst snd] in *. rewrite calls_app, C.
  rewrite F in IH. destruct (z_func s); destruct (is_term e); cbn in *; lia.
Qed.

Lemma take_step_func n s e : z_func (fst (take_step n s e)) = z_func s.
Proof.
  unfold take_step. destruct e; cbn;
    repeat match goal with |- context [if ?c then _ else _] => destruct c; cbn end; reflexivity.
Qed.

Lemma after_steps_calls n : forall os s,
  calls (snd (after_steps n s os)) = calls os /\ z_func (fst (after_steps n s os)) = z_func s.
Proof.
  induction os as [|o r IH]; intros s; [cbn; auto|].
  destruct o; cbn [after_steps].
  - pose proof (take_step_func n s e) as T. destruct (take_step n s e) as [s1 o1]. cbn [fst] in T.
    destruct (IH s1) as [C F]. destruct (after_steps n s1 r) as [s2 o2]. cbn [fst snd] in *.
    rewrite calls_app. split; [|congruence].
    assert (Hz : calls (map ZOut o1) = 0) by (clear; induction o1; cbn; auto).
    rewrite Hz, C. unfold calls. cbn. reflexivity.
  - destruct (IH s) as [C F]. destruct (after_steps n s r) as [s2 o2]. cbn [fst snd] in *.
    split; [|exact F]. unfold calls in *. cbn. rewrite C. reflexivity.
Qed.

(* one stimulus: calls made + callback still in the cell is conserved *)
Lemma zstep_conserve sh s st :
  calls (snd (zstep sh s st)) + (if z_func (fst (zstep sh s st)) then 1 else 0) = (if z_func s then 1 else 0).
Proof.
  destruct st as [e|]; cbn [zstep].
  - destruct (z_src s); [|cbn; lia].
    set (s0 := if is_term e then _ else s). assert (H0 : z_func s0 = z_func s) by (unfold s0; destruct (is_term e); reflexivity).
    rewrite <- H0. destruct sh.
    + destruct (fin_step_calls s0 e) as [C F]. rewrite C, F. destruct (z_func s0); destruct (is_term e); cbn; lia.
    + pose proof (take_step_func n s0 e) as T. destruct (take_step n s0 e) as [s1 es]. cbn [fst] in T.
      rewrite <- T. apply fin_steps_calls.
    + destruct (evict && is_term e && negb (z_take_alive s0)); [cbn; lia|].
      destruct (fin_step_calls s0 e) as [C F]. destruct (fin_step s0 e) as [s1 os]. cbn [fst snd] in *.
      destruct (after_steps_calls n os s1) as [C2 F2]. rewrite C2, F2, C, F. destruct (z_func s0); destruct (is_term e); cbn; lia.
  - destruct (z_unsub s); [cbn; lia|]. cbn. destruct (z_func s); cbn; lia.
Qed.

Fixpoint zfinal (sh : fshape) (s : zstate) (sts : list zstim) : zstate :=
  match sts with [] => s | st :: r => zfinal sh (fst (zstep sh s st)) r end.

Theorem run_conserve sh : forall sts s,
  calls (zrun sh s sts) + (if z_func (zfinal sh s sts) then 1 else 0) = (if z_func s then 1 else 0).
Proof.
  induction sts as [|st r IH]; intros s; [cbn; lia|].
  cbn [zrun zfinal]. pose proof (zstep_conserve sh s st) as C. destruct (zstep sh s st) as [s1 o]. cbn [fst snd] in *.
  rewrite calls_app. specialize (IH s1). lia.
Qed.

Lemma zrun_app sh : forall a s b, zrun sh s (a ++ b) = zrun sh s a ++ zrun sh (zfinal sh s a) b.
Proof.
  induction a as [|st r IH]; intros s b; [reflexivity|].
  cbn [app zrun zfinal]. destruct (zstep sh s st) as [s1 o]. cbn [fst]. rewrite IH, app_assoc. reflexivity.
Qed.

Lemma zfinal_app sh : forall a s b, zfinal sh s (a ++ b) = zfinal sh (zfinal sh s a) b.
Proof. induction a as [|st r IH]; intros s b; [reflexivity|]. cbn. apply IH. Qed.

(* never more than once *)
Theorem finalize_at_most_once sh sts : calls (run_finalize sh sts) <= 1.
Proof. unfold run_finalize. pose proof (run_conserve sh sts zstate0) as H. cbn in H. destruct (z_func _); lia. Qed.

(* once run (or taken), the callback is gone for good *)
Lemma func_gone_stays sh : forall sts s, z_func s = false -> z_func (zfinal sh s sts) = false.
Proof.
  intros sts s H. pose proof (run_conserve sh sts s) as C. rewrite H in C. destruct (z_func (zfinal sh s sts)); [lia|reflexivity].
Qed.

(* input events do not touch the unsubscribed flag *)
Lemma take_step_unsub n s e : z_unsub (fst (take_step n s e)) = z_unsub s.
Proof.
  unfold take_step. destruct e; cbn;
    repeat match goal with |- context [if ?c then _ else _] => destruct c; cbn end; reflexivity.
Qed.

Lemma fin_step_unsub s e : z_unsub (fst (fin_step s e)) = z_unsub s.
Proof. unfold fin_step. destruct e; cbn; destruct (z_func s); reflexivity. Qed.

Lemma fin_steps_unsub : forall es s, z_unsub (fst (fin_steps s es)) = z_unsub s.
Proof.
  induction es as [|e r IH]; intros s; [reflexivity|]. cbn [fin_steps].
  pose proof (fin_step_unsub s e) as F. destruct (fin_step s e) as [s1 o1]. cbn [fst] in F.
  specialize (IH s1). destruct (fin_steps s1 r) as [s2 o2]. cbn [fst] in *. congruence.
Qed.

Lemma after_steps_unsub n : forall os s, z_unsub (fst (after_steps n s os)) = z_unsub s.
Proof.
  induction os as [|o r IH]; intros s; [reflexivity|]. destruct o; cbn [after_steps].
  - pose proof (take_step_unsub n s e) as T. destruct (take_step n s e) as [s1 o1]. cbn [fst] in T.
    specialize (IH s1). destruct (after_steps n s1 r) as [s2 o2]. cbn [fst] in *. congruence.
  - specialize (IH s). destruct (after_steps n s r) as [s2 o2]. exact IH.
Qed.

Lemma zstep_src_unsub sh s e : z_unsub (fst (zstep sh s (ZSrc e))) = z_unsub s.
Proof.
  cbn [zstep]. destruct (z_src s); [|reflexivity].
  set (s0 := if is_term e then _ else s). assert (U0 : z_unsub s0 = z_unsub s) by (unfold s0; destruct (is_term e); reflexivity).
  rewrite <- U0. destruct sh.
  - apply fin_step_unsub.
  - pose proof (take_step_unsub n s0 e) as T. destruct (take_step n s0 e) as [s1 es]. cbn [fst] in T. rewrite <- T. apply fin_steps_unsub.
  - destruct (evict && is_term e && negb (z_take_alive s0)); [reflexivity|].
    pose proof (fin_step_unsub s0 e) as F. destruct (fin_step s0 e) as [s1 os]. cbn [fst] in F. rewrite <- F. apply after_steps_unsub.
Qed.

Definition Iu (s : zstate) : Prop := z_unsub s = true -> z_func s = false.

Lemma iu_step sh s st : Iu s -> Iu (fst (zstep sh s st)).
Proof.
  intros H. destruct st as [e|].
  - intros Hu. rewrite zstep_src_unsub in Hu. specialize (H Hu).
    pose proof (zstep_conserve sh s (ZSrc e)) as C. rewrite H in C. destruct (z_func (fst (zstep sh s (ZSrc e)))); [lia|reflexivity].
  - cbn [zstep]. destruct (z_unsub s) eqn:Eu; [exact H|]. intros _. reflexivity.
Qed.

Lemma iu_final sh : forall sts s, Iu s -> Iu (zfinal sh s sts).
Proof. induction sts as [|st r IH]; intros s H; [exact H|]. cbn. apply IH, iu_step, H. Qed.

(* exactly once for an unsubscribed subscription: wherever the unsubscription happens *)
Theorem finalize_unsub_once sh a b : calls (run_finalize sh (a ++ ZUnsub :: b)) = 1.
Proof.
  unfold run_finalize. pose proof (run_conserve sh (a ++ ZUnsub :: b) zstate0) as C. cbn [z_func zstate0 zstate1] in C.
  assert (Hf : z_func (zfinal sh zstate0 (a ++ ZUnsub :: b)) = false).
  { rewrite zfinal_app. cbn [zfinal]. apply func_gone_stays.
    pose proof (iu_final sh a zstate0 (fun H => ltac:(discriminate))) as I0.
    cbn [zstep]. destruct (z_unsub (zfinal sh zstate0 a)) eqn:Eu; [apply I0, Eu|reflexivity]. }
  rewrite Hf in C. lia.
Qed.

(* exactly once for a subscription whose input terminates (operator directly behind the input) *)
Theorem finalize_term_once a b e :
  is_term e = true -> z_src (zfinal FPlain zstate0 a) = true ->
  calls (run_finalize FPlain (a ++ ZSrc e :: b)) = 1.
Proof.
  intros He Hs. unfold run_finalize. pose proof (run_conserve FPlain (a ++ ZSrc e :: b) zstate0) as C. cbn [z_func zstate0 zstate1] in C.
  assert (Hf : z_func (zfinal FPlain zstate0 (a ++ ZSrc e :: b)) = false).
  { rewrite zfinal_app. cbn [zfinal]. apply func_gone_stays. cbn [zstep]. rewrite Hs, He.
    destruct (fin_step_calls {| z_src := false; z_take_alive := z_take_alive (zfinal FPlain zstate0 a);
                                z_take_hits := z_take_hits (zfinal FPlain zstate0 a); z_func := z_func (zfinal FPlain zstate0 a);
                                z_unsub := z_unsub (zfinal FPlain zstate0 a) |} e) as [_ F].
    rewrite F, He. cbn. apply Bool.andb_false_r. }
  rewrite Hf in C. lia.
Qed.

(* not before: as long as the input only emits items and nobody unsubscribes, no call *)
Theorem finalize_not_before : forall vs s, calls (zrun FPlain s (map (fun v => ZSrc (Next v)) vs)) = 0.
Proof.
  induction vs as [|v r IH]; intros s; [reflexivity|]. cbn [map zrun zstep is_term].
  destruct (z_src s); cbn [fin_step fst snd app]; [|apply IH]. change (calls (zrun FPlain s (map (fun v => ZSrc (Next v)) r)) = 0). apply IH.
Qed.

(* the call comes right after the terminal has been forwarded, or alone on unsubscribe *)
Theorem finalize_plain_step s st :
  z_func s = true ->
  snd (zstep FPlain s st) =
  match st with
  | ZSrc e => if z_src s then (if is_term e then [ZOut e; ZCall] else [ZOut e]) else []
  | ZUnsub => if z_unsub s then [] else [ZCall]
  end.
Proof.
  intros H. destruct st as [e|]; cbn [zstep].
  - destruct (z_src s); [|reflexivity]. destruct e; cbn; rewrite ?H; reflexivity.
  - destruct (z_unsub s); [reflexivity|]. cbn. rewrite H. reflexivity.
Qed.

Lemma take_step_src n s e : z_src (fst (take_step n s e)) = z_src s.
Proof.
  unfold take_step. destruct e; cbn;
    repeat match goal with |- context [if ?c then _ else _] => destruct c; cbn end; reflexivity.
Qed.

Lemma fin_step_src s e : z_src (fst (fin_step s e)) = z_src s.
Proof. unfold fin_step. destruct e; cbn; destruct (z_func s); reflexivity. Qed.

Lemma after_steps_src n : forall os s, z_src (fst (after_steps n s os)) = z_src s.
Proof.
  induction os as [|o r IH]; intros s; [reflexivity|]. destruct o; cbn [after_steps].
  - pose proof (take_step_src n s e) as T. destruct (take_step n s e) as [s1 o1]. cbn [fst] in T.
    specialize (IH s1). destruct (after_steps n s1 r) as [s2 o2]. cbn [fst] in *. congruence.
  - specialize (IH s). destruct (after_steps n s r) as [s2 o2]. exact IH.
Qed.

(* ---------- the model meets the segment-wise specification ---------- *)
From RxSpec Require Import FinalizeSpec.
Local Open Scope nat_scope.

Definition SInv (sh : fshape) (s : zstate) (sp : fspec) : Prop :=
  z_func s = negb (f_fired sp) /\
  (f_fired sp = false ->
   z_src s = f_alive sp /\ z_unsub s = false /\
   match sh with
   | FPlain => True
   | FTakeBefore n => z_take_alive s = true /\ (n = 0 \/ (z_take_hits s = f_items sp /\ f_items sp < n))
   | FTakeAfter _ n => z_take_alive s = negb (Nat.ltb 0 n && Nat.leb n (f_items sp)) /\ (f_items sp < n -> z_take_hits s = f_items sp)
   end).

Lemma after_steps_last n : forall os s, last_is_call os = true -> last_is_call (snd (after_steps n s os)) = true.
Proof.
  intros os s. unfold last_is_call. intros H.
  assert (E : exists p, os = p ++ [ZCall]).
  { destruct (rev os) as [|x r] eqn:Er; [discriminate|]. destruct x; [discriminate|].
    exists (rev r). rewrite <- (rev_involutive os), Er. reflexivity. }
  destruct E as [p ->]. clear H. revert s. induction p as [|x p IH]; intros s.
  - cbn. reflexivity.
  - destruct x; cbn [app after_steps].
    + destruct (take_step n s e) as [s1 o1]. specialize (IH s1). destruct (after_steps n s1 (p ++ [ZCall])) as [s2 o2]. cbn [snd] in *.
      rewrite rev_app_distr. destruct (rev o2); [discriminate|]. exact IH.
    + specialize (IH s). destruct (after_steps n s (p ++ [ZCall])) as [s2 o2]. cbn [snd] in *.
      cbn [rev]. destruct (rev o2); [discriminate|]. exact IH.
Qed.

Lemma fired_step sh s st : z_func s = false -> calls (snd (zstep sh s st)) = 0 /\ z_func (fst (zstep sh s st)) = false.
Proof.
  intros H. pose proof (zstep_conserve sh s st) as C. rewrite H in C.
  destruct (z_func (fst (zstep sh s st))); cbn in C; split; try lia; reflexivity.
Qed.

Lemma spec_step gap sh s sp st :
  gap = true \/ evicting sh = false ->
  SInv sh s sp ->
  let expect := is_trigger gap sh sp st && negb (f_fired sp) in
  seg_ok expect (snd (zstep sh s st)) = true /\
  SInv sh (fst (zstep sh s st)) (spec_next sp st (f_fired sp || expect)).
Proof.
  intros Hg [Hf Hu]. destruct (f_fired sp) eqn:Ef.
  - (* already fired *)
    cbn [negb] in Hf. destruct (fired_step sh s st Hf) as [C F].
    rewrite Bool.andb_false_r. cbn [orb]. split.
    + unfold seg_ok. rewrite C. reflexivity.
    + split; [|destruct st as [e|]; cbn; try destruct (f_alive sp); cbn; discriminate].
      rewrite F. destruct st as [e|]; cbn; try destruct (f_alive sp); reflexivity.
  - cbn [negb] in Hf. destruct (Hu eq_refl) as (Hs & Hn & Ht). clear Hu.
    rewrite Bool.andb_true_r. cbn [orb].
    destruct st as [e|].
    + cbn [zstep is_trigger]. rewrite Hs. destruct (f_alive sp) eqn:Ea.
      * cbn [andb spec_next]. rewrite Ea.
        destruct sh as [|n|ev n].
        -- (* plain *)
           cbn [in_gap]. rewrite Bool.andb_false_r. cbn [negb]. rewrite Bool.andb_true_r.
           destruct e; cbn; rewrite ?Hf; cbn; repeat split; auto; try discriminate.
        -- (* take before *)
           cbn [in_gap]. rewrite Bool.andb_false_r. cbn [negb]. rewrite Bool.andb_true_r.
           destruct Ht as [Hta Hh]. destruct e as [v|x|]; cbn [is_term is_next orb andb take_step].
           ++ destruct Hh as [->|[Hh Hlt]].
              ** assert (L : (z_take_hits s <? 0) = false) by (apply Nat.ltb_ge; lia). rewrite L. cbn. unfold SInv; cbn; repeat split; auto.
              ** rewrite Hh. cbn [z_take_hits z_take_alive]. rewrite (proj2 (Nat.ltb_lt _ _) Hlt), Hta.
                 destruct (Nat.eqb_spec (S (f_items sp)) n) as [E|E]; cbn; rewrite ?Hf; cbn.
                 --- repeat split; auto; discriminate.
                 --- unfold SInv; cbn; repeat split; auto. right. split; [reflexivity|lia].
           ++ cbn. rewrite Hta. cbn. rewrite Hf. cbn. repeat split; auto; discriminate.
           ++ cbn. rewrite Hta. cbn. rewrite Hf. cbn. repeat split; auto; discriminate.
        -- (* take after *)
           destruct Ht as [Hta Hh]. rewrite Bool.orb_false_r.
           destruct (is_term e) eqn:Ee.
           ++ (* a terminal *)
              cbn [andb negb z_take_alive]. rewrite Hta, Bool.negb_involutive, (Bool.andb_true_r ev).
              assert (Gp : (gap && in_gap (FTakeAfter ev n) sp) = ev && (0 <? n) && (n <=? f_items sp)).
              { cbn [in_gap]. destruct Hg as [->|He]; [destruct ev; reflexivity|]. cbn in He. destruct ev; [discriminate|].
                cbn. apply Bool.andb_false_r. }
              rewrite Gp. rewrite <- Bool.andb_assoc.
              destruct (ev && ((0 <? n) && (n <=? f_items sp))) eqn:Edrop.
              ** (* dropped unseen *)
                 assert (Hne : is_next e = false) by (destruct e; [discriminate|reflexivity|reflexivity]).
                 cbn. unfold SInv. cbn. rewrite Hne. repeat split; auto.
              ** cbn [negb].
                 set (s0 := {| z_src := false; z_take_alive := _; z_take_hits := z_take_hits s; z_func := z_func s; z_unsub := z_unsub s |}).
                 assert (F0 : z_func s0 = true) by exact Hf.
                 destruct (fin_step_calls s0 e) as [FC FF].
                 assert (FL : last_is_call (snd (fin_step s0 e)) = true).
                 { unfold fin_step. rewrite F0. destruct e; cbn; auto; discriminate. }
                 destruct (fin_step s0 e) as [s1 os]. cbn [fst snd] in *.
                 destruct (after_steps_calls n os s1) as [AC AF]. pose proof (after_steps_last n os s1 FL) as AL.
                 destruct (after_steps n s1 os) as [s2 seg]. cbn [fst snd] in *.
                 rewrite F0, Ee in *. cbn [andb negb] in *.
                 split.
                 --- unfold seg_ok. rewrite AC, FC, AL. reflexivity.
                 --- unfold SInv. cbn. split; [congruence|]. discriminate.
           ++ (* an item *)
              destruct e as [v|x|]; try discriminate. rewrite Bool.andb_false_r. cbn [andb is_term is_next fin_step after_steps].
              pose proof (take_step_func n s (Next v)) as TF. pose proof (take_step_unsub n s (Next v)) as TU.
              pose proof (take_step_src n s (Next v)) as TS.
              assert (TT : let s1 := fst (take_step n s (Next v)) in
                           z_take_alive s1 = negb ((0 <? n) && (n <=? S (f_items sp))) /\ (S (f_items sp) < n -> z_take_hits s1 = S (f_items sp))).
              { unfold take_step.
                destruct (Nat.ltb_spec 0 n) as [Hpos|Hz]; cbn [andb negb] in *.
                - destruct (Nat.leb_spec n (f_items sp)) as [Hge|Hlt]; cbn [negb] in Hta.
                  + rewrite Hta. destruct (z_take_hits s <? n); cbn; rewrite ?Hta; (split; [|lia]);
                      destruct (Nat.leb_spec n (S (f_items sp))); auto; lia.
                  + rewrite Hta, (Hh Hlt), (proj2 (Nat.ltb_lt _ _) Hlt).
                    destruct (Nat.eqb_spec (S (f_items sp)) n) as [E|E]; cbn; (split; [|lia]);
                      destruct (Nat.leb_spec n (S (f_items sp))); auto; lia.
                - assert (n = 0) by lia. subst n. assert (L : (z_take_hits s <? 0) = false) by (apply Nat.ltb_ge; lia). rewrite L.
                  cbn. split; [exact Hta|lia]. }
              destruct (take_step n s (Next v)) as [s1 o1]. cbn [fst snd] in *. rewrite app_nil_r.
              split.
              ** unfold seg_ok, calls. clear. induction o1 as [|o r IH]; [reflexivity|exact IH].
              ** unfold SInv. cbn. split; [congruence|]. intros _. repeat split; try congruence; apply TT.
      * cbn [andb spec_next]. rewrite Ea. cbn. unfold SInv; cbn; repeat split; auto.
    + cbn [zstep is_trigger]. rewrite Hn, Hf. cbn. unfold SInv; cbn; repeat split; auto; discriminate.
Qed.

Lemma sinv1 c sh : SInv sh (zstate1 c) (fspec1 c).
Proof.
  unfold SInv. cbn. split; [reflexivity|]. intros _. destruct sh as [|n|ev n]; repeat split; auto.
  - destruct n; [left; reflexivity|right; split; [reflexivity|lia]].
  - destruct n; reflexivity.
Qed.

Lemma sinv0 sh : SInv sh zstate0 fspec0.
Proof. exact (sinv1 true sh). Qed.

(* on unsubscription the input is disconnected before the callback runs *)
Lemma unsub_disconnects sh s : z_src (fst (zstep sh s ZUnsub)) = false \/ z_unsub s = true.
Proof. cbn [zstep]. destruct (z_unsub s); [right; reflexivity|left; reflexivity]. Qed.

Theorem finalize_meets_spec gap sh : gap = true \/ evicting sh = false ->
  forall sts s sp, SInv sh s sp -> fin_ok gap sh sp sts (zrun_segs sh s sts) = 0.
Proof.
  intros Hg. induction sts as [|st r IH]; intros s sp I; [reflexivity|].
  cbn [zrun_segs]. destruct (spec_step gap sh s sp st Hg I) as [Hok Hinv].
  destruct (zstep sh s st) as [s1 o]. cbn [fst snd] in *. cbn [fin_ok]. rewrite Hok. apply IH, Hinv.
Qed.

(* the full statement fails where a subject evicts the operator's observer because a take
   downstream has finished: the subject's terminal is not followed by the callback *)
Theorem finalize_downstream_finished_refuted :
  exists sts, fin_ok false (FTakeAfter true 1) fspec0 sts (zrun_segs (FTakeAfter true 1) zstate0 sts) = 1.
Proof. exists [ZSrc (Next (VZ 1)); ZSrc Done]. vm_compute. reflexivity. Qed.

Lemma zrun_segs_concat sh : forall sts s, concat (zrun_segs sh s sts) = zrun sh s sts.
Proof.
  induction sts as [|st r IH]; intros s; [reflexivity|]. cbn [zrun_segs zrun].
  destruct (zstep sh s st) as [s1 o]. cbn [concat]. rewrite IH. reflexivity.
Qed.

(* ---------- the racing form (finalize_threads) at the granularity of the shared cell ----------
   Every thread that reaches a trigger runs `cell.lock().take()` and calls what it got.  With the
   take atomic (it happens under the Mutex of MutArc), any interleaving of any number of threads
   doing any number of takes calls the function exactly once, in the first take. *)
Lemma rcalls_cons x l : rcalls (x :: l) = (match x with Some _ => 1 | None => 0 end) + rcalls l.
Proof. unfold rcalls. cbn. destruct x; reflexivity. Qed.

Lemma rrun_empty : forall sched, rcalls (rrun false sched) = 0.
Proof. induction sched as [|[t|t] r IH]; cbn [rrun]; rewrite ?rcalls_cons; auto. Qed.

Theorem race_once : forall a t b,
  (forall t', ~ In (RTake t') a) ->
  rcalls (rrun true (a ++ RTake t :: b)) = 1 /\
  nth_error (rrun true (a ++ RTake t :: b)) (length a) = Some (Some t).
Proof.
  induction a as [|x a IH]; intros t b Hn.
  - cbn [app rrun length nth_error]. rewrite rcalls_cons, rrun_empty. auto.
  - destruct x as [t'|t']; [exfalso; apply (Hn t'); left; reflexivity|].
    cbn [app rrun length nth_error]. rewrite rcalls_cons. apply IH. intros t'' Hin. apply (Hn t''). right. exact Hin.
Qed.

Theorem race_at_most_once : forall sched cell, rcalls (rrun cell sched) <= 1.
Proof.
  induction sched as [|[t|t] r IH]; intros cell; cbn [rrun]; rewrite ?rcalls_cons; [cbn; lia| |apply IH].
  destruct cell; [rewrite rrun_empty; lia|apply IH].
Qed.
