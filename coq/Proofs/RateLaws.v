(* C09: the rate-limiting operators (debounce, throttle) never invent, duplicate or reorder
   items, and flush the pending item before a completion, for every label sequence. *)
From RxModel Require Import Timed.
From RxSpec Require Import TimedSpec.
From RxProofs Require Import ValEq TimedLaws.
Open Scope N_scope.

(* ---------- sub-sequences ---------- *)

Lemma is_subseq_nil b : is_subseq [] b = true.
Proof. destruct b; reflexivity. Qed.

Lemma is_subseq_refl a : is_subseq a a = true.
Proof. induction a as [|x a IH]; cbn; [reflexivity|]. rewrite val_eqb_refl. exact IH. Qed.

Lemma is_subseq_app_r : forall b a c, is_subseq a b = true -> is_subseq a (b ++ c) = true.
Proof.
  induction b as [|y b IH]; intros a c H.
  - destruct a; [apply is_subseq_nil|discriminate].
  - destruct a as [|x a]; [reflexivity|]. cbn in *. destruct (val_eqb x y); auto.
Qed.

Lemma is_subseq_single_last b v : is_subseq [v] (b ++ [v]) = true.
Proof.
  induction b as [|y b IH]; cbn; [rewrite val_eqb_refl; reflexivity|].
  destruct (val_eqb v y); [apply is_subseq_nil|exact IH].
Qed.

Lemma is_subseq_snoc : forall b a v, is_subseq a b = true -> is_subseq (a ++ [v]) (b ++ [v]) = true.
Proof.
  induction b as [|y b IH]; intros a v H.
  - destruct a; [cbn; rewrite val_eqb_refl; reflexivity|discriminate].
  - destruct a as [|x a].
    + apply (is_subseq_single_last (y :: b)).
    + cbn in *. destruct (val_eqb x y); [apply IH; exact H|apply (IH (x :: a)); exact H].
Qed.

(* the last delivered item is the last accepted item (vacuous when nothing was accepted) *)
Definition last_match (acc src : list val) : bool :=
  match rev src, rev acc with
  | [], _ => true
  | v :: _, x :: _ => val_eqb x v
  | _ :: _, [] => false
  end.

Lemma last_match_snoc a b v : last_match (a ++ [v]) (b ++ [v]) = true.
Proof. unfold last_match. rewrite !rev_app_distr. cbn. apply val_eqb_refl. Qed.

(* ---------- simulation with the final walking state and a completion flag ---------- *)

Lemma completed_out_app a b : completed_out (a ++ b) = completed_out a || completed_out b.
Proof. apply existsb_app. Qed.

Lemma completed_out_mark j a : completed_out (TMark j :: a) = completed_out a.
Proof. reflexivity. Qed.

Lemma run_sim_ghost {St} (step : list tlab -> St -> tout -> option St) (o : top) (R : bool -> tsys -> St -> Prop) :
  (forall ls_full done l r s w c, ls_full = done ++ l :: r -> R c s w ->
      exists w', walk (step ls_full) w (TMark (length done) :: snd (tstep o s l)) = Some w' /\
                 R (c || completed_out (snd (tstep o s l))) (fst (tstep o s l)) w') ->
  forall r done s w c ls_full,
    ls_full = done ++ r -> R c s w ->
    exists w' s', walk (step ls_full) w (trun_sys o s (length done) r) = Some w' /\
                  R (c || completed_out (trun_sys o s (length done) r)) s' w'.
Proof.
  intros H r. induction r as [|l r IH]; intros done s w c ls_full E HR.
  - exists w, s. split; [reflexivity|]. cbn. rewrite Bool.orb_false_r. exact HR.
  - cbn [trun_sys]. destruct (H ls_full done l r s w c E HR) as (w1 & Hw & HR1).
    destruct (tstep o s l) as [s1 out]. cbn [fst snd] in *.
    rewrite completed_out_mark, completed_out_app, Bool.orb_assoc.
    change (TMark (length done) :: out ++ trun_sys o s1 (S (length done)) r)
      with ((TMark (length done) :: out) ++ trun_sys o s1 (S (length done)) r).
    rewrite walk_app, Hw.
    replace (S (length done)) with (length (done ++ [l])) by (rewrite app_length; cbn; lia).
    apply IH; [rewrite <- app_assoc; exact E|exact HR1].
Qed.

(* ---------- the walking state ---------- *)

Lemma collect_next ls w acc v t :
  w_finished w = false -> w_unsub w = false -> t = w_now w ->
  collect_step ls (w, acc) (TOut t (Next v)) = Some (w, acc ++ [v]).
Proof. intros Hf Hu ->. cbn [collect_step]. rewrite Hf, Hu, N.eqb_refl. reflexivity. Qed.

Lemma collect_term ls w acc e t :
  is_term e = true -> w_finished w = false -> w_unsub w = false -> t = w_now w ->
  collect_step ls (w, acc) (TOut t e) = Some (w_deliver w 0 e, acc).
Proof.
  intros He Hf Hu ->. cbn [collect_step]. rewrite Hf, Hu, N.eqb_refl. cbn [negb andb].
  destruct e; [discriminate|reflexivity|reflexivity].
Qed.

Lemma src_items_app l e t :
  flat_map (fun p : ev * N => match fst p with Next v => [v] | _ => [] end) (l ++ [(e, t)]) =
  flat_map (fun p : ev * N => match fst p with Next v => [v] | _ => [] end) l ++ match e with Next v => [v] | _ => [] end.
Proof. rewrite flat_map_app. cbn. rewrite app_nil_r. reflexivity. Qed.

(* the walking state after the mark of an input label *)
Lemma w_label_src w e :
  let w' := w_label w (Some (LSrc e)) in
  w_now w' = w_now w /\ w_unsub w' = w_unsub w /\ w_finished w' = w_finished w /\
  w_subscribed w' = w_subscribed w /\ w_src_done w' = (w_src_done w || is_term e) /\
  w_src w' = if negb (w_src_done w) && (w_subscribed w && negb (w_unsub w)) then w_src w ++ [(e, w_now w)] else w_src w.
Proof. cbn [w_label]. destruct (w_src_done w); cbn; repeat split; reflexivity. Qed.

(* labels that only move the cursor *)
Definition plain_label (l : tlab) : Prop :=
  match l with LSrc _ | LAdv _ | LUnsub => False | _ => True end.

Lemma w_label_plain w l :
  plain_label l ->
  let w' := w_label w (Some l) in
  w_now w' = w_now w /\ w_unsub w' = w_unsub w /\ w_finished w' = w_finished w /\
  w_subscribed w' = w_subscribed w /\ w_src_done w' = w_src_done w /\ w_src w' = w_src w.
Proof. destruct l; cbn; try contradiction; intros _; repeat split; reflexivity. Qed.

(* ---------- the relation between the system and the walk ---------- *)

Definition rate_op (o : top) : Prop :=
  match o with TDebounce _ | TThrottle _ _ => True | _ => False end.

(* the operators that flush the pending item before a completion *)
Definition has_final (o : top) : bool :=
  match o with
  | TDebounce _ => true
  | TThrottle _ ELeading => false
  | TThrottle _ _ => true
  | _ => false
  end.

(* throttle: no window is open *)
Definition hclosed (s : tsys) : bool :=
  match handler s with Some h => task_finished s h | None => true end.

(* debounce: every window task but the current one is cancelled or finished *)
Definition others_quiet (s : tsys) : Prop :=
  forall i tk, nth_error (tasks s) i = Some tk -> handler s = Some i \/ status_quiet tk.

Record RR (o : top) (c : bool) (s : tsys) (w : wstate) (acc : list val) : Prop := {
  rr_now : w_now w = now s;
  rr_subd : w_subscribed w = true;
  rr_done : w_src_done w = src_done s;
  rr_on : src_on s = negb (src_done s) && negb (w_unsub w);
  rr_fin : w_finished w = true -> alive s = false;
  rr_jobs : Forall (fun j => j = JTrailing) (jobs s);
  rr_unsub : w_unsub w = true -> match o with TDebounce _ => handler s = None | _ => alive s = false end;
  rr_quiet : match o with TDebounce _ => others_quiet s | _ => True end;
  rr_val : match o with TThrottle _ _ => hclosed s = true -> trailing s = None | _ => True end;
  rr_lead : match o with TThrottle _ ELeading => trailing s = None | _ => True end;
  rr_sub : is_subseq acc (src_items w) = true;
  rr_trail : forall v, trailing s = Some v -> exists pre, src_items w = pre ++ [v] /\ is_subseq acc pre = true;
  rr_last : has_final o = true -> alive s = true -> trailing s = None -> last_match acc (src_items w) = true;
  rr_comp : c = true -> src_done s = true /\ w_finished w = true /\
                        (has_final o = true -> last_match acc (src_items w) = true)
}.

(* a step that changes nothing the relation reads, but possibly the clock *)
Lemma rr_same o c s s' w w' acc :
  RR o c s w acc ->
  w_now w' = now s' -> w_src w' = w_src w -> w_src_done w' = w_src_done w -> w_unsub w' = w_unsub w ->
  w_finished w' = w_finished w -> w_subscribed w' = w_subscribed w ->
  tasks s' = tasks s -> jobs s' = jobs s -> alive s' = alive s -> src_on s' = src_on s -> src_done s' = src_done s ->
  trailing s' = trailing s -> handler s' = handler s ->
  RR o c s' w' acc.
Proof.
  intros [R1 R2 R3 R4 R5 R6 R7 R8 R9 R10 R11 R12 R13 R14] W1 W2 W3 W4 W5 W6 S1 S2 S3 S4 S5 S6 S7.
  assert (Hi : src_items w' = src_items w) by (unfold src_items; rewrite W2; reflexivity).
  assert (Hc : hclosed s' = hclosed s) by (unfold hclosed, task_finished; rewrite S7, S1; reflexivity).
  constructor; rewrite ?Hi, ?Hc, ?W3, ?W4, ?W5, ?W6, ?S2, ?S3, ?S4, ?S5, ?S6, ?S7; auto.
  destruct o; auto. unfold others_quiet in *. rewrite S1, S7. exact R8.
Qed.

(* ---------- labels that do not reach the operator ---------- *)

Definition idle_label (l : tlab) : Prop :=
  match l with LSrc _ | LRun _ | LAdv _ | LUnsub => False | _ => True end.

Definition sim_goal (o : top) (ls : list tlab) (c : bool) (s : tsys) (w : wstate) (acc : list val) (l : tlab) : Prop :=
  exists wa', walk (collect_step ls) (w_label w (Some l), acc) (snd (tstep o s l)) = Some wa' /\
              RR o (c || completed_out (snd (tstep o s l))) (fst (tstep o s l)) (fst wa') (snd wa').

Lemma sim_idle o ls c s w acc l :
  rate_op o -> idle_label l -> RR o c s w acc -> sim_goal o ls c s w acc l.
Proof.
  intros Ho Hl HR. unfold sim_goal.
  destruct l; try contradiction; destruct o; try contradiction;
    cbn [tstep fst snd walk collect_step completed_out existsb]; rewrite ?Bool.orb_false_r;
    (eexists; split; [reflexivity|]); cbn [fst snd];
    apply (rr_same _ _ s _ w _ _ HR); try reflexivity; cbn; apply (rr_now _ _ _ _ _ HR).
Qed.

Lemma sim_adv o ls c s w acc dt :
  RR o c s w acc -> sim_goal o ls c s w acc (LAdv dt).
Proof.
  intros HR. unfold sim_goal. cbn [tstep fst snd walk completed_out existsb]. rewrite Bool.orb_false_r.
  eexists. split; [reflexivity|]. cbn [fst snd].
  apply (rr_same _ _ s _ w _ _ HR); try reflexivity. cbn. rewrite (rr_now _ _ _ _ _ HR). reflexivity.
Qed.

(* ---------- cancelling ---------- *)

Lemma cancel_task_fields s t :
  now (cancel_task s t) = now s /\ jobs (cancel_task s t) = jobs s /\ alive (cancel_task s t) = alive s /\
  src_on (cancel_task s t) = src_on s /\ src_done (cancel_task s t) = src_done s /\
  trailing (cancel_task s t) = trailing s /\ handler (cancel_task s t) = handler s.
Proof. unfold cancel_task. destruct (nth_error (tasks s) t); cbn; repeat split; reflexivity. Qed.

Definition all_quiet (s : tsys) : Prop :=
  forall i tk, nth_error (tasks s) i = Some tk -> status_quiet tk.

(* cancelling the current window leaves no task that can still run *)
Lemma cancel_handler_quiet s h :
  others_quiet s -> handler s = Some h -> all_quiet (cancel_task s h).
Proof.
  intros Hq Hh i tk Hi.
  pose proof (cancel_task_shape s h) as (_ & _ & _ & _ & _ & _ & _ & C8 & C9).
  destruct (Nat.eq_dec i h) as [->|Hne].
  - destruct (nth_error (tasks s) h) as [tk0|] eqn:Et.
    + rewrite (C9 tk0 eq_refl) in Hi. inversion Hi; subst tk. right. reflexivity.
    + unfold cancel_task in Hi. rewrite Et in Hi. congruence.
  - rewrite (C8 i Hne) in Hi. destruct (Hq i tk Hi) as [E|Q]; [congruence|exact Q].
Qed.

Lemma no_handler_quiet s : others_quiet s -> handler s = None -> all_quiet s.
Proof. intros Hq Hh i tk Hi. destruct (Hq i tk Hi) as [E|Q]; [congruence|exact Q]. Qed.

(* cancelling the current window task cannot close the window *)
Lemma hclosed_cancel s h : handler s = Some h -> hclosed (cancel_task s h) = true -> hclosed s = true.
Proof.
  intros Hh. unfold hclosed. destruct (cancel_task_fields s h) as (_ & _ & _ & _ & _ & _ & F7).
  rewrite F7, Hh. unfold task_finished.
  pose proof (cancel_task_shape s h) as (_ & _ & _ & _ & _ & _ & _ & _ & C9).
  destruct (nth_error (tasks s) h) as [tk0|] eqn:Et.
  - rewrite (C9 tk0 eq_refl). cbn. discriminate.
  - unfold cancel_task. rewrite Et. rewrite Et. auto.
Qed.

(* ---------- unsubscribe ---------- *)

Lemma sim_unsub o ls c s w acc :
  rate_op o -> RR o c s w acc -> sim_goal o ls c s w acc LUnsub.
Proof.
  intros Ho HR. unfold sim_goal. pose proof HR as [R1 R2 R3 R4 R5 R6 R7 R8 R9 R10 R11 R12 R13 R14].
  destruct o; try contradiction; cbn [tstep on_unsub].
  - (* debounce *)
    cbn [upd_src handler].
    destruct (handler s) as [h|] eqn:Eh; cbn [fst snd walk completed_out existsb]; rewrite Bool.orb_false_r;
      (eexists; split; [reflexivity|]); cbn [fst snd].
    + set (s1 := upd_src s false (src_done s)).
      destruct (cancel_task_fields s1 h) as (F1 & F2 & F3 & F4 & F5 & F6 & F7).
      assert (Hq1 : others_quiet s1) by exact R8.
      pose proof (cancel_handler_quiet s1 h Hq1 Eh) as Hq.
      constructor; cbn [upd_handler now jobs alive src_on src_done trailing handler tasks w_label
                        w_now w_subscribed w_src_done w_unsub w_finished];
        rewrite ?F1, ?F2, ?F3, ?F4, ?F5, ?F6; cbn [s1 upd_src now jobs alive src_on src_done trailing]; auto.
      * rewrite Bool.andb_false_r. reflexivity.
      * intros i tk Hi. right. apply (Hq i tk Hi).
    + constructor; cbn [upd_src now jobs alive src_on src_done trailing handler tasks w_label
                        w_now w_subscribed w_src_done w_unsub w_finished]; auto.
      rewrite Bool.andb_false_r. reflexivity.
  - (* throttle *)
    cbn [fst snd walk completed_out existsb]. rewrite Bool.orb_false_r.
    eexists. split; [reflexivity|]. cbn [fst snd].
    constructor; cbn [upd_src upd_alive now jobs alive src_on src_done trailing handler tasks w_label
                      w_now w_subscribed w_src_done w_unsub w_finished]; auto.
    + rewrite Bool.andb_false_r. reflexivity.
    + intros _ Hd. discriminate.
Qed.

(* ---------- the input emits while the operator is not connected ---------- *)

Lemma rr_same_src o c s s' w w' acc :
  RR o c s w acc ->
  w_now w' = now s' -> w_src w' = w_src w -> w_unsub w' = w_unsub w ->
  w_finished w' = w_finished w -> w_subscribed w' = w_subscribed w ->
  tasks s' = tasks s -> jobs s' = jobs s -> alive s' = alive s ->
  trailing s' = trailing s -> handler s' = handler s ->
  w_src_done w' = src_done s' -> src_on s' = negb (src_done s') && negb (w_unsub w') ->
  (src_done s = true -> src_done s' = true) ->
  RR o c s' w' acc.
Proof.
  intros [R1 R2 R3 R4 R5 R6 R7 R8 R9 R10 R11 R12 R13 R14] W1 W2 W4 W5 W6 S1 S2 S3 S6 S7 D1 D2 D3.
  assert (Hi : src_items w' = src_items w) by (unfold src_items; rewrite W2; reflexivity).
  assert (Hc : hclosed s' = hclosed s) by (unfold hclosed, task_finished; rewrite S7, S1; reflexivity).
  constructor; rewrite ?Hi, ?Hc, ?W5, ?W6, ?S2, ?S3, ?S6, ?S7; auto.
  - rewrite W4. exact R7.
  - destruct o; auto. unfold others_quiet in *. rewrite S1, S7. exact R8.
  - intros Hcc. destruct (R14 Hcc) as (A & B & C). auto.
Qed.

Lemma sim_src_off o ls c s w acc e :
  RR o c s w acc -> (src_done s = true \/ src_on s = false) -> sim_goal o ls c s w acc (LSrc e).
Proof.
  intros HR Hoff. unfold sim_goal. pose proof HR as [R1 R2 R3 R4 R5 R6 R7 R8 R9 R10 R11 R12 R13 R14].
  destruct (w_label_src w e) as (L1 & L2 & L3 & L4 & L5 & L6).
  cbn [tstep]. destruct (src_done s) eqn:Ed.
  - cbn [fst snd walk completed_out existsb]. rewrite Bool.orb_false_r.
    eexists. split; [reflexivity|]. cbn [fst snd].
    assert (W2 : w_src (w_label w (Some (LSrc e))) = w_src w) by (rewrite L6, R3; reflexivity).
    assert (D1 : w_src_done (w_label w (Some (LSrc e))) = src_done s) by (rewrite L5, R3, Ed; reflexivity).
    assert (D2 : src_on s = negb (src_done s) && negb (w_unsub (w_label w (Some (LSrc e)))))
      by (rewrite L2, Ed; exact R4).
    apply (rr_same_src _ _ s s w _ _ HR); auto; congruence.
  - destruct Hoff as [Hoff|Hoff]; [discriminate|]. rewrite Hoff.
    assert (Hu : w_unsub w = true).
    { rewrite Hoff in R4. cbn in R4. destruct (w_unsub w); [reflexivity|discriminate]. }
    cbn [fst snd walk completed_out existsb]. rewrite Bool.orb_false_r.
    eexists. split; [reflexivity|]. cbn [fst snd].
    assert (W2 : w_src (w_label w (Some (LSrc e))) = w_src w) by (rewrite L6, R3, R2, Hu; reflexivity).
    set (s' := if is_term e then upd_src s false true else s).
    assert (D1 : w_src_done (w_label w (Some (LSrc e))) = src_done s').
    { rewrite L5, R3. unfold s'. destruct (is_term e); cbn; auto. }
    assert (D2 : src_on s' = negb (src_done s') && negb (w_unsub (w_label w (Some (LSrc e))))).
    { rewrite L2, Hu, Bool.andb_false_r. unfold s'. destruct (is_term e); cbn; auto. }
    assert (W1 : w_now (w_label w (Some (LSrc e))) = now s').
    { rewrite L1, R1. unfold s'. destruct (is_term e); reflexivity. }
    apply (rr_same_src _ _ s s' w _ _ HR W1 W2 L2 L3 L4); auto;
      unfold s'; destruct (is_term e); cbn [upd_src tasks jobs alive trailing handler src_done]; auto; congruence.
Qed.

(* ---------- the input emits while the operator is connected ---------- *)

Lemma connected_not_unsub o c s w acc :
  RR o c s w acc -> src_on s = true -> w_unsub w = false /\ src_done s = false.
Proof.
  intros HR Hon. pose proof (rr_on _ _ _ _ _ HR) as R4. rewrite Hon in R4.
  destruct (src_done s); [discriminate|]. destruct (w_unsub w); [discriminate|]. auto.
Qed.

Lemma walk_slot_next ls w acc s v :
  w_now w = now s -> (w_finished w = true -> alive s = false) -> w_unsub w = false ->
  walk (collect_step ls) (w, acc) (snd (slot_next s v)) = Some (w, if alive s then acc ++ [v] else acc).
Proof.
  intros Hn Hf Hu. unfold slot_next. cbn [snd]. destruct (alive s) eqn:Ea; [|reflexivity].
  cbn [walk]. rewrite (collect_next ls w acc v (now s)); auto.
  destruct (w_finished w); [discriminate (Hf eq_refl)|reflexivity].
Qed.

(* an accepted item: stashed as the pending item, delivered at once, or dropped (leading edge only) *)
Lemma rr_accept o c s s' w w' acc acc' v :
  RR o c s w acc -> src_done s = false ->
  w_now w' = w_now w -> w_unsub w' = w_unsub w -> w_finished w' = w_finished w -> w_subscribed w' = w_subscribed w ->
  w_src_done w' = false -> src_items w' = src_items w ++ [v] ->
  now s' = now s -> alive s' = alive s -> src_on s' = src_on s -> src_done s' = src_done s ->
  Forall (fun j => j = JTrailing) (jobs s') ->
  (w_unsub w = false -> match o with TDebounce _ => others_quiet s' | _ => True end) ->
  match o with TThrottle _ _ => hclosed s' = true -> trailing s' = None | _ => True end ->
  match o with TThrottle _ ELeading => trailing s' = None | _ => True end ->
  ((trailing s' = Some v /\ acc' = acc) \/
   (trailing s' = None /\ acc' = if alive s then acc ++ [v] else acc) \/
   (trailing s' = None /\ acc' = acc /\ has_final o = false)) ->
  w_unsub w = false ->
  RR o c s' w' acc'.
Proof.
  intros [R1 R2 R3 R4 R5 R6 R7 R8 R9 R10 R11 R12 R13 R14] Hd W1 W2 W3 W4 W5 W6 S1 S2 S3 S4 J Q V L K Hu.
  constructor.
  - congruence.
  - congruence.
  - congruence.
  - rewrite S3, S4, W2. exact R4.
  - rewrite W3, S2. exact R5.
  - exact J.
  - rewrite W2. intros Hu'. congruence.
  - apply Q, Hu.
  - exact V.
  - exact L.
  - rewrite W6. destruct K as [[K1 ->]|[[K1 ->]|(K1 & -> & K3)]].
    + apply is_subseq_app_r, R11.
    + destruct (alive s); [apply is_subseq_snoc, R11|apply is_subseq_app_r, R11].
    + apply is_subseq_app_r, R11.
  - rewrite W6. intros v' Hv'. destruct K as [[K1 ->]|[[K1 ->]|(K1 & -> & K3)]]; try congruence.
    rewrite K1 in Hv'. inversion Hv'; subst v'. exists (src_items w). split; [reflexivity|exact R11].
  - rewrite W6, S2. intros Hf Ha Ht. destruct K as [[K1 ->]|[[K1 ->]|(K1 & -> & K3)]]; try congruence.
    rewrite Ha. apply last_match_snoc.
  - intros Hc. destruct (R14 Hc) as (A & _). congruence.
Qed.

Lemma others_quiet_new (ts : list task) (new : task) :
  (forall i tk, nth_error ts i = Some tk -> status_quiet tk) ->
  forall i tk, nth_error (ts ++ [new]) i = Some tk -> Some (length ts) = Some i \/ status_quiet tk.
Proof.
  intros Hq i tk Hi. destruct (Nat.lt_ge_cases i (length ts)) as [Hlt|Hge].
  - right. rewrite nth_error_app1 in Hi by exact Hlt. apply (Hq i tk Hi).
  - rewrite nth_error_app2 in Hi by exact Hge. destruct (i - length ts)%nat as [|k] eqn:Ek.
    + left. f_equal. lia.
    + cbn in Hi. destruct k; discriminate.
Qed.

Lemma deb_next d s v :
  let r := on_src (TDebounce d) s (Next v) in
  snd r = [] /\ now (fst r) = now s /\ alive (fst r) = alive s /\ src_on (fst r) = src_on s /\
  src_done (fst r) = src_done s /\ trailing (fst r) = Some v /\ jobs (fst r) = jobs s ++ [JTrailing] /\
  (others_quiet s -> others_quiet (fst r)).
Proof.
  cbn [on_src]. cbn [upd_trailing handler].
  destruct (handler s) as [h|] eqn:Eh.
  - set (s1 := upd_trailing s (Some v)).
    destruct (cancel_task_fields s1 h) as (F1 & F2 & F3 & F4 & F5 & F6 & F7).
    cbn [schedule upd_handler fst snd now alive src_on src_done trailing jobs tasks handler].
    rewrite F1, F2, F3, F4, F5. repeat split; auto.
    intros Hq. assert (Hq1 : others_quiet s1) by exact Hq.
    pose proof (cancel_handler_quiet s1 h Hq1 Eh) as Ha.
    unfold others_quiet. cbn [tasks handler]. apply others_quiet_new. exact Ha.
  - cbn [schedule upd_handler upd_trailing fst snd now alive src_on src_done trailing jobs tasks handler].
    repeat split; auto.
    intros Hq. pose proof (no_handler_quiet s Hq Eh) as Ha.
    unfold others_quiet. cbn [tasks handler]. apply others_quiet_new. exact Ha.
Qed.

Lemma nth_error_app_last' {A} (l : list A) x : nth_error (l ++ [x]) (length l) = Some x.
Proof. induction l; cbn; auto. Qed.

(* throttle: after an accepted item a window is open *)
Lemma thr_next d ed s v :
  let r := on_src (TThrottle d ed) s (Next v) in
  now (fst r) = now s /\ alive (fst r) = alive s /\ src_on (fst r) = src_on s /\ src_done (fst r) = src_done s /\
  (Forall (fun j => j = JTrailing) (jobs s) -> Forall (fun j => j = JTrailing) (jobs (fst r))) /\
  hclosed (fst r) = false /\
  (if hclosed s
   then match ed with
        | ETailing => trailing (fst r) = Some v /\ snd r = []
        | _ => trailing (fst r) = trailing s /\ snd r = snd (slot_next s v)
        end
   else match ed with
        | ELeading => trailing (fst r) = trailing s
        | _ => trailing (fst r) = Some v
        end /\ snd r = []).
Proof.
  cbn [on_src]. fold (hclosed s). destruct (hclosed s) eqn:Ec.
  - assert (Hnew : forall s2, hclosed (upd_handler (fst (schedule s2 BOnce JTrailing (Some d))) (Some (length (tasks s2)))) = false).
    { intros s2. unfold hclosed, task_finished. cbn [schedule fst upd_handler handler tasks].
      rewrite nth_error_app_last'. reflexivity. }
    destruct ed; unfold slot_next; cbn [schedule upd_handler upd_trailing fst snd now alive src_on src_done trailing jobs tasks handler];
      (repeat split; auto; [intros HJ; apply Forall_app; split; [exact HJ|constructor; auto]|]).
    + apply (Hnew s).
    + apply (Hnew (upd_trailing s (Some v))).
    + apply (Hnew s).
  - destruct ed; cbn [upd_trailing fst snd now alive src_on src_done trailing jobs tasks handler]; repeat split; auto.
Qed.

Lemma sim_src_next o ls c s w acc v :
  rate_op o -> RR o c s w acc -> src_on s = true -> sim_goal o ls c s w acc (LSrc (Next v)).
Proof.
  intros Ho HR Hon. destruct (connected_not_unsub _ _ _ _ _ HR Hon) as [Hu Hd].
  pose proof HR as [R1 R2 R3 R4 R5 R6 R7 R8 R9 R10 R11 R12 R13 R14].
  unfold sim_goal. cbn [tstep]. rewrite Hd, Hon. cbn [is_term].
  destruct (w_label_src w (Next v)) as (L1 & L2 & L3 & L4 & L5 & L6).
  set (w' := w_label w (Some (LSrc (Next v)))) in *.
  assert (W5 : w_src_done w' = false) by (rewrite L5, R3, Hd; reflexivity).
  assert (W6 : src_items w' = src_items w ++ [v]).
  { unfold src_items. rewrite L6, R3, Hd, R2, Hu. cbn [negb andb]. apply src_items_app. }
  destruct o as [| | | |d|d e| | | | | |]; try contradiction.
  - (* debounce *)
    destruct (deb_next d s v) as (D0 & D1 & D2 & D3 & D4 & D5 & D6 & D7).
    rewrite D0. cbn [walk completed_out existsb]. rewrite Bool.orb_false_r.
    eexists. split; [reflexivity|]. cbn [fst snd].
    assert (J : Forall (fun j => j = JTrailing) (jobs (fst (on_src (TDebounce d) s (Next v))))).
    { rewrite D6. apply Forall_app. split; [exact R6|constructor; auto]. }
    refine (rr_accept _ _ s _ w w' acc acc v HR Hd L1 L2 L3 L4 W5 W6 D1 D2 D3 D4 J _ I I _ Hu).
    + intros _. apply D7. exact R8.
    + left. split; [exact D5|reflexivity].
  - (* throttle *)
    destruct (thr_next d e s v) as (T1 & T2 & T3 & T4 & T5 & T6 & T7).
    set (s' := fst (on_src (TThrottle d e) s (Next v))) in *.
    assert (V : hclosed s' = true -> trailing s' = None) by (rewrite T6; discriminate).
    assert (J : Forall (fun j => j = JTrailing) (jobs s')) by (apply T5, R6).
    assert (Q : w_unsub w = false -> True) by auto.
    assert (Hw : w_now w' = now s) by congruence.
    assert (Hf : w_finished w' = true -> alive s = false) by (rewrite L3; exact R5).
    assert (Hu' : w_unsub w' = false) by congruence.
    pose proof (walk_slot_next ls w' acc s v Hw Hf Hu') as WS.
    assert (CO : completed_out (snd (slot_next s v)) = false) by (unfold slot_next; cbn; destruct (alive s); reflexivity).
    destruct (hclosed s) eqn:Ec.
    + (* no window was open *)
      destruct e.
      * destruct T7 as [T7 T8]. rewrite T8, WS, CO, Bool.orb_false_r. eexists. split; [reflexivity|]. cbn [fst snd].
        assert (L : trailing s' = None) by (rewrite T7; exact R10).
        refine (rr_accept _ _ s _ w w' acc _ v HR Hd L1 L2 L3 L4 W5 W6 T1 T2 T3 T4 J Q V L _ Hu).
        right. left. split; [exact L|reflexivity].
      * destruct T7 as [T7 T8]. rewrite T8. cbn [walk completed_out existsb]. rewrite Bool.orb_false_r.
        eexists. split; [reflexivity|]. cbn [fst snd].
        refine (rr_accept _ _ s _ w w' acc _ v HR Hd L1 L2 L3 L4 W5 W6 T1 T2 T3 T4 J Q V I _ Hu).
        left. split; [exact T7|reflexivity].
      * destruct T7 as [T7 T8]. rewrite T8, WS, CO, Bool.orb_false_r. eexists. split; [reflexivity|]. cbn [fst snd].
        refine (rr_accept _ _ s _ w w' acc _ v HR Hd L1 L2 L3 L4 W5 W6 T1 T2 T3 T4 J Q V I _ Hu).
        right. left. split; [rewrite T7; apply R9; reflexivity|reflexivity].
    + (* inside a window *)
      destruct T7 as [T7 T8]. rewrite T8. cbn [walk completed_out existsb]. rewrite Bool.orb_false_r.
      eexists. split; [reflexivity|]. cbn [fst snd].
      destruct e.
      * assert (L : trailing s' = None) by (rewrite T7; exact R10).
        refine (rr_accept _ _ s _ w w' acc _ v HR Hd L1 L2 L3 L4 W5 W6 T1 T2 T3 T4 J Q V L _ Hu).
        right. right. split; [exact L|split; reflexivity].
      * refine (rr_accept _ _ s _ w w' acc _ v HR Hd L1 L2 L3 L4 W5 W6 T1 T2 T3 T4 J Q V I _ Hu).
        left. split; [exact T7|reflexivity].
      * refine (rr_accept _ _ s _ w w' acc _ v HR Hd L1 L2 L3 L4 W5 W6 T1 T2 T3 T4 J Q V I _ Hu).
        left. split; [exact T7|reflexivity].
Qed.

(* ---- the input terminates ---- *)

(* what a completion sends downstream: the pending item, then the completion *)
Definition flush_out (s : tsys) : list tout :=
  match trailing s with
  | Some v => if alive s then [TOut (now s) (Next v)] else []
  | None => []
  end ++ (if alive s then [TOut (now s) Done] else []).

Lemma deb_done d s :
  let r := on_src (TDebounce d) s Done in
  snd r = flush_out s /\ now (fst r) = now s /\ jobs (fst r) = jobs s /\ alive (fst r) = false /\
  src_on (fst r) = src_on s /\ src_done (fst r) = src_done s /\ trailing (fst r) = None /\
  tasks (fst r) = tasks s /\ handler (fst r) = handler s.
Proof.
  cbn [on_src]. unfold flush_out, slot_next, slot_term.
  destruct (trailing s) as [v|] eqn:Et; cbn [upd_trailing alive now]; destruct (alive s) eqn:Ea;
    cbn [fst snd app upd_alive upd_trailing now jobs alive src_on src_done trailing tasks handler];
    rewrite ?Et, ?Ea; repeat split; reflexivity.
Qed.

Lemma thr_done d ed s :
  let r := on_src (TThrottle d ed) s Done in
  snd r = flush_out s /\ now (fst r) = now s /\ jobs (fst r) = jobs s /\ alive (fst r) = false /\
  src_on (fst r) = src_on s /\ src_done (fst r) = src_done s /\ trailing (fst r) = None.
Proof.
  cbn [on_src]. unfold flush_out, slot_next, slot_term.
  destruct (trailing s) as [v|] eqn:Et; cbn [upd_trailing handler];
    (destruct (handler s) as [h|] eqn:Eh;
     [match goal with |- context [cancel_task ?s0 h] =>
        destruct (cancel_task_fields s0 h) as (F1 & F2 & F3 & F4 & F5 & F6 & F7) end;
      rewrite F3
     |]);
    cbn [upd_trailing alive now]; destruct (alive s) eqn:Ea;
    cbn [fst snd app upd_alive upd_trailing now jobs alive src_on src_done trailing tasks handler];
    rewrite ?F1, ?F2, ?F3, ?F4, ?F5, ?F6;
    cbn [fst snd app upd_alive upd_trailing now jobs alive src_on src_done trailing tasks handler];
    rewrite ?Et, ?Ea; repeat split; reflexivity.
Qed.

Lemma walk_flush ls w acc s :
  w_now w = now s -> (w_finished w = true -> alive s = false) -> w_unsub w = false ->
  walk (collect_step ls) (w, acc) (flush_out s) =
    Some (if alive s then w_deliver w 0 Done else w,
          match trailing s with Some v => if alive s then acc ++ [v] else acc | None => acc end) /\
  completed_out (flush_out s) = alive s.
Proof.
  intros Hn Hf Hu. unfold flush_out. destruct (alive s) eqn:Ea.
  - assert (Hf' : w_finished w = false) by (destruct (w_finished w); [discriminate (Hf eq_refl)|reflexivity]).
    destruct (trailing s) as [v|]; cbn [app walk].
    + rewrite (collect_next ls w acc v (now s)); auto.
      rewrite (collect_term ls w (acc ++ [v]) Done (now s)); auto.
    + rewrite (collect_term ls w acc Done (now s)); auto.
  - destruct (trailing s); cbn; auto.
Qed.

Lemma rr_done_step o c s s' w w' acc :
  RR o c s w acc -> src_done s = false -> w_unsub w = false ->
  w_now w' = w_now w -> w_unsub w' = w_unsub w -> w_finished w' = w_finished w -> w_subscribed w' = w_subscribed w ->
  w_src_done w' = true -> src_items w' = src_items w ->
  now s' = now s -> jobs s' = jobs s -> alive s' = false -> src_on s' = false -> src_done s' = true ->
  trailing s' = None ->
  match o with TDebounce _ => others_quiet s' | _ => True end ->
  RR o (c || alive s) s' (if alive s then w_deliver w' 0 Done else w')
     (match trailing s with Some v => if alive s then acc ++ [v] else acc | None => acc end).
Proof.
  intros [R1 R2 R3 R4 R5 R6 R7 R8 R9 R10 R11 R12 R13 R14] Hd Hu W1 W2 W3 W4 W5 W6 S1 S2 S3 S4 S5 S6 Q.
  constructor.
  - destruct (alive s); cbn [w_deliver w_now]; congruence.
  - destruct (alive s); cbn [w_deliver w_subscribed]; congruence.
  - destruct (alive s); cbn [w_deliver w_src_done]; congruence.
  - rewrite S4, S5. reflexivity.
  - intros _. exact S3.
  - rewrite S2. exact R6.
  - destruct (alive s); cbn [w_deliver w_unsub]; intros Hu'; congruence.
  - exact Q.
  - destruct o; auto.
  - repeat match goal with |- match ?x with _ => _ end => destruct x end; auto.
  - assert (E : src_items (if alive s then w_deliver w' 0 Done else w') = src_items w).
    { destruct (alive s); [unfold src_items; cbn [w_deliver w_src]|]; exact W6. }
    rewrite E. destruct (trailing s) as [v|] eqn:Et; [|exact R11].
    destruct (alive s); [|exact R11].
    destruct (R12 v eq_refl) as (pre & Hp & Hs). rewrite Hp. apply is_subseq_snoc, Hs.
  - intros v Hv. congruence.
  - intros _ Ha. congruence.
  - intros Hc. destruct c.
    + destruct (R14 eq_refl) as (A & _). congruence.
    + cbn in Hc. rewrite Hc. split; [exact S5|]. split; [cbn [w_deliver w_finished is_term]; apply Bool.orb_true_r|].
      intros Hf. change (src_items (w_deliver w' 0 Done)) with (src_items w'). rewrite W6.
      destruct (trailing s) as [v|] eqn:Et.
      * destruct (R12 v eq_refl) as (pre & Hp & Hs). rewrite Hp. apply last_match_snoc.
      * apply R13; auto.
Qed.

Lemma w_label_src_term o c s w acc e :
  RR o c s w acc -> src_on s = true -> is_term e = true ->
  let w' := w_label w (Some (LSrc e)) in
  w_now w' = w_now w /\ w_unsub w' = w_unsub w /\ w_finished w' = w_finished w /\
  w_subscribed w' = w_subscribed w /\ w_src_done w' = true /\ src_items w' = src_items w.
Proof.
  intros HR Hon He. destruct (connected_not_unsub _ _ _ _ _ HR Hon) as [Hu Hd].
  destruct (w_label_src w e) as (L1 & L2 & L3 & L4 & L5 & L6).
  repeat split; auto.
  - rewrite L5, He. apply Bool.orb_true_r.
  - unfold src_items. rewrite L6, (rr_done _ _ _ _ _ HR), Hd, (rr_subd _ _ _ _ _ HR), Hu. cbn [negb andb].
    rewrite src_items_app. destruct e; [discriminate| |]; apply app_nil_r.
Qed.

Lemma sim_src_done o ls c s w acc :
  rate_op o -> RR o c s w acc -> src_on s = true -> sim_goal o ls c s w acc (LSrc Done).
Proof.
  intros Ho HR Hon. destruct (connected_not_unsub _ _ _ _ _ HR Hon) as [Hu Hd].
  pose proof HR as [R1 R2 R3 R4 R5 R6 R7 R8 R9 R10 R11 R12 R13 R14].
  unfold sim_goal. cbn [tstep]. rewrite Hd, Hon. cbn [is_term].
  destruct (w_label_src_term o c s w acc Done HR Hon eq_refl) as (L1 & L2 & L3 & L4 & L5 & L6).
  set (w' := w_label w (Some (LSrc Done))) in *.
  set (s1 := upd_src s false true).
  assert (Hw : w_now w' = now s1) by (rewrite L1; exact R1).
  assert (Hf : w_finished w' = true -> alive s1 = false) by (rewrite L3; exact R5).
  assert (Hu' : w_unsub w' = false) by congruence.
  destruct (walk_flush ls w' acc s1 Hw Hf Hu') as [WF CO].
  destruct o as [| | | |d|d e| | | | | |]; try contradiction.
  - destruct (deb_done d s1) as (D0 & D1 & D2 & D3 & D4 & D5 & D6 & D7 & D8).
    rewrite D0, WF, CO. eexists. split; [reflexivity|]. cbn [fst snd].
    apply (rr_done_step _ c s _ w w' acc HR Hd Hu L1 L2 L3 L4 L5 L6 D1 D2 D3 D4 D5 D6).
    unfold others_quiet. rewrite D7, D8. exact R8.
  - destruct (thr_done d e s1) as (D0 & D1 & D2 & D3 & D4 & D5 & D6).
    rewrite D0, WF, CO. eexists. split; [reflexivity|]. cbn [fst snd].
    apply (rr_done_step _ c s _ w w' acc HR Hd Hu L1 L2 L3 L4 L5 L6 D1 D2 D3 D4 D5 D6). exact I.
Qed.

(* an error: forwarded at once, the pending item is dropped *)
Lemma thr_err d ed s x :
  let r := on_src (TThrottle d ed) s (Err x) in
  snd r = snd (slot_term s (Err x)) /\ now (fst r) = now s /\ jobs (fst r) = jobs s /\ alive (fst r) = false /\
  src_on (fst r) = src_on s /\ src_done (fst r) = src_done s /\ trailing (fst r) = trailing s /\
  (hclosed (fst r) = true -> hclosed s = true).
Proof.
  cbn [on_src]. unfold slot_term. destruct (alive s) eqn:Ea; cbn [upd_alive handler fst snd].
  - destruct (handler s) as [h|] eqn:Eh.
    + destruct (cancel_task_fields (upd_alive s false) h) as (F1 & F2 & F3 & F4 & F5 & F6 & F7).
      rewrite F1, F2, F3, F4, F5, F6. repeat split; auto.
      intros Hc. apply (hclosed_cancel (upd_alive s false) h Eh) in Hc. exact Hc.
    + repeat split; auto.
  - destruct (handler s) as [h|] eqn:Eh.
    + destruct (cancel_task_fields s h) as (F1 & F2 & F3 & F4 & F5 & F6 & F7).
      rewrite F1, F2, F3, F4, F5, F6. repeat split; auto.
      apply (hclosed_cancel s h Eh).
    + repeat split; auto.
Qed.

Lemma deb_err d s x :
  let r := on_src (TDebounce d) s (Err x) in
  snd r = snd (slot_term s (Err x)) /\ now (fst r) = now s /\ jobs (fst r) = jobs s /\ alive (fst r) = false /\
  src_on (fst r) = src_on s /\ src_done (fst r) = src_done s /\ trailing (fst r) = trailing s /\
  tasks (fst r) = tasks s /\ handler (fst r) = handler s.
Proof.
  cbn [on_src]. unfold slot_term. destruct (alive s) eqn:Ea; cbn; repeat split; auto.
Qed.

Lemma walk_slot_term ls w acc s e :
  is_term e = true -> w_now w = now s -> (w_finished w = true -> alive s = false) -> w_unsub w = false ->
  walk (collect_step ls) (w, acc) (snd (slot_term s e)) = Some (if alive s then w_deliver w 0 e else w, acc).
Proof.
  intros He Hn Hf Hu. unfold slot_term. destruct (alive s) eqn:Ea; [|reflexivity].
  cbn [snd walk]. rewrite (collect_term ls w acc e (now s)); auto.
  destruct (w_finished w); [discriminate (Hf eq_refl)|reflexivity].
Qed.

Lemma rr_err_step o c s s' w w' acc x :
  RR o c s w acc -> src_done s = false -> w_unsub w = false ->
  w_now w' = w_now w -> w_unsub w' = w_unsub w -> w_finished w' = w_finished w -> w_subscribed w' = w_subscribed w ->
  w_src_done w' = true -> src_items w' = src_items w ->
  now s' = now s -> jobs s' = jobs s -> alive s' = false -> src_on s' = false -> src_done s' = true ->
  trailing s' = trailing s ->
  match o with TDebounce _ => others_quiet s' | _ => True end ->
  match o with TThrottle _ _ => hclosed s' = true -> hclosed s = true | _ => True end ->
  RR o c s' (if alive s then w_deliver w' 0 (Err x) else w') acc.
Proof.
  intros [R1 R2 R3 R4 R5 R6 R7 R8 R9 R10 R11 R12 R13 R14] Hd Hu W1 W2 W3 W4 W5 W6 S1 S2 S3 S4 S5 S6 Q V.
  assert (E : src_items (if alive s then w_deliver w' 0 (Err x) else w') = src_items w).
  { destruct (alive s); [change (src_items (w_deliver w' 0 (Err x))) with (src_items w')|]; exact W6. }
  constructor.
  - destruct (alive s); cbn [w_deliver w_now]; congruence.
  - destruct (alive s); cbn [w_deliver w_subscribed]; congruence.
  - destruct (alive s); cbn [w_deliver w_src_done]; congruence.
  - rewrite S4, S5. reflexivity.
  - intros _. exact S3.
  - rewrite S2. exact R6.
  - destruct (alive s); cbn [w_deliver w_unsub]; intros Hu'; congruence.
  - exact Q.
  - destruct o; auto. rewrite S6. intros Hc. apply R9, V, Hc.
  - rewrite S6. exact R10.
  - rewrite E. exact R11.
  - rewrite E, S6. exact R12.
  - intros _ Ha. congruence.
  - intros Hc. destruct (R14 Hc) as (A & _). congruence.
Qed.

Lemma completed_out_slot_err s x : completed_out (snd (slot_term s (Err x))) = false.
Proof. unfold slot_term. destruct (alive s); reflexivity. Qed.

Lemma sim_src_err o ls c s w acc x :
  rate_op o -> RR o c s w acc -> src_on s = true -> sim_goal o ls c s w acc (LSrc (Err x)).
Proof.
  intros Ho HR Hon. destruct (connected_not_unsub _ _ _ _ _ HR Hon) as [Hu Hd].
  pose proof HR as [R1 R2 R3 R4 R5 R6 R7 R8 R9 R10 R11 R12 R13 R14].
  unfold sim_goal. cbn [tstep]. rewrite Hd, Hon. cbn [is_term].
  destruct (w_label_src_term o c s w acc (Err x) HR Hon eq_refl) as (L1 & L2 & L3 & L4 & L5 & L6).
  set (w' := w_label w (Some (LSrc (Err x)))) in *.
  set (s1 := upd_src s false true).
  assert (Hw : w_now w' = now s1) by (rewrite L1; exact R1).
  assert (Hf : w_finished w' = true -> alive s1 = false) by (rewrite L3; exact R5).
  assert (Hu' : w_unsub w' = false) by congruence.
  pose proof (walk_slot_term ls w' acc s1 (Err x) eq_refl Hw Hf Hu') as WT.
  destruct o as [| | | |d|d e| | | | | |]; try contradiction.
  - destruct (deb_err d s1 x) as (D0 & D1 & D2 & D3 & D4 & D5 & D6 & D7 & D8).
    rewrite D0, WT, completed_out_slot_err, Bool.orb_false_r. eexists. split; [reflexivity|]. cbn [fst snd].
    apply (rr_err_step _ c s _ w w' acc x HR Hd Hu L1 L2 L3 L4 L5 L6 D1 D2 D3 D4 D5 D6); [|exact I].
    unfold others_quiet. rewrite D7, D8. exact R8.
  - destruct (thr_err d e s1 x) as (D0 & D1 & D2 & D3 & D4 & D5 & D6 & D7).
    rewrite D0, WT, completed_out_slot_err, Bool.orb_false_r. eexists. split; [reflexivity|]. cbn [fst snd].
    apply (rr_err_step _ c s _ w w' acc x HR Hd Hu L1 L2 L3 L4 L5 L6 D1 D2 D3 D4 D5 D6); [exact I|]. exact D7.
Qed.

(* ---------- the executor polls a task ---------- *)

Lemma poll_none_value now tk : snd (poll now tk) = PNone -> t_value (fst (poll now tk)) = t_value tk.
Proof.
  unfold poll, poll_body. destruct (t_stage tk); cbn; destruct (t_keep tk); cbn; auto;
    repeat match goal with
           | |- context [if ?c then _ else _] => destruct c; cbn; auto
           | |- context [match t_body tk with _ => _ end] => destruct (t_body tk); cbn; auto
           end; discriminate.
Qed.

(* what polling a window task does: nothing but bookkeeping, or the pending item is sent *)
Lemma run_shape o s t tk :
  nth_error (tasks s) t = Some tk -> nth_error (jobs s) t = Some JTrailing ->
  let r := tstep o s (LRun t) in
  exists tkF,
    tasks (fst r) = set_nth (tasks s) t tkF /\ now (fst r) = now s /\ jobs (fst r) = jobs s /\
    alive (fst r) = alive s /\ src_on (fst r) = src_on s /\ src_done (fst r) = src_done s /\
    handler (fst r) = handler s /\
    ((snd (poll (now s) tk) = PNone /\ tkF = fst (poll (now s) tk) /\ trailing (fst r) = trailing s /\ snd r = [])
     \/
     (snd (poll (now s) tk) <> PNone /\ trailing (fst r) = None /\
      snd r = match trailing s with Some v => snd (slot_next s v) | None => [] end)).
Proof.
  intros Et Ej. cbn [tstep]. rewrite Et, Ej. destruct (poll (now s) tk) as [tk1 res]. cbn [fst snd].
  destruct res as [|jn seq rep].
  - exists tk1. cbn [fst snd upd_tasks tasks now jobs alive src_on src_done handler trailing].
    repeat split; auto.
  - cbn [on_job upd_tasks trailing]. destruct (trailing s) as [v|] eqn:Etr.
    + unfold slot_next. cbn [upd_tasks upd_trailing alive now].
      destruct rep.
      * cbn [tasks upd_trailing upd_tasks]. rewrite (nth_error_set_nth_eq _ _ _ _ Et).
        eexists. cbn [fst snd upd_tasks tasks now jobs alive src_on src_done handler trailing].
        rewrite set_nth_idem. repeat split; auto. right. repeat split; auto. discriminate.
      * exists tk1. cbn [fst snd upd_tasks tasks now jobs alive src_on src_done handler trailing].
        repeat split; auto. right. repeat split; auto. discriminate.
    + destruct rep.
      * cbn [tasks upd_tasks]. rewrite (nth_error_set_nth_eq _ _ _ _ Et).
        eexists. cbn [fst snd upd_tasks tasks now jobs alive src_on src_done handler trailing].
        rewrite set_nth_idem. repeat split; auto. right. repeat split; auto. discriminate.
      * exists tk1. cbn [fst snd upd_tasks tasks now jobs alive src_on src_done handler trailing].
        repeat split; auto. right. repeat split; auto. discriminate.
Qed.

Lemma others_quiet_set s s' t tk tkF :
  others_quiet s -> nth_error (tasks s) t = Some tk -> tasks s' = set_nth (tasks s) t tkF ->
  handler s' = handler s -> (status_quiet tk -> status_quiet tkF) -> others_quiet s'.
Proof.
  intros Hq Et Hts Hh Himp i tk' Hi. rewrite Hts in Hi. rewrite Hh.
  destruct (Nat.eq_dec t i) as [<-|Hne].
  - rewrite (nth_error_set_nth_eq _ _ _ _ Et) in Hi. inversion Hi; subst tk'.
    destruct (Hq t tk Et) as [H|Q]; [left; exact H|right; apply Himp, Q].
  - rewrite nth_error_set_nth_neq in Hi by exact Hne. apply (Hq i tk' Hi).
Qed.

Lemma hclosed_set s s' t tk tkF :
  nth_error (tasks s) t = Some tk -> tasks s' = set_nth (tasks s) t tkF ->
  handler s' = handler s -> t_value tkF = t_value tk -> hclosed s' = hclosed s.
Proof.
  intros Et Hts Hh Hv. unfold hclosed, task_finished. rewrite Hh, Hts.
  destruct (handler s) as [h|]; [|reflexivity].
  destruct (Nat.eq_dec t h) as [<-|Hne].
  - rewrite (nth_error_set_nth_eq _ _ _ _ Et), Et. unfold handle_closed. exact Hv.
  - rewrite nth_error_set_nth_neq by exact Hne. reflexivity.
Qed.

Lemma rr_run_none o c s s' w w' acc :
  RR o c s w acc ->
  w_now w' = w_now w -> w_src w' = w_src w -> w_src_done w' = w_src_done w -> w_unsub w' = w_unsub w ->
  w_finished w' = w_finished w -> w_subscribed w' = w_subscribed w ->
  now s' = now s -> jobs s' = jobs s -> alive s' = alive s -> src_on s' = src_on s -> src_done s' = src_done s ->
  trailing s' = trailing s -> handler s' = handler s ->
  match o with TDebounce _ => others_quiet s' | _ => True end ->
  hclosed s' = hclosed s ->
  RR o c s' w' acc.
Proof.
  intros [R1 R2 R3 R4 R5 R6 R7 R8 R9 R10 R11 R12 R13 R14] W1 W2 W3 W4 W5 W6 S1 S2 S3 S4 S5 S6 S7 Q V.
  assert (Hi : src_items w' = src_items w) by (unfold src_items; rewrite W2; reflexivity).
  constructor.
  - congruence.
  - congruence.
  - congruence.
  - rewrite S4, S5, W4. exact R4.
  - rewrite W5, S3. exact R5.
  - rewrite S2. exact R6.
  - rewrite W4, S7, S3. exact R7.
  - exact Q.
  - rewrite V, S6. exact R9.
  - rewrite S6. exact R10.
  - rewrite Hi. exact R11.
  - rewrite Hi, S6. exact R12.
  - rewrite Hi, S3, S6. exact R13.
  - rewrite Hi, S5, W5. exact R14.
Qed.

Lemma rr_run_ran o c s s' w w' acc :
  RR o c s w acc ->
  w_now w' = w_now w -> w_src w' = w_src w -> w_src_done w' = w_src_done w -> w_unsub w' = w_unsub w ->
  w_finished w' = w_finished w -> w_subscribed w' = w_subscribed w ->
  now s' = now s -> jobs s' = jobs s -> alive s' = alive s -> src_on s' = src_on s -> src_done s' = src_done s ->
  trailing s' = None -> handler s' = handler s ->
  match o with TDebounce _ => others_quiet s' | _ => True end ->
  RR o c s' w' (match trailing s with Some v => if alive s then acc ++ [v] else acc | None => acc end).
Proof.
  intros [R1 R2 R3 R4 R5 R6 R7 R8 R9 R10 R11 R12 R13 R14] W1 W2 W3 W4 W5 W6 S1 S2 S3 S4 S5 S6 S7 Q.
  assert (Hi : src_items w' = src_items w) by (unfold src_items; rewrite W2; reflexivity).
  constructor.
  - congruence.
  - congruence.
  - congruence.
  - rewrite S4, S5, W4. exact R4.
  - rewrite W5, S3. exact R5.
  - rewrite S2. exact R6.
  - rewrite W4, S7, S3. exact R7.
  - exact Q.
  - destruct o; auto.
  - repeat match goal with |- match ?x with _ => _ end => destruct x end; auto.
  - rewrite Hi. destruct (trailing s) as [v|] eqn:Et; [|exact R11].
    destruct (alive s); [|exact R11].
    destruct (R12 v eq_refl) as (pre & Hp & Hs). rewrite Hp. apply is_subseq_snoc, Hs.
  - intros v Hv. congruence.
  - rewrite Hi, S3. intros Hf Ha _. destruct (trailing s) as [v|] eqn:Et.
    + rewrite Ha. destruct (R12 v eq_refl) as (pre & Hp & Hs). rewrite Hp. apply last_match_snoc.
    + apply R13; auto.
  - rewrite Hi, S5, W5. intros Hc. destruct (R14 Hc) as (A & B & C).
    rewrite (R5 B). destruct (trailing s); auto.
Qed.

Lemma sim_run o ls c s w acc t :
  rate_op o -> RR o c s w acc -> sim_goal o ls c s w acc (LRun t).
Proof.
  intros Ho HR. pose proof HR as [R1 R2 R3 R4 R5 R6 R7 R8 R9 R10 R11 R12 R13 R14].
  destruct (w_label_plain w (LRun t) I) as (L1 & L2 & L3 & L4 & L5 & L6).
  unfold sim_goal. set (w' := w_label w (Some (LRun t))) in *.
  destruct (nth_error (tasks s) t) as [tk|] eqn:Et.
  2:{ cbn [tstep]. rewrite Et. cbn [fst snd walk completed_out existsb]. rewrite Bool.orb_false_r.
      eexists. split; [reflexivity|]. cbn [fst snd].
      apply (rr_same _ _ s s w w' _ HR); auto; congruence. }
  destruct (nth_error (jobs s) t) as [j|] eqn:Ej.
  2:{ cbn [tstep]. rewrite Et, Ej. cbn [fst snd walk completed_out existsb]. rewrite Bool.orb_false_r.
      eexists. split; [reflexivity|]. cbn [fst snd].
      apply (rr_same _ _ s s w w' _ HR); auto; congruence. }
  assert (Hj : j = JTrailing).
  { apply nth_error_In in Ej. apply (proj1 (Forall_forall _ _) R6 j Ej). }
  subst j.
  destruct (run_shape o s t tk Et Ej) as (tkF & T0 & T1 & T2 & T3 & T4 & T5 & T6 & Hcase).
  set (r := tstep o s (LRun t)) in *.
  destruct Hcase as [(P1 & P2 & P3 & P4)|(P1 & P3 & P4)].
  - (* bookkeeping only *)
    rewrite P4. cbn [walk completed_out existsb]. rewrite Bool.orb_false_r.
    eexists. split; [reflexivity|]. cbn [fst snd].
    apply (rr_run_none _ _ s (fst r) w w' _ HR); auto.
    + destruct o; try contradiction; [|exact I].
      apply (others_quiet_set s (fst r) t tk tkF R8 Et T0 T6). subst tkF. apply poll_status.
    + apply (hclosed_set s (fst r) t tk tkF Et T0 T6). subst tkF. apply poll_none_value, P1.
  - (* the window task ran *)
    assert (Hnq : ~ status_quiet tk).
    { intros Hq. destruct (poll_quiet (now s) tk Hq) as [Hn _]. contradiction. }
    assert (Hu : alive s = true -> w_unsub w = false).
    { intros Ha. destruct (w_unsub w) eqn:Eu; [|reflexivity]. specialize (R7 eq_refl).
      destruct o; try contradiction; [|congruence].
      exfalso. apply Hnq. destruct (R8 t tk Et) as [E|Q]; [congruence|exact Q]. }
    assert (Q : match o with TDebounce _ => others_quiet (fst r) | _ => True end).
    { destruct o; try contradiction; [|exact I].
      apply (others_quiet_set s (fst r) t tk tkF R8 Et T0 T6). intros Hq. contradiction. }
    pose proof (rr_run_ran _ _ s (fst r) w w' _ HR L1 L6 L5 L2 L3 L4 T1 T2 T3 T4 T5 P3 T6 Q) as HR'.
    assert (Hw : w_now w' = now s) by congruence.
    assert (Hf : w_finished w' = true -> alive s = false) by (rewrite L3; exact R5).
    rewrite P4. destruct (trailing s) as [v|] eqn:Etr.
    + assert (CO : completed_out (snd (slot_next s v)) = false) by (unfold slot_next; cbn; destruct (alive s); reflexivity).
      rewrite CO, Bool.orb_false_r.
      destruct (alive s) eqn:Ea.
      * assert (Hu' : w_unsub w' = false) by (rewrite L2; apply Hu; reflexivity).
        rewrite (walk_slot_next ls w' acc s v Hw). 2:{ rewrite Ea. exact Hf. } 2:{ exact Hu'. }
        rewrite Ea. eexists. split; [reflexivity|]. exact HR'.
      * unfold slot_next. rewrite Ea. cbn [snd walk]. eexists. split; [reflexivity|]. exact HR'.
    + cbn [walk completed_out existsb]. rewrite Bool.orb_false_r.
      eexists. split; [reflexivity|]. exact HR'.
Qed.

(* ---------- every label preserves the relation ---------- *)

Lemma rate_step_sim o :
  rate_op o ->
  forall ls_full done l r s (wa : wstate * list val) c,
    ls_full = done ++ l :: r -> RR o c s (fst wa) (snd wa) ->
    exists wa', walk (collect_step ls_full) wa (TMark (length done) :: snd (tstep o s l)) = Some wa' /\
                RR o (c || completed_out (snd (tstep o s l))) (fst (tstep o s l)) (fst wa') (snd wa').
Proof.
  intros Ho ls_full done l r s [w acc] c E HR. cbn [fst snd] in HR.
  cbn [walk collect_step]. rewrite E, nth_error_mid. rewrite <- E.
  change (sim_goal o ls_full c s w acc l).
  destruct l as [e|t|dt| | | | | | | |].
  - destruct (src_done s) eqn:Ed; [apply sim_src_off; auto|].
    destruct (src_on s) eqn:Eo; [|apply sim_src_off; auto].
    destruct e as [v|x|].
    + apply sim_src_next; assumption.
    + apply sim_src_err; assumption.
    + apply sim_src_done; assumption.
  - apply sim_run; assumption.
  - apply sim_adv; assumption.
  - apply sim_unsub; assumption.
  - apply sim_idle; [assumption|exact I|assumption].
  - apply sim_idle; [assumption|exact I|assumption].
  - apply sim_idle; [assumption|exact I|assumption].
  - apply sim_idle; [assumption|exact I|assumption].
  - apply sim_idle; [assumption|exact I|assumption].
  - apply sim_idle; [assumption|exact I|assumption].
  - apply sim_idle; [assumption|exact I|assumption].
Qed.

Lemma rate_init o : rate_op o -> RR o false (tinit o) (w0 true) [].
Proof.
  intros Ho. destruct o as [| | | |d|d ed| | | | | |]; try contradiction; cbn [tinit]; constructor; cbn; auto; try discriminate.
  - intros i tk Hi. destruct i; discriminate.
  - destruct ed; auto.
Qed.

(* the run as a whole: the walk accepts, and its final state is related to a system state *)
Lemma rate_run o ls :
  rate_op o ->
  exists w items s',
    walk (collect_step ls) (w0 true, []) (run_timed o ls) = Some (w, items) /\
    RR o (completed_out (run_timed o ls)) s' w items.
Proof.
  intros Ho. unfold run_timed.
  destruct (run_sim_ghost collect_step o (fun c s wa => RR o c s (fst wa) (snd wa)) (rate_step_sim o Ho)
              ls [] (tinit o) (w0 true, []) false ls eq_refl (rate_init o Ho)) as ([w items] & s' & Hw & HR).
  exists w, items, s'. split; [exact Hw|exact HR].
Qed.

Lemma rate_subseq o ls : rate_op o -> subseq_ok ls (run_timed o ls) = true.
Proof.
  intros Ho. destruct (rate_run o ls Ho) as (w & items & s' & Hw & HR).
  unfold subseq_ok. rewrite Hw. apply (rr_sub _ _ _ _ _ HR).
Qed.

Lemma rate_final_item o ls : rate_op o -> has_final o = true -> final_item_ok ls (run_timed o ls) = true.
Proof.
  intros Ho Hf. destruct (rate_run o ls Ho) as (w & items & s' & Hw & HR).
  unfold final_item_ok. rewrite Hw. destruct (completed_out (run_timed o ls)) eqn:Ec; [|reflexivity].
  destruct (rr_comp _ _ _ _ _ HR eq_refl) as (_ & _ & Hl). apply (Hl Hf).
Qed.

(* ---------- C09: the theorems ---------- *)

Theorem debounce_subseq : forall d ls, subseq_ok ls (run_timed (TDebounce d) ls) = true.
Proof. intros d ls. apply rate_subseq. exact I. Qed.

Theorem debounce_final_item : forall d ls, final_item_ok ls (run_timed (TDebounce d) ls) = true.
Proof. intros d ls. apply rate_final_item; [exact I|reflexivity]. Qed.

Theorem debounce_meets_spec : forall d ls, timed_ok (TDebounce d) ls (run_timed (TDebounce d) ls) = true.
Proof. intros d ls. cbn [timed_ok]. rewrite debounce_subseq, debounce_final_item. reflexivity. Qed.

Theorem throttle_subseq : forall d e ls, subseq_ok ls (run_timed (TThrottle d e) ls) = true.
Proof. intros d e ls. apply rate_subseq. exact I. Qed.

Theorem throttle_final_item :
  forall d e ls, e <> ELeading -> final_item_ok ls (run_timed (TThrottle d e) ls) = true.
Proof.
  intros d e ls He. apply rate_final_item; [exact I|]. destruct e; [congruence|reflexivity|reflexivity].
Qed.

Theorem throttle_meets_spec : forall d e ls, timed_ok (TThrottle d e) ls (run_timed (TThrottle d e) ls) = true.
Proof.
  intros d e ls. cbn [timed_ok]. rewrite throttle_subseq. cbn [andb].
  destruct e; [reflexivity| |]; apply throttle_final_item; discriminate.
Qed.

(* the leading-edge throttle does not flush: an item that arrives inside a window is dropped *)
Example throttle_leading_no_final_item :
  final_item_ok [LSrc (Next (VZ 1)); LSrc (Next (VZ 2)); LSrc Done]
    (run_timed (TThrottle 2 ELeading) [LSrc (Next (VZ 1)); LSrc (Next (VZ 2)); LSrc Done]) = false.
Proof. vm_compute. reflexivity. Qed.

(* ---------- exactness under a prompt executor (debounce) ---------- *)

Lemma trun_sys_cons o s j l r :
  trun_sys o s j (l :: r) = TMark j :: snd (tstep o s l) ++ trun_sys o (fst (tstep o s l)) (S j) r.
Proof. cbn [trun_sys]. destruct (tstep o s l); reflexivity. Qed.

(* connected, the subscriber attached, k window tasks so far *)
Definition Idle (s : tsys) (k : nat) : Prop :=
  length (tasks s) = k /\ length (jobs s) = k /\ alive s = true /\ src_on s = true /\ src_done s = false.

(* item v is pending and its window task k has just been scheduled *)
Definition Ready (d : N) (s : tsys) (k : nat) (v : val) : Prop :=
  nth_error (tasks s) k = Some (spawn (BOnce k) (Some d)) /\ nth_error (jobs s) k = Some JTrailing /\
  trailing s = Some v /\ Idle s (S k).

Lemma next_ready d s k v :
  Idle s k ->
  snd (tstep (TDebounce d) s (LSrc (Next v))) = [] /\
  Ready d (fst (tstep (TDebounce d) s (LSrc (Next v)))) k v /\
  now (fst (tstep (TDebounce d) s (LSrc (Next v)))) = now s.
Proof.
  intros (Ht & Hj & Ha & Hon & Hd). cbn [tstep]. rewrite Hd, Hon. cbn [is_term on_src]. cbn [upd_trailing handler].
  destruct (handler s) as [h|] eqn:Eh.
  - set (s1 := upd_trailing s (Some v)).
    destruct (cancel_task_fields s1 h) as (F1 & F2 & F3 & F4 & F5 & F6 & F7).
    pose proof (cancel_task_shape s1 h) as (_ & _ & _ & _ & _ & _ & C7 & _ & _).
    assert (Hl : length (tasks (cancel_task s1 h)) = k) by (rewrite C7; exact Ht).
    cbn [schedule upd_handler fst snd now alive src_on src_done trailing jobs tasks handler].
    rewrite Hl, F1, F2, F3, F4, F5. cbn [s1 upd_trailing now alive src_on src_done jobs].
    split; [reflexivity|]. split; [|reflexivity].
    unfold Ready, Idle. cbn [tasks jobs trailing alive src_on src_done].
    assert (N1 : forall x, nth_error (tasks (cancel_task s1 h) ++ [x]) k = Some x)
      by (intros x; rewrite <- Hl; apply nth_error_app_last').
    assert (N2 : forall x, nth_error (jobs s ++ [x]) k = Some x)
      by (intros x; rewrite <- Hj; apply nth_error_app_last').
    cbn [upd_handler tasks jobs trailing alive src_on src_done].
    rewrite N1, N2, !app_length, Hl, Hj, F6. cbn [length s1 upd_trailing trailing]. repeat split; auto; lia.
  - cbn [schedule upd_handler upd_trailing fst snd now alive src_on src_done trailing jobs tasks handler].
    rewrite Ht. split; [reflexivity|]. split; [|reflexivity].
    unfold Ready, Idle. cbn [tasks jobs trailing alive src_on src_done].
    assert (N1 : forall x, nth_error (tasks s ++ [x]) k = Some x)
      by (intros x; rewrite <- Ht; apply nth_error_app_last').
    assert (N2 : forall x, nth_error (jobs s ++ [x]) k = Some x)
      by (intros x; rewrite <- Hj; apply nth_error_app_last').
    cbn [upd_handler tasks jobs trailing alive src_on src_done].
    rewrite N1, N2, !app_length, Ht, Hj. cbn [length]. repeat split; auto; lia.
Qed.

Lemma touts_mark j out : touts (TMark j :: out) = touts out.
Proof. reflexivity. Qed.

Lemma touts_app a b : touts (a ++ b) = touts a ++ touts b.
Proof. unfold touts. apply filter_app. Qed.

(* the executor polls the new window task at once (its timer starts), and again when the
   window has elapsed: the pending item is delivered then *)
Lemma window_round d s k v j rest :
  0 < d -> Ready d s k v ->
  exists s',
    touts (trun_sys (TDebounce d) s j (LRun k :: LAdv d :: LRun k :: rest)) =
      TOut (now s + d) (Next v) :: touts (trun_sys (TDebounce d) s' (S (S (S j))) rest) /\
    Idle s' (S k) /\ now s' = now s + d /\ trailing s' = None.
Proof.
  intros Hd (Ht & Hj & Htr & (Hl1 & Hl2 & Ha & Hon & Hsd)).
  set (tkW := with_stage (spawn (BOnce k) (Some d)) (StWait (now s + d))).
  set (s1 := upd_tasks s (set_nth (tasks s) k tkW)).
  assert (E1 : tstep (TDebounce d) s (LRun k) = (s1, [])).
  { cbn [tstep]. rewrite Ht, Hj. unfold poll. cbn [spawn t_stage t_keep negb].
    destruct (N.ltb_spec (now s) (now s + d)); [reflexivity|lia]. }
  set (s2 := upd_now s1 (now s1 + d)).
  set (tkF := finished_ok (with_stage tkW StBody)).
  set (s3 := upd_trailing (upd_tasks s2 (set_nth (tasks s2) k tkF)) None).
  assert (E3 : tstep (TDebounce d) s2 (LRun k) = (s3, [TOut (now s + d) (Next v)])).
  { cbn [tstep]. cbn [s2 s1 upd_now upd_tasks tasks jobs now].
    rewrite (nth_error_set_nth_eq _ _ _ _ Ht), Hj. unfold poll. cbn [tkW with_stage t_stage t_keep spawn negb].
    destruct (N.ltb_spec (now s + d) (now s + d)); [lia|].
    unfold poll_body, tkW. cbn [with_stage t_body spawn].
    cbn [on_job]. change (trailing (upd_tasks s2 _)) with (trailing s). rewrite Htr.
    unfold slot_next. change (alive (upd_trailing (upd_tasks s2 _) None)) with (alive s).
    rewrite Ha. reflexivity. }
  exists s3. split.
  - rewrite trun_sys_cons, E1. cbn [fst snd app]. rewrite touts_mark.
    rewrite trun_sys_cons. cbn [tstep fst snd app]. rewrite touts_mark. fold s2.
    rewrite trun_sys_cons, E3. cbn [fst snd app]. rewrite touts_mark. reflexivity.
  - unfold Idle. cbn [s3 s2 s1 upd_trailing upd_tasks upd_now tasks jobs alive src_on src_done now trailing].
    rewrite !set_nth_length. repeat split; auto.
Qed.

Lemma idle_init d : Idle (tinit (TDebounce d)) 0.
Proof. unfold Idle. cbn. repeat split; reflexivity. Qed.

(* items one window apart, the executor polling each window task when it is spawned and when
   its window has elapsed *)
Fixpoint spaced_from (d : N) (k : nat) (vs : list val) : list tlab :=
  match vs with
  | [] => []
  | v :: r => LSrc (Next v) :: LRun k :: LAdv d :: LRun k :: spaced_from d (S k) r
  end.

(* every item, each one window after it arrived *)
Fixpoint spaced_deliveries (d : N) (t : N) (vs : list val) : list tout :=
  match vs with
  | [] => []
  | v :: r => TOut (t + d) (Next v) :: spaced_deliveries d (t + d) r
  end.

Lemma spaced_gen d :
  0 < d -> forall vs k s j, Idle s k ->
  touts (trun_sys (TDebounce d) s j (spaced_from d k vs)) = spaced_deliveries d (now s) vs.
Proof.
  intros Hd vs. induction vs as [|v vs IH]; intros k s j HI; [reflexivity|].
  cbn [spaced_from]. rewrite trun_sys_cons.
  destruct (next_ready d s k v HI) as (N0 & N1 & N2). rewrite N0. cbn [app]. rewrite touts_mark.
  destruct (window_round d _ k v (S j) (spaced_from d (S k) vs) Hd N1) as (s' & E & HI' & Hn & _).
  rewrite E, N2. cbn [spaced_deliveries]. f_equal. rewrite (IH (S k) s' _ HI'), Hn, N2. reflexivity.
Qed.

Lemma spaced_from_flat d : forall vs k,
  flat_map (fun '(i, v) => [LSrc (Next v); LRun i; LAdv d; LRun i]) (combine (seq k (length vs)) vs) = spaced_from d k vs.
Proof.
  induction vs as [|v vs IH]; intros k; [reflexivity|].
  cbn [length seq combine flat_map spaced_from app]. rewrite IH. reflexivity.
Qed.

Lemma spaced_deliveries_closed d t : forall vs k,
  spaced_deliveries d (t + N.of_nat k * d) vs =
  map (fun '(i, v) => TOut (t + N.of_nat (S i) * d) (Next v)) (combine (seq k (length vs)) vs).
Proof.
  induction vs as [|v vs IH]; intros k; [reflexivity|].
  cbn [length seq combine map spaced_deliveries].
  assert (E : t + N.of_nat k * d + d = t + N.of_nat (S k) * d) by (rewrite Nat2N.inj_succ; lia).
  rewrite E. f_equal. apply IH.
Qed.

(* C09 exactness, spaced items: every item is delivered, item i at time (i+1)*d *)
Theorem debounce_spaced : forall d vs, 0 < d ->
  touts (run_timed (TDebounce d)
           (flat_map (fun '(i, v) => [LSrc (Next v); LRun i; LAdv d; LRun i]) (combine (seq 0 (length vs)) vs))) =
  map (fun '(i, v) => TOut (N.of_nat (S i) * d) (Next v)) (combine (seq 0 (length vs)) vs).
Proof.
  intros d vs Hd. unfold run_timed. rewrite spaced_from_flat.
  rewrite (spaced_gen d Hd vs 0%nat (tinit (TDebounce d)) 0%nat (idle_init d)).
  change (now (tinit (TDebounce d))) with 0.
  pose proof (spaced_deliveries_closed d 0 vs 0%nat) as E. cbn [N.of_nat] in E.
  rewrite N.mul_0_l, N.add_0_l in E. rewrite E. apply map_ext. intros [i v]. rewrite N.add_0_l. reflexivity.
Qed.

(* the window timer starts at the task's first poll: polling only once, after the window,
   delivers nothing (the statement with [LSrc (Next v); LAdv d; LRun i] per item is false) *)
Example debounce_single_late_poll_delivers_nothing :
  touts (run_timed (TDebounce 3)
           (flat_map (fun '(i, v) => [LSrc (Next v); LAdv 3; LRun i]) (combine (seq 0 2) [VZ 10; VZ 11]))) = [].
Proof. vm_compute. reflexivity. Qed.

(* a burst: only its last item is pending *)
Lemma burst_gen d : forall vs v k s j rest,
  Idle s k ->
  exists s',
    touts (trun_sys (TDebounce d) s j (map (fun x => LSrc (Next x)) (vs ++ [v]) ++ rest)) =
      touts (trun_sys (TDebounce d) s' (j + S (length vs)) rest) /\
    Ready d s' (k + length vs) v /\ now s' = now s.
Proof.
  induction vs as [|a vs IH]; intros v k s j rest HI.
  - cbn [app map length]. rewrite trun_sys_cons.
    destruct (next_ready d s k v HI) as (N0 & N1 & N2). rewrite N0. cbn [app]. rewrite touts_mark.
    exists (fst (tstep (TDebounce d) s (LSrc (Next v)))).
    rewrite Nat.add_1_r, Nat.add_0_r. auto.
  - cbn [app map length]. rewrite trun_sys_cons.
    destruct (next_ready d s k a HI) as (N0 & N1 & N2). rewrite N0. cbn [app]. rewrite touts_mark.
    destruct N1 as (_ & _ & _ & HI1).
    destruct (IH v (S k) _ (S j) rest HI1) as (s' & E & HR & Hn).
    exists s'. rewrite E.
    replace (j + S (S (length vs)))%nat with (S j + S (length vs))%nat by lia.
    replace (k + S (length vs))%nat with (S k + length vs)%nat by lia.
    split; [reflexivity|]. split; [exact HR|]. congruence.
Qed.

(* C09 exactness, burst: items with no clock advance between them; once the window after the
   last one has elapsed only the last item is delivered *)
Theorem debounce_burst : forall d vs v, 0 < d ->
  touts (run_timed (TDebounce d)
           (map (fun x => LSrc (Next x)) (vs ++ [v]) ++ [LRun (length vs); LAdv d; LRun (length vs)])) =
  [TOut d (Next v)].
Proof.
  intros d vs v Hd. unfold run_timed.
  destruct (burst_gen d vs v 0%nat (tinit (TDebounce d)) 0%nat [LRun (length vs); LAdv d; LRun (length vs)] (idle_init d))
    as (s' & E & HR & Hn).
  rewrite E. cbn [Nat.add] in HR.
  destruct (window_round d s' (length vs) v (0 + S (length vs)) [] Hd HR) as (s'' & E2 & _ & _ & _).
  rewrite E2, Hn. cbn [trun_sys touts filter]. change (now (tinit (TDebounce d))) with 0. rewrite N.add_0_l. reflexivity.
Qed.

Print Assumptions debounce_subseq.
Print Assumptions debounce_final_item.
Print Assumptions debounce_meets_spec.
Print Assumptions throttle_subseq.
Print Assumptions throttle_final_item.
Print Assumptions throttle_meets_spec.
Print Assumptions debounce_spaced.
Print Assumptions debounce_burst.
