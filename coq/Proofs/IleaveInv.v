(* Ileave.v: the reachability invariant of configurations (under the hypothesis that every probe
   name is subscribed at most once), its preservation by every move of every thread, and its
   establishment by the setup script. *)
From RxProofs Require Export IleaveBase.
Local Open Scope nat_scope.

(* ------------------------------------------------------------------ *)
(* the core invariant                                                  *)
(* ------------------------------------------------------------------ *)

Definition subs (th : ithread) : list nat := subscribed_in (t_ops th).

Record Core (s : ish) (ths : list ithread) : Prop := {
  c_cham : chamP s;
  (* a mutex is held by at most one thread *)
  c_mutex : forall i j thi thj l,
      nth_error ths i = Some thi -> nth_error ths j = Some thj ->
      iholds (t_pc thi) l = true -> iholds (t_pc thj) l = true -> i = j;
  c_pcok : forall i th, nth_error ths i = Some th -> pc_ok th;
  c_local : forall i th, nth_error ths i = Some th -> local s th;
  (* a probe that is still to be subscribed has no cell yet *)
  c_fresh : forall i th k, nth_error ths i = Some th -> In k (subs th) -> cell_known s k = false;
  c_disj : forall i j thi thj k,
      nth_error ths i = Some thi -> nth_error ths j = Some thj ->
      In k (subs thi) -> In k (subs thj) -> i = j;
  c_nodup : forall i th, nth_error ths i = Some th -> NoDup (subs th)
}.

Lemma subs_step_in s t th s1 th1 o k : imove s t th = (s1, th1, o) -> In k (subs th1) -> In k (subs th).
Proof.
  intros Hm Hk. destruct (F_suffix _ _ _ _ _ _ Hm) as (pre & Hp). unfold subs. rewrite Hp.
  apply in_or_app. auto.
Qed.

Lemma subs_step_nodup s t th s1 th1 o : imove s t th = (s1, th1, o) -> NoDup (subs th) -> NoDup (subs th1).
Proof.
  intros Hm Hk. destruct (F_suffix _ _ _ _ _ _ Hm) as (pre & Hp). unfold subs in *. rewrite Hp in Hk.
  apply NoDup_app_iff in Hk. tauto.
Qed.

Lemma Core_step s ths t t' th s1 th1 o :
  Core s ths -> ienabled s ths t = true -> nth_error ths t = Some th -> imove s t' th = (s1, th1, o) ->
  Core s1 (set_th ths t th1).
Proof.
  intros HC He Ht Hm. destruct HC as [Hcham Hmut Hpc Hloc Hfresh Hdisj Hnd].
  assert (Hfree : forall l j thj, ineed s th = Some (Some l) -> nth_error ths j = Some thj ->
                                  iholds (t_pc thj) l = false) by (intros; eapply enabled_free; eauto).
  constructor.
  - (* chamber / observers *)
    unfold chamP. eapply F_cham; eauto. intros Hp. specialize (Hloc _ _ Ht). unfold local in Hloc.
    rewrite Hp in Hloc. exact Hloc.
  - (* mutual exclusion *)
    intros i j thi thj l Hi Hj Hhi Hhj.
    destruct (nth_set_th_inv _ _ _ _ _ _ Ht Hi) as [[-> ->]|[Hni Hi']];
      destruct (nth_set_th_inv _ _ _ _ _ _ Ht Hj) as [[-> ->]|[Hnj Hj']]; auto.
    + destruct (F_holds _ _ _ _ _ _ _ Hm Hhi) as [H|H].
      * eapply Hmut; eauto.
      * rewrite (Hfree _ _ _ H Hj') in Hhj. discriminate.
    + destruct (F_holds _ _ _ _ _ _ _ Hm Hhj) as [H|H].
      * eapply Hmut; eauto.
      * rewrite (Hfree _ _ _ H Hi') in Hhi. discriminate.
    + eapply Hmut; eauto.
  - (* pc / head of the script *)
    intros i x Hi. destruct (nth_set_th_inv _ _ _ _ _ _ Ht Hi) as [[-> ->]|[Hni Hi']].
    + eapply F_pcok; eauto.
    + eauto.
  - (* local *)
    intros i x Hi. destruct (nth_set_th_inv _ _ _ _ _ _ Ht Hi) as [[-> ->]|[Hni Hi']].
    + eapply F_local_self; eauto.
    + specialize (Hloc _ _ Hi'). unfold local in *.
      destruct (t_pc x) as [ | p | p | v rest | v k rest | e rest | e rest | e rest | e k rest | k y | k | ] eqn:Epc;
        auto.
      * (* PInCb: the cell stays alive *)
        destruct (cell_alive s1 k) eqn:E; auto.
        pose proof (F_kill _ _ _ _ _ _ _ Hm Hloc E) as Hn.
        pose proof (Hfree _ _ _ Hn Hi') as Hh. rewrite Epc in Hh. cbn in Hh.
        rewrite Nat.eqb_refl in Hh. discriminate.
      * (* PInCbT: the cell stays dead *)
        destruct Hloc as [Hk Hd]. split.
        -- rewrite (F_known _ _ _ _ _ _ k Hm), Hk. reflexivity.
        -- destruct (cell_alive s1 k) eqn:E; auto.
           destruct (F_alive _ _ _ _ _ _ _ Hm E) as [H|H]; [congruence|].
           apply sub_now_in in H; [|eauto]. rewrite (Hfresh _ _ _ Ht H) in Hk. discriminate.
      * eapply F_obs_none; eauto.
  - (* fresh *)
    intros i x k Hi Hk. rewrite (F_known _ _ _ _ _ _ k Hm).
    destruct (nth_set_th_inv _ _ _ _ _ _ Ht Hi) as [[-> ->]|[Hni Hi']].
    + rewrite (Hfresh _ _ _ Ht (subs_step_in _ _ _ _ _ _ _ Hm Hk)). cbn.
      destruct (sub_now th) as [k'|] eqn:Es; [|reflexivity].
      destruct (Nat.eqb k' k) eqn:E; [|reflexivity]. apply Nat.eqb_eq in E. subst k'.
      pose proof (F_sub_step _ _ _ _ _ _ _ Hm Es (Hpc _ _ Ht)) as Hs.
      pose proof (Hnd _ _ Ht) as Hn. unfold subs in *. rewrite Hs in Hn. inversion Hn; subst. contradiction.
    + rewrite (Hfresh _ _ _ Hi' Hk). cbn.
      destruct (sub_now th) as [k'|] eqn:Es; [|reflexivity].
      destruct (Nat.eqb k' k) eqn:E; [|reflexivity]. apply Nat.eqb_eq in E. subst k'.
      apply sub_now_in in Es; [|eauto]. exfalso. apply Hni. eapply Hdisj; eauto.
  - (* disjoint *)
    intros i j thi thj k Hi Hj Hki Hkj.
    destruct (nth_set_th_inv _ _ _ _ _ _ Ht Hi) as [[-> ->]|[Hni Hi']];
      destruct (nth_set_th_inv _ _ _ _ _ _ Ht Hj) as [[-> ->]|[Hnj Hj']]; auto.
    + eapply Hdisj; eauto. eapply subs_step_in; eauto.
    + eapply Hdisj; eauto. eapply subs_step_in; eauto.
    + eapply Hdisj; eauto.
  - (* nodup *)
    intros i x Hi. destruct (nth_set_th_inv _ _ _ _ _ _ Ht Hi) as [[-> ->]|[Hni Hi']].
    + eapply subs_step_nodup; eauto.
    + eauto.
Qed.

(* ------------------------------------------------------------------ *)
(* s_busy: the probes inside a callback                                *)
(* ------------------------------------------------------------------ *)

Definition Busy (s : ish) (ths : list ithread) : Prop :=
  NoDup (s_busy s) /\
  forall k, In k (s_busy s) -> exists i th, nth_error ths i = Some th /\ in_cb (t_pc th) = Some k.

Lemma in_cb_cases pc k :
  in_cb pc = Some k ->
  (iholds pc (LCell k) = true) \/ (exists x, pc = PInCbB k x).
Proof.
  destruct pc; cbn; try discriminate; intros H; inversion H; subst; rewrite ?Nat.eqb_refl; eauto.
Qed.

Lemma in_cb_B th k x : pc_ok th -> t_pc th = PInCbB k x -> In k (subs th).
Proof.
  unfold pc_ok, subs. intros Hp Hpc. rewrite Hpc in Hp. cbn in Hp. destruct Hp as (r & ->). cbn. auto.
Qed.

Lemma in_cb_known s th k : local s th -> iholds (t_pc th) (LCell k) = true -> cell_known s k = true.
Proof.
  unfold local. destruct (t_pc th); cbn; try discriminate; intros Hl Hk; apply Nat.eqb_eq in Hk; subst.
  - apply alive_known; auto.
  - tauto.
Qed.

(* the probe a thread is about to call is not inside a callback *)
Lemma no_ovl s ths t t' th s1 th1 o k :
  Core s ths -> Busy s ths -> ienabled s ths t = true -> nth_error ths t = Some th ->
  imove s t' th = (s1, th1, o) -> in_cb (t_pc th1) = Some k -> imem k (s_busy s) = false.
Proof.
  intros HC [_ HB] He Ht Hm Hin. apply imem_false. intros Hk.
  destruct (HB _ Hk) as (i & thi & Hi & Hci).
  destruct (F_incb _ _ _ _ _ _ _ Hm Hin) as (_ & [(Ha & Hobs & Hn)|(Hpc & r & Hops)]).
  - destruct (in_cb_cases _ _ Hci) as [Hh|(x & Hx)].
    + rewrite (enabled_free _ _ _ _ _ _ _ He Ht Hn Hi) in Hh. discriminate.
    + pose proof (in_cb_B _ _ _ (c_pcok _ _ HC _ _ Hi) Hx) as Hs.
      pose proof (c_fresh _ _ HC _ _ _ Hi Hs) as Hf. rewrite (alive_known _ _ Ha) in Hf. discriminate.
  - assert (In k (subs th)) as Hs by (unfold subs; rewrite Hops; cbn; auto).
    pose proof (c_fresh _ _ HC _ _ _ Ht Hs) as Hf.
    destruct (in_cb_cases _ _ Hci) as [Hh|(x & Hx)].
    + rewrite (in_cb_known _ _ _ (c_local _ _ HC _ _ Hi) Hh) in Hf. discriminate.
    + assert (ineed s th = Some (Some LVal)) as Hn by (unfold ineed; rewrite Hpc, Hops; reflexivity).
      pose proof (enabled_free _ _ _ _ _ _ _ He Ht Hn Hi) as Hh. rewrite Hx in Hh. discriminate.
Qed.

Lemma Busy_step s ths t t' th s1 th1 o :
  Core s ths -> Busy s ths -> ienabled s ths t = true -> nth_error ths t = Some th ->
  imove s t' th = (s1, th1, o) -> Busy s1 (set_th ths t th1).
Proof.
  intros HC HB He Ht Hm. pose proof (fun k => no_ovl _ _ _ _ _ _ _ _ k HC HB He Ht Hm) as Hno.
  destruct HB as [Hnd HB]. unfold Busy. rewrite (F_busy _ _ _ _ _ _ Hm).
  assert (Hother : forall k', (forall k0, in_cb (t_pc th) = Some k0 -> k' <> k0) -> In k' (s_busy s) ->
                   exists i x, nth_error (set_th ths t th1) i = Some x /\ in_cb (t_pc x) = Some k').
  { intros k' Hne Hk'. destruct (HB _ Hk') as (i & x & Hi & Hx). exists i, x. split; auto.
    rewrite nth_set_th_other; auto. intros <-. rewrite Ht in Hi. inversion Hi; subst.
    eapply Hne; eauto. }
  destruct (in_cb (t_pc th)) as [k|] eqn:Ec.
  - split; [apply NoDup_remove1; auto|]. intros k' Hk'.
    apply In_remove1_nodup in Hk'; auto. destruct Hk' as [Hk' Hne]. apply Hother; auto.
    intros k0 H0. inversion H0; subst. auto.
  - destruct (in_cb (t_pc th1)) as [k|] eqn:Ec1.
    + split.
      * constructor; auto. apply imem_false. apply Hno. reflexivity.
      * intros k' [<-|Hk'].
        -- exists t, th1. split; auto. eapply nth_set_th_same; eauto.
        -- apply Hother; auto. intros k0 H0; discriminate.
    + split; auto. intros k' Hk'. apply Hother; auto. intros k0 H0; discriminate.
Qed.

(* ------------------------------------------------------------------ *)
(* names, the initial configuration, the setup script                  *)
(* ------------------------------------------------------------------ *)

Fixpoint nodupb (l : list nat) : bool :=
  match l with [] => true | x :: r => negb (imem x r) && nodupb r end.

Lemma nodupb_NoDup l : nodupb l = true <-> NoDup l.
Proof.
  induction l as [|x l IH]; cbn.
  - split; [constructor|reflexivity].
  - rewrite andb_true_iff, negb_true_iff, imem_false, IH. split.
    + intros [H1 H2]. constructor; auto.
    + intros H. inversion H; auto.
Qed.

(* every probe name is subscribed at most once, in the setup script and the threads' scripts together *)
Definition names_ok (setup : list iop) (scripts : list (list iop)) : bool :=
  nodupb (subscribed_in (setup ++ concat scripts)).

Lemma sub_app a b : subscribed_in (a ++ b) = subscribed_in a ++ subscribed_in b.
Proof. unfold subscribed_in. apply flat_map_app. Qed.

Lemma in_sub_concat L j lj k :
  nth_error L j = Some lj -> In k (subscribed_in lj) -> In k (subscribed_in (concat L)).
Proof.
  revert j. induction L as [|l L IH]; intros [|j]; cbn; try discriminate; intros H Hk; rewrite sub_app;
    apply in_or_app.
  - inversion H; subst; auto.
  - right. eapply IH; eauto.
Qed.

Lemma names_split L :
  NoDup (subscribed_in (concat L)) ->
  (forall i l, nth_error L i = Some l -> NoDup (subscribed_in l)) /\
  (forall i j li lj k, nth_error L i = Some li -> nth_error L j = Some lj ->
                       In k (subscribed_in li) -> In k (subscribed_in lj) -> i = j).
Proof.
  induction L as [|l L IH]; cbn.
  - intros _. split; [intros [|i] l'; discriminate|intros [|i] j li lj k; discriminate].
  - rewrite sub_app. intros H. apply NoDup_app_iff in H. destruct H as (H1 & H2 & H3).
    destruct (IH H2) as [IH1 IH2]. split.
    + intros [|i] l' Hl; cbn in Hl; [inversion Hl; subst; auto|eauto].
    + intros [|i] [|j] li lj k Hi Hj Hki Hkj; cbn in Hi, Hj; auto.
      * inversion Hi; subst. exfalso. eapply H3; eauto. eapply in_sub_concat; eauto.
      * inversion Hj; subst. exfalso. eapply H3; eauto. eapply in_sub_concat; eauto.
      * f_equal. eapply IH2; eauto.
Qed.

Lemma Core_init v0 L : NoDup (subscribed_in (concat L)) -> Core (ish0 v0) (map start_thread L).
Proof.
  intros H. destruct (names_split L H) as [H1 H2]. constructor.
  - intros Hc; discriminate.
  - intros i j thi thj l Hi _ Hh _. apply nth_map_start in Hi. destruct Hi as (sc & _ & ->).
    cbn in Hh. discriminate.
  - intros i th Hi. apply nth_map_start in Hi. destruct Hi as (sc & _ & ->). exact I.
  - intros i th Hi. apply nth_map_start in Hi. destruct Hi as (sc & _ & ->). exact I.
  - intros i th k _ _. reflexivity.
  - intros i j thi thj k Hi Hj. apply nth_map_start in Hi. destruct Hi as (sci & Hi & ->).
    apply nth_map_start in Hj. destruct Hj as (scj & Hj & ->). unfold subs. cbn. eauto.
  - intros i th Hi. apply nth_map_start in Hi. destruct Hi as (sc & Hi & ->). unfold subs. cbn. eauto.
Qed.

Lemma Core_tail s th ths : Core s (th :: ths) -> Core s ths.
Proof.
  intros [Hcham Hmut Hpc Hloc Hfresh Hdisj Hnd]. constructor; auto.
  - intros i j thi thj l Hi Hj Hhi Hhj. assert (S i = S j) by (eapply Hmut; eauto). lia.
  - intros i x Hi. apply (Hpc (S i)); auto.
  - intros i x Hi. apply (Hloc (S i)); auto.
  - intros i x k Hi. apply (Hfresh (S i)); auto.
  - intros i j thi thj k Hi Hj Hki Hkj. assert (S i = S j) by (eapply Hdisj; eauto). lia.
  - intros i x Hi. apply (Hnd (S i)); auto.
Qed.

Lemma Busy_tail s th ths : Busy s (th :: ths) -> fin_th th = true -> Busy s ths.
Proof.
  intros [Hnd HB] Hf. split; auto. intros k Hk. destruct (HB _ Hk) as ([|i] & x & Hi & Hx).
  - cbn in Hi. inversion Hi; subst. unfold fin_th in Hf. destruct (t_pc x); try discriminate.
  - exists i, x. auto.
Qed.

Lemma need_not_held s th l : ineed s th = Some (Some l) -> iholds (t_pc th) l = false.
Proof.
  destruct th as [pc ops idx]. unfold ineed. cbn [t_pc t_ops].
  destruct pc as [ | p | p | v rest | v k rest | e rest | e rest | e rest | e k rest | k x | k | ];
    try (destruct rest); try (intros H; inversion H; subst; reflexivity); try discriminate.
Qed.

Lemma idle_hold_nothing others l :
  (forall x, In x others -> t_pc x = PIdle) -> existsb (fun th => iholds (t_pc th) l) others = false.
Proof.
  induction others as [|y others IH]; cbn; intros H; [reflexivity|].
  rewrite (H y (or_introl eq_refl)). cbn. apply IH. intros x Hx. apply H. auto.
Qed.

Lemma alone_enabled s th others :
  (forall x, In x others -> t_pc x = PIdle) -> ineed s th <> None -> ienabled s (th :: others) 0 = true.
Proof.
  intros Ho Hn. eapply enabled_of; [reflexivity|].
  destruct (ineed s th) as [[l|]|] eqn:E; [|auto|congruence].
  right. exists l. split; auto. unfold iheld. cbn. rewrite (need_not_held _ _ _ E). cbn.
  apply idle_hold_nothing; auto.
Qed.

(* running the setup script alone = moves of thread 0 in the configuration where the other
   threads have not started *)
Lemma setup_cfg (I : ish -> list ithread -> Prop) others :
  (forall x, In x others -> t_pc x = PIdle) ->
  (forall s ths t' th s1 th1 o,
      I s ths -> ienabled s ths 0 = true -> nth_error ths 0 = Some th -> imove s t' th = (s1, th1, o) ->
      I s1 (set_th ths 0 th1)) ->
  forall fuel s th, I s (th :: others) ->
                    I (fst (run_alone_th fuel s th)) (snd (run_alone_th fuel s th) :: others).
Proof.
  intros Ho Hstep fuel s th HI.
  apply (run_alone_th_inv (fun s th => I s (th :: others))); auto.
  intros s0 th0 s1 th1 o HI0 Hn Hm.
  apply (Hstep s0 (th0 :: others) 9 th0 s1 th1 o); auto. apply alone_enabled; auto.
Qed.

Lemma starts_idle scripts x : In x (map start_thread scripts) -> t_pc x = PIdle.
Proof. rewrite in_map_iff. intros (sc & <- & _). reflexivity. Qed.

(* the setup script runs to its end within the fuel `run_case` gives it *)
Definition setup_completes (v0 : Z) (setup : list iop) : bool :=
  fin_th (snd (run_alone_th 1000 (ish0 v0) (start_thread setup))).

Lemma names_ok_nodup setup scripts :
  names_ok setup scripts = true -> NoDup (subscribed_in (concat (setup :: scripts))).
Proof. unfold names_ok. rewrite nodupb_NoDup. auto. Qed.

Lemma Core_after_setup v0 setup scripts :
  names_ok setup scripts = true ->
  Core (run_alone 1000 (ish0 v0) (start_thread setup)) (map start_thread scripts).
Proof.
  intros Hn. rewrite run_alone_fst. eapply Core_tail.
  apply (setup_cfg Core (map start_thread scripts)).
  - apply starts_idle.
  - intros; eapply Core_step; eauto.
  - apply (Core_init v0 (setup :: scripts)). apply names_ok_nodup; auto.
Qed.

Lemma Busy_after_setup v0 setup scripts :
  names_ok setup scripts = true -> setup_completes v0 setup = true ->
  Busy (run_alone 1000 (ish0 v0) (start_thread setup)) (map start_thread scripts).
Proof.
  intros Hn Hc. rewrite run_alone_fst. eapply Busy_tail; [|exact Hc].
  apply (setup_cfg (fun s ths => Core s ths /\ Busy s ths) (map start_thread scripts)).
  - apply starts_idle.
  - intros s ths t' th s1 th1 o [HC HB] He Ht Hm. split.
    + eapply Core_step; eauto.
    + eapply Busy_step; eauto.
  - split.
    + apply (Core_init v0 (setup :: scripts)). apply names_ok_nodup; auto.
    + split; [constructor|intros k []].
Qed.

(* ------------------------------------------------------------------ *)
(* C10: no probe callback runs on two threads at once                  *)
(* ------------------------------------------------------------------ *)

Definition not_overlap (x : itr) : bool := match x with TOverlap _ => false | _ => true end.

Lemma no_overlap_irun sched s ths s' ths' tr :
  Core s ths -> Busy s ths -> irun s ths sched = (s', ths', tr) -> no_overlap tr = true.
Proof.
  intros HC HB Hr.
  destruct (irun_walks (fchk not_overlap) (fun _ s ths => Core s ths /\ Busy s ths)) with (sched := sched) (a := tt)
    (s := s) (ths := ths) (s' := s') (ths' := ths') (tr := tr) as (a' & Hw & _); auto.
  - intros a s0 ths0 t th s1 th1 o [HC0 HB0] He Hn Hm. exists tt. split.
    + destruct a. apply walks_fchk. apply Forall_forall. intros x Hx.
      destruct x; try reflexivity. exfalso.
      destruct (F_ovl _ _ _ _ _ _ _ Hm Hx) as [H1 H2].
      rewrite (no_ovl _ _ _ _ _ _ _ _ _ HC0 HB0 He Hn Hm H1) in H2. discriminate.
    + split; [eapply Core_step; eauto|eapply Busy_step; eauto].
  - eapply walks_fchk_inv; eauto.
Qed.

Theorem il_no_overlap v0 setup scripts sched :
  names_ok setup scripts = true -> setup_completes v0 setup = true ->
  let '(tr, e, fin) := run_case v0 setup scripts sched in no_overlap tr = true.
Proof.
  intros Hn Hc. rewrite run_case_eq. cbv zeta.
  destruct (irun _ _ sched) as [[s ths] tr] eqn:Er.
  eapply no_overlap_irun; [| |exact Er].
  - apply Core_after_setup; auto.
  - apply Busy_after_setup; auto.
Qed.
