(* interval_at under an executor that runs as the timers fall due: the first tick at the given
   instant (at the first poll when the instant has been reached already), each later one exactly
   one period after the previous one. *)
From RxModel Require Import Timed.
From RxSpec Require Import TimedSpec.
From RxProofs Require Import ValEq TimedLaws.
Open Scope N_scope.

Theorem interval_at_prompt_now p n : 0 < p ->
  touts (run_timed (TIntervalAt 0 p) (LRun 0 :: prompt_rounds p n)) = TOut 0 (Next (VZ 0)) :: expected_ticks p 1 0 n.
Proof.
  intros Hp. unfold run_timed. cbn. f_equal.
  match goal with |- filter _ (trun_sys ?o ?s' ?j _) = _ =>
    change (touts (trun_sys o s' j (prompt_rounds p n)) = expected_ticks p 1 (now s') n);
    eapply (interval_prompt_gen p Hp n 1%nat s' j _ o I) end; cbn; reflexivity.
Qed.

Theorem interval_at_prompt dl p n : 0 < dl -> 0 < p ->
  touts (run_timed (TIntervalAt dl p) (LRun 0 :: LAdv dl :: LRun 0 :: prompt_rounds p n))
  = TOut dl (Next (VZ 0)) :: expected_ticks p 1 dl n.
Proof.
  intros Hd Hp. unfold run_timed. cbn. destruct (N.ltb_spec 0 dl); [|lia]. cbn.
  destruct (N.ltb_spec dl dl); [lia|]. cbn.
  try (destruct (N.ltb_spec dl 0); [lia|]; cbn). f_equal.
  match goal with |- filter _ (trun_sys ?o ?s' ?j _) = _ =>
    change (touts (trun_sys o s' j (prompt_rounds p n)) = expected_ticks p 1 (now s') n);
    eapply (interval_prompt_gen p Hp n 1%nat s' j _ o I) end; cbn; reflexivity.
Qed.

(* ---- the exact specification the oracle uses (Spec/TimedSpec.prompt_case) is what the model does ---- *)
Lemma prompt_full_gen p : 0 < p -> forall n k s j tk o,
  interval_like o ->
  tasks s = [tk] -> jobs s = [JInterval] -> down_fin s = false ->
  t_stage tk = StBody -> t_keep tk = true -> t_body tk = BRepeat 0 p (now s + p) k ->
  trun_sys o s j (prompt_labels p n) = prompt_trace p n j k (now s).
Proof.
  intros Hp n. induction n as [|n IH]; intros k s j tk o Ho Ht Hj Hd Hs Hk Hb; [reflexivity|].
  cbn [prompt_labels prompt_trace trun_sys tstep fst snd app].
  cbn [upd_now tasks jobs now]. rewrite Ht, Hj. cbn [nth_error].
  unfold poll. rewrite Hs, Hk. cbn [negb]. unfold poll_body. rewrite Hb.
  destruct (N.ltb_spec (now s + p) (now s + p)); [lia|].
  cbn [on_job down_fin upd_tasks upd_now]. rewrite Hd.
  cbn [fst snd tasks upd_tasks upd_now set_nth nth_error now app].
  do 3 f_equal.
  match goal with |- trun_sys o ?s' _ _ = _ =>
    change (trun_sys o s' (S (S j)) (prompt_labels p n) = prompt_trace p n (S (S j)) (S k) (now s'));
    apply (IH (S k) s' _ (after_tick (now s + p) tk true) o Ho) end;
    cbn; auto; unfold after_tick; rewrite Hb; cbn; auto.
Qed.

Theorem prompt_case_exact o n ls out :
  prompt_case o n = Some (ls, out) ->
  match o with TInterval p | TIntervalAt _ p => 0 < p | _ => True end ->
  run_timed o ls = out.
Proof.
  intros H Hp. destruct o as [| | | | | | | |p|dl p| |]; try discriminate H; cbn [prompt_case] in H.
  - (* interval p *)
    inversion H; subst ls out. unfold run_timed.
    change (prompt_trace p n 0 0 0) with (prompt_trace p n 0 0 (now (tinit (TInterval p)))).
    eapply (prompt_full_gen p Hp n 0%nat (tinit (TInterval p)) 0%nat _ (TInterval p) I); cbn; reflexivity.
  - (* interval_at dl p *)
    destruct (N.eqb_spec dl 0) as [->|Hne]; inversion H; subst ls out; unfold run_timed.
    + cbn. do 2 f_equal.
      match goal with |- trun_sys ?o ?s' ?j _ = _ =>
        change (trun_sys o s' j (prompt_labels p n) = prompt_trace p n 1 1 (now s'));
        eapply (prompt_full_gen p Hp n 1%nat s' j _ o I) end; cbn; reflexivity.
    + assert (Hd : 0 < dl) by lia.
      cbn. destruct (N.ltb_spec 0 dl); [|lia]. cbn. destruct (N.ltb_spec dl dl); [lia|]. cbn.
      try (destruct (N.ltb_spec dl 0); [lia|]; cbn). do 4 f_equal.
      match goal with |- trun_sys ?o ?s' ?j _ = _ =>
        change (trun_sys o s' j (prompt_labels p n) = prompt_trace p n 3 1 (now s'));
        eapply (prompt_full_gen p Hp n 1%nat s' j _ o I) end; cbn; reflexivity.
Qed.
