(* The timed system satisfies the trace predicates, for every label sequence. *)
From RxModel Require Import Timed.
From RxSpec Require Import TimedSpec.
From RxProofs Require Import ValEq.
Open Scope N_scope.

(* ---------- walking ---------- *)

Lemma walk_app {St} (step : St -> tout -> option St) s a b :
  walk step s (a ++ b) = match walk step s a with Some s' => walk step s' b | None => None end.
Proof.
  revert s. induction a as [|x a IH]; intros s; [reflexivity|].
  cbn. destruct (step s x); [apply IH|reflexivity].
Qed.

Lemma nth_error_mid {A} (done : list A) l r : nth_error (done ++ l :: r) (length done) = Some l.
Proof. induction done; cbn; auto. Qed.

(* a predicate given by a step function holds of every run if a relation between the system
   state and the walking state is preserved by every label *)
Lemma run_sim {St} (step : list tlab -> St -> tout -> option St) (o : top) (R : tsys -> St -> Prop) :
  (forall ls_full done l r s w, ls_full = done ++ l :: r -> R s w ->
      exists w', walk (step ls_full) w (TMark (length done) :: snd (tstep o s l)) = Some w' /\ R (fst (tstep o s l)) w') ->
  forall r done s w ls_full,
    ls_full = done ++ r -> R s w -> accepted (walk (step ls_full) w (trun_sys o s (length done) r)) = true.
Proof.
  intros H r. induction r as [|l r IH]; intros done s w ls_full E HR; [reflexivity|].
  cbn [trun_sys]. destruct (H ls_full done l r s w E HR) as (w' & Hw & HR').
  destruct (tstep o s l) as [s1 out]. cbn [fst snd] in *.
  change (TMark (length done) :: out ++ trun_sys o s1 (S (length done)) r)
    with ((TMark (length done) :: out) ++ trun_sys o s1 (S (length done)) r).
  rewrite walk_app, Hw.
  replace (S (length done)) with (length (done ++ [l])) by (rewrite app_length; cbn; lia).
  apply IH; [rewrite <- app_assoc; exact E|exact HR'].
Qed.

(* ---------- C08: interval / interval_at ---------- *)

Definition lb (now : N) (tk : task) : N :=
  match t_stage tk with StDelay d => now + d | StWait due => due | _ => now end.

Lemma lb_mono now dt tk : lb now tk <= lb (now + dt) tk.
Proof. unfold lb. destruct (t_stage tk); lia. Qed.

(* what a poll of a repeating task can do *)
Lemma poll_repeat now tk j p due seq :
  t_body tk = BRepeat j p due seq ->
  let '(tk1, res) := poll now tk in
  (res = PNone /\ t_body tk1 = BRepeat j p due seq /\
   (t_keep tk1 = t_keep tk) /\ (t_stage tk1 = StFinished \/ (t_keep tk = true /\ lb now tk <= lb now tk1)))
  \/
  (res = PRun j seq true /\ t_keep tk = true /\ N.max (lb now tk) due <= now /\
   t_body tk1 = BRepeat j p due seq /\ t_stage tk1 = StBody /\ t_keep tk1 = true).
Proof.
  intros Hb. unfold poll, poll_body, lb. rewrite Hb.
  destruct (t_stage tk) eqn:Es; cbn; destruct (t_keep tk) eqn:Ek; cbn;
    repeat (rewrite ?Hb; cbn;
            try match goal with
                | |- context [if ?a <? ?b then _ else _] => destruct (N.ltb_spec a b)
                end);
    rewrite ?Hb, ?Es, ?Ek;
    first [ left; repeat split; cbn; rewrite ?Hb, ?Es, ?Ek; auto;
            first [left; reflexivity | right; split; [reflexivity|cbn; rewrite ?Es; lia]]
          | right; repeat split; cbn; rewrite ?Hb, ?Es, ?Ek; auto; lia ].
Qed.

Record RI (p : N) (s : tsys) (st : istate) : Prop := {
  ri_now : w_now (i_w st) = now s;
  ri_jobs : jobs s = [JInterval];
  ri_main : main_task s = Some 0%nat;
  ri_src : src_on s = false;
  ri_task : exists tk, tasks s = [tk] /\
            (w_unsub (i_w st) = true -> t_keep tk = false) /\
            (t_stage tk = StFinished \/ t_keep tk = false \/
             exists due, t_body tk = BRepeat 0 p due (i_next st) /\ i_earliest st <= N.max (lb (now s) tk) due)
}.

Definition interval_like (o : top) : Prop :=
  match o with TInterval _ | TIntervalAt _ _ => True | _ => False end.

Lemma nth_error_single {A} (x : A) t : nth_error [x] t = match t with O => Some x | S _ => None end.
Proof. destruct t as [|[|t]]; reflexivity. Qed.

Lemma interval_step_sim o p :
  interval_like o ->
  forall ls_full done l r s st, ls_full = done ++ l :: r -> RI p s st ->
    exists st', walk (interval_step p ls_full) st (TMark (length done) :: snd (tstep o s l)) = Some st' /\
                RI p (fst (tstep o s l)) st'.
Proof.
  intros Ho ls_full done l r s st E [Rn Rj Rm Rs (tk & Rt & Ru & Rb)].
  cbn [walk interval_step]. rewrite E, nth_error_mid.
  set (st1 := {| i_w := w_label (i_w st) (Some l); i_next := i_next st; i_earliest := i_earliest st |}).
  assert (Hnow1 : forall dt, l = LAdv dt -> w_now (i_w st1) = now s + dt).
  { intros dt ->. unfold st1. cbn. rewrite Rn. reflexivity. }
  destruct l; cbn [tstep].
  - (* LSrc *)
    rewrite Rs. destruct (src_done s); cbn [fst snd walk].
    + exists st1. split; [reflexivity|]. constructor; cbn; auto.
      * destruct (w_src_done (i_w st)); cbn; exact Rn.
      * exists tk. repeat split; auto. destruct (w_src_done (i_w st)); cbn; exact Ru.
    + destruct (is_term e); cbn [fst snd walk]; exists st1; (split; [reflexivity|]); constructor; cbn; auto;
        try (destruct (w_src_done (i_w st)); cbn; exact Rn);
        exists tk; repeat split; auto; destruct (w_src_done (i_w st)); cbn; exact Ru.
  - (* LRun *)
    rewrite Rt, Rj, !nth_error_single. destruct t as [|t].
    + destruct Rb as [Hf|[Hk|(due & Hb & He)]].
      * (* finished *)
        unfold poll. rewrite Hf. cbn [fst snd walk]. exists st1. split; [reflexivity|].
        constructor; cbn; auto. exists tk. repeat split; auto.
      * (* cancelled *)
        unfold poll. destruct (t_stage tk) eqn:Es; rewrite ?Hk; cbn [negb fst snd walk];
          exists st1; (split; [reflexivity|]); constructor; cbn; auto;
          eexists; (split; [reflexivity|]); cbn; split; auto.
      * pose proof (poll_repeat (now s) tk 0%nat p due (i_next st) Hb) as P.
        destruct (poll (now s) tk) as [tk1 res].
        destruct P as [(-> & Hb1 & Hk1 & Hs1)|(-> & Hk & Hmax & Hb1 & Hs1 & Hk1)].
        -- cbn [fst snd walk]. exists st1. split; [reflexivity|]. constructor; cbn; auto.
           exists tk1. split; [reflexivity|]. split; [intros Hu; rewrite Hk1; auto|].
           destruct Hs1 as [Hs1|[Hk Hl]]; [left; exact Hs1|].
           right. right. exists due. split; [exact Hb1|]. lia.
        -- (* the tick *)
           cbn [on_job]. cbn [down_fin upd_tasks].
           destruct (down_fin s) eqn:Ed.
           ++ cbn [fst snd walk tasks upd_tasks set_nth nth_error now].
              exists st1. split; [reflexivity|]. constructor; cbn; auto.
              eexists. split; [reflexivity|]. split.
              ** intros Hu. specialize (Ru Hu). congruence.
              ** left. unfold after_tick. rewrite Hb1. reflexivity.
           ++ cbn [fst snd tasks upd_tasks set_nth nth_error now].
              assert (Hun : w_unsub (i_w st) = false).
              { destruct (w_unsub (i_w st)) eqn:Eu; [specialize (Ru eq_refl); congruence|reflexivity]. }
              cbn [walk interval_step]. unfold st1 at 1 2 3 4 5. cbn [i_w i_next i_earliest w_label w_unsub w_now w_cur].
              rewrite Hun, Rn, N.eqb_refl. cbn [negb andb].
              assert (Hear : i_earliest st <=? now s = true) by (apply N.leb_le; lia).
              rewrite Hear. cbn [andb ev_eqb val_eqb]. rewrite Z.eqb_refl.
              eexists. split; [reflexivity|]. constructor; cbn; auto.
              eexists. split; [reflexivity|]. split.
              ** intros Hu. congruence.
              ** right. right. unfold after_tick. rewrite Hb1. cbn. eexists. split; [reflexivity|]. lia.
    + cbn [fst snd walk]. exists st1. split; [reflexivity|]. constructor; cbn; auto. exists tk. auto.
  - (* LAdv *)
    cbn [fst snd walk]. exists st1. split; [reflexivity|]. constructor; cbn; auto; try (rewrite Rn; reflexivity).
    exists tk. repeat split; auto. destruct Rb as [Hf|[Hk|(due & Hb & He)]]; auto.
    right. right. exists due. split; [exact Hb|]. pose proof (lb_mono (now s) dt tk). lia.
  - (* LUnsub *)
    assert (Hu : on_unsub o s = (cancel_task s 0, [])).
    { destruct o; try contradiction; cbn [on_unsub]; rewrite Rm; unfold unsub_handle;
        rewrite Rt, Rj; cbn [nth_error subscribing andb]; reflexivity. }
    rewrite Hu. cbn [fst snd walk]. exists st1. split; [reflexivity|].
    unfold cancel_task. rewrite Rt. cbn [nth_error]. constructor; cbn; auto.
    eexists. split; [reflexivity|]. cbn. split; auto.
  - (* LClosed *)
    cbn [fst snd walk interval_step]. exists st1. split; [reflexivity|]. constructor; cbn; auto. exists tk. auto.
  - (* LFinish *)
    cbn [fst snd walk]. exists st1. split; [reflexivity|]. constructor; cbn; auto. exists tk. auto.
  - destruct o; try contradiction; cbn [fst snd walk]; exists st1; (split; [reflexivity|]); constructor; cbn; auto; exists tk; auto.
  - destruct o; try contradiction; cbn [fst snd walk]; exists st1; (split; [reflexivity|]); constructor; cbn; auto; exists tk; auto.
  - destruct o; try contradiction; cbn [fst snd walk]; exists st1; (split; [reflexivity|]); constructor; cbn; auto; exists tk; auto.
  - destruct o; try contradiction; cbn [fst snd walk]; exists st1; (split; [reflexivity|]); constructor; cbn; auto; exists tk; auto.
  - destruct o; try contradiction; cbn [fst snd walk]; exists st1; (split; [reflexivity|]); constructor; cbn; auto; exists tk; auto.
Qed.

Theorem interval_meets_spec p ls : interval_ok p p ls (run_timed (TInterval p) ls) = true.
Proof.
  unfold interval_ok, run_timed.
  apply (run_sim (interval_step p) (TInterval p) (RI p) (interval_step_sim (TInterval p) p I) ls [] _ _ ls eq_refl).
  constructor; cbn; auto. eexists. split; [reflexivity|]. split; [discriminate|].
  right. right. eexists. split; [reflexivity|]. cbn. lia.
Qed.

Theorem interval_at_meets_spec dl p ls : interval_ok dl p ls (run_timed (TIntervalAt dl p) ls) = true.
Proof.
  unfold interval_ok, run_timed.
  apply (run_sim (interval_step p) (TIntervalAt dl p) (RI p) (interval_step_sim (TIntervalAt dl p) p I) ls [] _ _ ls eq_refl).
  constructor; cbn; auto. eexists. split; [reflexivity|]. split; [discriminate|].
  right. right. eexists. split; [reflexivity|]. cbn. lia.
Qed.

(* ---------- C08: timer ---------- *)

Lemma poll_once now tk j :
  t_body tk = BOnce j ->
  let '(tk1, res) := poll now tk in
  (res = PNone /\ t_body tk1 = BOnce j /\ t_keep tk1 = t_keep tk /\
   (t_stage tk1 = StFinished \/ (t_keep tk = true /\ lb now tk <= lb now tk1 /\ t_value tk1 = t_value tk)))
  \/
  (res = PRun j 0 false /\ t_keep tk = true /\ lb now tk <= now /\ t_stage tk1 = StFinished /\ t_body tk1 = BOnce j).
Proof.
  intros Hb. unfold poll, poll_body, lb. rewrite Hb.
  destruct (t_stage tk) eqn:Es; cbn; destruct (t_keep tk) eqn:Ek; cbn;
    repeat (rewrite ?Hb; cbn;
            try match goal with
                | |- context [if ?a <? ?b then _ else _] => destruct (N.ltb_spec a b)
                end);
    rewrite ?Hb, ?Es, ?Ek;
    first [ left; repeat split; cbn; rewrite ?Hb, ?Es, ?Ek; auto;
            first [left; reflexivity | right; repeat split; cbn; rewrite ?Es; auto; lia]
          | right; repeat split; cbn; rewrite ?Hb, ?Es, ?Ek; auto; lia ].
Qed.

Record RT (v : val) (d : N) (s : tsys) (st : istate) : Prop := {
  rt_now : w_now (i_w st) = now s;
  rt_jobs : jobs s = [JTimer v];
  rt_main : main_task s = Some 0%nat;
  rt_src : src_on s = false;
  rt_task : exists tk, tasks s = [tk] /\ t_body tk = BOnce 0 /\
            (w_unsub (i_w st) = true -> t_keep tk = false) /\
            (t_stage tk = StFinished \/ t_keep tk = false \/ (i_next st = 0%nat /\ d <= lb (now s) tk))
}.

Lemma timer_step_sim v d :
  forall ls_full done l r s st, ls_full = done ++ l :: r -> RT v d s st ->
    exists st', walk (timer_step v d ls_full) st (TMark (length done) :: snd (tstep (TTimer v d) s l)) = Some st' /\
                RT v d (fst (tstep (TTimer v d) s l)) st'.
Proof.
  intros ls_full done l r s st E [Rn Rj Rm Rs (tk & Rt & Rbd & Ru & Rb)].
  cbn [walk timer_step]. rewrite E, nth_error_mid.
  set (st1 := {| i_w := w_label (i_w st) (Some l); i_next := i_next st; i_earliest := i_earliest st |}).
  destruct l; cbn [tstep].
  - rewrite Rs. destruct (src_done s); cbn [fst snd walk].
    + exists st1. split; [reflexivity|]. constructor; cbn; auto.
      * destruct (w_src_done (i_w st)); cbn; exact Rn.
      * exists tk. repeat split; auto. destruct (w_src_done (i_w st)); cbn; exact Ru.
    + destruct (is_term e); cbn [fst snd walk]; exists st1; (split; [reflexivity|]); constructor; cbn; auto;
        try (destruct (w_src_done (i_w st)); cbn; exact Rn);
        exists tk; repeat split; auto; destruct (w_src_done (i_w st)); cbn; exact Ru.
  - rewrite Rt, Rj, !nth_error_single. destruct t as [|t].
    + destruct Rb as [Hf|[Hk|(Hn & Hd)]].
      * unfold poll. rewrite Hf. cbn [fst snd walk]. exists st1. split; [reflexivity|].
        constructor; cbn; auto. exists tk. repeat split; auto.
      * unfold poll. destruct (t_stage tk) eqn:Es; rewrite ?Hk; cbn [negb fst snd walk];
          exists st1; (split; [reflexivity|]); constructor; cbn; auto;
          eexists; (split; [reflexivity|]); cbn; repeat split; auto.
      * pose proof (poll_once (now s) tk 0%nat Rbd) as P.
        destruct (poll (now s) tk) as [tk1 res].
        destruct P as [(-> & Hb1 & Hk1 & Hs1)|(-> & Hk & Hlb & Hs1 & Hb1)].
        -- cbn [fst snd walk]. exists st1. split; [reflexivity|]. constructor; cbn; auto.
           exists tk1. split; [reflexivity|]. split; [exact Hb1|]. split; [intros Hu; rewrite Hk1; auto|].
           destruct Hs1 as [Hs1|(Hk & Hl & _)]; [left; exact Hs1|].
           right. right. split; [exact Hn|]. lia.
        -- cbn [on_job fst snd]. cbn [upd_tasks now].
           assert (Hun : w_unsub (i_w st) = false).
           { destruct (w_unsub (i_w st)) eqn:Eu; [specialize (Ru eq_refl); congruence|reflexivity]. }
           cbn [walk timer_step]. unfold st1 at 1 2 3 4. cbn [i_w i_next i_earliest w_label w_unsub w_now w_cur].
           rewrite Hun, Rn, N.eqb_refl, Hn. cbn [negb andb].
           assert (Hd' : d <=? now s = true) by (apply N.leb_le; lia). rewrite Hd'. cbn [andb ev_eqb].
           rewrite (val_eqb_refl v). cbn [i_w i_next i_earliest w_unsub w_now].
           unfold st1. cbn [i_next]. rewrite Hn, N.eqb_refl. cbn [negb andb].
           eexists. split; [reflexivity|]. constructor; cbn; auto.
           eexists. split; [reflexivity|]. cbn. repeat split; auto.
           intros Hu. congruence.
    + cbn [fst snd walk]. exists st1. split; [reflexivity|]. constructor; cbn; auto. exists tk. auto.
  - cbn [fst snd walk]. exists st1. split; [reflexivity|]. constructor; cbn; auto; try (rewrite Rn; reflexivity).
    exists tk. repeat split; auto. destruct Rb as [Hf|[Hk|(Hn & Hd)]]; auto.
    right. right. split; [exact Hn|]. pose proof (lb_mono (now s) dt tk). lia.
  - cbn [on_unsub]. rewrite Rm. unfold unsub_handle. rewrite Rt, Rj. cbn [nth_error subscribing andb fst snd walk].
    exists st1. split; [reflexivity|].
    unfold cancel_task. rewrite Rt. cbn [nth_error]. constructor; cbn; auto.
    eexists. split; [reflexivity|]. cbn. repeat split; auto.
  - cbn [fst snd walk timer_step]. exists st1. split; [reflexivity|]. constructor; cbn; auto. exists tk. auto.
  - cbn [fst snd walk]. exists st1. split; [reflexivity|]. constructor; cbn; auto. exists tk. auto.
  - cbn [fst snd walk]. exists st1. split; [reflexivity|]. constructor; cbn; auto. exists tk. auto.
  - cbn [fst snd walk]. exists st1. split; [reflexivity|]. constructor; cbn; auto. exists tk. auto.
  - cbn [fst snd walk]. exists st1. split; [reflexivity|]. constructor; cbn; auto. exists tk. auto.
  - cbn [fst snd walk]. exists st1. split; [reflexivity|]. constructor; cbn; auto. exists tk. auto.
  - cbn [fst snd walk]. exists st1. split; [reflexivity|]. constructor; cbn; auto. exists tk. auto.
Qed.

Theorem timer_meets_spec v d ls : timer_ok v d ls (run_timed (TTimer v d) ls) = true.
Proof.
  unfold timer_ok, run_timed.
  apply (run_sim (timer_step v d) (TTimer v d) (RT v d) (timer_step_sim v d) ls [] _ _ ls eq_refl).
  constructor; cbn; auto. eexists. split; [reflexivity|]. repeat split; try discriminate.
  right. right. split; [reflexivity|]. cbn. lia.
Qed.

(* whenever the executor runs as the timer falls due, ticks are exactly one period apart *)
Definition touts (out : list tout) : list tout :=
  filter (fun x => match x with TOut _ _ => true | _ => false end) out.

Fixpoint prompt_rounds (p : N) (n : nat) : list tlab :=
  match n with O => [] | S n' => LAdv p :: LRun 0 :: prompt_rounds p n' end.

Fixpoint expected_ticks (p : N) (k : nat) (t : N) (n : nat) : list tout :=
  match n with O => [] | S n' => TOut (t + p) (Next (VZ (Z.of_nat k))) :: expected_ticks p (S k) (t + p) n' end.

Lemma interval_prompt_gen p : 0 < p -> forall n k s j tk o,
  interval_like o ->
  tasks s = [tk] -> jobs s = [JInterval] -> down_fin s = false ->
  t_stage tk = StBody -> t_keep tk = true -> t_body tk = BRepeat 0 p (now s + p) k ->
  touts (trun_sys o s j (prompt_rounds p n)) = expected_ticks p k (now s) n.
Proof.
  intros Hp n. induction n as [|n IH]; intros k s j tk o Ho Ht Hj Hd Hs Hk Hb; [reflexivity|].
  cbn [prompt_rounds trun_sys tstep fst snd app touts filter].
  cbn [upd_now tasks jobs now]. rewrite Ht, Hj. cbn [nth_error].
  unfold poll. rewrite Hs, Hk. cbn [negb]. unfold poll_body. rewrite Hb.
  destruct (N.ltb_spec (now s + p) (now s + p)); [lia|].
  cbn [on_job down_fin upd_tasks upd_now]. rewrite Hd.
  cbn [fst snd tasks upd_tasks upd_now set_nth nth_error now app touts filter expected_ticks].
  f_equal.
  match goal with |- filter _ (trun_sys o ?s' _ _) = _ =>
    change (touts (trun_sys o s' (S (S j)) (prompt_rounds p n)) = expected_ticks p (S k) (now s') n);
    apply (IH (S k) s' _ (after_tick (now s + p) tk true) o Ho) end;
    cbn; auto; unfold after_tick; rewrite Hb; cbn; auto.
Qed.

Theorem interval_prompt p n : 0 < p ->
  touts (run_timed (TInterval p) (prompt_rounds p n)) = expected_ticks p 0 0 n.
Proof.
  intros Hp. unfold run_timed.
  change (expected_ticks p 0 0 n) with (expected_ticks p 0 (now (tinit (TInterval p))) n).
  eapply (interval_prompt_gen p Hp n 0%nat (tinit (TInterval p)) 0%nat _ (TInterval p) I); cbn; reflexivity.
Qed.
