(* The timed system satisfies the trace predicates, for every label sequence. *)
From RxModel Require Import Timed.
From RxSpec Require Import TimedSpec.
From RxProofs Require Import ValEq.
From RxProofs Require SchedLaws.
Open Scope N_scope.

(* ---------- walking ---------- *)

Lemma walk_app {St} (step : St -> tout -> option St) s a b :
  walk step s (a ++ b) = match walk step s a with Some s' => walk step s' b | None => None end.
Proof.
  revert s. induction a as [|x a IH]; intros s; [reflexivity|].
  cbn. destruct (step s x); [apply IH|reflexivity].
Qed.

Lemma nth_error_mid {A} (done : list A) l r : nth_error (done ++ l :: r) (length done) = Some l.
Proof. induction done; cbn; auto. Qed.

(* a predicate given by a step function holds of every run if a relation between the system
   state and the walking state is preserved by every label *)
Lemma run_sim {St} (step : list tlab -> St -> tout -> option St) (o : top) (R : tsys -> St -> Prop) :
  (forall ls_full done l r s w, ls_full = done ++ l :: r -> R s w ->
      exists w', walk (step ls_full) w (TMark (length done) :: snd (tstep o s l)) = Some w' /\ R (fst (tstep o s l)) w') ->
  forall r done s w ls_full,
    ls_full = done ++ r -> R s w -> accepted (walk (step ls_full) w (trun_sys o s (length done) r)) = true.
Proof.
  intros H r. induction r as [|l r IH]; intros done s w ls_full E HR; [reflexivity|].
  cbn [trun_sys]. destruct (H ls_full done l r s w E HR) as (w' & Hw & HR').
  destruct (tstep o s l) as [s1 out]. cbn [fst snd] in *.
  change (TMark (length done) :: out ++ trun_sys o s1 (S (length done)) r)
    with ((TMark (length done) :: out) ++ trun_sys o s1 (S (length done)) r).
  rewrite walk_app, Hw.
  replace (S (length done)) with (length (done ++ [l])) by (rewrite app_length; cbn; lia).
  apply IH; [rewrite <- app_assoc; exact E|exact HR'].
Qed.

(* ---------- C08: interval / interval_at ---------- *)

Definition lb (now : N) (tk : task) : N :=
  match t_stage tk with StDelay d => now + d | StWait due => due | _ => now end.

Lemma lb_mono now dt tk : lb now tk <= lb (now + dt) tk.
Proof. unfold lb. destruct (t_stage tk); lia. Qed.

(* what a poll of a repeating task can do *)
Lemma poll_repeat now tk j p due seq :
  t_body tk = BRepeat j p due seq ->
  let '(tk1, res) := poll now tk in
  (res = PNone /\ t_body tk1 = BRepeat j p due seq /\
   (t_keep tk1 = t_keep tk) /\ (t_stage tk1 = StFinished \/ (t_keep tk = true /\ lb now tk <= lb now tk1)))
  \/
  (res = PRun j seq true /\ t_keep tk = true /\ N.max (lb now tk) due <= now /\
   t_body tk1 = BRepeat j p due seq /\ t_stage tk1 = StBody /\ t_keep tk1 = true).
Proof.
  intros Hb. unfold poll, poll_body, lb. rewrite Hb.
  destruct (t_stage tk) eqn:Es; cbn; destruct (t_keep tk) eqn:Ek; cbn;
    repeat (rewrite ?Hb; cbn;
            try match goal with
                | |- context [if ?a <? ?b then _ else _] => destruct (N.ltb_spec a b)
                end);
    rewrite ?Hb, ?Es, ?Ek;
    first [ left; repeat split; cbn; rewrite ?Hb, ?Es, ?Ek; auto;
            first [left; reflexivity | right; split; [reflexivity|cbn; rewrite ?Es; lia]]
          | right; repeat split; cbn; rewrite ?Hb, ?Es, ?Ek; auto; lia ].
Qed.

Record RI (p : N) (s : tsys) (st : istate) : Prop := {
  ri_now : w_now (i_w st) = now s;
  ri_jobs : jobs s = [JInterval];
  ri_main : main_task s = Some 0%nat;
  ri_src : src_on s = false;
  ri_task : exists tk, tasks s = [tk] /\
            (w_unsub (i_w st) = true -> t_keep tk = false) /\
            (t_stage tk = StFinished \/ t_keep tk = false \/
             exists due, t_body tk = BRepeat 0 p due (i_next st) /\ i_earliest st <= N.max (lb (now s) tk) due)
}.

Definition interval_like (o : top) : Prop :=
  match o with TInterval _ | TIntervalAt _ _ => True | _ => False end.

Lemma nth_error_single {A} (x : A) t : nth_error [x] t = match t with O => Some x | S _ => None end.
Proof. destruct t as [|[|t]]; reflexivity. Qed.

Lemma interval_step_sim o p :
  interval_like o ->
  forall ls_full done l r s st, ls_full = done ++ l :: r -> RI p s st ->
    exists st', walk (interval_step p ls_full) st (TMark (length done) :: snd (tstep o s l)) = Some st' /\
                RI p (fst (tstep o s l)) st'.
Proof.
  intros Ho ls_full done l r s st E [Rn Rj Rm Rs (tk & Rt & Ru & Rb)].
  cbn [walk interval_step]. rewrite E, nth_error_mid.
  set (st1 := {| i_w := w_label (i_w st) (Some l); i_next := i_next st; i_earliest := i_earliest st |}).
  assert (Hnow1 : forall dt, l = LAdv dt -> w_now (i_w st1) = now s + dt).
  { intros dt ->. unfold st1. cbn. rewrite Rn. reflexivity. }
  destruct l; cbn [tstep].
  - (* LSrc *)
    rewrite Rs. destruct (src_done s); cbn [fst snd walk].
    + exists st1. split; [reflexivity|]. constructor; cbn; auto.
      * destruct (w_src_done (i_w st)); cbn; exact Rn.
      * exists tk. repeat split; auto. destruct (w_src_done (i_w st)); cbn; exact Ru.
    + destruct (is_term e); cbn [fst snd walk]; exists st1; (split; [reflexivity|]); constructor; cbn; auto;
        try (destruct (w_src_done (i_w st)); cbn; exact Rn);
        exists tk; repeat split; auto; destruct (w_src_done (i_w st)); cbn; exact Ru.
  - (* LRun *)
    rewrite Rt, Rj, !nth_error_single. destruct t as [|t].
    + destruct Rb as [Hf|[Hk|(due & Hb & He)]].
      * (* finished *)
        unfold poll. rewrite Hf. cbn [fst snd walk]. exists st1. split; [reflexivity|].
        constructor; cbn; auto. exists tk. repeat split; auto.
      * (* cancelled *)
        unfold poll. destruct (t_stage tk) eqn:Es; rewrite ?Hk; cbn [negb fst snd walk];
          exists st1; (split; [reflexivity|]); constructor; cbn; auto;
          eexists; (split; [reflexivity|]); cbn; split; auto.
      * pose proof (poll_repeat (now s) tk 0%nat p due (i_next st) Hb) as P.
        destruct (poll (now s) tk) as [tk1 res].
        destruct P as [(-> & Hb1 & Hk1 & Hs1)|(-> & Hk & Hmax & Hb1 & Hs1 & Hk1)].
        -- cbn [fst snd walk]. exists st1. split; [reflexivity|]. constructor; cbn; auto.
           exists tk1. split; [reflexivity|]. split; [intros Hu; rewrite Hk1; auto|].
           destruct Hs1 as [Hs1|[Hk Hl]]; [left; exact Hs1|].
           right. right. exists due. split; [exact Hb1|]. lia.
        -- (* the tick *)
           cbn [on_job]. cbn [down_fin upd_tasks].
           destruct (down_fin s) eqn:Ed.
           ++ cbn [fst snd walk tasks upd_tasks set_nth nth_error now].
              exists st1. split; [reflexivity|]. constructor; cbn; auto.
              eexists. split; [reflexivity|]. split.
              ** intros Hu. specialize (Ru Hu). congruence.
              ** left. unfold after_tick. rewrite Hb1. reflexivity.
           ++ cbn [fst snd tasks upd_tasks set_nth nth_error now].
              assert (Hun : w_unsub (i_w st) = false).
              { destruct (w_unsub (i_w st)) eqn:Eu; [specialize (Ru eq_refl); congruence|reflexivity]. }
              cbn [walk interval_step]. unfold st1 at 1 2 3 4 5. cbn [i_w i_next i_earliest w_label w_unsub w_now w_cur].
              rewrite Hun, Rn, N.eqb_refl. cbn [negb andb].
              assert (Hear : i_earliest st <=? now s = true) by (apply N.leb_le; lia).
              rewrite Hear. cbn [andb ev_eqb val_eqb]. rewrite Z.eqb_refl.
              eexists. split; [reflexivity|]. constructor; cbn; auto.
              eexists. split; [reflexivity|]. split.
              ** intros Hu. congruence.
              ** right. right. unfold after_tick. rewrite Hb1. cbn. eexists. split; [reflexivity|]. lia.
    + cbn [fst snd walk]. exists st1. split; [reflexivity|]. constructor; cbn; auto. exists tk. auto.
  - (* LAdv *)
    cbn [fst snd walk]. exists st1. split; [reflexivity|]. constructor; cbn; auto; try (rewrite Rn; reflexivity).
    exists tk. repeat split; auto. destruct Rb as [Hf|[Hk|(due & Hb & He)]]; auto.
    right. right. exists due. split; [exact Hb|]. pose proof (lb_mono (now s) dt tk). lia.
  - (* LUnsub *)
    assert (Hu : on_unsub o s = (cancel_task s 0, [])).
    { destruct o; try contradiction; cbn [on_unsub]; rewrite Rm; unfold unsub_handle;
        rewrite Rt, Rj; cbn [nth_error subscribing andb]; reflexivity. }
    rewrite Hu. cbn [fst snd walk]. exists st1. split; [reflexivity|].
    unfold cancel_task. rewrite Rt. cbn [nth_error]. constructor; cbn; auto.
    eexists. split; [reflexivity|]. cbn. split; auto.
  - (* LClosed *)
    cbn [fst snd walk interval_step]. exists st1. split; [reflexivity|]. constructor; cbn; auto. exists tk. auto.
  - (* LFinish *)
    cbn [fst snd walk]. exists st1. split; [reflexivity|]. constructor; cbn; auto. exists tk. auto.
  - destruct o; try contradiction; cbn [fst snd walk]; exists st1; (split; [reflexivity|]); constructor; cbn; auto; exists tk; auto.
  - destruct o; try contradiction; cbn [fst snd walk]; exists st1; (split; [reflexivity|]); constructor; cbn; auto; exists tk; auto.
  - destruct o; try contradiction; cbn [fst snd walk]; exists st1; (split; [reflexivity|]); constructor; cbn; auto; exists tk; auto.
  - destruct o; try contradiction; cbn [fst snd walk]; exists st1; (split; [reflexivity|]); constructor; cbn; auto; exists tk; auto.
  - destruct o; try contradiction; cbn [fst snd walk]; exists st1; (split; [reflexivity|]); constructor; cbn; auto; exists tk; auto.
Qed.

Theorem interval_meets_spec p ls : interval_ok p p ls (run_timed (TInterval p) ls) = true.
Proof.
  unfold interval_ok, run_timed.
  apply (run_sim (interval_step p) (TInterval p) (RI p) (interval_step_sim (TInterval p) p I) ls [] _ _ ls eq_refl).
  constructor; cbn; auto. eexists. split; [reflexivity|]. split; [discriminate|].
  right. right. eexists. split; [reflexivity|]. cbn. lia.
Qed.

Theorem interval_at_meets_spec dl p ls : interval_ok dl p ls (run_timed (TIntervalAt dl p) ls) = true.
Proof.
  unfold interval_ok, run_timed.
  apply (run_sim (interval_step p) (TIntervalAt dl p) (RI p) (interval_step_sim (TIntervalAt dl p) p I) ls [] _ _ ls eq_refl).
  constructor; cbn; auto. eexists. split; [reflexivity|]. split; [discriminate|].
  right. right. eexists. split; [reflexivity|]. cbn. lia.
Qed.

(* ---------- C08: timer ---------- *)

Lemma poll_once now tk j :
  t_body tk = BOnce j ->
  let '(tk1, res) := poll now tk in
  (res = PNone /\ t_body tk1 = BOnce j /\ t_keep tk1 = t_keep tk /\
   (t_stage tk1 = StFinished \/ (t_keep tk = true /\ lb now tk <= lb now tk1 /\ t_value tk1 = t_value tk)))
  \/
  (res = PRun j 0 false /\ t_keep tk = true /\ lb now tk <= now /\ t_stage tk1 = StFinished /\ t_body tk1 = BOnce j).
Proof.
  intros Hb. unfold poll, poll_body, lb. rewrite Hb.
  destruct (t_stage tk) eqn:Es; cbn; destruct (t_keep tk) eqn:Ek; cbn;
    repeat (rewrite ?Hb; cbn;
            try match goal with
                | |- context [if ?a <? ?b then _ else _] => destruct (N.ltb_spec a b)
                end);
    rewrite ?Hb, ?Es, ?Ek;
    first [ left; repeat split; cbn; rewrite ?Hb, ?Es, ?Ek; auto;
            first [left; reflexivity | right; repeat split; cbn; rewrite ?Es; auto; lia]
          | right; repeat split; cbn; rewrite ?Hb, ?Es, ?Ek; auto; lia ].
Qed.

Record RT (v : val) (d : N) (s : tsys) (st : istate) : Prop := {
  rt_now : w_now (i_w st) = now s;
  rt_jobs : jobs s = [JTimer v];
  rt_main : main_task s = Some 0%nat;
  rt_src : src_on s = false;
  rt_task : exists tk, tasks s = [tk] /\ t_body tk = BOnce 0 /\
            (w_unsub (i_w st) = true -> t_keep tk = false) /\
            (t_stage tk = StFinished \/ t_keep tk = false \/ (i_next st = 0%nat /\ d <= lb (now s) tk))
}.

Lemma timer_step_sim v d :
  forall ls_full done l r s st, ls_full = done ++ l :: r -> RT v d s st ->
    exists st', walk (timer_step v d ls_full) st (TMark (length done) :: snd (tstep (TTimer v d) s l)) = Some st' /\
                RT v d (fst (tstep (TTimer v d) s l)) st'.
Proof.
  intros ls_full done l r s st E [Rn Rj Rm Rs (tk & Rt & Rbd & Ru & Rb)].
  cbn [walk timer_step]. rewrite E, nth_error_mid.
  set (st1 := {| i_w := w_label (i_w st) (Some l); i_next := i_next st; i_earliest := i_earliest st |}).
  destruct l; cbn [tstep].
  - rewrite Rs. destruct (src_done s); cbn [fst snd walk].
    + exists st1. split; [reflexivity|]. constructor; cbn; auto.
      * destruct (w_src_done (i_w st)); cbn; exact Rn.
      * exists tk. repeat split; auto. destruct (w_src_done (i_w st)); cbn; exact Ru.
    + destruct (is_term e); cbn [fst snd walk]; exists st1; (split; [reflexivity|]); constructor; cbn; auto;
        try (destruct (w_src_done (i_w st)); cbn; exact Rn);
        exists tk; repeat split; auto; destruct (w_src_done (i_w st)); cbn; exact Ru.
  - rewrite Rt, Rj, !nth_error_single. destruct t as [|t].
    + destruct Rb as [Hf|[Hk|(Hn & Hd)]].
      * unfold poll. rewrite Hf. cbn [fst snd walk]. exists st1. split; [reflexivity|].
        constructor; cbn; auto. exists tk. repeat split; auto.
      * unfold poll. destruct (t_stage tk) eqn:Es; rewrite ?Hk; cbn [negb fst snd walk];
          exists st1; (split; [reflexivity|]); constructor; cbn; auto;
          eexists; (split; [reflexivity|]); cbn; repeat split; auto.
      * pose proof (poll_once (now s) tk 0%nat Rbd) as P.
        destruct (poll (now s) tk) as [tk1 res].
        destruct P as [(-> & Hb1 & Hk1 & Hs1)|(-> & Hk & Hlb & Hs1 & Hb1)].
        -- cbn [fst snd walk]. exists st1. split; [reflexivity|]. constructor; cbn; auto.
           exists tk1. split; [reflexivity|]. split; [exact Hb1|]. split; [intros Hu; rewrite Hk1; auto|].
           destruct Hs1 as [Hs1|(Hk & Hl & _)]; [left; exact Hs1|].
           right. right. split; [exact Hn|]. lia.
        -- cbn [on_job fst snd]. cbn [upd_tasks now].
           assert (Hun : w_unsub (i_w st) = false).
           { destruct (w_unsub (i_w st)) eqn:Eu; [specialize (Ru eq_refl); congruence|reflexivity]. }
           cbn [walk timer_step]. unfold st1 at 1 2 3 4. cbn [i_w i_next i_earliest w_label w_unsub w_now w_cur].
           rewrite Hun, Rn, N.eqb_refl, Hn. cbn [negb andb].
           assert (Hd' : d <=? now s = true) by (apply N.leb_le; lia). rewrite Hd'. cbn [andb ev_eqb].
           rewrite (val_eqb_refl v). cbn [i_w i_next i_earliest w_unsub w_now].
           unfold st1. cbn [i_next]. rewrite Hn, N.eqb_refl. cbn [negb andb].
           eexists. split; [reflexivity|]. constructor; cbn; auto.
           eexists. split; [reflexivity|]. cbn. repeat split; auto.
           intros Hu. congruence.
    + cbn [fst snd walk]. exists st1. split; [reflexivity|]. constructor; cbn; auto. exists tk. auto.
  - cbn [fst snd walk]. exists st1. split; [reflexivity|]. constructor; cbn; auto; try (rewrite Rn; reflexivity).
    exists tk. repeat split; auto. destruct Rb as [Hf|[Hk|(Hn & Hd)]]; auto.
    right. right. split; [exact Hn|]. pose proof (lb_mono (now s) dt tk). lia.
  - cbn [on_unsub]. rewrite Rm. unfold unsub_handle. rewrite Rt, Rj. cbn [nth_error subscribing andb fst snd walk].
    exists st1. split; [reflexivity|].
    unfold cancel_task. rewrite Rt. cbn [nth_error]. constructor; cbn; auto.
    eexists. split; [reflexivity|]. cbn. repeat split; auto.
  - cbn [fst snd walk timer_step]. exists st1. split; [reflexivity|]. constructor; cbn; auto. exists tk. auto.
  - cbn [fst snd walk]. exists st1. split; [reflexivity|]. constructor; cbn; auto. exists tk. auto.
  - cbn [fst snd walk]. exists st1. split; [reflexivity|]. constructor; cbn; auto. exists tk. auto.
  - cbn [fst snd walk]. exists st1. split; [reflexivity|]. constructor; cbn; auto. exists tk. auto.
  - cbn [fst snd walk]. exists st1. split; [reflexivity|]. constructor; cbn; auto. exists tk. auto.
  - cbn [fst snd walk]. exists st1. split; [reflexivity|]. constructor; cbn; auto. exists tk. auto.
  - cbn [fst snd walk]. exists st1. split; [reflexivity|]. constructor; cbn; auto. exists tk. auto.
Qed.

Theorem timer_meets_spec v d ls : timer_ok v d ls (run_timed (TTimer v d) ls) = true.
Proof.
  unfold timer_ok, run_timed.
  apply (run_sim (timer_step v d) (TTimer v d) (RT v d) (timer_step_sim v d) ls [] _ _ ls eq_refl).
  constructor; cbn; auto. eexists. split; [reflexivity|]. repeat split; try discriminate.
  right. right. split; [reflexivity|]. cbn. lia.
Qed.

(* whenever the executor runs as the timer falls due, ticks are exactly one period apart *)
Definition touts (out : list tout) : list tout :=
  filter (fun x => match x with TOut _ _ => true | _ => false end) out.

Fixpoint prompt_rounds (p : N) (n : nat) : list tlab :=
  match n with O => [] | S n' => LAdv p :: LRun 0 :: prompt_rounds p n' end.

Fixpoint expected_ticks (p : N) (k : nat) (t : N) (n : nat) : list tout :=
  match n with O => [] | S n' => TOut (t + p) (Next (VZ (Z.of_nat k))) :: expected_ticks p (S k) (t + p) n' end.

Lemma interval_prompt_gen p : 0 < p -> forall n k s j tk o,
  interval_like o ->
  tasks s = [tk] -> jobs s = [JInterval] -> down_fin s = false ->
  t_stage tk = StBody -> t_keep tk = true -> t_body tk = BRepeat 0 p (now s + p) k ->
  touts (trun_sys o s j (prompt_rounds p n)) = expected_ticks p k (now s) n.
Proof.
  intros Hp n. induction n as [|n IH]; intros k s j tk o Ho Ht Hj Hd Hs Hk Hb; [reflexivity|].
  cbn [prompt_rounds trun_sys tstep fst snd app touts filter].
  cbn [upd_now tasks jobs now]. rewrite Ht, Hj. cbn [nth_error].
  unfold poll. rewrite Hs, Hk. cbn [negb]. unfold poll_body. rewrite Hb.
  destruct (N.ltb_spec (now s + p) (now s + p)); [lia|].
  cbn [on_job down_fin upd_tasks upd_now]. rewrite Hd.
  cbn [fst snd tasks upd_tasks upd_now set_nth nth_error now app touts filter expected_ticks].
  f_equal.
  match goal with |- filter _ (trun_sys o ?s' _ _) = _ =>
    change (touts (trun_sys o s' (S (S j)) (prompt_rounds p n)) = expected_ticks p (S k) (now s') n);
    apply (IH (S k) s' _ (after_tick (now s + p) tk true) o Ho) end;
    cbn; auto; unfold after_tick; rewrite Hb; cbn; auto.
Qed.

Theorem interval_prompt p n : 0 < p ->
  touts (run_timed (TInterval p) (prompt_rounds p n)) = expected_ticks p 0 0 n.
Proof.
  intros Hp. unfold run_timed.
  change (expected_ticks p 0 0 n) with (expected_ticks p 0 (now (tinit (TInterval p))) n).
  eapply (interval_prompt_gen p Hp n 0%nat (tinit (TInterval p)) 0%nat _ (TInterval p) I); cbn; reflexivity.
Qed.

(* ---------- C02: after unsubscribe() the subscriber is never called again ---------- *)

Definition slot_job (j : job) : bool :=
  match j with JEmit _ | JEmitErr _ | JComplete | JTrailing | JFlush => true | _ => false end.

(* a task that can no longer reach the subscriber *)
Definition quiet_task (s : tsys) (tk : task) (j : job) : Prop :=
  t_stage tk = StFinished \/ t_keep tk = false \/ (alive s = false /\ slot_job j = true).

Record Silent (s : tsys) : Prop := {
  sil_src : src_on s = false;
  sil_tasks : forall i tk j, nth_error (tasks s) i = Some tk -> nth_error (jobs s) i = Some j -> quiet_task s tk j
}.

Definition not_raw (o : top) : Prop := match o with TRaw => False | _ => True end.

Lemma nth_error_set_nth_eq {A} (l : list A) i x y : nth_error l i = Some y -> nth_error (set_nth l i x) i = Some x.
Proof. revert i. induction l as [|a l IH]; intros [|i] H; cbn in *; try discriminate; auto. Qed.

Lemma nth_error_set_nth_neq {A} (l : list A) i k x : i <> k -> nth_error (set_nth l i x) k = nth_error l k.
Proof. revert i k. induction l as [|a l IH]; intros [|i] [|k] H; cbn; auto; try congruence. Qed.

Lemma set_nth_length {A} (l : list A) i x : length (set_nth l i x) = length l.
Proof. revert i. induction l as [|a l IH]; intros [|i]; cbn; auto. Qed.

(* polling a quiet task neither calls the subscriber nor makes anything loud *)
Lemma poll_quiet now tk :
  (t_stage tk = StFinished \/ t_keep tk = false) ->
  snd (poll now tk) = PNone /\ (t_stage (fst (poll now tk)) = StFinished \/ t_keep (fst (poll now tk)) = false).
Proof.
  intros [H|H]; unfold poll.
  - rewrite H. cbn. auto.
  - destruct (t_stage tk) eqn:Es; rewrite ?H; cbn; auto.
Qed.

Lemma poll_keeps_flags now tk :
  t_keep (fst (poll now tk)) = t_keep tk.
Proof.
  unfold poll, poll_body. destruct (t_stage tk); cbn; destruct (t_keep tk) eqn:Ek; cbn; auto;
    repeat match goal with
           | |- context [if ?c then _ else _] => destruct c; cbn; auto
           | |- context [match t_body tk with _ => _ end] => destruct (t_body tk); cbn; auto
           end.
Qed.

Definition no_tout (out : list tout) : Prop := forall x, In x out -> match x with TOut _ _ => False | _ => True end.

Lemma no_tout_nil : no_tout [].
Proof. intros x []. Qed.

Lemma no_tout_app a b : no_tout a -> no_tout b -> no_tout (a ++ b).
Proof. intros Ha Hb x Hx. apply in_app_or in Hx. destruct Hx as [Hx|Hx]; [apply Ha, Hx|apply Hb, Hx]. Qed.

(* a slot job run while the slot is empty delivers nothing and leaves the slot empty *)
Lemma dead_slot_job o s t j seq :
  alive s = false -> slot_job j = true ->
  let '(s1, out, c) := on_job o s t j seq in
  out = [] /\ alive s1 = false /\ tasks s1 = tasks s /\ jobs s1 = jobs s /\ src_on s1 = src_on s.
Proof.
  intros Ha Hj. destruct j; cbn in Hj; try discriminate; cbn [on_job];
    unfold slot_next, slot_term; rewrite ?Ha; cbn; auto.
  destruct (trailing s); cbn; rewrite ?Ha; cbn; auto.
Qed.

Lemma silent_cancel s t : Silent s -> Silent (cancel_task s t).
Proof.
  intros [A B]. unfold cancel_task. destruct (nth_error (tasks s) t) as [tk|] eqn:Et; [|split; assumption].
  split; cbn; auto. intros i tk' j' Hi Hj'. destruct (Nat.eq_dec t i) as [<-|Hne].
  - rewrite (nth_error_set_nth_eq _ _ _ _ Et) in Hi. inversion Hi; subst. right. left. reflexivity.
  - rewrite nth_error_set_nth_neq in Hi by exact Hne.
    destruct (B i tk' j' Hi Hj') as [Q|[Q|[Q1 Q2]]]; [left|right; left|right; right]; auto.
Qed.

Lemma silent_same s s' :
  Silent s -> src_on s' = false -> tasks s' = tasks s -> jobs s' = jobs s -> (alive s = false -> alive s' = false) -> Silent s'.
Proof.
  intros [A B] H1 H2 H3 H4. split; [exact H1|]. intros i tk j Hi Hj. rewrite H2 in Hi. rewrite H3 in Hj.
  destruct (B i tk j Hi Hj) as [Q|[Q|[Q1 Q2]]]; [left|right; left|right; right]; auto.
Qed.

Lemma silent_unsub_handle o s t : Silent s -> Silent (fst (unsub_handle o s t)) /\ no_tout (snd (unsub_handle o s t)).
Proof.
  intros H. unfold unsub_handle.
  destruct (nth_error (tasks s) t) as [tk|]; [|split; [exact H|apply no_tout_nil]].
  destruct (nth_error (jobs s) t) as [j|]; [|split; [exact H|apply no_tout_nil]].
  pose proof (silent_cancel s t H) as Hc.
  destruct j; cbn [subscribing andb]; try (split; [exact Hc|apply no_tout_nil]);
    destruct (handle_closed tk); cbn [fst snd]; try (split; [exact Hc|apply no_tout_nil]).
  - split; [|apply no_tout_nil]. apply (silent_same _ _ Hc); cbn; auto.
  - destruct (existsb _ _); cbn [fst snd].
    + split; [apply (silent_same _ _ Hc); cbn; auto; apply Hc|]. intros x [<-|[]]. exact I.
    + split; [exact Hc|apply no_tout_nil].
Qed.

Lemma silent_unsub_handles o : forall ts s, Silent s -> Silent (fst (unsub_handles o s ts)) /\ no_tout (snd (unsub_handles o s ts)).
Proof.
  induction ts as [|t r IH]; intros s H; [split; [exact H|apply no_tout_nil]|].
  cbn [unsub_handles]. destruct (silent_unsub_handle o s t H) as [H1 N1].
  destruct (unsub_handle o s t) as [s1 o1]. cbn [fst snd] in *.
  destruct (IH s1 H1) as [H2 N2]. destruct (unsub_handles o s1 r) as [s2 o2]. cbn [fst snd] in *.
  split; [exact H2|apply no_tout_app; assumption].
Qed.

Lemma silent_on_unsub o s : not_raw o -> Silent s -> Silent (fst (on_unsub o s)) /\ no_tout (snd (on_unsub o s)).
Proof.
  intros Ho H.
  assert (Hsrc : Silent (upd_src s false (src_done s))) by (apply (silent_same _ _ H); cbn; auto).
  destruct o; try contradiction; cbn [on_unsub].
  - destruct (multi (upd_src s false (src_done s))) as [l|] eqn:Em; [|split; [exact Hsrc|apply no_tout_nil]].
    apply silent_unsub_handles. apply (silent_same _ _ Hsrc); cbn; auto.
  - destruct (multi (upd_src s false (src_done s))) as [l|] eqn:Em; [|split; [exact Hsrc|apply no_tout_nil]].
    apply silent_unsub_handles. apply (silent_same _ _ Hsrc); cbn; auto.
  - destruct (main_task s); [apply silent_unsub_handle, H|split; [exact H|apply no_tout_nil]].
  - destruct (main_task s); [apply silent_unsub_handle, H|split; [exact H|apply no_tout_nil]].
  - destruct (handler (upd_src s false (src_done s))) as [h|]; cbn [fst snd]; (split; [|apply no_tout_nil]); [|exact Hsrc].
    pose proof (silent_cancel _ h Hsrc) as Hc. apply (silent_same _ _ Hc); cbn; auto. apply Hc.
  - cbn [fst snd]. split; [|apply no_tout_nil]. apply (silent_same _ _ Hsrc); cbn; auto.
  - destruct (main_task s) as [t|].
    + destruct (silent_unsub_handle (TBufferTime d) s t H) as [H1 N1].
      destruct (unsub_handle (TBufferTime d) s t) as [s1 o1]. cbn [fst snd] in *.
      split; [apply (silent_same _ _ H1); cbn; auto|exact N1].
    + cbn [fst snd]. split; [exact Hsrc|apply no_tout_nil].
  - destruct (main_task s) as [t|].
    + destruct (silent_unsub_handle (TBufferCountTime count d) s t H) as [H1 N1].
      destruct (unsub_handle (TBufferCountTime count d) s t) as [s1 o1]. cbn [fst snd] in *.
      split; [apply (silent_same _ _ H1); cbn; auto|exact N1].
    + cbn [fst snd]. split; [exact Hsrc|apply no_tout_nil].
  - destruct (main_task s); [apply silent_unsub_handle, H|split; [exact H|apply no_tout_nil]].
  - destruct (main_task s); [apply silent_unsub_handle, H|split; [exact H|apply no_tout_nil]].
  - destruct (main_task s); [apply silent_unsub_handle, H|split; [exact H|apply no_tout_nil]].
Qed.

Lemma silent_step o s l :
  not_raw o -> Silent s ->
  Silent (fst (tstep o s l)) /\ no_tout (snd (tstep o s l)).
Proof.
  intros Ho [Hsrc Ht]. destruct l; cbn [tstep].
  - (* LSrc *)
    rewrite Hsrc. destruct (src_done s); cbn [fst snd]; [split; [split; auto|apply no_tout_nil]|].
    destruct (is_term e); cbn [fst snd]; (split; [split; cbn; auto|apply no_tout_nil]).
  - (* LRun *)
    destruct (nth_error (tasks s) t) as [tk|] eqn:Et; [|split; [split; auto|apply no_tout_nil]].
    destruct (nth_error (jobs s) t) as [j|] eqn:Ej; [|split; [split; auto|apply no_tout_nil]].
    destruct (Ht t tk j Et Ej) as [Hq|[Hq|[Ha Hsj]]].
    + destruct (poll_quiet (now s) tk (or_introl Hq)) as [P1 P2].
      destruct (poll (now s) tk) as [tk1 res]. cbn [fst snd] in *. subst res. cbn [fst snd].
      split; [|apply no_tout_nil]. split; cbn; auto.
      intros i tk' j' Hi Hj'. destruct (Nat.eq_dec t i) as [<-|Hne].
      * rewrite (nth_error_set_nth_eq _ _ _ _ Et) in Hi. inversion Hi; subst tk'.
        destruct P2; [left|right; left]; assumption.
      * rewrite nth_error_set_nth_neq in Hi by exact Hne. apply (Ht i tk' j' Hi Hj').
    + destruct (poll_quiet (now s) tk (or_intror Hq)) as [P1 P2].
      destruct (poll (now s) tk) as [tk1 res]. cbn [fst snd] in *. subst res. cbn [fst snd].
      split; [|apply no_tout_nil]. split; cbn; auto.
      intros i tk' j' Hi Hj'. destruct (Nat.eq_dec t i) as [<-|Hne].
      * rewrite (nth_error_set_nth_eq _ _ _ _ Et) in Hi. inversion Hi; subst tk'.
        destruct P2; [left|right; left]; assumption.
      * rewrite nth_error_set_nth_neq in Hi by exact Hne. apply (Ht i tk' j' Hi Hj').
    + (* the slot is empty: the job may run but delivers nothing *)
      destruct (poll (now s) tk) as [tk1 res] eqn:Ep.
      set (s1 := upd_tasks s (set_nth (tasks s) t tk1)).
      assert (Hs1 : Silent s1).
      { split; cbn; auto. intros i tk' j' Hi Hj'. cbn [upd_tasks jobs tasks] in Hi, Hj'. destruct (Nat.eq_dec t i) as [<-|Hne].
        - right. right. rewrite Ej in Hj'. inversion Hj'; subst j'. auto.
        - rewrite nth_error_set_nth_neq in Hi by exact Hne. apply (Ht i tk' j' Hi Hj'). }
      destruct res as [|jn seq rep]; [cbn [fst snd]; split; [exact Hs1|apply no_tout_nil]|].
      assert (Ha1 : alive s1 = false) by exact Ha.
      pose proof (dead_slot_job o s1 t j seq Ha1 Hsj) as D.
      destruct (on_job o s1 t j seq) as [[s2 out] c]. destruct D as (-> & Ha2 & Ht2 & Hj2 & Hsrc2).
      assert (Hs2 : Silent s2).
      { destruct Hs1 as [A B]. split; [congruence|]. intros i tk' j' Hi Hj'. rewrite Ht2 in Hi. rewrite Hj2 in Hj'.
        destruct (B i tk' j' Hi Hj') as [Q|[Q|[Q1 Q2]]]; [left|right; left|right; right]; auto. }
      destruct rep; [|cbn [fst snd]; split; [exact Hs2|apply no_tout_nil]].
      destruct (nth_error (tasks s2) t) as [tk2|] eqn:Et2; [|cbn [fst snd]; split; [exact Hs2|apply no_tout_nil]].
      cbn [fst snd]. split; [|apply no_tout_nil].
      destruct Hs2 as [A B]. split; cbn; auto.
      intros i tk' j' Hi Hj'. destruct (Nat.eq_dec t i) as [<-|Hne].
      * right. right. split; [exact Ha2|]. rewrite Hj2 in Hj'. unfold s1 in Hj'. cbn [upd_tasks jobs] in Hj'.
        rewrite Ej in Hj'. inversion Hj'; subst; exact Hsj.
      * rewrite nth_error_set_nth_neq in Hi by exact Hne.
        destruct (B i tk' j' Hi Hj') as [Q|[Q|[Q1 Q2]]]; [left|right; left|right; right]; auto.
  - (* LAdv *) cbn [fst snd]. split; [split; cbn; auto|apply no_tout_nil].
  - (* LUnsub *) apply silent_on_unsub; [exact Ho|split; assumption].
  - (* LClosed *) cbn [fst snd]. split; [split; auto|]. intros x [<-|[]]. exact I.
  - (* LFinish *) cbn [fst snd]. split; [split; cbn; auto|apply no_tout_nil].
  - destruct o; try contradiction; cbn [fst snd]; (split; [split; auto|apply no_tout_nil]).
  - destruct o; try contradiction; cbn [fst snd]; (split; [split; auto|apply no_tout_nil]).
  - destruct o; try contradiction; cbn [fst snd]; (split; [split; auto|apply no_tout_nil]).
  - destruct o; try contradiction; cbn [fst snd]; (split; [split; auto|apply no_tout_nil]).
  - destruct o; try contradiction; cbn [fst snd]; (split; [split; auto|apply no_tout_nil]).
Qed.

(* ---- before the first unsubscribe: every task that could still reach the subscriber is
   covered by the subscription that `actual_subscribe` returned ---- *)

Definition covered (o : top) (s : tsys) (i : nat) (j : job) : Prop :=
  match o with
  | TDelay _ | TObserveOn => exists l, multi s = Some l /\ In i l
  | TDebounce _ => handler s = Some i
  | TThrottle _ _ => slot_job j = true
  | TDelaySubscription _ | TSubscribeOn | TBufferTime _ | TBufferCountTime _ _
  | TInterval _ | TIntervalAt _ _ | TTimer _ _ => main_task s = Some i
  | TRaw => False
  end.

(* the input is connected only where unsubscribe() will disconnect it *)
Definition src_guard (o : top) (s : tsys) : Prop :=
  match o with
  | TDelaySubscription _ | TSubscribeOn =>
      main_task s = Some 0%nat /\ nth_error (jobs s) 0 = Some JSubscribe /\
      (src_on s = true -> exists tk, nth_error (tasks s) 0 = Some tk /\ t_value tk = true)
  | TInterval _ | TIntervalAt _ _ | TTimer _ _ => src_on s = false
  | TDelay _ | TObserveOn => exists l, multi s = Some l
  | _ => True
  end.

Record LiveInv (o : top) (s : tsys) : Prop := {
  li_len : length (jobs s) = length (tasks s);
  li_tasks : forall i tk j, nth_error (tasks s) i = Some tk -> nth_error (jobs s) i = Some j ->
                            quiet_task s tk j \/ covered o s i j;
  li_src : src_guard o s;
  li_nosub : forall i, nth_error (jobs s) i = Some JSubscribe -> i = 0%nat /\ match o with TDelaySubscription _ | TSubscribeOn => True | _ => False end;
  (* a handle reports closed only for a finished task *)
  li_value : forall i tk, nth_error (tasks s) i = Some tk -> t_value tk = true -> t_stage tk = StFinished
}.

(* what cancelling does to the bookkeeping *)
Lemma cancel_task_shape s t :
  jobs (cancel_task s t) = jobs s /\ alive (cancel_task s t) = alive s /\ multi (cancel_task s t) = multi s /\
  handler (cancel_task s t) = handler s /\ main_task (cancel_task s t) = main_task s /\ src_on (cancel_task s t) = src_on s /\
  length (tasks (cancel_task s t)) = length (tasks s) /\
  (forall i, i <> t -> nth_error (tasks (cancel_task s t)) i = nth_error (tasks s) i) /\
  (forall tk, nth_error (tasks s) t = Some tk -> nth_error (tasks (cancel_task s t)) t = Some (cancel tk)).
Proof.
  unfold cancel_task. destruct (nth_error (tasks s) t) as [tk|] eqn:Et; cbn; repeat split; auto.
  - apply set_nth_length.
  - intros i Hi. apply nth_error_set_nth_neq. auto.
  - intros tk' H. inversion H; subst. apply (nth_error_set_nth_eq _ _ _ _ Et).
  - intros tk' H. discriminate.
Qed.

(* a state that differs only in fields the invariant does not read *)
Lemma quiet_mono s s' tk j : (alive s = false -> alive s' = false) -> quiet_task s tk j -> quiet_task s' tk j.
Proof. intros H [Q|[Q|[Q1 Q2]]]; [left|right; left|right; right]; auto. Qed.

Lemma cancel_idem tk : cancel (cancel tk) = cancel tk.
Proof. reflexivity. Qed.

(* what unsubscribing one task handle does to the bookkeeping *)
Definition handles_eff (s s' : tsys) (ts : list nat) : Prop :=
  jobs s' = jobs s /\ alive s' = alive s /\ length (tasks s') = length (tasks s) /\
  (src_on s' = src_on s \/ src_on s' = false) /\
  (forall i tk', nth_error (tasks s') i = Some tk' ->
     exists tk, nth_error (tasks s) i = Some tk /\ (tk' = tk \/ tk' = cancel tk) /\
                (In i ts -> nth_error (jobs s) i <> None -> tk' = cancel tk)).

Lemma handles_eff_refl s : handles_eff s s [].
Proof. repeat split; auto. intros i tk' H. exists tk'. repeat split; auto. intros []. Qed.

Lemma unsub_handle_eff o s t : handles_eff s (fst (unsub_handle o s t)) [t].
Proof.
  pose proof (cancel_task_shape s t) as (C1 & C2 & C3 & C4 & C5 & C6 & C7 & C8 & C9).
  assert (Hc : handles_eff s (cancel_task s t) [t]).
  { repeat split; auto. intros i tk' Hi. destruct (Nat.eq_dec i t) as [->|Hne].
    - destruct (nth_error (tasks s) t) as [tk|] eqn:Et.
      + rewrite (C9 tk eq_refl) in Hi. inversion Hi; subst. exists tk. repeat split; auto.
      + unfold cancel_task in Hi. rewrite Et in Hi. congruence.
    - rewrite (C8 i Hne) in Hi. exists tk'. repeat split; auto. intros [E|[]]. congruence. }
  unfold unsub_handle.
  destruct (nth_error (tasks s) t) as [tk|] eqn:Et.
  - destruct (nth_error (jobs s) t) as [j|] eqn:Ej.
    + destruct j; cbn [subscribing andb]; try exact Hc; destruct (handle_closed tk); cbn [fst]; try exact Hc.
      * destruct Hc as (H1 & H2 & H3 & H4 & H5). repeat split; cbn; auto.
      * destruct (existsb _ _); cbn [fst]; [|exact Hc].
        destruct Hc as (H1 & H2 & H3 & H4 & H5). repeat split; cbn; auto.
    + cbn [fst]. repeat split; auto. intros i tk' Hi. exists tk'. repeat split; auto.
      intros [<-|[]] Hn. congruence.
  - cbn [fst]. repeat split; auto. intros i tk' Hi. exists tk'. repeat split; auto.
    intros [<-|[]] Hn. congruence.
Qed.

Lemma handles_eff_trans s s1 s2 a b : handles_eff s s1 a -> handles_eff s1 s2 b -> handles_eff s s2 (a ++ b).
Proof.
  intros (A1 & A2 & A3 & A4 & A5) (B1 & B2 & B3 & B4 & B5). repeat split; try congruence.
  - destruct B4 as [B4|B4]; [rewrite B4; exact A4|right; exact B4].
  - intros i tk2 H2. destruct (B5 i tk2 H2) as (tk1 & H1 & S1 & C1). destruct (A5 i tk1 H1) as (tk & H0 & S0 & C0).
    exists tk. split; [exact H0|]. split.
    + destruct S1 as [->| ->]; destruct S0 as [->| ->]; auto.
    + intros Hin Hn. apply in_app_or in Hin. destruct Hin as [Hin|Hin].
      * rewrite (C0 Hin Hn) in *. destruct S1 as [->| ->]; reflexivity.
      * rewrite A1 in C1. rewrite (C1 Hin Hn). destruct S0 as [->| ->]; reflexivity.
Qed.

Lemma unsub_handles_eff o : forall ts s, handles_eff s (fst (unsub_handles o s ts)) ts.
Proof.
  induction ts as [|t r IH]; intros s; [apply handles_eff_refl|].
  cbn [unsub_handles]. pose proof (unsub_handle_eff o s t) as E1.
  destruct (unsub_handle o s t) as [s1 o1]. cbn [fst] in *.
  pose proof (IH s1) as E2. destruct (unsub_handles o s1 r) as [s2 o2]. cbn [fst] in *.
  apply (handles_eff_trans s s1 s2 [t] r E1 E2).
Qed.

Lemma unsub_handle_subscribed o s t tk :
  nth_error (tasks s) t = Some tk -> nth_error (jobs s) t = Some JSubscribe -> t_value tk = true ->
  src_on (fst (unsub_handle o s t)) = false.
Proof.
  intros Ht Hj Hv. unfold unsub_handle. rewrite Ht, Hj. cbn [subscribing andb]. unfold handle_closed. rewrite Hv. reflexivity.
Qed.

(* unsubscribing the subscription returned by actual_subscribe silences a live system *)
Lemma live_unsub_silent o s : not_raw o -> LiveInv o s -> Silent (fst (on_unsub o s)).
Proof.
  intros Ho [L1 L2 L3 L4 L5].
  (* generic: disconnecting the input and cancelling a set of tasks that contains every covered one *)
  assert (Gen : forall s', jobs s' = jobs s -> src_on s' = false ->
                (alive s = false -> alive s' = false) ->
                (forall i tk' , nth_error (tasks s') i = Some tk' ->
                   exists tk, nth_error (tasks s) i = Some tk /\
                     (tk' = tk \/ tk' = cancel tk) /\
                     (forall j, nth_error (jobs s) i = Some j -> covered o s i j ->
                                tk' = cancel tk \/ (alive s' = false /\ slot_job j = true))) ->
                Silent s').
  { intros s' Hj Hsrc Hal Hall. split; [exact Hsrc|]. intros i tk' j' Hi Hj'. rewrite Hj in Hj'.
    destruct (Hall i tk' Hi) as (tk & Ht & Hsame & Hcov).
    destruct (L2 i tk j' Ht Hj') as [Q|C].
    - destruct Hsame as [->| ->]; [apply (quiet_mono s); auto|]. right. left. reflexivity.
    - destruct (Hcov j' Hj' C) as [->|[A B]]; [right; left; reflexivity|right; right; auto]. }
  (* the two relay operators: every handle in the MultiSubscription is unsubscribed *)
  assert (Relay : (exists l, multi s = Some l) ->
                  (forall i j, covered o s i j -> exists l, multi s = Some l /\ In i l) ->
                  Silent (fst (let s1 := upd_src s false (src_done s) in
                               match multi s1 with
                               | Some l => unsub_handles o (upd_multi s1 None) l
                               | None => (s1, [])
                               end))).
  { intros [l Hm] Hcov. cbn [upd_src multi]. rewrite Hm.
    pose proof (unsub_handles_eff o l (upd_multi (upd_src s false (src_done s)) None)) as (E1 & E2 & E3 & E4 & E5).
    cbn [upd_multi upd_src jobs alive tasks src_on] in *.
    apply Gen; auto.
    - destruct E4; assumption.
    - intros Ha. rewrite E2. exact Ha.
    - intros i tk' Hi. destruct (E5 i tk' Hi) as (tk & Ht & Hs & Hc). exists tk. repeat split; auto.
      intros j Hj C. left. destruct (Hcov i j C) as (l' & Hl' & Hin). rewrite Hm in Hl'. inversion Hl'; subst l'.
      apply Hc; [exact Hin|congruence]. }
  (* operators whose subscription is one task handle *)
  assert (Main : forall s0, jobs s0 = jobs s -> tasks s0 = tasks s -> alive s0 = alive s -> main_task s0 = main_task s ->
                  (forall i j, covered o s i j -> main_task s = Some i) ->
                  forall s', (match main_task s with Some t => s' = fst (unsub_handle o s0 t) | None => s' = s0 end) ->
                  (src_on s' = false) -> Silent s').
  { intros s0 J0 T0 A0 M0 Hcov s' Hs' Hsrc. apply Gen; auto.
    - destruct (main_task s) as [t|]; subst s'; [|congruence].
      pose proof (unsub_handle_eff o s0 t) as (E1 & _). congruence.
    - destruct (main_task s) as [t|]; subst s'; [|intros; congruence].
      pose proof (unsub_handle_eff o s0 t) as (_ & E2 & _). intros Ha. congruence.
    - intros i tk' Hi. destruct (main_task s) as [t|] eqn:Em; subst s'.
      + pose proof (unsub_handle_eff o s0 t) as (E1 & E2 & E3 & E4 & E5).
        destruct (E5 i tk' Hi) as (tk & Ht & Hs & Hc). rewrite T0 in Ht. exists tk. repeat split; auto.
        intros j Hj C. left. pose proof (Hcov i j C) as Hm. inversion Hm; subst i.
        apply Hc; [left; reflexivity|]. rewrite J0. congruence.
      + rewrite T0 in Hi. exists tk'. repeat split; auto. intros j Hj C. pose proof (Hcov i j C). congruence. }
  (* src_on after unsubscribing the main task's handle *)
  assert (SrcMain : forall t, main_task s = Some t ->
                    (src_on s = false \/ exists tk, nth_error (tasks s) 0 = Some tk /\ t_value tk = true /\
                                                     nth_error (jobs s) 0 = Some JSubscribe /\ main_task s = Some 0%nat) ->
                    src_on (fst (unsub_handle o s t)) = false).
  { intros t Hm [Hf|(tk & Ht & Hv & Hj & Hm0)].
    - pose proof (unsub_handle_eff o s t) as (_ & _ & _ & E4 & _). destruct E4; congruence.
    - rewrite Hm in Hm0. inversion Hm0; subst t. apply (unsub_handle_subscribed o s 0%nat tk Ht Hj Hv). }
  destruct o; try contradiction; cbn [on_unsub].
  - (* delay *) apply Relay; [exact L3|intros i j C; exact C].
  - (* observe_on *) apply Relay; [exact L3|intros i j C; exact C].
  - (* delay_subscription *)
    cbn [src_guard] in L3. destruct L3 as (Gm & Gj & Gs).
    apply (Main s eq_refl eq_refl eq_refl eq_refl (fun i j C => C)).
    + destruct (main_task s); reflexivity.
    + rewrite Gm. apply SrcMain; [exact Gm|]. destruct (src_on s) eqn:Es; [|left; reflexivity].
      right. destruct (Gs eq_refl) as (tk & Ht & Hv). exists tk. auto.
  - (* subscribe_on *)
    cbn [src_guard] in L3. destruct L3 as (Gm & Gj & Gs).
    apply (Main s eq_refl eq_refl eq_refl eq_refl (fun i j C => C)).
    + destruct (main_task s); reflexivity.
    + rewrite Gm. apply SrcMain; [exact Gm|]. destruct (src_on s) eqn:Es; [|left; reflexivity].
      right. destruct (Gs eq_refl) as (tk & Ht & Hv). exists tk. auto.
  - (* debounce *)
    cbn [upd_src handler].
    destruct (handler s) as [h|] eqn:Eh; cbn [fst].
    + pose proof (cancel_task_shape (upd_src s false (src_done s)) h) as (C1 & C2 & C3 & C4 & C5 & C6 & C7 & C8 & C9).
      cbn [upd_src jobs alive tasks src_on] in *.
      apply Gen; cbn [upd_handler jobs src_on alive]; auto.
      * intros Ha. rewrite C2. exact Ha.
      * intros i tk' Hi. cbn [upd_handler tasks] in Hi. destruct (Nat.eq_dec i h) as [->|Hne].
        -- destruct (nth_error (tasks s) h) as [tk|] eqn:Et.
           ++ rewrite (C9 tk eq_refl) in Hi. inversion Hi; subst. exists tk. repeat split; auto.
           ++ unfold cancel_task in Hi. cbn [upd_src tasks] in Hi. rewrite Et in Hi. cbn in Hi. congruence.
        -- rewrite (C8 i Hne) in Hi. exists tk'. repeat split; auto. intros j Hj C. cbn [covered] in C. congruence.
    + apply Gen; cbn; auto. intros i tk' Hi. exists tk'. repeat split; auto. intros j Hj C. cbn [covered] in C. congruence.
  - (* throttle *)
    cbn [fst]. apply Gen; cbn; auto. intros i tk' Hi. exists tk'. repeat split; auto.
  - (* buffer_with_time *)
    destruct (main_task s) as [t|] eqn:Em.
    + pose proof (unsub_handle_eff (TBufferTime d) s t) as (E1 & E2 & E3 & E4 & E5).
      destruct (unsub_handle (TBufferTime d) s t) as [s1 o1]. cbn [fst snd] in *.
      apply Gen; cbn; auto; [congruence|].
      intros i tk' Hi. destruct (E5 i tk' Hi) as (tk & Ht & Hs & Hc). exists tk. repeat split; auto.
      intros j Hj C. cbn [covered] in C. rewrite Em in C. inversion C; subst i. left. apply Hc; [left; reflexivity|congruence].
    + cbn [fst]. apply Gen; cbn; auto. intros i tk' Hi. exists tk'. repeat split; auto. intros j Hj C. cbn [covered] in C. congruence.
  - (* buffer_with_count_and_time *)
    destruct (main_task s) as [t|] eqn:Em.
    + pose proof (unsub_handle_eff (TBufferCountTime count d) s t) as (E1 & E2 & E3 & E4 & E5).
      destruct (unsub_handle (TBufferCountTime count d) s t) as [s1 o1]. cbn [fst snd] in *.
      apply Gen; cbn; auto; [congruence|].
      intros i tk' Hi. destruct (E5 i tk' Hi) as (tk & Ht & Hs & Hc). exists tk. repeat split; auto.
      intros j Hj C. cbn [covered] in C. rewrite Em in C. inversion C; subst i. left. apply Hc; [left; reflexivity|congruence].
    + cbn [fst]. apply Gen; cbn; auto. intros i tk' Hi. exists tk'. repeat split; auto. intros j Hj C. cbn [covered] in C. congruence.
  - (* interval *)
    cbn [src_guard] in L3. apply (Main s eq_refl eq_refl eq_refl eq_refl (fun i j C => C)).
    + destruct (main_task s); reflexivity.
    + destruct (main_task s) as [t|] eqn:Em; [apply SrcMain; auto|exact L3].
  - (* interval_at *)
    cbn [src_guard] in L3. apply (Main s eq_refl eq_refl eq_refl eq_refl (fun i j C => C)).
    + destruct (main_task s); reflexivity.
    + destruct (main_task s) as [t|] eqn:Em; [apply SrcMain; auto|exact L3].
  - (* timer *)
    cbn [src_guard] in L3. apply (Main s eq_refl eq_refl eq_refl eq_refl (fun i j C => C)).
    + destruct (main_task s); reflexivity.
    + destruct (main_task s) as [t|] eqn:Em; [apply SrcMain; auto|exact L3].
Qed.

(* ---- LiveInv is preserved by every label but unsubscribe ---- *)

Definition status_quiet (tk : task) : Prop := t_stage tk = StFinished \/ t_keep tk = false.

Lemma nth_error_app_last {A} (l : list A) x : nth_error (l ++ [x]) (length l) = Some x.
Proof. induction l; cbn; auto. Qed.

Lemma nth_error_app_old {A} (l : list A) x i y : nth_error (l ++ [x]) i = Some y -> (i < length l)%nat -> nth_error l i = Some y.
Proof. intros H Hl. rewrite nth_error_app1 in H by exact Hl. exact H. Qed.

(* fields the invariant does not read may change freely *)
Lemma li_upd o s s' :
  LiveInv o s -> tasks s' = tasks s -> jobs s' = jobs s -> multi s' = multi s -> handler s' = handler s ->
  main_task s' = main_task s -> (alive s = false -> alive s' = false) -> src_guard o s' -> LiveInv o s'.
Proof.
  intros [L1 L2 L3 L4 L5] Ht Hj Hm Hh Hmt Ha Hg. split.
  - congruence.
  - intros i tk j Hi Hjj. rewrite Ht in Hi. rewrite Hj in Hjj. destruct (L2 i tk j Hi Hjj) as [Q|C].
    + left. apply (quiet_mono s); auto.
    + right. destruct o; cbn [covered] in *; try congruence. 
      * destruct C as (l & Hl & Hin). exists l. split; [congruence|exact Hin].
      * destruct C as (l & Hl & Hin). exists l. split; [congruence|exact Hin].
  - exact Hg.
  - intros i Hi. rewrite Hj in Hi. apply L4, Hi.
  - intros i tk Hi. rewrite Ht in Hi. apply (L5 i tk Hi).
Qed.

(* replacing the state of one task by one that is quiet whenever the old one was *)
Lemma li_set_task o s t tk tk' :
  LiveInv o s -> nth_error (tasks s) t = Some tk -> (status_quiet tk -> status_quiet tk') ->
  (match o with TDelaySubscription _ | TSubscribeOn => t = 0%nat -> t_value tk = true -> t_value tk' = true | _ => True end) ->
  (t_value tk' = true -> t_stage tk' = StFinished) ->
  LiveInv o (upd_tasks s (set_nth (tasks s) t tk')).
Proof.
  intros [L1 L2 L3 L4 L5] Ht Hq Hv Hvi. split; cbn [upd_tasks tasks jobs].
  - rewrite set_nth_length. exact L1.
  - intros i tk2 j Hi Hj. destruct (Nat.eq_dec t i) as [<-|Hne].
    + rewrite (nth_error_set_nth_eq _ _ _ _ Ht) in Hi. inversion Hi; subst tk2.
      destruct (L2 t tk j Ht Hj) as [[Q|[Q|[Q1 Q2]]]|C].
      * left. destruct (Hq (or_introl Q)); [left|right; left]; assumption.
      * left. destruct (Hq (or_intror Q)); [left|right; left]; assumption.
      * left. right. right. auto.
      * right. destruct o; cbn [covered] in *; auto.
    + rewrite nth_error_set_nth_neq in Hi by exact Hne. destruct (L2 i tk2 j Hi Hj) as [Q|C].
      * left. destruct Q as [Q|[Q|[Q1 Q2]]]; [left|right; left|right; right]; auto.
      * right. destruct o; cbn [covered] in *; auto.
  - destruct o; cbn [src_guard upd_tasks tasks jobs src_on main_task multi] in *; auto.
    + destruct L3 as (G1 & G2 & G3). repeat split; auto. intros Hs. destruct (G3 Hs) as (tk0 & Ht0 & Hv0).
      destruct (Nat.eq_dec t 0) as [->|Hne].
      * rewrite Ht in Ht0. inversion Ht0; subst tk0. exists tk'. split; [apply (nth_error_set_nth_eq _ _ _ _ Ht)|auto].
      * exists tk0. split; [rewrite nth_error_set_nth_neq by exact Hne; exact Ht0|exact Hv0].
    + destruct L3 as (G1 & G2 & G3). repeat split; auto. intros Hs. destruct (G3 Hs) as (tk0 & Ht0 & Hv0).
      destruct (Nat.eq_dec t 0) as [->|Hne].
      * rewrite Ht in Ht0. inversion Ht0; subst tk0. exists tk'. split; [apply (nth_error_set_nth_eq _ _ _ _ Ht)|auto].
      * exists tk0. split; [rewrite nth_error_set_nth_neq by exact Hne; exact Ht0|exact Hv0].
  - exact L4.
  - intros i tk2 Hi. destruct (Nat.eq_dec t i) as [<-|Hne].
    + rewrite (nth_error_set_nth_eq _ _ _ _ Ht) in Hi. inversion Hi; subst tk2. exact Hvi.
    + rewrite nth_error_set_nth_neq in Hi by exact Hne. apply (L5 i tk2 Hi).
Qed.

Lemma poll_status now tk : status_quiet tk -> status_quiet (fst (poll now tk)).
Proof. intros H. destruct (poll_quiet now tk H) as [_ P]. exact P. Qed.

Lemma poll_value now tk : t_value tk = true -> t_value (fst (poll now tk)) = true.
Proof.
  intros H. unfold poll, poll_body. destruct (t_stage tk); cbn; destruct (t_keep tk); cbn; auto;
    repeat match goal with
           | |- context [if ?c then _ else _] => destruct c; cbn; auto
           | |- context [match t_body tk with _ => _ end] => destruct (t_body tk); cbn; auto
           end.
Qed.

Lemma after_tick_status now tk c : status_quiet tk -> status_quiet (after_tick now tk c).
Proof. unfold status_quiet, after_tick. intros H. destruct (t_body tk); [exact H|]. destruct c; cbn; auto. Qed.

Lemma after_tick_value now tk c : t_value tk = true -> t_value (after_tick now tk c) = true.
Proof. unfold after_tick. intros H. destruct (t_body tk); [exact H|]. destruct c; cbn; auto. Qed.

(* a one-shot task that ran is finished with its value stored *)
Lemma poll_once_ran now tk j seq : snd (poll now tk) = PRun j seq false -> t_value (fst (poll now tk)) = true.
Proof.
  unfold poll, poll_body. destruct (t_stage tk); cbn; destruct (t_keep tk); cbn; try discriminate;
    repeat match goal with
           | |- context [if ?c then _ else _] => destruct c; cbn; try discriminate
           | |- context [match t_body tk with _ => _ end] => destruct (t_body tk); cbn; try discriminate
           end; auto.
Qed.

(* scheduling a new task that the subscription covers *)
Lemma li_schedule o s b j delay :
  LiveInv o s -> j <> JSubscribe ->
  let '(s1, id) := schedule s b j delay in
  id = length (tasks s) /\
  forall s2, tasks s2 = tasks s1 -> jobs s2 = jobs s1 -> (alive s = false -> alive s2 = false) ->
             (forall i j', (i < length (tasks s))%nat -> covered o s i j' -> covered o s2 i j') ->
             covered o s2 id j -> src_guard o s2 -> LiveInv o s2.
Proof.
  intros [L1 L2 L3 L4 L5] Hnj. cbn [schedule]. split; [reflexivity|].
  intros s2 Ht Hj Ha Hold Hnew Hg. cbn [tasks jobs] in Ht, Hj. split.
  - rewrite Ht, Hj, !app_length, L1. reflexivity.
  - intros i tk j' Hi Hj'. rewrite Ht in Hi. rewrite Hj in Hj'.
    destruct (Nat.lt_ge_cases i (length (tasks s))) as [Hlt|Hge].
    + apply nth_error_app_old in Hi; [|exact Hlt]. apply nth_error_app_old in Hj'; [|rewrite L1; exact Hlt].
      destruct (L2 i tk j' Hi Hj') as [Q|C]; [left; apply (quiet_mono s); auto|right; apply Hold; auto].
    + assert (i = length (tasks s)).
      { assert (i < length (tasks s ++ [spawn (b (length (tasks s))) delay]))%nat by (apply nth_error_Some; congruence).
        rewrite app_length in H. cbn in H. lia. }
      subst i. right. rewrite <- L1 in Hj'. rewrite nth_error_app_last in Hj'. inversion Hj'; subst j'. exact Hnew.
  - exact Hg.
  - intros i Hi. rewrite Hj in Hi.
    destruct (Nat.lt_ge_cases i (length (jobs s))) as [Hlt|Hge].
    + apply nth_error_app_old in Hi; [|exact Hlt]. apply L4, Hi.
    + assert (i = length (jobs s)).
      { assert (i < length (jobs s ++ [j]))%nat by (apply nth_error_Some; congruence). rewrite app_length in H. cbn in H. lia. }
      subst i. rewrite nth_error_app_last in Hi. congruence.
  - intros i tk Hi Hv. rewrite Ht in Hi.
    destruct (Nat.lt_ge_cases i (length (tasks s))) as [Hlt|Hge].
    + apply nth_error_app_old in Hi; [|exact Hlt]. apply (L5 i tk Hi Hv).
    + assert (i = length (tasks s)).
      { assert (i < length (tasks s ++ [spawn (b (length (tasks s))) delay]))%nat by (apply nth_error_Some; congruence).
        rewrite app_length in H. cbn in H. lia. }
      subst i. rewrite nth_error_app_last in Hi. inversion Hi; subst tk. cbn in Hv. discriminate.
Qed.

Lemma on_job_shape o s t j seq :
  let '(s1, out, c) := on_job o s t j seq in
  tasks s1 = tasks s /\ jobs s1 = jobs s /\ multi s1 = multi s /\ handler s1 = handler s /\ main_task s1 = main_task s /\
  (alive s = false -> alive s1 = false) /\
  (j = JSubscribe -> src_on s1 = true /\ c = false) /\ (j <> JSubscribe -> src_on s1 = src_on s).
Proof.
  destruct j; cbn [on_job]; unfold slot_next, slot_term, buffer_emit;
    repeat match goal with
           | |- context [if ?c then _ else _] => destruct c eqn:?; cbn
           | |- context [match trailing s with _ => _ end] => destruct (trailing s); cbn
           | |- context [match data s with _ => _ end] => destruct (data s); cbn
           end; repeat split; auto; try congruence; intros; try congruence; try discriminate.
Qed.

Lemma li_src_change o s on done :
  LiveInv o s -> (on = true -> match o with TDelaySubscription _ | TSubscribeOn | TInterval _ | TIntervalAt _ _ | TTimer _ _ => False | _ => True end) ->
  LiveInv o (upd_src s on done).
Proof.
  intros L Hon. apply (li_upd o s); auto. destruct L as [L1 L2 L3 L4 L5].
  destruct o; cbn [src_guard upd_src src_on main_task jobs tasks multi] in *; auto;
    try (destruct L3 as (G1 & G2 & G3); repeat split; auto; intros ->; exfalso; apply Hon; reflexivity);
    try (destruct on; [exfalso; apply Hon; reflexivity|reflexivity]).
Qed.

Lemma job_eq_subscribe (j : job) : {j = JSubscribe} + {j <> JSubscribe}.
Proof. destruct j; (left; reflexivity) || (right; discriminate). Qed.

Lemma set_nth_idem {A} (l : list A) i x y : set_nth (set_nth l i x) i y = set_nth l i y.
Proof. revert i. induction l as [|a l IH]; intros [|i]; cbn; auto. f_equal. apply IH. Qed.

Lemma set_nth_same {A} (l : list A) i x : nth_error l i = Some x -> set_nth l i x = l.
Proof. revert i. induction l as [|a l IH]; intros [|i] H; cbn in *; try discriminate; auto; [congruence|f_equal; auto]. Qed.

(* a repeating run comes from a repeating body *)
Lemma poll_repeat_body now tk j seq :
  snd (poll now tk) = PRun j seq true -> exists p due, t_body (fst (poll now tk)) = BRepeat j p due seq.
Proof.
  unfold poll, poll_body. destruct (t_stage tk); cbn; destruct (t_keep tk); cbn; try discriminate;
    destruct (t_body tk) eqn:Eb; cbn; try discriminate;
    repeat match goal with
           | |- context [if ?c then _ else _] => destruct c; cbn; try discriminate
           end; rewrite ?Eb; cbn; try discriminate; intros H; inversion H; subst; eauto.
Qed.

Lemma live_step_run o s t : not_raw o -> LiveInv o s -> LiveInv o (fst (tstep o s (LRun t))).
Proof.
  intros Ho L. cbn [tstep].
  destruct (nth_error (tasks s) t) as [tk|] eqn:Et; [|exact L].
  destruct (nth_error (jobs s) t) as [j|] eqn:Ej; [|exact L].
  pose proof (poll_status (now s) tk) as PS. pose proof (poll_value (now s) tk) as PV.
  pose proof (poll_once_ran (now s) tk) as PO. pose proof (poll_repeat_body (now s) tk) as PR.
  pose proof (SchedLaws.poll_value_inv (now s) tk (li_value o s L t tk Et)) as PVI.
  pose proof (SchedLaws.poll_run_not_finished (now s) tk) as PNF.
  destruct (poll (now s) tk) as [tk1 res]. cbn [fst snd] in *.
  assert (L1 : LiveInv o (upd_tasks s (set_nth (tasks s) t tk1))).
  { apply (li_set_task o s t tk tk1 L Et PS); [destruct o; auto|exact PVI]. }
  destruct res as [|jn seq rep]; [exact L1|].
  set (s1 := upd_tasks s (set_nth (tasks s) t tk1)) in *.
  pose proof (on_job_shape o s1 t j seq) as SH.
  destruct (on_job o s1 t j seq) as [[s2 out] c]. destruct SH as (S1 & S2 & S3 & S4 & S5 & S6 & S7 & S8).
  assert (Ht1 : nth_error (tasks s1) t = Some tk1) by (unfold s1; cbn; apply (nth_error_set_nth_eq _ _ _ _ Et)).
  assert (Hj1 : nth_error (jobs s1) t = Some j) by exact Ej.
  destruct (L1) as [A1 A2 A3 A4 A5].
  assert (Hsub : j = JSubscribe -> t = 0%nat /\ match o with TDelaySubscription _ | TSubscribeOn => True | _ => False end).
  { intros ->. apply (A4 t Hj1). }
  (* the invariant for any final state that is s2 with task t replaced by a tkf that keeps quietness and,
     if j = JSubscribe, has its value stored *)
  assert (Key : forall sf tkf,
            tasks sf = set_nth (tasks s1) t tkf -> jobs sf = jobs s2 -> multi sf = multi s2 -> handler sf = handler s2 ->
            main_task sf = main_task s2 -> (alive s2 = false -> alive sf = false) -> src_on sf = src_on s2 ->
            (status_quiet tk1 -> status_quiet tkf) -> (t_value tk1 = true -> t_value tkf = true) ->
            (j = JSubscribe -> t_value tkf = true) -> (t_value tkf = true -> t_stage tkf = StFinished) -> LiveInv o sf).
  { intros sf tkf F1 F2 F3 F4 F5 F6 F7 Hq Hv Hjs Hvi.
    assert (L2 : LiveInv o (upd_tasks s1 (set_nth (tasks s1) t tkf))).
    { apply (li_set_task o s1 t tk1 tkf L1 Ht1 Hq); [destruct o; auto|exact Hvi]. }
    apply (li_upd o (upd_tasks s1 (set_nth (tasks s1) t tkf))); cbn [upd_tasks tasks jobs multi handler main_task alive]; auto; try congruence.
    destruct L2 as [B1 B2 B3 B4 B5].
    destruct o; cbn [src_guard upd_tasks tasks jobs main_task multi src_on] in *; auto; try contradiction.
    - destruct B3 as (l & Hl). exists l. congruence.
    - destruct B3 as (l & Hl). exists l. congruence.
    - destruct B3 as (G1 & G2 & G3). rewrite F5, F2, S5, S2, F1. repeat split; auto. intros Hs2. rewrite F7 in Hs2.
      destruct (job_eq_subscribe j) as [Ejs|Ejs].
      + destruct (Hsub Ejs) as [-> _]. exists tkf. split; [apply (nth_error_set_nth_eq _ _ _ _ Ht1)|auto].
      + rewrite (S8 Ejs) in Hs2. apply G3, Hs2.
    - destruct B3 as (G1 & G2 & G3). rewrite F5, F2, S5, S2, F1. repeat split; auto. intros Hs2. rewrite F7 in Hs2.
      destruct (job_eq_subscribe j) as [Ejs|Ejs].
      + destruct (Hsub Ejs) as [-> _]. exists tkf. split; [apply (nth_error_set_nth_eq _ _ _ _ Ht1)|auto].
      + rewrite (S8 Ejs) in Hs2. apply G3, Hs2.
    - destruct (job_eq_subscribe j) as [Ejs|Ejs]; [destruct (Hsub Ejs) as [_ []]|]. rewrite F7, (S8 Ejs). exact B3.
    - destruct (job_eq_subscribe j) as [Ejs|Ejs]; [destruct (Hsub Ejs) as [_ []]|]. rewrite F7, (S8 Ejs). exact B3.
    - destruct (job_eq_subscribe j) as [Ejs|Ejs]; [destruct (Hsub Ejs) as [_ []]|]. rewrite F7, (S8 Ejs). exact B3. }
  destruct rep.
  - destruct (nth_error (tasks s2) t) as [tk2|] eqn:Et2; cbn [fst].
    + rewrite S1, Ht1 in Et2. inversion Et2; subst tk2.
      apply (Key _ (after_tick (now s2) tk1 c)); cbn [upd_tasks tasks jobs multi handler main_task alive src_on]; auto.
      * rewrite S1. reflexivity.
      * apply after_tick_status.
      * apply after_tick_value.
      * intros Ejs. destruct (S7 Ejs) as [_ ->]. destruct (PR jn seq eq_refl) as (p & due & Hb).
        unfold after_tick. rewrite Hb. reflexivity.
      * apply SchedLaws.after_tick_value_inv; [apply (PNF jn seq eq_refl)|exact PVI].
    + rewrite S1, Ht1 in Et2. discriminate.
  - cbn [fst]. apply (Key s2 tk1); auto.
    + rewrite S1. symmetry. apply set_nth_same. exact Ht1.
    + intros _. apply (PO jn seq). reflexivity.
Qed.

Lemma li_cancel o s t :
  match o with TDelaySubscription _ | TSubscribeOn => False | _ => True end ->
  LiveInv o s -> LiveInv o (cancel_task s t).
Proof.
  intros Hop L. unfold cancel_task. destruct (nth_error (tasks s) t) as [tk|] eqn:Et; [|exact L].
  apply (li_set_task o s t tk (cancel tk) L Et).
  - intros _. right. reflexivity.
  - destruct o; auto; contradiction.
  - cbn. discriminate.
Qed.

Lemma li_slot_term o s e : LiveInv o s -> LiveInv o (fst (slot_term s e)).
Proof.
  intros L. unfold slot_term. destruct (alive s) eqn:Ea; [|exact L]. cbn [fst].
  apply (li_upd o s); cbn; auto. destruct L as [_ _ G _ _]. destruct o; cbn [src_guard] in *; auto.
Qed.

Lemma li_slot_next o s v : LiveInv o s -> LiveInv o (fst (slot_next s v)).
Proof. intros L. exact L. Qed.

Lemma li_fields o s s' :
  LiveInv o s -> tasks s' = tasks s -> jobs s' = jobs s -> multi s' = multi s -> handler s' = handler s ->
  main_task s' = main_task s -> alive s' = alive s -> src_on s' = src_on s -> LiveInv o s'.
Proof.
  intros L H1 H2 H3 H4 H5 H6 H7. apply (li_upd o s); auto; [congruence|].
  destruct L as [_ _ G _ _]. destruct o; cbn [src_guard] in *; auto; try congruence.
  - destruct G as (l & Hl). exists l. congruence.
  - destruct G as (l & Hl). exists l. congruence.
  - rewrite H5, H2, H7, H1. exact G.
  - rewrite H5, H2, H7, H1. exact G.
Qed.

Lemma li_buffer_emit o s : LiveInv o s -> LiveInv o (fst (buffer_emit s)).
Proof.
  intros L. unfold buffer_emit. destruct (alive s); [|exact L]. destruct (data s); [exact L|]. cbn [fst].
  apply (li_fields o s); auto.
Qed.

Lemma schedule_fields s b j delay :
  alive (fst (schedule s b j delay)) = alive s /\ multi (fst (schedule s b j delay)) = multi s /\
  handler (fst (schedule s b j delay)) = handler s /\ main_task (fst (schedule s b j delay)) = main_task s /\
  src_on (fst (schedule s b j delay)) = src_on s.
Proof. cbn. auto. Qed.

(* relay operators: a new task whose handle is appended to the MultiSubscription *)
Lemma li_relay_schedule o s j :
  (match o with TDelay _ | TObserveOn => True | _ => False end) -> LiveInv o s -> j <> JSubscribe ->
  forall delay, LiveInv o (append_multi (fst (schedule s BOnce j delay)) (snd (schedule s BOnce j delay))).
Proof.
  intros Hop L Hj delay. pose proof (li_schedule o s BOnce j delay L Hj) as P.
  destruct (schedule s BOnce j delay) as [s1 id] eqn:Es. destruct P as [Hid P]. cbn [fst snd].
  assert (Hm : exists l, multi s = Some l) by (destruct L as [_ _ G _ _]; destruct o; try contradiction; exact G).
  destruct Hm as [l Hl].
  assert (Hm1 : multi s1 = Some l) by (unfold schedule in Es; inversion Es; subst; cbn; exact Hl).
  assert (Ha1 : alive s1 = alive s) by (unfold schedule in Es; inversion Es; subst; reflexivity).
  unfold append_multi. rewrite Hm1.
  apply P; [reflexivity|reflexivity|cbn; intros Ha; rewrite Ha1; exact Ha| | |].
  - intros i j' Hi C. destruct o; try contradiction; cbn [covered] in *;
      destruct C as (l0 & Hl0 & Hin); rewrite Hl in Hl0; inversion Hl0; subst l0;
      exists (l ++ [id]); split; auto; apply in_or_app; left; exact Hin.
  - destruct o; try contradiction; cbn [covered]; exists (l ++ [id]); split; auto; apply in_or_app; right; left; reflexivity.
  - destruct o; try contradiction; cbn [src_guard upd_multi multi]; eexists; reflexivity.
Qed.

Lemma live_on_src o s e : not_raw o -> LiveInv o s -> LiveInv o (fst (on_src o s e)).
Proof.
  intros Ho L. destruct o; try contradiction; cbn [on_src]; try exact L.
  - (* delay *)
    destruct e as [v|x|].
    + pose proof (li_relay_schedule (TDelay d) s (JEmit v) I L ltac:(discriminate) (Some d)) as P.
      destruct (schedule s BOnce (JEmit v) (Some d)). exact P.
    + apply li_slot_term, L.
    + pose proof (li_relay_schedule (TDelay d) s JComplete I L ltac:(discriminate) (Some d)) as P.
      destruct (schedule s BOnce JComplete (Some d)). exact P.
  - (* observe_on *)
    set (j := match e with Next v => JEmit v | Err x => JEmitErr x | Done => JComplete end).
    assert (Hj : j <> JSubscribe) by (destruct e; discriminate).
    pose proof (li_relay_schedule TObserveOn s j I L Hj None) as P.
    destruct (schedule s BOnce j None). exact P.
  - (* debounce *)
    destruct e as [v|x|].
    + set (s1 := upd_trailing s (Some v)).
      assert (L1 : LiveInv (TDebounce d) s1) by (apply (li_fields _ s); auto).
      set (s2 := match handler s1 with Some h => upd_handler (cancel_task s1 h) None | None => s1 end).
      (* after cancelling the pending window every task is quiet and no handle is stored *)
      assert (L2 : LiveInv (TDebounce d) s2 /\ handler s2 = None).
      { unfold s2. destruct (handler s1) as [h|] eqn:Eh; [|split; [exact L1|exact Eh]]. split; [|reflexivity].
        pose proof (li_cancel (TDebounce d) s1 h I L1) as Lc. destruct Lc as [C1 C2 C3 C4 C5].
        pose proof (cancel_task_shape s1 h) as (K1 & K2 & K3 & K4 & K5 & K6 & K7 & K8 & K9).
        split; cbn [upd_handler tasks jobs]; auto.
        intros i tk j Hi Hj. destruct (C2 i tk j Hi Hj) as [Q|C]; [left; exact Q|].
        cbn [covered] in C. rewrite K4, Eh in C. inversion C; subst i.
        destruct (nth_error (tasks s1) h) as [tk0|] eqn:Et0.
        - rewrite (K9 tk0 eq_refl) in Hi. inversion Hi; subst tk. left. right. left. reflexivity.
        - unfold cancel_task in Hi. rewrite Et0 in Hi. congruence. }
      destruct L2 as [L2 Hh2].
      pose proof (li_schedule (TDebounce d) s2 BOnce JTrailing (Some d) L2 ltac:(discriminate)) as P.
      destruct (schedule s2 BOnce JTrailing (Some d)) as [s3 id] eqn:Es. destruct P as [Hid P]. cbn [fst].
      assert (Ha3 : alive s3 = alive s2) by (unfold schedule in Es; inversion Es; subst; reflexivity).
      apply P; [reflexivity|reflexivity|cbn; intros Ha; rewrite Ha3; exact Ha| |cbn; reflexivity|cbn; exact I].
      intros i j' Hi C. cbn [covered] in C. congruence.
    + apply li_slot_term, L.
    + destruct (trailing s) as [v|].
      * unfold slot_next. cbn [fst snd]. 
        pose proof (li_slot_term (TDebounce d) (upd_trailing s None) Done) as P.
        destruct (slot_term (upd_trailing s None) Done) as [s2 o2]. cbn [fst] in *. apply P. apply (li_fields _ s); auto.
      * pose proof (li_slot_term (TDebounce d) s Done L) as P. destruct (slot_term s Done). exact P.
  - (* throttle *)
    destruct e as [v|x|].
    + set (closed := match handler s with Some h => task_finished s h | None => true end).
      set (s1 := match e0 with ELeading => s | ETailing => upd_trailing s (Some v) | EAll => if closed then s else upd_trailing s (Some v) end).
      assert (L1 : LiveInv (TThrottle d e0) s1).
      { unfold s1. destruct e0; [exact L|apply (li_fields _ s); auto|destruct closed; [exact L|apply (li_fields _ s); auto]]. }
      destruct closed; [|exact L1].
      assert (L2 : LiveInv (TThrottle d e0) (fst (match e0 with ETailing => (s1, []) | _ => slot_next s1 v end))).
      { destruct e0; exact L1. }
      destruct (match e0 with ETailing => (s1, []) | _ => slot_next s1 v end) as [s2 o2]. cbn [fst] in L2.
      pose proof (li_schedule (TThrottle d e0) s2 BOnce JTrailing (Some d) L2 ltac:(discriminate)) as P.
      destruct (schedule s2 BOnce JTrailing (Some d)) as [s3 id] eqn:Es. destruct P as [Hid P]. cbn [fst].
      assert (Ha3 : alive s3 = alive s2) by (unfold schedule in Es; inversion Es; subst; reflexivity).
      apply P; [reflexivity|reflexivity|cbn; intros Ha; rewrite Ha3; exact Ha|intros i j' Hi C; exact C|cbn; reflexivity|cbn; exact I].
    + pose proof (li_slot_term (TThrottle d e0) s (Err x) L) as P.
      destruct (slot_term s (Err x)) as [s1 o1]. cbn [fst] in *.
      destruct (handler s1); [apply li_cancel; auto|exact P].
    + assert (L1 : LiveInv (TThrottle d e0) (fst (match trailing s with Some v => slot_next (upd_trailing s None) v | None => (s, []) end))).
      { destruct (trailing s); cbn [fst slot_next]; [apply (li_fields _ s); auto|exact L]. }
      destruct (match trailing s with Some v => slot_next (upd_trailing s None) v | None => (s, []) end) as [s1 o1]. cbn [fst] in L1.
      assert (L2 : LiveInv (TThrottle d e0) (match handler s1 with Some h => cancel_task s1 h | None => s1 end)).
      { destruct (handler s1); [apply li_cancel; auto|exact L1]. }
      pose proof (li_slot_term (TThrottle d e0) _ Done L2) as P.
      destruct (slot_term (match handler s1 with Some h => cancel_task s1 h | None => s1 end) Done). exact P.
  - (* buffer_with_time *)
    destruct e as [v|x|].
    + cbn [fst]. destruct (alive s); [apply (li_fields _ s); auto|exact L].
    + apply li_slot_term, L.
    + pose proof (li_buffer_emit _ s L) as P. destruct (buffer_emit s) as [s1 o1]. cbn [fst] in P.
      pose proof (li_slot_term _ s1 Done P) as P2. destruct (slot_term s1 Done). exact P2.
  - (* buffer_with_count_and_time *)
    destruct e as [v|x|].
    + destruct (alive s) eqn:Ea; [|exact L].
      assert (L1 : LiveInv (TBufferCountTime count d) (upd_data s (data s ++ [v]))) by (apply (li_fields _ s); auto).
      destruct (Nat.leb count (length (data (upd_data s (data s ++ [v]))))); [apply li_buffer_emit, L1|exact L1].
    + apply li_slot_term, L.
    + pose proof (li_buffer_emit _ s L) as P. destruct (buffer_emit s) as [s1 o1]. cbn [fst] in P.
      pose proof (li_slot_term _ s1 Done P) as P2. destruct (slot_term s1 Done). exact P2.
Qed.

Lemma live_step o s l : not_raw o -> LiveInv o s -> l <> LUnsub -> LiveInv o (fst (tstep o s l)).
Proof.
  intros Ho L Hl. destruct l; try congruence.
  - (* LSrc *)
    cbn [tstep]. destruct (src_done s); [exact L|].
    destruct (src_on s) eqn:Es.
    + apply live_on_src; [exact Ho|]. destruct (is_term e); [|exact L]. apply li_src_change; [exact L|discriminate].
    + cbn [fst]. destruct (is_term e); [|exact L]. apply li_src_change; [exact L|discriminate].
  - apply live_step_run; assumption.
  - cbn [tstep fst]. apply (li_fields o s); auto.
  - exact L.
  - cbn [tstep fst]. apply (li_fields o s); auto.
  - destruct o; try contradiction; exact L.
  - destruct o; try contradiction; exact L.
  - destruct o; try contradiction; exact L.
  - destruct o; try contradiction; exact L.
  - destruct o; try contradiction; exact L.
Qed.

Lemma live_init o : not_raw o -> LiveInv o (tinit o).
Proof.
  intros Ho. destruct o; try contradiction; cbn [tinit schedule]; split; cbn; auto;
    try (intros [|[|i]] tk j Hi Hj; cbn in *; try discriminate; right; reflexivity);
    try (intros [|[|i]] tk j Hi Hj; cbn in *; discriminate);
    try (intros [|[|i]] Hi; cbn in *; try discriminate; auto);
    try (eexists; reflexivity);
    try (repeat split; auto; discriminate);
    try (intros [|[|i]] tk Hi Hv; cbn in *; try discriminate; inversion Hi; subst; cbn in Hv; discriminate);
    try (intros E Hv; inversion E; subst; cbn in Hv; discriminate).
Qed.

Fixpoint tfinal (o : top) (s : tsys) (ls : list tlab) : tsys :=
  match ls with [] => s | l :: r => tfinal o (fst (tstep o s l)) r end.

Lemma inv_reach o ls : not_raw o -> forall s, (LiveInv o s \/ Silent s) -> LiveInv o (tfinal o s ls) \/ Silent (tfinal o s ls).
Proof.
  intros Ho. induction ls as [|l r IH]; intros s H; [exact H|]. cbn [tfinal]. apply IH.
  destruct H as [L|HS].
  - destruct l; try (left; apply live_step; [exact Ho|exact L|discriminate]).
    right. cbn [tstep]. apply live_unsub_silent; assumption.
  - right. apply (silent_step o s l Ho HS).
Qed.

Lemma silent_run o : not_raw o -> forall ls s j, Silent s -> no_tout (trun_sys o s j ls).
Proof.
  intros Ho ls. induction ls as [|l r IH]; intros s j HS; [apply no_tout_nil|].
  cbn [trun_sys]. destruct (silent_step o s l Ho HS) as [S1 N1].
  destruct (tstep o s l) as [s1 out]. cbn [fst snd] in *.
  intros x [<-|Hx]; [exact I|]. apply in_app_or in Hx. destruct Hx as [Hx|Hx]; [apply N1, Hx|apply (IH s1 (S j) S1 x Hx)].
Qed.

(* C02 for the scheduler-using operators: whatever happened before (any label sequence ls1), once
   unsubscribe() has returned, whatever happens afterwards (any label sequence ls2: the input keeps
   emitting, tasks are polled in any order, the clock advances) the subscriber is not called. *)
Theorem unsubscribe_silences o ls1 ls2 j :
  not_raw o ->
  no_tout (trun_sys o (fst (tstep o (tfinal o (tinit o) ls1) LUnsub)) j ls2).
Proof.
  intros Ho. apply silent_run; [exact Ho|].
  destruct (inv_reach o ls1 Ho (tinit o) (or_introl (live_init o Ho))) as [L|HS].
  - cbn [tstep]. apply live_unsub_silent; assumption.
  - apply (silent_step o _ LUnsub Ho HS).
Qed.

Lemma trun_sys_app o : forall a s j b,
  trun_sys o s j (a ++ b) = trun_sys o s j a ++ trun_sys o (tfinal o s a) (j + length a) b.
Proof.
  induction a as [|l r IH]; intros s j b.
  - cbn. rewrite Nat.add_0_r. reflexivity.
  - cbn [app trun_sys tfinal length]. destruct (tstep o s l) as [s1 out]. cbn [fst].
    rewrite IH. cbn [app]. rewrite <- app_assoc. replace (S j + length r)%nat with (j + S (length r))%nat by lia. reflexivity.
Qed.

Lemma unsub_handle_no_tout o s t : no_tout (snd (unsub_handle o s t)).
Proof.
  unfold unsub_handle. destruct (nth_error (tasks s) t) as [tk|]; [|apply no_tout_nil].
  destruct (nth_error (jobs s) t) as [j|]; [|apply no_tout_nil].
  destruct j; cbn [subscribing andb snd]; try apply no_tout_nil;
    destruct (handle_closed tk); cbn [snd]; try apply no_tout_nil.
  destruct (existsb _ _); cbn [snd]; [|apply no_tout_nil]. intros x [<-|[]]. exact I.
Qed.

Lemma unsub_handles_no_tout o : forall ts s, no_tout (snd (unsub_handles o s ts)).
Proof.
  induction ts as [|t r IH]; intros s; [apply no_tout_nil|]. cbn [unsub_handles].
  pose proof (unsub_handle_no_tout o s t) as N1. destruct (unsub_handle o s t) as [s1 o1].
  pose proof (IH s1) as N2. destruct (unsub_handles o s1 r) as [s2 o2]. cbn [snd] in *. apply no_tout_app; assumption.
Qed.

Lemma on_unsub_no_tout o s : no_tout (snd (on_unsub o s)).
Proof.
  destruct o; cbn [on_unsub]; try apply no_tout_nil;
    try (destruct (main_task s); [apply unsub_handle_no_tout|apply no_tout_nil]).
  - destruct (multi _); [apply unsub_handles_no_tout|apply no_tout_nil].
  - destruct (multi _); [apply unsub_handles_no_tout|apply no_tout_nil].
  - destruct (handler _); apply no_tout_nil.
  - destruct (main_task s); [|apply no_tout_nil]. pose proof (unsub_handle_no_tout (TBufferTime d) s n) as N.
    destruct (unsub_handle (TBufferTime d) s n). exact N.
  - destruct (main_task s); [|apply no_tout_nil]. pose proof (unsub_handle_no_tout (TBufferCountTime count d) s n) as N.
    destruct (unsub_handle (TBufferCountTime count d) s n). exact N.
Qed.

(* the run-level statement: in the trace of ls1 ++ unsubscribe :: ls2, everything from the
   unsubscribe label on is free of subscriber calls *)
Theorem timed_unsubscribe_final o ls1 ls2 :
  not_raw o ->
  exists before after,
    run_timed o (ls1 ++ LUnsub :: ls2) = before ++ TMark (length ls1) :: after /\
    before = run_timed o ls1 /\ no_tout after.
Proof.
  intros Ho. unfold run_timed. rewrite trun_sys_app. cbn [trun_sys].
  set (s := tfinal o (tinit o) ls1).
  pose proof (on_unsub_no_tout o s) as N1.
  pose proof (unsubscribe_silences o ls1 ls2 (S (0 + length ls1)) Ho) as N2. fold s in N2.
  cbn [tstep] in *. destruct (on_unsub o s) as [s1 out]. cbn [fst snd] in *.
  exists (trun_sys o (tinit o) 0 ls1), (out ++ trun_sys o s1 (S (0 + length ls1)) ls2).
  split; [reflexivity|]. split; [reflexivity|]. apply no_tout_app; assumption.
Qed.

(* ---------- C17: is_closed() is sound ---------- *)

Lemma task_finished_stage o s i tk :
  LiveInv o s -> nth_error (tasks s) i = Some tk -> task_finished s i = true -> t_stage tk = StFinished.
Proof.
  intros L Hi Hf. unfold task_finished in Hf. rewrite Hi in Hf. apply (li_value o s L i tk Hi Hf).
Qed.

(* a live system whose subscription reports closed is silent for good *)
Lemma closed_live_silent o s : not_raw o -> LiveInv o s -> sub_closed o s = true -> Silent s.
Proof.
  intros Ho L Hc. pose proof L as [L1 L2 L3 L4 L5].
  assert (Fin : forall i tk j, nth_error (tasks s) i = Some tk -> nth_error (jobs s) i = Some j ->
                 (covered o s i j -> task_finished s i = true \/ (alive s = false /\ slot_job j = true)) -> quiet_task s tk j).
  { intros i tk j Hi Hj Hcov. destruct (L2 i tk j Hi Hj) as [Q|C]; [exact Q|].
    destruct (Hcov C) as [F|D]; [left; apply (task_finished_stage o s i tk L Hi F)|right; right; exact D]. }
  destruct o; try contradiction; cbn [sub_closed] in Hc.
  - apply andb_prop in Hc. destruct Hc as [Hs Hm]. apply Bool.negb_true_iff in Hs. split; [exact Hs|].
    intros i tk j Hi Hj. apply (Fin i tk j Hi Hj). intros (l & Hl & Hin). left. rewrite Hl in Hm.
    apply (proj1 (forallb_forall _ _) Hm i Hin).
  - apply andb_prop in Hc. destruct Hc as [Hs Hm]. apply Bool.negb_true_iff in Hs. split; [exact Hs|].
    intros i tk j Hi Hj. apply (Fin i tk j Hi Hj). intros (l & Hl & Hin). left. rewrite Hl in Hm.
    apply (proj1 (forallb_forall _ _) Hm i Hin).
  - destruct (main_task s) as [t|] eqn:Em; [|discriminate]. apply andb_prop in Hc. destruct Hc as [Hf Hs].
    apply Bool.negb_true_iff in Hs. split; [exact Hs|].
    intros i tk j Hi Hj. apply (Fin i tk j Hi Hj). cbn [covered]. intros C. rewrite Em in C. inversion C; subst. left. exact Hf.
  - destruct (main_task s) as [t|] eqn:Em; [|discriminate]. apply andb_prop in Hc. destruct Hc as [Hf Hs].
    apply Bool.negb_true_iff in Hs. split; [exact Hs|].
    intros i tk j Hi Hj. apply (Fin i tk j Hi Hj). cbn [covered]. intros C. rewrite Em in C. inversion C; subst. left. exact Hf.
  - apply andb_prop in Hc. destruct Hc as [Hs Hh]. apply Bool.negb_true_iff in Hs. split; [exact Hs|].
    intros i tk j Hi Hj. apply (Fin i tk j Hi Hj). cbn [covered]. intros C. rewrite C in Hh. discriminate.
  - apply andb_prop in Hc. destruct Hc as [Hs Ha]. apply Bool.negb_true_iff in Hs. apply Bool.negb_true_iff in Ha.
    split; [exact Hs|]. intros i tk j Hi Hj. apply (Fin i tk j Hi Hj). cbn [covered]. intros C. right. auto.
  - apply andb_prop in Hc. destruct Hc as [Hf Hs]. apply Bool.negb_true_iff in Hs. split; [exact Hs|].
    intros i tk j Hi Hj. apply (Fin i tk j Hi Hj). cbn [covered]. intros C. rewrite C in Hf. left. exact Hf.
  - apply andb_prop in Hc. destruct Hc as [Hf Hs]. apply Bool.negb_true_iff in Hs. split; [exact Hs|].
    intros i tk j Hi Hj. apply (Fin i tk j Hi Hj). cbn [covered]. intros C. rewrite C in Hf. left. exact Hf.
  - cbn [src_guard] in L3. split; [exact L3|].
    intros i tk j Hi Hj. apply (Fin i tk j Hi Hj). cbn [covered]. intros C. rewrite C in Hc. left. exact Hc.
  - cbn [src_guard] in L3. split; [exact L3|].
    intros i tk j Hi Hj. apply (Fin i tk j Hi Hj). cbn [covered]. intros C. rewrite C in Hc. left. exact Hc.
  - cbn [src_guard] in L3. split; [exact L3|].
    intros i tk j Hi Hj. apply (Fin i tk j Hi Hj). cbn [covered]. intros C. rewrite C in Hc. left. exact Hc.
Qed.

(* C17 (soundness): in every reachable state, if is_closed() answers true then,
   whatever happens next, the subscriber is never called again *)
Theorem closed_sound o ls1 ls2 j :
  not_raw o ->
  sub_closed o (tfinal o (tinit o) ls1) = true ->
  no_tout (trun_sys o (tfinal o (tinit o) ls1) j ls2).
Proof.
  intros Ho Hc. apply silent_run; [exact Ho|].
  destruct (inv_reach o ls1 Ho (tinit o) (or_introl (live_init o Ho))) as [L|HS]; [|exact HS].
  apply (closed_live_silent o _ Ho L Hc).
Qed.
