(* Every two-input machine follows its streaming definition on every timeline and is
   silent after the output has ended. *)
From RxModel Require Import Ops2.
From RxSpec Require Import Ops2Spec.

Definition abs (k : acc) : st2 :=
  {| alive := true; qa := pa k; qb := pb k; la := aa k; lb := ab k; c1 := one_done k; skipping := gate_closed k |}.

Lemma abs_acc0 o : init2 o = abs acc0.
Proof. reflexivity. Qed.

(* once the slot is empty the machine never emits again, whatever arrives *)
Lemma dead_step o s sd e : alive s = false -> alive (fst (step2 o s sd e)) = false /\ snd (step2 o s sd e) = [].
Proof.
  intros H. destruct o, sd, e; cbn;
    repeat (unfold slot_next, slot_term, complete_second, emit_data; cbn; rewrite ?H; cbn;
            try match goal with
                | |- context [match ?x with _ => _ end] => destruct x eqn:?
                end); auto.
Qed.

Lemma silent o s la lb tl : alive s = false -> run2 o s la lb tl = [].
Proof.
  revert s la lb. induction tl as [|[sd e] r IH]; intros s la lb H; [reflexivity|].
  cbn [run2]. destruct (match sd with A => la | B => lb end); [|apply IH, H].
  destruct (dead_step o s sd e H) as [Ha Ho].
  destruct (step2 o s sd e) as [s' out]. cbn in *. subst out. apply IH, Ha.
Qed.

(* one arrival: the machine in a live state does what the definition says *)
Lemma step_sim o k sd e :
  snd (step2 o (abs k) sd e) = snd (fst (sstep o k sd e)) /\
  (if snd (sstep o k sd e) then alive (fst (step2 o (abs k) sd e)) = false
   else fst (step2 o (abs k) sd e) = abs (fst (fst (sstep o k sd e)))).
Proof.
  destruct o, sd, e; cbn;
    repeat (unfold both_done, complete_second, slot_next, slot_term, emit_data, flush, cont, stop; cbn;
            try match goal with
                | |- context [match ?x with _ => _ end] => destruct x eqn:?
                end); auto; destruct k; cbn in *; subst; auto.
Qed.

Lemma run2_spec o k la lb tl : run2 o (abs k) la lb tl = spec2 o k (clean la lb tl).
Proof.
  revert k la lb. induction tl as [|[sd e] r IH]; intros k la lb; [reflexivity|].
  cbn [run2 clean]. destruct sd.
  - destruct la; [|apply IH]. cbn [spec2].
    pose proof (step_sim o k A e) as S. destruct (sstep o k A e) as [[k' out] ended].
    destruct (step2 o (abs k) A e) as [s' out']. cbn [fst snd] in S. destruct S as [-> S].
    destruct ended.
    + rewrite silent by exact S. apply app_nil_r.
    + subst s'. rewrite IH. reflexivity.
  - destruct lb; [|apply IH]. cbn [spec2].
    pose proof (step_sim o k B e) as S. destruct (sstep o k B e) as [[k' out] ended].
    destruct (step2 o (abs k) B e) as [s' out']. cbn [fst snd] in S. destruct S as [-> S].
    destruct ended.
    + rewrite silent by exact S. apply app_nil_r.
    + subst s'. rewrite IH. reflexivity.
Qed.

Theorem op2_meets_spec o tl : run_op2 o tl = spec_op2 o tl.
Proof. unfold run_op2, spec_op2. rewrite abs_acc0. apply run2_spec. Qed.

(* ---------- closed forms of the streaming definitions ---------- *)

(* merge: while neither input has failed and at most one has completed, the output is
   every item of both inputs in arrival order *)
Lemma merge_items tl k :
  no_terminal tl = true -> spec2 OMerge k tl = map Next (all_items tl).
Proof.
  revert k. induction tl as [|[sd e] r IH]; intros k H; [reflexivity|].
  destruct e; cbn in H; try discriminate. cbn. f_equal. apply IH, H.
Qed.

(* take_until: before the notifier's first item and A's terminal: exactly A's items *)
Lemma take_until_items tl k :
  no_terminal tl = true -> items_side B tl = [] -> spec2 OTakeUntil k tl = map Next (items_side A tl).
Proof.
  revert k. induction tl as [|[sd e] r IH]; intros k H HB; [reflexivity|].
  destruct e; cbn in H; try discriminate. destruct sd; cbn in *.
  - f_equal. apply IH; assumption.
  - discriminate.
Qed.

