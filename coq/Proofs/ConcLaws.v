(* C10: with the crate's locking discipline no schedule deadlocks, and a subscriber's callback
   never runs on two threads at once. *)
From RxModel Require Import Conc.
Local Open Scope nat_scope.

(* ---------- the lock part of the discipline ---------- *)
Fixpoint ok_locks (st : list nat) (p : prog) : bool :=
  match p with
  | [] => match st with [] => true | _ => false end
  | Acq l :: r => forallb (fun h => Nat.ltb h l) st && ok_locks (l :: st) r
  | Rel l :: r => match st with x :: st' => Nat.eqb x l && ok_locks st' r | [] => false end
  | _ :: r => ok_locks st r
  end.

Lemma ok_prog_locks lock_of : forall p st ins, ok_prog lock_of st ins p = true -> ok_locks st p = true.
Proof.
  induction p as [|a r IH]; intros st ins H; cbn [ok_prog ok_locks] in *.
  - destruct st; [reflexivity|discriminate].
  - destruct a as [l|l|o|o|o v].
    + apply andb_prop in H. destruct H as [H1 H2]. rewrite H1. exact (IH _ _ H2).
    + destruct st as [|x st']; [discriminate|]. apply andb_prop in H. destruct H as [H1 H2]. apply andb_prop in H1. destruct H1 as [H1 _].
      rewrite H1. exact (IH _ _ H2).
    + apply andb_prop in H. destruct H as [_ H2]. exact (IH _ _ H2).
    + destruct ins as [|x ins']; [discriminate|]. apply andb_prop in H. destruct H as [_ H2]. exact (IH _ _ H2).
    + apply andb_prop in H. destruct H as [_ H2]. exact (IH _ _ H2).
Qed.

Lemma memn_In x l : memn x l = true <-> In x l.
Proof.
  induction l as [|y r IH]; cbn; [split; [discriminate|contradiction]|].
  rewrite Bool.orb_true_iff, IH, Nat.eqb_eq. split; intros [H|H]; auto.
Qed.

(* every thread follows the discipline from where it is, and no mutex is in two stacks *)
Definition Inv (c : conf) : Prop :=
  (forall t p st, nth_error c t = Some (p, st) -> ok_locks st p = true) /\
  (forall t1 t2 p1 st1 p2 st2 l, nth_error c t1 = Some (p1, st1) -> nth_error c t2 = Some (p2, st2) ->
                                 In l st1 -> In l st2 -> t1 = t2) /\
  (forall t p st, nth_error c t = Some (p, st) -> NoDup st).

Lemma nth_upd_same {A} : forall (l : list A) i x, i < length l -> nth_error (upd l i x) i = Some x.
Proof. induction l as [|y r IH]; intros [|i] x H; cbn in *; try lia; [reflexivity|apply IH; lia]. Qed.

Lemma nth_upd_other {A} : forall (l : list A) i j x, i <> j -> nth_error (upd l i x) j = nth_error l j.
Proof.
  induction l as [|y r IH]; intros [|i] [|j] x H; cbn; try reflexivity; try congruence. apply IH. congruence.
Qed.

Lemma upd_length {A} : forall (l : list A) i x, length (upd l i x) = length l.
Proof. induction l as [|y r IH]; intros [|i] x; cbn; auto. Qed.

Lemma held_spec c l : held c l = true <-> exists t p st, nth_error c t = Some (p, st) /\ In l st.
Proof.
  unfold held. rewrite existsb_exists. split.
  - intros ([p st] & Hin & Hm). apply In_nth_error in Hin. destruct Hin as [t Ht]. exists t, p, st. split; [exact Ht|apply memn_In, Hm].
  - intros (t & p & st & Ht & Hl). exists (p, st). split; [eapply nth_error_In, Ht|apply memn_In, Hl].
Qed.

Lemma ok_locks_sorted_head st l r : ok_locks st (Acq l :: r) = true -> forall h, In h st -> h < l.
Proof.
  cbn. intros H h Hh. apply andb_prop in H. destruct H as [H _]. rewrite forallb_forall in H. apply Nat.ltb_lt, H, Hh.
Qed.

Lemma step_inv c t : Inv c -> Inv (fst (step c t)).
Proof.
  intros (I1 & I2 & I3). unfold step. destruct (enabled c t) eqn:En; [|exact (conj I1 (conj I2 I3))].
  destruct (nth_error c t) as [[[|a p] st]|] eqn:Et; try exact (conj I1 (conj I2 I3)). cbn [fst].
  assert (Lt : t < length c) by (apply nth_error_Some; congruence).
  pose proof (I1 t _ _ Et) as Ok.
  assert (Free : forall l, a = Acq l -> forall t' p' st', nth_error c t' = Some (p', st') -> ~ In l st').
  { intros l -> t' p' st' Ht' Hl. unfold enabled in En. rewrite Et in En. apply Bool.negb_true_iff in En.
    assert (held c l = true) by (apply held_spec; eauto). congruence. }
  repeat split.
  - intros t' p' st' H. destruct (Nat.eq_dec t t') as [<-|Ne].
    + rewrite nth_upd_same in H by exact Lt. inversion H; subst. clear H.
      destruct a as [l|l|o|o|o v]; cbn [ok_locks stack_after] in *.
      * apply andb_prop in Ok. tauto.
      * destruct st as [|x st']; [discriminate|]. apply andb_prop in Ok. destruct Ok as [E O]. rewrite E. exact O.
      * exact Ok.
      * exact Ok.
      * exact Ok.
    + rewrite nth_upd_other in H by exact Ne. exact (I1 _ _ _ H).
  - intros t1 t2 p1 st1 p2 st2 l H1 H2 L1 L2.
    destruct (Nat.eq_dec t t1) as [E1|N1]; destruct (Nat.eq_dec t t2) as [E2|N2]; subst; try reflexivity.
    + rewrite nth_upd_same in H1 by exact Lt. rewrite nth_upd_other in H2 by exact N2. inversion H1; subst. clear H1.
      destruct a as [l0|l0|o|o|o v]; cbn [stack_after] in L1.
      * destruct L1 as [<-|L1]; [exfalso; exact (Free _ eq_refl _ _ _ H2 L2)|exact (I2 _ _ _ _ _ _ _ Et H2 L1 L2)].
      * destruct st as [|x st']; [destruct L1|]. destruct (Nat.eqb x l0); [apply (I2 _ _ _ _ _ _ l Et H2); [right; exact L1|exact L2]|exact (I2 _ _ _ _ _ _ _ Et H2 L1 L2)].
      * exact (I2 _ _ _ _ _ _ _ Et H2 L1 L2).
      * exact (I2 _ _ _ _ _ _ _ Et H2 L1 L2).
      * exact (I2 _ _ _ _ _ _ _ Et H2 L1 L2).
    + rewrite nth_upd_same in H2 by exact Lt. rewrite nth_upd_other in H1 by exact N1. inversion H2; subst. clear H2.
      symmetry. destruct a as [l0|l0|o|o|o v]; cbn [stack_after] in L2.
      * destruct L2 as [<-|L2]; [exfalso; exact (Free _ eq_refl _ _ _ H1 L1)|exact (I2 _ _ _ _ _ _ _ Et H1 L2 L1)].
      * destruct st as [|x st']; [destruct L2|]. destruct (Nat.eqb x l0); [apply (I2 _ _ _ _ _ _ l Et H1); [right; exact L2|exact L1]|exact (I2 _ _ _ _ _ _ _ Et H1 L2 L1)].
      * exact (I2 _ _ _ _ _ _ _ Et H1 L2 L1).
      * exact (I2 _ _ _ _ _ _ _ Et H1 L2 L1).
      * exact (I2 _ _ _ _ _ _ _ Et H1 L2 L1).
    + rewrite nth_upd_other in H1 by exact N1. rewrite nth_upd_other in H2 by exact N2. exact (I2 _ _ _ _ _ _ _ H1 H2 L1 L2).
  - intros t' p' st' H. destruct (Nat.eq_dec t t') as [<-|Ne].
    + rewrite nth_upd_same in H by exact Lt. inversion H; subst. clear H. pose proof (I3 _ _ _ Et) as Nd.
      destruct a as [l|l|o|o|o v]; cbn [stack_after]; try exact Nd.
      * constructor; [|exact Nd]. intros Hin. pose proof (ok_locks_sorted_head _ _ _ Ok l Hin). lia.
      * destruct st as [|x st']; [constructor|]. destruct (Nat.eqb x l); [inversion Nd; assumption|exact Nd].
    + rewrite nth_upd_other in H by exact Ne. exact (I3 _ _ _ H).
Qed.

Lemma exec_inv : forall sched c, Inv c -> Inv (fst (exec c sched)).
Proof.
  induction sched as [|t r IH]; intros c I; [exact I|]. cbn [exec].
  pose proof (step_inv c t I) as I1. destruct (step c t) as [c1 oa]. cbn [fst] in I1.
  specialize (IH c1 I1). destruct (exec c1 r) as [c2 tr]. exact IH.
Qed.

Lemma start_inv ps : forallb (ok_locks []) ps = true -> Inv (start ps).
Proof.
  intros H. unfold start. repeat split.
  - intros t p st Ht. rewrite nth_error_map in Ht. destruct (nth_error ps t) as [q|] eqn:E; [|discriminate]. inversion Ht; subst.
    rewrite forallb_forall in H. apply H. eapply nth_error_In, E.
  - intros t1 t2 p1 st1 p2 st2 l H1 _ L1 _. rewrite nth_error_map in H1. destruct (nth_error ps t1); [|discriminate]. inversion H1; subst. destruct L1.
  - intros t p st Ht. rewrite nth_error_map in Ht. destruct (nth_error ps t); [|discriminate]. inversion Ht; subst. constructor.
Qed.

(* ---------- no deadlock ---------- *)
Definition bounded (B : nat) (c : conf) : Prop :=
  forall t p st l, nth_error c t = Some (p, st) -> In (Acq l) p -> l < B.

Lemma ok_locks_nonempty st : st <> [] -> ok_locks st [] = false.
Proof. destruct st; [contradiction|reflexivity]. Qed.

Lemma not_enabled_waits c t p st : nth_error c t = Some (p, st) -> p <> [] -> enabled c t = false ->
  exists l r, p = Acq l :: r /\ held c l = true.
Proof.
  intros Ht Hp En. unfold enabled, thread, prog in *. rewrite Ht in En. destruct p as [|a r]; [contradiction|].
  destruct a as [l| | | |]; try discriminate. exists l, r. split; [reflexivity|]. apply Bool.negb_false_iff, En.
Qed.

Theorem no_deadlock c B : Inv c -> bounded B c -> stuck c = false.
Proof.
  intros (I1 & I2 & I3) Bd. unfold stuck. destruct (finished c) eqn:Fin; [reflexivity|]. cbn [negb andb].
  destruct (forallb (fun t => negb (enabled c t)) (seq 0 (length c))) eqn:All; [exfalso|reflexivity].
  rewrite forallb_forall in All.
  assert (Dis : forall t p st, nth_error c t = Some (p, st) -> enabled c t = false).
  { intros t p st Ht. apply Bool.negb_true_iff, All. apply in_seq. split; [lia|]. cbn. apply nth_error_Some. congruence. }
  (* somebody still has work *)
  assert (W0 : exists t p st l r, nth_error c t = Some (p, st) /\ p = Acq l :: r /\ held c l = true).
  { unfold finished in Fin. apply Bool.not_true_iff_false in Fin.
    assert (exists th, In th c /\ fst th <> []) as ([p st] & Hin & Hne).
    { clear -Fin. induction c as [|th r IH]; [exfalso; apply Fin; reflexivity|].
      destruct th as [[|a q] s].
      - cbn in Fin. destruct IH as (x & Hx & Nx); [exact Fin|]. exists x. split; [right; exact Hx|exact Nx].
      - exists (a :: q, s). split; [left; reflexivity|discriminate]. }
    apply In_nth_error in Hin. destruct Hin as [t Ht]. cbn in Hne.
    destruct (not_enabled_waits c t p st Ht Hne (Dis _ _ _ Ht)) as (l & r & E & H). exists t, p, st, l, r. auto. }
  (* whoever waits for l makes somebody wait for a higher one *)
  assert (Climb : forall k t p st l r, B - l <= k -> nth_error c t = Some (p, st) -> p = Acq l :: r -> held c l = true -> False).
  { induction k as [|k IHk]; intros t p st l r Hk Ht Hp Hh.
    - assert (l < B) by (eapply Bd; [exact Ht|rewrite Hp; left; reflexivity]). lia.
    - apply held_spec in Hh. destruct Hh as (t' & p' & st' & Ht' & Hl).
      assert (Hne : p' <> []).
      { intros ->. pose proof (I1 _ _ _ Ht') as O. rewrite ok_locks_nonempty in O; [discriminate|]. intros ->. destruct Hl. }
      destruct (not_enabled_waits c t' p' st' Ht' Hne (Dis _ _ _ Ht')) as (l' & r' & E' & H').
      pose proof (I1 _ _ _ Ht') as O'. rewrite E' in O'. pose proof (ok_locks_sorted_head _ _ _ O' l Hl) as Lt.
      assert (l' < B) by (eapply Bd; [exact Ht'|rewrite E'; left; reflexivity]).
      apply (IHk t' p' st' l' r'); [lia|exact Ht'|exact E'|exact H']. }
  destruct W0 as (t & p & st & l & r & Ht & Hp & Hh). exact (Climb (B - l) t p st l r (le_n _) Ht Hp Hh).
Qed.

Lemma bounded_step B c t : bounded B c -> bounded B (fst (step c t)).
Proof.
  intros Bd. unfold step. destruct (enabled c t); [|exact Bd]. destruct (nth_error c t) as [[[|a p] st]|] eqn:Et; try exact Bd. cbn [fst].
  assert (Lt : t < length c) by (apply nth_error_Some; congruence).
  intros t' p' st' l H Hin. destruct (Nat.eq_dec t t') as [<-|Ne].
  - rewrite nth_upd_same in H by exact Lt. inversion H; subst. eapply Bd; [exact Et|right; exact Hin].
  - rewrite nth_upd_other in H by exact Ne. eapply Bd; eassumption.
Qed.

Lemma bounded_exec B : forall sched c, bounded B c -> bounded B (fst (exec c sched)).
Proof.
  induction sched as [|t r IH]; intros c Bd; [exact Bd|]. cbn [exec].
  pose proof (bounded_step B c t Bd) as B1. destruct (step c t) as [c1 oa]. cbn [fst] in B1.
  specialize (IH c1 B1). destruct (exec c1 r) as [c2 tr]. exact IH.
Qed.

Definition max_lock (ps : list prog) : nat := S (list_max (flat_map acquisitions ps)).

Lemma bounded_start ps : bounded (max_lock ps) (start ps).
Proof.
  intros t p st l Ht Hin. unfold start in Ht. rewrite nth_error_map in Ht. destruct (nth_error ps t) as [q|] eqn:E; [|discriminate].
  inversion Ht; subst. unfold max_lock. apply Nat.lt_succ_r.
  assert (In l (flat_map acquisitions ps)).
  { apply in_flat_map. exists p. split; [eapply nth_error_In, E|]. unfold acquisitions. apply in_flat_map. exists (Acq l). split; [exact Hin|left; reflexivity]. }
  pose proof (list_max_le (flat_map acquisitions ps) (list_max (flat_map acquisitions ps))) as [L _].
  specialize (L (le_n _)). rewrite Forall_forall in L. apply L, H.
Qed.

(* the statement: threads that follow the discipline never deadlock, whatever the schedule *)
Theorem disciplined_never_deadlocks lock_of ps sched :
  disciplined lock_of ps = true -> stuck (fst (exec (start ps) sched)) = false.
Proof.
  intros D. apply (no_deadlock _ (max_lock ps)).
  - apply exec_inv, start_inv. unfold disciplined in D. rewrite forallb_forall in *. intros p Hp. eapply ok_prog_locks, D, Hp.
  - apply bounded_exec, bounded_start.
Qed.

(* ---------- a callback never runs on two threads at once ---------- *)
Definition Inv2 (lock_of : nat -> nat) (c : conf) : Prop :=
  forall t p st, nth_error c t = Some (p, st) ->
    exists ins, ok_prog lock_of st ins p = true /\ (forall o, In o ins -> In (lock_of o) st).

Lemma inside_needs_ins lock_of o : forall p st ins, ok_prog lock_of st ins p = true -> inside_cb o p = true -> In o ins.
Proof.
  induction p as [|a r IH]; intros st ins Ok Hin; [discriminate|].
  destruct a as [l|l|o'|o'|o' v]; cbn [ok_prog inside_cb] in *.
  - apply andb_prop in Ok. destruct Ok as [_ Ok]. exact (IH _ _ Ok Hin).
  - destruct st as [|x st']; [discriminate|]. apply andb_prop in Ok. destruct Ok as [_ Ok]. exact (IH _ _ Ok Hin).
  - apply andb_prop in Ok. destruct Ok as [_ Ok]. destruct (Nat.eqb_spec o o') as [->|Ne]; [discriminate|].
    destruct (IH _ _ Ok Hin) as [E|H]; [congruence|exact H].
  - destruct ins as [|x ins']; [discriminate|]. apply andb_prop in Ok. destruct Ok as [E Ok]. apply Nat.eqb_eq in E. subst x.
    destruct (Nat.eqb_spec o o') as [->|Ne]; [left; reflexivity|right; exact (IH _ _ Ok Hin)].
  - apply andb_prop in Ok. destruct Ok as [_ Ok]. exact (IH _ _ Ok Hin).
Qed.

Lemma step_inv2 lock_of c t : Inv2 lock_of c -> Inv2 lock_of (fst (step c t)).
Proof.
  intros I. unfold step. destruct (enabled c t); [|exact I].
  destruct (nth_error c t) as [[[|a p] st]|] eqn:Et; try exact I. cbn [fst].
  assert (Lt : t < length c) by (apply nth_error_Some; congruence).
  intros t' p' st' H. destruct (Nat.eq_dec t t') as [<-|Ne]; [|rewrite nth_upd_other in H by exact Ne; exact (I _ _ _ H)].
  rewrite nth_upd_same in H by exact Lt. inversion H; subst. clear H.
  destruct (I _ _ _ Et) as (ins & Ok & Sub).
  destruct a as [l|l|o|o|o v]; cbn [ok_prog stack_after] in *.
  - apply andb_prop in Ok. destruct Ok as [_ Ok]. exists ins. split; [exact Ok|]. intros o Ho. right. exact (Sub o Ho).
  - destruct st as [|x st']; [discriminate|]. apply andb_prop in Ok. destruct Ok as [Ok1 Ok]. apply andb_prop in Ok1. destruct Ok1 as [E Nx].
    rewrite E. exists ins. split; [exact Ok|]. intros o Ho. destruct (Sub o Ho) as [Eq|Hin]; [|exact Hin].
    exfalso. apply Bool.negb_true_iff in Nx. assert (existsb (fun o0 => lock_of o0 =? l) ins = true); [|congruence].
    apply existsb_exists. exists o. split; [exact Ho|]. apply Nat.eqb_eq in E. apply Nat.eqb_eq. congruence.
  - apply andb_prop in Ok. destruct Ok as [Ok1 Ok]. apply andb_prop in Ok1. destruct Ok1 as [M _].
    exists (o :: ins). split; [exact Ok|]. intros o' [<-|Ho]; [apply memn_In, M|exact (Sub _ Ho)].
  - destruct ins as [|x ins']; [discriminate|]. apply andb_prop in Ok. destruct Ok as [_ Ok].
    exists ins'. split; [exact Ok|]. intros o' Ho. apply Sub. right. exact Ho.
  - apply andb_prop in Ok. destruct Ok as [_ Ok]. exists ins. split; [exact Ok|exact Sub].
Qed.

Lemma exec_inv2 lock_of : forall sched c, Inv2 lock_of c -> Inv2 lock_of (fst (exec c sched)).
Proof.
  induction sched as [|t r IH]; intros c I; [exact I|]. cbn [exec].
  pose proof (step_inv2 lock_of c t I) as I1. destruct (step c t) as [c1 oa]. cbn [fst] in I1.
  specialize (IH c1 I1). destruct (exec c1 r) as [c2 tr]. exact IH.
Qed.

Lemma start_inv2 lock_of ps : disciplined lock_of ps = true -> Inv2 lock_of (start ps).
Proof.
  intros D t p st Ht. unfold start in Ht. rewrite nth_error_map in Ht. destruct (nth_error ps t) as [q|] eqn:E; [|discriminate].
  inversion Ht; subst. exists []. split; [|intros o []]. unfold disciplined in D. rewrite forallb_forall in D. apply D. eapply nth_error_In, E.
Qed.

Theorem callbacks_are_exclusive lock_of ps sched t1 t2 p1 st1 p2 st2 o :
  disciplined lock_of ps = true ->
  nth_error (fst (exec (start ps) sched)) t1 = Some (p1, st1) ->
  nth_error (fst (exec (start ps) sched)) t2 = Some (p2, st2) ->
  inside_cb o p1 = true -> inside_cb o p2 = true -> t1 = t2.
Proof.
  intros D H1 H2 In1 In2.
  assert (I : Inv (fst (exec (start ps) sched))).
  { apply exec_inv, start_inv. unfold disciplined in D. rewrite forallb_forall in *. intros p Hp. eapply ok_prog_locks, D, Hp. }
  pose proof (exec_inv2 lock_of sched (start ps) (start_inv2 lock_of ps D)) as I2.
  destruct (I2 _ _ _ H1) as (ins1 & Ok1 & Sub1). destruct (I2 _ _ _ H2) as (ins2 & Ok2 & Sub2).
  destruct I as (_ & Disj & _).
  apply (Disj t1 t2 p1 st1 p2 st2 (lock_of o) H1 H2).
  - apply Sub1. eapply inside_needs_ins; eassumption.
  - apply Sub2. eapply inside_needs_ins; eassumption.
Qed.

(* ---------- the crate's operations follow the discipline ---------- *)
Definition idl (o : nat) : nat := o.

(* delivering to the subscribers of a subject whose observer list (mutex `base`) is held *)
Lemma deliver_probe_ok base v : forall subs rest,
  ok_prog idl [base] [] (deliver_to base (probe_cell base) v subs ++ rest) = ok_prog idl [base] [] rest.
Proof.
  induction subs as [|i r IH]; intros rest; [reflexivity|].
  change (deliver_to base (probe_cell base) v (i :: r))
    with ((Acq (base + 2 + i) :: probe_cell base i v ++ [Rel (base + 2 + i)]) ++ deliver_to base (probe_cell base) v r).
  rewrite <- app_assoc. unfold probe_cell. cbn [app ok_prog forallb memn idl].
  assert (L : (base <? base + 2 + i) = true) by (apply Nat.ltb_lt; lia).
  rewrite L, !Nat.eqb_refl. cbn [andb orb negb existsb]. apply IH.
Qed.

Theorem subject_next_disciplined base v subs : ok_prog idl [] [] (next_prog base (probe_cell base) v subs) = true.
Proof.
  unfold next_prog, load_prog. cbn [app ok_prog forallb].
  assert (L : (base <? base + 1) = true) by (apply Nat.ltb_lt; lia). rewrite L, !Nat.eqb_refl. cbn [andb existsb negb].
  rewrite deliver_probe_ok. cbn. rewrite Nat.eqb_refl. reflexivity.
Qed.

Theorem subject_subscribe_disciplined base : ok_prog idl [] [] (subscribe_prog base) = true.
Proof. cbn. rewrite Nat.eqb_refl. reflexivity. Qed.

Theorem subject_unsubscribe_disciplined base i : ok_prog idl [] [] (unsubscribe_prog base i) = true.
Proof. cbn. rewrite Nat.eqb_refl. reflexivity. Qed.

(* one input of a two-input operator: the subject's only subscriber locks the shared cell *)
Theorem shared_input_disciplined base shared v : base + 2 < shared ->
  ok_prog idl [] [] (next_prog base (shared_tail shared) v [0]) = true.
Proof.
  intros H. unfold next_prog, load_prog, deliver_to, shared_tail. cbn [app flat_map ok_prog forallb memn idl].
  assert (L1 : (base <? base + 1) = true) by (apply Nat.ltb_lt; lia).
  assert (L2 : (base <? base + 2 + 0) = true) by (apply Nat.ltb_lt; lia).
  assert (L3 : (base + 2 + 0 <? shared) = true) by (apply Nat.ltb_lt; lia).
  assert (L4 : (base <? shared) = true) by (apply Nat.ltb_lt; lia).
  unfold idl. rewrite L1, L2, L3, L4, !Nat.eqb_refl. reflexivity.
Qed.

(* ---------- unsubscribe() of a task handle against a running poll ---------- *)
Fixpoint kinterleave (a b : list kstep) (fuel : nat) : list (list kstep) :=
  match fuel with
  | O => []
  | S f =>
      match a, b with
      | [], _ => [b]
      | _, [] => [a]
      | x :: a', y :: b' => map (cons x) (kinterleave a' b f) ++ map (cons y) (kinterleave a b' f)
      end
  end.

Definition executions (hold : bool) : list (list kstep) :=
  filter (kvalid kst0) (kinterleave (executor hold) canceller 12).

(* in every execution the body runs at most once and never after unsubscribe() has returned *)
Theorem cancel_waits_for_running_poll :
  forallb (fun xs => negb (k_bad (krun xs)) && Nat.leb (k_body_runs (krun xs)) 1) (executions true) = true.
Proof. vm_compute. reflexivity. Qed.

Theorem cancel_executions_counted : length (kinterleave (executor true) canceller 12) = 56 /\ length (executions true) = 2.
Proof. vm_compute. split; reflexivity. Qed.

(* letting go of the mutex while the body runs breaks it *)
Theorem cancel_without_the_lock_refuted :
  existsb (fun xs => k_bad (krun xs)) (executions false) = true.
Proof. vm_compute. reflexivity. Qed.
