(* The closure idiom as translated from /repo/src: each call reaches exactly the closure it is meant for, with exactly
   the notification; whole call sequences give Pipe.idiom_log. *)
From RxModel Require Import BodyAbsIdiom.
From RxGen Require Import Bodies.
From RxProofs Require Import BodyTie.
Open Scope string_scope.
Open Scope list_scope.

Lemma idiom_call_ok : idiom_call_agrees bodies.
Proof. intros e. destruct e; tie. Qed.

Theorem idiom_run_ok : forall t, idiom_run bodies idiom_observer t = Some (idiom_log true t).
Proof.
  induction t as [|e r IH]; [reflexivity|].
  cbn [idiom_run idiom_log]. rewrite (idiom_call_ok e).
  destruct (is_term e) eqn:E; cbn [negb].
  - destruct r; reflexivity.
  - rewrite IH. reflexivity.
Qed.
