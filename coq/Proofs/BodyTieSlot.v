(* Subscriber as translated from /repo/src is the slot machine; hence silence after unsubscribe() and after a terminal, for
   every history of calls through any clone. *)
From RxModel Require Import BodyAbsSlot.
From RxGen Require Import Bodies.
From RxProofs Require Import BodyTie.
Open Scope string_scope.
Open Scope list_scope.

Lemma subscriber_ok : subscriber_agrees bodies.
Proof.
  intros alive o. split.
  - destruct alive, o as [e|]; try destruct e; tie.
  - exists []. destruct alive; split; try reflexivity; tie.
Qed.

Theorem subscriber_run_ok : forall os alive, subscriber_run bodies (subscriber alive) os = Some (slot_run alive os).
Proof.
  induction os as [|o r IH]; intros alive; [reflexivity|].
  cbn [subscriber_run slot_run]. destruct (subscriber_ok alive o) as [H _]. rewrite H.
  destruct (slot_step alive o) as [a out]. cbn [fst snd]. rewrite IH. reflexivity.
Qed.

Lemma slot_run_dead os : slot_run false os = [].
Proof. induction os as [|o r IH]; [reflexivity|]. cbn [slot_run]. destruct o; cbn [slot_step]; exact IH. Qed.

(* after unsubscribe() has returned - whatever came before, whatever is called afterwards - nothing is delivered *)
Theorem silent_after_unsubscribe : forall before after,
  subscriber_run bodies (subscriber true) (before ++ SUnsubscribe :: after) = Some (slot_run true before).
Proof.
  intros before after. rewrite subscriber_run_ok. f_equal.
  generalize true. induction before as [|o r IH]; intros alive.
  - cbn [app slot_run slot_step]. apply slot_run_dead.
  - cbn [app slot_run]. destruct (slot_step alive o) as [a out]. rewrite IH. reflexivity.
Qed.
