(* The subject implementation refines the abstract multicast set, for every history. *)
From RxModel Require Import Subject.
From RxSpec Require Import SubjectSpec.

Local Open Scope nat_scope.
Local Arguments Nat.ltb : simpl never.
Local Arguments Nat.eqb : simpl never.

Definition is_none {A} (o : option A) : bool := match o with None => true | Some _ => false end.

(* abstraction function *)
Definition absf (s : subj) : asub :=
  {| live := match observers s, chamber s with
             | Some o, Some c => filter (slot_alive s) (o ++ c)
             | _, _ => []
             end;
     closed := is_none (observers s);
     torn := is_none (chamber s);
     gone := dead s;
     fresh := next_id s |}.

Definition ids_below (n : nat) (l : list nat) : Prop := forall i, In i l -> i < n.

Definition opt_below (n : nat) (o : option (list nat)) : Prop :=
  match o with Some l => ids_below n l | None => True end.

Record WF (s : subj) : Prop := {
  wf_chamber : chamber s = None -> observers s = None;
  wf_obs : opt_below (next_id s) (observers s);
  wf_cha : opt_below (next_id s) (chamber s);
  wf_dead : ids_below (next_id s) (dead s)
}.

Lemma WF0 : WF subj0.
Proof. split; cbn; try discriminate; try (intros i []). Qed.

Lemma memn_app i a b : memn i (a ++ b) = memn i a || memn i b.
Proof. apply existsb_app. Qed.

Lemma memn_false_below n l i : ids_below n l -> n <= i -> memn i l = false.
Proof.
  intros H Hi. unfold memn. apply Bool.not_true_is_false. intros E.
  apply existsb_exists in E. destruct E as (x & Hx & Ex). apply Nat.eqb_eq in Ex. subst x.
  specialize (H _ Hx). lia.
Qed.

Lemma ids_below_app n a b : ids_below n a -> ids_below n b -> ids_below n (a ++ b).
Proof. intros Ha Hb i Hi. apply in_app_or in Hi. destruct Hi; auto. Qed.

Lemma ids_below_S n l : ids_below n l -> ids_below (S n) l.
Proof. intros H i Hi. specialize (H i Hi). lia. Qed.

Lemma ids_below_filter n f l : ids_below n l -> ids_below n (filter f l).
Proof. intros H i Hi. apply filter_In in Hi. apply H, Hi. Qed.

Lemma filter_ext_in' (f g : nat -> bool) l : (forall i, In i l -> f i = g i) -> filter f l = filter g l.
Proof. apply filter_ext_in. Qed.

Lemma WF_load s : WF s -> WF (load s).
Proof.
  intros [H1 H2 H3 H4]. unfold load.
  destruct (observers s) as [o|] eqn:Eo; destruct (chamber s) as [c|] eqn:Ec;
    split; cbn; rewrite ?Eo, ?Ec; cbn; auto; try discriminate.
  - apply ids_below_app; assumption.
  - intros i [].
Qed.

Lemma absf_load s : absf (load s) = absf s.
Proof.
  unfold load, absf. destruct (observers s) as [o|] eqn:Eo; destruct (chamber s) as [c|] eqn:Ec; cbn;
    rewrite ?Eo, ?Ec; cbn; try reflexivity.
  rewrite app_nil_r. reflexivity.
Qed.

Lemma observers_load s : WF s ->
  observers (load s) = match observers s, chamber s with
                       | Some o, Some c => Some (o ++ c)
                       | _, _ => None
                       end.
Proof.
  intros W. unfold load. destruct (observers s) as [o|] eqn:Eo; destruct (chamber s) as [c|] eqn:Ec; cbn; auto.
  pose proof (wf_chamber s W Ec) as H. congruence.
Qed.

Lemma slot_alive_load s i : slot_alive (load s) i = slot_alive s i.
Proof. unfold load, slot_alive. destruct (observers s); destruct (chamber s); reflexivity. Qed.

Lemma live_absf s : WF s ->
  live (absf s) = match observers (load s) with Some o => filter (slot_alive (load s)) o | None => [] end.
Proof.
  intros W. rewrite observers_load by exact W. unfold absf; cbn.
  destruct (observers s); destruct (chamber s); try reflexivity.
  apply filter_ext. intros i. symmetry. apply slot_alive_load.
Qed.


Lemma filter_filter' (f g : nat -> bool) l : filter f (filter g l) = filter (fun x => g x && f x) l.
Proof. induction l as [|x l IH]; [reflexivity|]. cbn. destruct (g x); cbn; [destruct (f x)|]; rewrite ?IH; reflexivity. Qed.

Lemma map_filter_flat {B} (f : nat -> bool) (g : nat -> list B) l :
  flat_map g (filter f l) = flat_map (fun j => if f j then g j else []) l.
Proof. induction l as [|x l IH]; [reflexivity|]. cbn. destruct (f x); cbn; rewrite IH; reflexivity. Qed.

(* ---- one lemma per operation: WF is preserved, the abstraction commutes, outputs agree ---- *)

Definition refines s op :=
  WF (fst (sstep s op)) /\ astep (absf s) op = (absf (fst (sstep s op)), snd (sstep s op)).

Lemma ref_subscribe s : WF s -> refines s OpSubscribe.
Proof.
  intros W. pose proof W as [H1 H2 H3 H4]. unfold refines. cbn [sstep astep].
  unfold subscribe. destruct (chamber s) as [c|] eqn:Ec.
  - cbn [fst snd]. split.
    + split; cbn; rewrite ?Ec; try discriminate.
      * destruct (observers s); cbn in *; auto using ids_below_S.
      * apply ids_below_app; [apply ids_below_S; exact H3|]. intros i [<-|[]]. lia.
      * apply ids_below_S, H4.
    + unfold absf at 1. cbn. rewrite Ec. cbn.
      destruct (observers s) as [o|] eqn:Eo; cbn.
      * unfold absf. cbn. rewrite ?Eo. cbn. f_equal. f_equal.
        match goal with |- _ = filter ?f ?l => change (filter f l) with (filter (slot_alive s) l) end.
        rewrite app_assoc, !filter_app. cbn [filter].
        assert (E : slot_alive s (next_id s) = true).
        { unfold slot_alive. rewrite (memn_false_below (next_id s) (dead s)); auto. }
        rewrite E. reflexivity.
      * unfold absf. cbn. rewrite ?Eo. reflexivity.
  - cbn [fst snd]. pose proof (H1 eq_refl) as Eo. split.
    + split; cbn; rewrite ?Ec, ?Eo; cbn; auto.
      intros i [<-|Hi]; [lia|]. specialize (H4 i Hi). lia.
    + unfold absf. cbn. rewrite Ec, Eo. reflexivity.
Qed.

Lemma ref_unsub_one s i : WF s -> refines s (OpUnsubOne i).
Proof.
  intros W. pose proof W as [H1 H2 H3 H4]. unfold refines. cbn [sstep astep].
  unfold absf at 1. cbn [fresh]. destruct (Nat.ltb_spec i (next_id s)) as [Hlt|Hge]; cbn [negb fst snd].
  - split.
    + split; cbn; auto. intros j [<-|Hj]; auto.
    + unfold absf, kill. cbn. f_equal. f_equal.
      destruct (observers s); destruct (chamber s); try reflexivity.
      unfold remove. rewrite filter_filter'. apply filter_ext. intros j.
      unfold slot_alive. cbn. destruct (Nat.eqb j i); cbn; [rewrite Bool.andb_false_r|rewrite Bool.andb_true_r]; reflexivity.
  - split; [exact W|reflexivity].
Qed.

Lemma ref_next s v : WF s -> refines s (OpNext v).
Proof.
  intros W. unfold refines. cbn [sstep astep].
  split; [destruct (observers (load s)); apply WF_load, W|].
  rewrite (live_absf s W).
  destruct (observers (load s)) eqn:E; cbn [fst snd]; rewrite absf_load; reflexivity.
Qed.

Definition term_step (s1 : subj) (t : ev) : subj * list sobs :=
  match observers s1 with
  | Some o =>
      let targets := filter (slot_alive s1) o in
      ({| observers := None; chamber := chamber s1; dead := targets ++ dead s1; next_id := next_id s1 |},
       map (fun i => Deliver i t) targets)
  | None => (s1, [])
  end.

Definition aterm_step (a : asub) (t : ev) : asub * list sobs :=
  if closed a then (a, [])
  else ({| live := []; closed := true; torn := torn a; gone := live a ++ gone a; fresh := fresh a |},
        map (fun i => Deliver i t) (live a)).

Lemma ref_terminal s (t : ev) :
  WF s ->
  WF (fst (term_step (load s) t)) /\
  aterm_step (absf s) t = (absf (fst (term_step (load s) t)), snd (term_step (load s) t)).
Proof.
  intros W. pose proof (WF_load s W) as W1. pose proof (live_absf s W) as L.
  rewrite <- (absf_load s). rewrite <- (absf_load s) in L.
  remember (load s) as s1 eqn:E1. clear E1 W s.
  unfold term_step, aterm_step.
  destruct (observers s1) as [o|] eqn:Eo; cbn [fst snd].
  - split.
    + destruct W1 as [G1 G2 G3 G4]. split; cbn; auto.
      apply ids_below_app; [|exact G4]. apply ids_below_filter. rewrite Eo in G2. exact G2.
    + assert (Hc : closed (absf s1) = false) by (unfold absf; cbn; rewrite Eo; reflexivity).
      rewrite Hc, L. unfold absf. cbn. reflexivity.
  - split; [exact W1|].
    assert (Hc : closed (absf s1) = true) by (unfold absf; cbn; rewrite Eo; reflexivity).
    rewrite Hc. reflexivity.
Qed.

Lemma ref_error s e : WF s -> refines s (OpError e).
Proof. intros W. unfold refines. exact (ref_terminal s (Err e) W). Qed.

Lemma ref_complete s : WF s -> refines s OpComplete.
Proof. intros W. unfold refines. exact (ref_terminal s Done W). Qed.

Lemma memn_filter i f l : memn i (filter f l) = memn i l && f i.
Proof.
  unfold memn. induction l as [|x l IH]; [reflexivity|]. cbn [filter existsb].
  destruct (f x) eqn:E; cbn [existsb]; rewrite IH.
  - destruct (Nat.eqb_spec i x) as [->|]; cbn; [rewrite E|]; reflexivity.
  - destruct (Nat.eqb_spec i x) as [->|]; cbn; [rewrite E, Bool.andb_false_r|]; reflexivity.
Qed.

Lemma ref_next_sub_inside s v i : WF s -> refines s (OpNextSubInside v i).
Proof.
  intros W. unfold refines. cbn [sstep astep].
  pose proof (WF_load s W) as W1. pose proof (live_absf s W) as L. pose proof (absf_load s) as A.
  set (s1 := load s) in *.
  destruct (observers s1) as [o|] eqn:Eo.
  - rewrite L, memn_filter.
    destruct (memn i o && slot_alive s1 i) eqn:Ei.
    + pose proof (ref_subscribe s1 W1) as [Ws Es]. unfold refines in *. cbn [sstep astep] in Ws, Es.
      destruct (subscribe s1) as [s2 id] eqn:E2. cbn [fst snd] in *. split; [exact Ws|].
      rewrite <- A.
      (* the abstract subscribe on an open subject *)
      assert (Hopen : torn (absf s1) = false /\ closed (absf s1) = false).
      { unfold absf. cbn. rewrite Eo. cbn. split; [|reflexivity].
        destruct (chamber s1) eqn:Ec; [reflexivity|]. pose proof (wf_chamber s1 W1 Ec). congruence. }
      destruct Hopen as [Ht Hc]. rewrite Ht, Hc in Es.
      assert (Hl : live (absf s1) = filter (slot_alive s1) o) by (rewrite A; exact L).
      pose proof (f_equal fst Es) as Ea. cbn [fst] in Ea. rewrite <- Ea, Hl, Hc, Ht. f_equal.
      assert (Hid : id = fresh (absf s1)).
      { unfold subscribe in E2. destruct (chamber s1); inversion E2; reflexivity. }
      rewrite map_filter_flat. apply flat_map_ext. intros j. rewrite Hid. reflexivity.
    + cbn [fst snd]. split; [exact W1|]. rewrite <- A. reflexivity.
  - cbn [fst snd]. split; [exact W1|]. rewrite L. rewrite <- A. reflexivity.
Qed.

Lemma ref_retain s : WF s -> refines s OpRetain.
Proof.
  intros W. pose proof W as [H1 H2 H3 H4]. unfold refines. cbn [sstep astep].
  destruct (observers s) as [o|] eqn:Eo; cbn [fst snd]; [|split; [exact W|reflexivity]].
  split.
  - split; cbn; auto.
    + intros Ec. specialize (H1 Ec). congruence.
    + apply ids_below_filter. exact H2.
  - unfold absf. cbn. rewrite Eo. cbn. f_equal. f_equal.
    destruct (chamber s) as [c|]; [|reflexivity].
    rewrite !filter_app. f_equal.
    match goal with |- _ = filter ?f ?l => change (filter f l) with (filter (slot_alive s) l) end.
    rewrite filter_filter'. apply filter_ext. intros j. destruct (slot_alive s j); reflexivity.
Qed.

Lemma ref_unsub_subject s : WF s -> refines s OpUnsubSubject.
Proof.
  intros W. pose proof W as [H1 H2 H3 H4]. unfold refines. cbn [sstep astep fst snd].
  split; [split; cbn; auto|reflexivity].
Qed.

Lemma ref_queries s op :
  WF s ->
  match op with OpClone | OpIsClosed | OpIsFinished | OpSubClosed _ => True | _ => False end ->
  refines s op.
Proof.
  intros W Hop. unfold refines. destruct op; try contradiction; cbn [sstep astep fst snd]; (split; [exact W|]); try reflexivity.
  unfold absf at 1 2; cbn [fresh gone]. unfold slot_alive. rewrite Bool.negb_involutive. reflexivity.
Qed.

Lemma ref_size_closed s op :
  WF s -> observers s = None ->
  match op with OpLen | OpIsEmpty => True | _ => False end ->
  refines s op.
Proof.
  intros W Hc Hop. unfold refines. destruct op; try contradiction; cbn [sstep astep fst snd]; rewrite Hc; (split; [exact W|reflexivity]).
Qed.

(* once closed, always closed *)
Lemma closed_stays s op : observers s = None -> observers (fst (sstep s op)) = None.
Proof.
  intros H. assert (L : load s = s) by (unfold load; rewrite H; reflexivity).
  destruct op; cbn [sstep]; rewrite ?L, ?H; cbn [fst]; auto.
  - unfold subscribe. destruct (chamber s); cbn; exact H.
  - destruct (Nat.ltb i (next_id s)); cbn; exact H.
Qed.

Lemma terminal_closes s op :
  match op with OpError _ | OpComplete | OpUnsubSubject => True | _ => False end ->
  observers (fst (sstep s op)) = None.
Proof.
  destruct op; try contradiction; intros _; cbn [sstep].
  - destruct (observers (load s)) eqn:E; cbn [fst]; [reflexivity|exact E].
  - destruct (observers (load s)) eqn:E; cbn [fst]; [reflexivity|exact E].
  - reflexivity.
Qed.

Theorem subject_refines_from s cl h :
  WF s -> (cl = true -> observers s = None) -> size_ok cl h = true ->
  srun s h = arun (absf s) h.
Proof.
  revert s cl. induction h as [|op r IH]; intros s cl W Hcl Hs; [reflexivity|].
  cbn [srun arun].
  assert (R : refines s op).
  { destruct op.
    - apply ref_subscribe, W.
    - apply ref_unsub_one, W.
    - apply ref_next, W.
    - apply ref_next_sub_inside, W.
    - apply ref_error, W.
    - apply ref_complete, W.
    - apply ref_queries; [exact W|exact I].
    - apply ref_retain, W.
    - apply ref_unsub_subject, W.
    - cbn in Hs. apply andb_prop in Hs. apply ref_size_closed; [exact W| apply Hcl, Hs | exact I].
    - cbn in Hs. apply andb_prop in Hs. apply ref_size_closed; [exact W| apply Hcl, Hs | exact I].
    - apply ref_queries; [exact W|exact I].
    - apply ref_queries; [exact W|exact I].
    - apply ref_queries; [exact W|exact I]. }
  destruct R as [W' E]. rewrite E. destruct (sstep s op) as [s' out] eqn:Es. cbn [fst snd] in *.
  f_equal.
  assert (Hnext : exists cl', (cl' = true -> observers s' = None) /\ size_ok cl' r = true).
  { pose proof (closed_stays s op) as CS. pose proof (terminal_closes s op) as TC. rewrite Es in CS, TC. cbn [fst] in CS, TC.
    destruct op; cbn in Hs;
      try (exists cl; split; [intros Hc; apply CS, Hcl, Hc | exact Hs]);
      try (exists true; split; [intros _; apply TC; exact I | exact Hs]).
    - apply andb_prop in Hs. destruct Hs as [Hc Hs]. exists cl. split; [intros _; apply CS, Hcl, Hc|exact Hs].
    - apply andb_prop in Hs. destruct Hs as [Hc Hs]. exists cl. split; [intros _; apply CS, Hcl, Hc|exact Hs]. }
  destruct Hnext as (cl' & Hcl' & Hs'). exact (IH s' cl' W' Hcl' Hs').
Qed.

Theorem subject_refines h : size_ok false h = true -> srun subj0 h = arun asub0 h.
Proof.
  intros H. change asub0 with (absf subj0).
  apply (subject_refines_from subj0 false h WF0); [discriminate|exact H].
Qed.

(* After a terminal or unsubscribe the subject is finished and empty, for ever. *)
Theorem closed_reports s :
  observers s = None ->
  snd (sstep s OpLen) = [RetN 0] /\ snd (sstep s OpIsEmpty) = [RetB true] /\
  snd (sstep s OpIsFinished) = [RetB true] /\ snd (sstep s OpIsClosed) = [RetB true] /\
  forall v, snd (sstep s (OpNext v)) = [].
Proof.
  intros H. cbn [sstep snd]. rewrite H. repeat split.
  intros v. unfold load. rewrite H. cbn. rewrite H. reflexivity.
Qed.
