(* C01 for the scheduler-using operators and the time sources: under every label sequence the
   notifications that reach the subscriber are items, then at most one terminal, then nothing.
   Route: every trace predicate of Spec/TimedSpec.v is a walk whose step refuses a delivery
   once a terminal has been delivered; the model satisfies its predicate for every label
   sequence (TimedLaws / RelayLaws / RateLaws / BufferLaws); hence the grammar. *)
From RxModel Require Import Timed.
From RxSpec Require Import TimedSpec.
From RxProofs Require Import TimedLaws RelayLaws RateLaws BufferLaws.
Open Scope N_scope.

(* what the subscriber is called with, in order *)
Definition delivered (out : list tout) : list ev :=
  flat_map (fun x => match x with TOut _ e => [e] | _ => [] end) out.

Lemma delivered_tout a e r : delivered (TOut a e :: r) = e :: delivered r.
Proof. reflexivity. Qed.

Lemma delivered_other x r :
  (forall a e, x <> TOut a e) -> delivered (x :: r) = delivered r.
Proof. intros H. destruct x as [a e|b|t sq a|t|j]; try reflexivity. exfalso. apply (H a e). reflexivity. Qed.

Lemma delivered_app a b : delivered (a ++ b) = delivered a ++ delivered b.
Proof. unfold delivered. apply flat_map_app. Qed.

(* ---------- the grammar, one notification at a time ---------- *)

Lemma wf_cons_item e l : is_term e = false -> wf (e :: l) = wf l.
Proof. destruct e as [v|z|]; cbn [is_term]; intros H; try discriminate. reflexivity. Qed.

Lemma wf_cons_term e : is_term e = true -> wf [e] = true.
Proof. destruct e as [v|z|]; cbn [is_term]; intros H; try discriminate; reflexivity. Qed.

(* ---------- a walk that closes after a terminal accepts only well-formed deliveries ---------- *)

Section ClosingWalk.
  Variable St : Type.
  Variable step : St -> tout -> option St.
  Variable fin : St -> bool.       (* a terminal has been delivered *)

  (* a delivery is accepted only while open, and closes the walk exactly when it is a terminal *)
  Hypothesis step_tout : forall s a e s',
    step s (TOut a e) = Some s' -> fin s = false /\ fin s' = is_term e.
  (* everything else leaves the flag alone *)
  Hypothesis step_other : forall s x s',
    (forall a e, x <> TOut a e) -> step s x = Some s' -> fin s' = fin s.

  Lemma keep_fin s x s1 : step s x = Some s1 -> (forall a e, x <> TOut a e) -> fin s1 = fin s.
  Proof. intros Es Hx. apply (step_other s x s1 Hx Es). Qed.

  Lemma closed_walk_silent : forall out s s',
    fin s = true -> walk step s out = Some s' -> delivered out = [].
  Proof.
    induction out as [|x r IH]; intros s s' Hf Hw; [reflexivity|].
    cbn [walk] in Hw. destruct (step s x) as [s1|] eqn:Es; [|discriminate].
    destruct x as [a e|b|t sq a|t|j].
    - destruct (step_tout _ _ _ _ Es) as [H0 _]. congruence.
    - rewrite delivered_other by (intros; discriminate).
      apply (IH s1 s'); [|exact Hw]. rewrite (keep_fin _ _ _ Es) by (intros; discriminate). exact Hf.
    - rewrite delivered_other by (intros; discriminate).
      apply (IH s1 s'); [|exact Hw]. rewrite (keep_fin _ _ _ Es) by (intros; discriminate). exact Hf.
    - rewrite delivered_other by (intros; discriminate).
      apply (IH s1 s'); [|exact Hw]. rewrite (keep_fin _ _ _ Es) by (intros; discriminate). exact Hf.
    - rewrite delivered_other by (intros; discriminate).
      apply (IH s1 s'); [|exact Hw]. rewrite (keep_fin _ _ _ Es) by (intros; discriminate). exact Hf.
  Qed.

  Lemma open_walk_wf : forall out s s',
    fin s = false -> walk step s out = Some s' -> wf (delivered out) = true.
  Proof.
    induction out as [|x r IH]; intros s s' Hf Hw; [reflexivity|].
    cbn [walk] in Hw. destruct (step s x) as [s1|] eqn:Es; [|discriminate].
    destruct x as [a e|b|t sq a|t|j].
    - rewrite delivered_tout. destruct (step_tout _ _ _ _ Es) as [_ H1].
      destruct (is_term e) eqn:Et.
      + rewrite (closed_walk_silent r s1 s' H1 Hw). apply wf_cons_term. exact Et.
      + rewrite (wf_cons_item e _ Et). apply (IH s1 s'); [exact H1|exact Hw].
    - rewrite delivered_other by (intros; discriminate).
      apply (IH s1 s'); [|exact Hw]. rewrite (keep_fin _ _ _ Es) by (intros; discriminate). exact Hf.
    - rewrite delivered_other by (intros; discriminate).
      apply (IH s1 s'); [|exact Hw]. rewrite (keep_fin _ _ _ Es) by (intros; discriminate). exact Hf.
    - rewrite delivered_other by (intros; discriminate).
      apply (IH s1 s'); [|exact Hw]. rewrite (keep_fin _ _ _ Es) by (intros; discriminate). exact Hf.
    - rewrite delivered_other by (intros; discriminate).
      apply (IH s1 s'); [|exact Hw]. rewrite (keep_fin _ _ _ Es) by (intros; discriminate). exact Hf.
  Qed.

  Lemma accepted_walk_wf out s :
    fin s = false -> accepted (walk step s out) = true -> wf (delivered out) = true.
  Proof.
    intros Hf Ha. destruct (walk step s out) as [s'|] eqn:Ew; [|discriminate].
    apply (open_walk_wf out s s' Hf Ew).
  Qed.
End ClosingWalk.

(* ---------- the common walking state ---------- *)

Lemma w_label_finished w l : w_finished (w_label w l) = w_finished w.
Proof.
  destruct l as [l|]; [|reflexivity].
  destruct l; try reflexivity. cbn [w_label]. destruct (w_src_done w); reflexivity.
Qed.

Lemma w_deliver_finished w i e : w_finished (w_deliver w i e) = w_finished w || is_term e.
Proof. reflexivity. Qed.

Lemma negb_true_false b : negb b = true -> b = false.
Proof. destruct b; [discriminate|reflexivity]. Qed.

Lemma ev_eqb_is_term a b : ev_eqb a b = true -> is_term a = is_term b.
Proof. destruct a, b; cbn [ev_eqb is_term]; intros H; try discriminate; reflexivity. Qed.

(* ---------- relay_step (delay, observe_on) ---------- *)

Lemma relay_step_tout d de ls w a e w' :
  relay_step d de ls w (TOut a e) = Some w' -> w_finished w = false /\ w_finished w' = is_term e.
Proof.
  cbn [relay_step]. intros H.
  destruct (negb (w_finished w)) eqn:Ef; cbn [andb] in H; [|discriminate].
  apply negb_true_false in Ef. split; [exact Ef|].
  destruct (negb (w_unsub w) && (a =? w_now w)); [|discriminate].
  destruct (w_cur w) as [c|]; [|discriminate].
  destruct c as [e0|t|dt| | | |dl|p dl k|dl|t|t]; try discriminate.
  - destruct e0 as [v|z|]; try discriminate.
    destruct (de && ev_eqb e (Err z)); [|discriminate].
    inversion H; subst w'. rewrite w_deliver_finished, Ef. reflexivity.
  - destruct (nth_error (task_events de w) t) as [[e' arr]|]; [|discriminate].
    destruct (ev_eqb e e' && (arr + d <=? a) && negb (memn' t (w_delivered w))); [|discriminate].
    inversion H; subst w'. rewrite w_deliver_finished, Ef. reflexivity.
Qed.

Lemma relay_step_other d de ls w x w' :
  (forall a e, x <> TOut a e) -> relay_step d de ls w x = Some w' -> w_finished w' = w_finished w.
Proof.
  intros Hx H. destruct x as [a e|b|t sq a|t|j]; cbn [relay_step] in H.
  - exfalso. apply (Hx a e). reflexivity.
  - inversion H; reflexivity.
  - inversion H; reflexivity.
  - inversion H; reflexivity.
  - inversion H; subst w'. apply w_label_finished.
Qed.

Lemma relay_ok_wf d de ls out : relay_ok d de ls out = true -> wf (delivered out) = true.
Proof.
  unfold relay_ok. intros H.
  apply (accepted_walk_wf wstate (relay_step d de ls) w_finished
           (relay_step_tout d de ls) (relay_step_other d de ls) out (w0 true)); [reflexivity|exact H].
Qed.

(* ---------- passthru_step (delay_subscription, subscribe_on) ---------- *)

Lemma passthru_step_tout d ls w a e w' :
  passthru_step d ls w (TOut a e) = Some w' -> w_finished w = false /\ w_finished w' = is_term e.
Proof.
  cbn [passthru_step]. intros H.
  destruct (negb (w_finished w)) eqn:Ef; cbn [andb] in H; [|discriminate].
  apply negb_true_false in Ef. split; [exact Ef|].
  destruct (negb (w_unsub w) && (a =? w_now w) && (d <=? a)); [|discriminate].
  destruct (w_cur w) as [c|]; [|discriminate].
  destruct c as [e0|t|dt| | | |dl|p dl k|dl|t|t]; try discriminate.
  destruct (ev_eqb e e0); [|discriminate].
  inversion H; subst w'. rewrite w_deliver_finished, Ef. reflexivity.
Qed.

Lemma passthru_step_other d ls w x w' :
  (forall a e, x <> TOut a e) -> passthru_step d ls w x = Some w' -> w_finished w' = w_finished w.
Proof.
  intros Hx H. destruct x as [a e|b|t sq a|t|j]; cbn [passthru_step] in H.
  - exfalso. apply (Hx a e). reflexivity.
  - inversion H; reflexivity.
  - inversion H; reflexivity.
  - inversion H; reflexivity.
  - inversion H; subst w'. apply w_label_finished.
Qed.

Lemma passthru_ok_wf d ls out : passthru_ok d ls out = true -> wf (delivered out) = true.
Proof.
  unfold passthru_ok. intros H.
  apply (accepted_walk_wf wstate (passthru_step d ls) w_finished
           (passthru_step_tout d ls) (passthru_step_other d ls) out (w0 true)); [reflexivity|exact H].
Qed.

(* ---------- collect_step (debounce, throttle, buffers) ---------- *)

Definition cfin (s : wstate * list val) : bool := w_finished (fst s).

Lemma collect_step_tout ls s a e s' :
  collect_step ls s (TOut a e) = Some s' -> cfin s = false /\ cfin s' = is_term e.
Proof.
  destruct s as [w acc]. unfold cfin. cbn [collect_step fst]. intros H.
  destruct (negb (w_finished w)) eqn:Ef; cbn [andb] in H; [|discriminate].
  apply negb_true_false in Ef. split; [exact Ef|].
  destruct (negb (w_unsub w) && (a =? w_now w)); [|discriminate].
  destruct e as [v|z|]; inversion H; subst s'; cbn [fst is_term].
  - exact Ef.
  - rewrite w_deliver_finished, Ef. reflexivity.
  - rewrite w_deliver_finished, Ef. reflexivity.
Qed.

Lemma collect_step_other ls s x s' :
  (forall a e, x <> TOut a e) -> collect_step ls s x = Some s' -> cfin s' = cfin s.
Proof.
  intros Hx H. destruct s as [w acc]. unfold cfin.
  destruct x as [a e|b|t sq a|t|j]; cbn [collect_step] in H.
  - exfalso. apply (Hx a e). reflexivity.
  - inversion H; reflexivity.
  - inversion H; reflexivity.
  - inversion H; reflexivity.
  - inversion H; subst s'. cbn [fst]. apply w_label_finished.
Qed.

Lemma collect_walk_wf ls out s' :
  walk (collect_step ls) (w0 true, []) out = Some s' -> wf (delivered out) = true.
Proof.
  intros H.
  apply (open_walk_wf (wstate * list val) (collect_step ls) cfin
           (collect_step_tout ls) (collect_step_other ls) out (w0 true, []) s'); [reflexivity|exact H].
Qed.

Lemma subseq_ok_wf ls out : subseq_ok ls out = true -> wf (delivered out) = true.
Proof.
  unfold subseq_ok. intros H.
  destruct (walk (collect_step ls) (w0 true, []) out) as [s'|] eqn:Ew; [|discriminate].
  apply (collect_walk_wf ls out s' Ew).
Qed.

Lemma buffers_ok_wf limit ls out : buffers_ok limit ls out = true -> wf (delivered out) = true.
Proof.
  unfold buffers_ok. intros H.
  destruct (walk (collect_step ls) (w0 true, []) out) as [s'|] eqn:Ew; [|discriminate].
  apply (collect_walk_wf ls out s' Ew).
Qed.

(* ---------- interval_step: items only ---------- *)

Definition never_fin (s : istate) : bool := false.

Lemma interval_step_tout p ls s a e s' :
  interval_step p ls s (TOut a e) = Some s' -> never_fin s = false /\ never_fin s' = is_term e.
Proof.
  cbn [interval_step]. intros H. split; [reflexivity|]. unfold never_fin.
  destruct (ev_eqb e (Next (VZ (Z.of_nat (i_next s))))) eqn:Ee.
  - rewrite (ev_eqb_is_term _ _ Ee). reflexivity.
  - rewrite andb_false_r in H. discriminate.
Qed.

Lemma interval_step_other p ls s x s' :
  (forall a e, x <> TOut a e) -> interval_step p ls s x = Some s' -> never_fin s' = never_fin s.
Proof. intros _ _. reflexivity. Qed.

Lemma interval_ok_wf first p ls out : interval_ok first p ls out = true -> wf (delivered out) = true.
Proof.
  unfold interval_ok. intros H.
  apply (accepted_walk_wf istate (interval_step p ls) never_fin
           (interval_step_tout p ls) (interval_step_other p ls) out
           {| i_w := w0 false; i_next := 0; i_earliest := first |}); [reflexivity|exact H].
Qed.

(* ---------- timer_step: the item, then the completion ---------- *)

Definition timer_fin (s : istate) : bool :=
  match i_next s with O => false | S O => false | _ => true end.

Lemma timer_step_tout v d ls s a e s' :
  timer_step v d ls s (TOut a e) = Some s' -> timer_fin s = false /\ timer_fin s' = is_term e.
Proof.
  cbn [timer_step]. intros H. unfold timer_fin.
  destruct (i_next s) as [|[|n]] eqn:En.
  - destruct (ev_eqb e (Next v)) eqn:Ee.
    + destruct (negb (w_unsub (i_w s)) && (a =? w_now (i_w s)) && (d <=? a)); cbn [andb] in H; [|discriminate].
      inversion H; subst s'. cbn [i_next]. rewrite (ev_eqb_is_term _ _ Ee). split; reflexivity.
    + rewrite andb_false_r in H. discriminate.
  - destruct (ev_eqb e Done) eqn:Ee.
    + destruct (negb (w_unsub (i_w s)) && (a =? w_now (i_w s)) && (d <=? a)); cbn [andb] in H; [|discriminate].
      inversion H; subst s'. cbn [i_next]. rewrite (ev_eqb_is_term _ _ Ee). split; reflexivity.
    + rewrite andb_false_r in H. discriminate.
  - rewrite andb_false_r in H. discriminate.
Qed.

Lemma timer_step_other v d ls s x s' :
  (forall a e, x <> TOut a e) -> timer_step v d ls s x = Some s' -> timer_fin s' = timer_fin s.
Proof.
  intros Hx H. destruct x as [a e|b|t sq a|t|j]; cbn [timer_step] in H.
  - exfalso. apply (Hx a e). reflexivity.
  - inversion H; reflexivity.
  - inversion H; reflexivity.
  - inversion H; reflexivity.
  - inversion H; subst s'. reflexivity.
Qed.

Lemma timer_ok_wf v d ls out : timer_ok v d ls out = true -> wf (delivered out) = true.
Proof.
  unfold timer_ok. intros H.
  apply (accepted_walk_wf istate (timer_step v d ls) timer_fin
           (timer_step_tout v d ls) (timer_step_other v d ls) out
           {| i_w := w0 false; i_next := 0; i_earliest := 0 |}); [reflexivity|exact H].
Qed.

(* ---------- every operator predicate implies the grammar ---------- *)

Theorem timed_ok_grammar : forall o ls out,
  not_raw o -> timed_ok o ls out = true -> wf (delivered out) = true.
Proof.
  intros o ls out Ho H. destruct o as [d| |d| |d|d ed|d|n d|p|dl p|v d|]; cbn [timed_ok] in H.
  - apply (relay_ok_wf _ _ _ _ H).
  - apply (relay_ok_wf _ _ _ _ H).
  - apply (passthru_ok_wf _ _ _ H).
  - apply (passthru_ok_wf _ _ _ H).
  - apply andb_true_iff in H. destruct H as [H _]. apply (subseq_ok_wf _ _ H).
  - apply andb_true_iff in H. destruct H as [H _]. apply (subseq_ok_wf _ _ H).
  - apply (buffers_ok_wf _ _ _ H).
  - apply (buffers_ok_wf _ _ _ H).
  - apply (interval_ok_wf _ _ _ _ H).
  - apply (interval_ok_wf _ _ _ _ H).
  - apply (timer_ok_wf _ _ _ _ H).
  - contradiction.
Qed.

(* ---------- the model meets its predicate, for every operator and label sequence ---------- *)

Theorem timed_meets_spec : forall o ls, not_raw o -> timed_ok o ls (run_timed o ls) = true.
Proof.
  intros o ls Ho. destruct o as [d| |d| |d|d ed|d|n d|p|dl p|v d|]; cbn [timed_ok].
  - apply delay_meets_spec.
  - apply observe_on_meets_spec.
  - apply delay_subscription_meets_spec.
  - apply subscribe_on_meets_spec.
  - apply (debounce_meets_spec d ls).
  - apply (throttle_meets_spec d ed ls).
  - apply buffer_time_meets_spec.
  - apply buffer_count_time_meets_spec.
  - apply interval_meets_spec.
  - apply interval_at_meets_spec.
  - apply timer_meets_spec.
  - contradiction.
Qed.

(* ---------- C01 ---------- *)

Theorem timed_grammar : forall o ls, TimedLaws.not_raw o -> wf (delivered (run_timed o ls)) = true.
Proof.
  intros o ls Ho. apply (timed_ok_grammar o ls _ Ho). apply timed_meets_spec. exact Ho.
Qed.

Check timed_grammar : forall o ls, TimedLaws.not_raw o -> wf (delivered (run_timed o ls)) = true.
Check timed_ok_grammar : forall o ls out, not_raw o -> timed_ok o ls out = true -> wf (delivered out) = true.
Check timed_meets_spec : forall o ls, not_raw o -> timed_ok o ls (run_timed o ls) = true.

Print Assumptions timed_grammar.
Print Assumptions timed_ok_grammar.
Print Assumptions timed_meets_spec.

(* ---------- non-vacuity ---------- *)

(* delay 5: the input keeps calling after its completion (an item, an error, a second completion,
   later another item and another error), the tasks are armed at 0, then polled late and out of
   order (the second item's task at 5, the first item's at 8, the completion's at 12), a task that
   does not exist is polled, and every task is polled again after the completion was delivered *)
Definition delay_late_labels : list tlab :=
  [LSrc (Next (VZ 1)); LSrc (Next (VZ 2)); LSrc Done; LSrc (Next (VZ 3)); LSrc (Err 7); LSrc Done;
   LRun 0; LRun 1; LRun 2; LAdv 5; LRun 1; LAdv 3; LRun 0; LSrc (Next (VZ 4)); LRun 3; LAdv 4;
   LRun 2; LRun 0; LRun 1; LRun 2; LSrc (Err 8); LClosed].

Example delay_late_delivered :
  delivered (run_timed (TDelay 5) delay_late_labels) = [Next (VZ 2); Next (VZ 1); Done].
Proof. vm_compute. reflexivity. Qed.

Example delay_late_trace :
  filter (fun x => match x with TMark _ => false | _ => true end) (run_timed (TDelay 5) delay_late_labels)
  = [TOut 5 (Next (VZ 2)); TOut 8 (Next (VZ 1)); TOut 12 Done; TRet true].
Proof. vm_compute. reflexivity. Qed.

(* the completion's task polled first: the items scheduled before it are lost, nothing follows it *)
Example delay_completion_first :
  delivered (run_timed (TDelay 5)
    [LSrc (Next (VZ 1)); LSrc (Next (VZ 2)); LSrc Done; LSrc (Next (VZ 3)); LSrc (Err 7);
     LRun 2; LRun 0; LAdv 9; LRun 1; LRun 2; LSrc (Next (VZ 4)); LRun 0; LRun 1; LRun 2; LRun 3; LSrc Done])
  = [Done].
Proof. vm_compute. reflexivity. Qed.

(* observe_on: the error's task polled before the first item's *)
Example observe_on_error_first :
  delivered (run_timed TObserveOn
    [LSrc (Next (VZ 1)); LSrc (Err 7); LSrc (Next (VZ 2)); LSrc Done; LRun 1; LRun 0; LRun 1; LRun 2])
  = [Err 7].
Proof. vm_compute. reflexivity. Qed.

Example throttle_all_after_terminal :
  delivered (run_timed (TThrottle 5 EAll)
    [LSrc (Next (VZ 1)); LSrc (Next (VZ 2)); LAdv 5; LRun 0; LSrc (Next (VZ 3)); LSrc Done; LRun 1;
     LSrc (Next (VZ 4)); LSrc (Err 1); LRun 0; LRun 1])
  = [Next (VZ 1); Next (VZ 3); Done].
Proof. vm_compute. reflexivity. Qed.

Example timer_polled_again :
  delivered (run_timed (TTimer (VZ 9) 3) [LRun 0; LAdv 3; LRun 0; LRun 0; LUnsub; LRun 0]) = [Next (VZ 9); Done].
Proof. vm_compute. reflexivity. Qed.

Example buffer_count_time_error :
  delivered (run_timed (TBufferCountTime 2 3)
    [LSrc (Next (VZ 1)); LAdv 3; LRun 0; LSrc (Next (VZ 2)); LSrc (Next (VZ 3)); LSrc (Next (VZ 4)); LSrc (Err 2);
     LAdv 3; LRun 0; LSrc Done])
  = [Next (VL [VZ 1]); Next (VL [VZ 2; VZ 3]); Err 2].
Proof. vm_compute. reflexivity. Qed.

Example delay_subscription_after_terminal :
  delivered (run_timed (TDelaySubscription 2)
    [LSrc (Next (VZ 0)); LRun 0; LAdv 2; LRun 0; LSrc (Next (VZ 1)); LSrc Done; LSrc (Next (VZ 2)); LSrc (Err 1); LRun 0])
  = [Next (VZ 1); Done].
Proof. vm_compute. reflexivity. Qed.

(* the grammar predicate is not trivially true of `delivered` *)
Example delivered_wf_rejects :
  wf (delivered [TMark 0; TOut 1 (Next (VZ 1)); TOut 1 Done; TMark 1; TOut 2 (Next (VZ 2))]) = false.
Proof. vm_compute. reflexivity. Qed.

(* ---------- composition with the untimed part of a pipeline ---------- *)
From RxModel Require Import Chain Pipe.
From RxProofs Require ChainLaws PipeLaws.

(* a chain of single-input operators behind a scheduler-using operator: the chain is called with the
   operator's deliveries, whatever the labels *)
Theorem timed_then_chain_grammar : forall o ls os,
  not_raw o -> wf (run_hot os (delivered (run_timed o ls))) = true.
Proof.
  intros o ls os Ho. apply ChainLaws.chain_output_wf. apply timed_grammar. exact Ho.
Qed.

(* a scheduler-using operator on top of any pipeline tree: its input notifications are the tree's trace
   (already covered by "every label sequence": stated for reference), polls and clock advances placed
   anywhere in between *)
Fixpoint weave (src : list ev) (others : list (list tlab)) : list tlab :=
  match src, others with
  | [], _ => concat others
  | e :: r, [] => LSrc e :: weave r []
  | e :: r, o :: os => o ++ LSrc e :: weave r os
  end.

Theorem timed_on_pipeline_grammar : forall o p sts others os,
  not_raw o -> wf (run_hot os (delivered (run_timed o (weave (exec p sts) others)))) = true.
Proof. intros. apply timed_then_chain_grammar. assumption. Qed.

Print Assumptions timed_then_chain_grammar.
Print Assumptions timed_on_pipeline_grammar.
