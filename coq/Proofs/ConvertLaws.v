(* C14: conversions report the real outcome and never stay pending once the source has terminated. *)
From RxModel Require Import Convert.
Local Open Scope nat_scope.

(* ---------- to_future ---------- *)
Definition is_poll (l : flabel) : bool := match l with FPoll => true | _ => false end.
Definition fevents (ls : list flabel) : list ev := flat_map (fun l => match l with FEv e => [e] | FPoll => [] end) ls.
Definition npolls (ls : list flabel) : nat := length (filter is_poll ls).

Definition last_of (items : list val) : option fmsg :=
  match items with [] => None | [v] => Some (MOk v) | _ => Some MMultiple end.

Lemma record_last items v : record (last_of items) (MOk v) = last_of (items ++ [v]).
Proof. destruct items as [|a [|b r]]; cbn; try reflexivity. Qed.

(* while only items arrive: every poll is pending, the observer remembers the items so far *)
Lemma future_items_only pinned : forall ls items0,
  forallb (fun l => match l with FEv (Next _) | FPoll => true | _ => false end) ls = true ->
  let s0 := {| f_last := last_of items0; f_obs := true; f_queue := []; f_open := true |} in
  exists items1,
    fevents ls = map Next items1 /\
    frun_ pinned s0 ls = repeat FPending (npolls ls) /\
    forall rest, frun_ pinned s0 (ls ++ rest) =
                 repeat FPending (npolls ls) ++ frun_ pinned {| f_last := last_of (items0 ++ items1); f_obs := true; f_queue := []; f_open := true |} rest.
Proof.
  induction ls as [|l r IH]; intros items0 H s0.
  - exists []. cbn. rewrite app_nil_r. repeat split; reflexivity.
  - cbn in H. apply andb_prop in H. destruct H as [Hl Hr]. destruct l as [e|].
    + destruct e as [v| |]; try discriminate. unfold s0. cbn [frun_ fstep f_obs f_last f_queue f_open app].
      rewrite record_last. destruct (IH (items0 ++ [v]) Hr) as (items1 & E1 & E2 & E3).
      exists (v :: items1). cbn [fevents flat_map app map npolls filter is_poll]. repeat split.
      * cbn. f_equal. exact E1.
      * exact E2.
      * intros rest. specialize (E3 rest). rewrite <- app_assoc in E3. cbn [app] in E3. exact E3.
    + unfold s0. cbn [frun_ fstep f_queue app]. destruct (IH items0 Hr) as (items1 & E1 & E2 & E3).
      exists items1. cbn [fevents flat_map app npolls filter is_poll length repeat]. repeat split.
      * exact E1.
      * cbn. f_equal. exact E2.
      * intros rest. cbn. f_equal. exact (E3 rest).
Qed.

Definition term_ev (t : term) : list ev := term_evs t.

(* The outcome, and readiness: items interleaved with polls in any way, then the terminal: every
   poll before it is pending, the first poll after it is ready with the documented outcome. *)
Theorem future_outcome ls items t later :
  forallb (fun l => match l with FEv (Next _) | FPoll => true | _ => false end) ls = true ->
  fevents ls = map Next items -> t <> TNone ->
  run_future false (ls ++ map FEv (term_evs t) ++ FPoll :: later) =
  repeat FPending (npolls ls) ++
  match outcome items t with Some m => [FReady m] | None => [] end ++ frun_ false {| f_last := None; f_obs := false; f_queue := []; f_open := false |} later.
Proof.
  intros H E Ht. unfold run_future.
  destruct (future_items_only false ls [] H) as (items1 & E1 & _ & E3).
  assert (items1 = items) by (rewrite E in E1; clear -E1; revert items1 E1; induction items as [|a r IH]; intros [|b q] E1; cbn in *; try congruence; inversion E1; f_equal; apply IH; assumption).
  subst items1. change fut0 with {| f_last := last_of []; f_obs := true; f_queue := []; f_open := true |}.
  rewrite E3. f_equal. cbn [app]. destruct t as [| |e]; [contradiction| |]; cbn [term_evs map app frun_ fstep f_obs f_last f_queue f_open outcome].
  - destruct items as [|a [|b r]]; reflexivity.
  - destruct items as [|a [|b r]]; reflexivity.
Qed.

(* the pinned code never resolved a failed source *)
Theorem future_error_refuted : run_future true [FEv (Err 7); FPoll; FPoll] = [FPending; FPending].
Proof. reflexivity. Qed.

(* ---------- to_stream ---------- *)
Definition smsgs (s : list ev) : list smsg :=
  flat_map (fun e => match e with Next v => [SItem v] | Err x => [SErrItem x; SEnd] | Done => [SEnd] end) s.

Fixpoint polls_on (q : list smsg) (n : nat) {struct n} : list sres :=
  match n with
  | O => []
  | S n' => match q with
            | SEnd :: _ => SReady SEnd :: repeat SPending n'
            | m :: r => SReady m :: polls_on r n'
            | [] => repeat SPending n
            end
  end.

Lemma stream_polls : forall n q obs, srun_ false {| s_obs := obs; s_queue := q; s_ended := false |} (repeat FPoll n) = polls_on q n.
Proof.
  induction n as [|n IH]; intros q obs; [reflexivity|]. cbn [repeat srun_ sstep_ s_ended s_queue polls_on].
  destruct q as [|m r].
  - cbn [app]. f_equal. specialize (IH [] obs). cbn in IH. destruct n; [reflexivity|]. cbn [polls_on] in IH. exact IH.
  - destruct m; cbn [app]; try (f_equal; apply IH).
    f_equal. clear. induction n as [|n IH]; [reflexivity|]. cbn. f_equal. exact IH.
Qed.

Lemma stream_events : forall s obs q,
  wf s = true ->
  exists obs', srun_ false {| s_obs := obs; s_queue := q; s_ended := false |} (map FEv s) = [] /\
  forall rest, srun_ false {| s_obs := obs; s_queue := q; s_ended := false |} (map FEv s ++ rest) =
               srun_ false {| s_obs := obs'; s_queue := q ++ (if obs then smsgs s else []); s_ended := false |} rest.
Proof.
  induction s as [|e r IH]; intros obs q W.
  - exists obs. cbn. destruct obs; rewrite ?app_nil_r; auto.
  - cbn [map srun_ sstep_ s_obs app]. destruct obs.
    + destruct e as [v|x|].
      * cbn [s_queue s_ended]. destruct (IH true (q ++ [SItem v]) W) as (o' & E1 & E2). exists o'. split; [exact E1|].
        intros rest. rewrite E2. cbn [smsgs flat_map]. rewrite <- app_assoc. reflexivity.
      * cbn in W. destruct r; [|discriminate]. exists false. cbn. rewrite ?app_nil_r. auto.
      * cbn in W. destruct r; [|discriminate]. exists false. cbn. rewrite ?app_nil_r. auto.
    + assert (W' : wf r = true) by (destruct e; cbn in W; [exact W|destruct r; [reflexivity|discriminate]|destruct r; [reflexivity|discriminate]]).
      destruct (IH false q W') as (o' & E1 & E2). exists o'. split; [exact E1|exact E2].
Qed.

(* a well-formed source history, then n polls: every item, the error, the end, in order, then pending *)
Theorem stream_yields_everything s n : wf s = true -> run_stream false (map FEv s ++ repeat FPoll n) = polls_on (smsgs s) n.
Proof.
  intros W. unfold run_stream. destruct (stream_events s true [] W) as (o' & _ & E). change strm0 with {| s_obs := true; s_queue := []; s_ended := false |}.
  rewrite E. cbn [app]. apply stream_polls.
Qed.

(* in particular the stream ends after an error (it stayed pending in the pinned code) *)
Theorem stream_error_refuted :
  run_stream true [FEv (Next (VZ 1)); FEv (Err 7); FPoll; FPoll; FPoll] = [SReady (SItem (VZ 1)); SReady (SErrItem 7); SPending] /\
  run_stream false [FEv (Next (VZ 1)); FEv (Err 7); FPoll; FPoll; FPoll] = [SReady (SItem (VZ 1)); SReady (SErrItem 7); SReady SEnd].
Proof. split; reflexivity. Qed.

(* ---------- complete_status: no lost wake-up, under every interleaving ---------- *)
Fixpoint interleave {A} (a b : list A) (fuel : nat) : list (list A) :=
  match fuel with
  | O => []
  | S f =>
      match a, b with
      | [], _ => [b]
      | _, [] => [a]
      | x :: a', y :: b' => map (cons x) (interleave a' b f) ++ map (cons y) (interleave a b' f)
      end
  end.

Definition producer (err : bool) : list wstep := [PStore err; PWake].
Definition waiter : list wstep := [WCheck; WRegister; WRecheck].

Theorem no_lost_wakeup : forall err,
  forallb (fun xs => waiter_safe (wrun false xs)) (interleave (producer err) waiter 6) = true.
Proof. intros [|]; vm_compute; reflexivity. Qed.

Theorem interleavings_complete : length (interleave (producer true) waiter 6) = 10.
Proof. reflexivity. Qed.

Theorem lost_wakeup_refuted :
  waiter_safe (wrun true [WCheck; PStore false; PWake; WRegister]) = false.
Proof. reflexivity. Qed.

(* the flag says closed exactly when the producer has stored *)
Definition is_store (x : wstep) : bool := match x with PStore _ => true | _ => false end.

Lemma status_flag_gen pinned : forall xs s,
  (w_flag (fold_left (wstep_ pinned) xs s) =? 0)%Z = (w_flag s =? 0)%Z && negb (existsb is_store xs).
Proof.
  induction xs as [|x r IH]; intros s; cbn [fold_left existsb]; [rewrite Bool.andb_true_r; reflexivity|].
  rewrite IH. destruct x; cbn [wstep_ is_store orb negb];
    repeat match goal with |- context [if ?c then _ else _] => destruct c eqn:? end; cbn [w_flag];
    repeat match goal with H : (w_flag s =? 0)%Z = _ |- _ => rewrite H; clear H end;
    rewrite ?Bool.andb_false_r; try reflexivity.
Qed.

Theorem status_flag xs pinned : (w_flag (wrun pinned xs) =? 0)%Z = negb (existsb is_store xs).
Proof. unfold wrun. rewrite status_flag_gen. reflexivity. Qed.
