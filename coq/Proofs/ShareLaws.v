(* C11: share / publish subscribe the source once, not before they must, and multicast. *)
From RxModel Require Import Share.
Local Open Scope nat_scope.

Definition is_sub (o : shobs) : bool := match o with SSub => true | _ => false end.
Definition is_flow (o : shobs) : bool := match o with SSub | STap _ | SDeliver _ _ => true | _ => false end.
Definition count_sub (l : list shobs) : nat := length (filter is_sub l).

Lemma obs_of_no_sub o : filter is_sub (obs_of o) = [].
Proof. destruct o; reflexivity. Qed.

Lemma on_subject_spec s op : 
  sh_connected (fst (on_subject s op)) = sh_connected s /\ sh_src_live (fst (on_subject s op)) = sh_src_live s /\
  sh_left (fst (on_subject s op)) = sh_left s /\ count_sub (snd (on_subject s op)) = 0.
Proof.
  unfold on_subject. destruct (sstep (sh_subj s) op) as [x out]. cbn. repeat split.
  unfold count_sub. induction out as [|o r IH]; [reflexivity|]. cbn [flat_map]. rewrite filter_app, obs_of_no_sub. exact IH.
Qed.

Lemma src_event_spec s e :
  (sh_connected s = true -> sh_connected (fst (src_event s e)) = true) /\
  (sh_connected s = false -> sh_connected (fst (src_event s e)) = false /\ snd (src_event s e) = []) /\
  count_sub (snd (src_event s e)) = 0.
Proof.
  unfold src_event. destruct (sh_src_live s); [|cbn; auto]. destruct (sh_connected s) eqn:Ec.
  - destruct e as [v|x|].
    + destruct (on_subject_spec s (OpNext v)) as (C & _ & _ & N). destruct (on_subject s (OpNext v)) as [s1 o]. cbn [fst snd] in *.
      split; [intros _; congruence|]. split; [discriminate|]. unfold count_sub in *. cbn. exact N.
    + destruct (on_subject_spec s (OpError x)) as (C & _ & _ & N). destruct (on_subject s (OpError x)) as [s1 o]. cbn [fst snd] in *.
      split; [reflexivity|]. split; [discriminate|exact N].
    + destruct (on_subject_spec s OpComplete) as (C & _ & _ & N). destruct (on_subject s OpComplete) as [s1 o]. cbn [fst snd] in *.
      split; [reflexivity|]. split; [discriminate|exact N].
  - cbn. split; [discriminate|]. split; [auto|reflexivity].
Qed.

Lemma src_events_spec : forall es s,
  sh_connected s = true -> sh_connected (fst (src_events s es)) = true /\ count_sub (snd (src_events s es)) = 0.
Proof.
  induction es as [|e r IH]; intros s H; [cbn; auto|]. cbn [src_events].
  destruct (src_event_spec s e) as (C1 & _ & N). destruct (src_event s e) as [s1 o1]. cbn [fst snd] in *.
  specialize (IH s1 (C1 H)). destruct (src_events s1 r) as [s2 o2]. cbn [fst snd] in *. destruct IH as [I1 I2].
  split; [exact I1|]. unfold count_sub in *. rewrite filter_app, app_length. lia.
Qed.

Lemma connect_spec src s : sh_connected (fst (connect src s)) = true /\ count_sub (snd (connect src s)) = 1.
Proof.
  unfold connect. destruct src as [|script]; [cbn; auto|].
  set (s1 := {| sh_subj := sh_subj s; sh_connected := true; sh_src_live := sh_src_live s; sh_left := sh_left s |}).
  destruct (src_events_spec script s1 eq_refl) as [C N]. destruct (src_events s1 script) as [s2 o]. cbn [fst snd] in *.
  split; [exact C|]. unfold count_sub in *. cbn. rewrite N. reflexivity.
Qed.

(* one step: the source is subscribed at most once more, and only if it was not yet; once connected, for ever *)
Ltac triv s :=
  repeat split; intros;
  try (unfold count_sub in *; cbn in *; destruct (sh_connected s); lia);
  try congruence; try (unfold count_sub in *; cbn in *; discriminate); auto.

Lemma shstep_sub ideal m src s op :
  count_sub (snd (shstep ideal m src s op)) <= (if sh_connected s then 0 else 1) /\
  (sh_connected s = true -> sh_connected (fst (shstep ideal m src s op)) = true) /\
  (count_sub (snd (shstep ideal m src s op)) = 1 -> sh_connected (fst (shstep ideal m src s op)) = true).
Proof.
  destruct op as [|i|e| |i]; cbn [shstep].
  - destruct (on_subject_spec s OpSubscribe) as (C & _ & _ & N). destruct (on_subject s OpSubscribe) as [s1 o]. cbn [fst snd] in *.
    destruct m.
    + destruct (sh_connected s) eqn:Ec; cbn [fst snd].
      * triv s.
      * destruct (connect_spec src s1) as [C2 N2]. repeat split; intros; try lia; auto.
    + cbn [fst snd]. triv s.
  - destruct (Nat.ltb i (next_id (sh_subj s)) && negb (memn i (sh_left s))); [|cbn [fst snd]; triv s].
    destruct (on_subject_spec s (OpUnsubOne i)) as (C & _ & _ & N). destruct (on_subject s (OpUnsubOne i)) as [s1 o]. cbn [fst snd] in *.
    destruct m; [destruct ideal|];
      repeat match goal with |- context [if ?c then _ else _] => destruct c end;
      unfold on_subject; try (destruct (sstep _ OpUnsubSubject)); cbn [fst snd sh_connected with_subj]; triv s.
  - destruct src; [|cbn [fst snd]; triv s].
    destruct (src_event_spec s e) as (C1 & C2 & N). repeat split; intros; [rewrite N; lia|auto|rewrite N in *; discriminate].
  - destruct m; [cbn [fst snd]; triv s|].
    destruct (sh_connected s) eqn:Ec; [cbn [fst snd]; triv s|].
    destruct (connect_spec src s) as [C2 N2]. repeat split; intros; try lia; auto; try congruence.
  - destruct (memn i (sh_left s)); [cbn [fst snd]; triv s|].
    destruct (on_subject_spec s (OpSubClosed i)) as (C & _ & _ & N). repeat split; intros; [rewrite N; lia|congruence|rewrite N in *; discriminate].
Qed.

Theorem source_subscribed_at_most_once ideal m src : forall h s,
  count_sub (shrun ideal m src s h) <= (if sh_connected s then 0 else 1).
Proof.
  induction h as [|op r IH]; intros s; [cbn; destruct (sh_connected s); lia|]. cbn [shrun].
  destruct (shstep_sub ideal m src s op) as (B & K & O). destruct (shstep ideal m src s op) as [s1 o]. cbn [fst snd] in *.
  specialize (IH s1). unfold count_sub in *. rewrite filter_app, app_length. cbn [filter is_sub length].
  destruct (sh_connected s) eqn:Ec.
  - rewrite (K eq_refl) in IH. lia.
  - destruct (length (filter is_sub o)) as [|[|n]] eqn:El; [destruct (sh_connected s1); lia| |lia].
    rewrite (O eq_refl) in IH. lia.
Qed.

(* ---------- nothing flows before the source has to be subscribed ---------- *)
Definition flows (l : list shobs) : list shobs := filter is_flow l.

Lemma obs_of_ret_no_flow (out : list sobs) :
  (forall o, In o out -> match o with Deliver _ _ => False | _ => True end) -> flows (flat_map obs_of out) = [].
Proof.
  induction out as [|o r IH]; intros H; [reflexivity|]. cbn [flat_map]. unfold flows in *. rewrite filter_app.
  rewrite IH by (intros x Hx; apply H; right; exact Hx).
  specialize (H o (or_introl eq_refl)). destruct o; cbn; try reflexivity. contradiction.
Qed.

Lemma subclosed_no_flow s i : flows (snd (on_subject s (OpSubClosed i))) = [].
Proof.
  unfold on_subject. cbn [sstep]. destruct (Nat.ltb i (next_id (sh_subj s))); reflexivity.
Qed.

Definition quiet_op (m : shmode) (op : shop) : bool :=
  match m, op with
  | MShare, ShSub => false
  | MPublish, ShConnect => false
  | _, _ => true
  end.

Lemma unconnected_step ideal m src s op :
  sh_connected s = false -> quiet_op m op = true ->
  sh_connected (fst (shstep ideal m src s op)) = false /\ flows (snd (shstep ideal m src s op)) = [].
Proof.
  intros Hc Hq. destruct op as [|i|e| |i]; cbn [shstep].
  - destruct m; [discriminate|]. destruct (on_subject_spec s OpSubscribe) as (C & _). destruct (on_subject s OpSubscribe) as [s1 o].
    cbn [fst snd] in *. split; [congruence|reflexivity].
  - destruct (Nat.ltb i (next_id (sh_subj s)) && negb (memn i (sh_left s))); [|split; [exact Hc|reflexivity]].
    destruct (on_subject_spec s (OpUnsubOne i)) as (C & _). destruct (on_subject s (OpUnsubOne i)) as [s1 o]. cbn [fst snd] in *.
    destruct m; [destruct ideal|];
      repeat match goal with |- context [if ?c then _ else _] => destruct c end;
      unfold on_subject; try (destruct (sstep _ OpUnsubSubject)); cbn [fst snd sh_connected with_subj]; split; try congruence; reflexivity.
  - destruct src; [|split; [exact Hc|reflexivity]]. destruct (src_event_spec s e) as (_ & C2 & _). destruct (C2 Hc) as [A B].
    split; [exact A|rewrite B; reflexivity].
  - destruct m; [split; [exact Hc|reflexivity]|discriminate].
  - destruct (memn i (sh_left s)); [split; [exact Hc|reflexivity]|].
    destruct (on_subject_spec s (OpSubClosed i)) as (C & _). split; [congruence|apply subclosed_no_flow].
Qed.

(* publish: nothing before connect(); share: nothing before the first subscriber *)
Theorem nothing_before_connection ideal m src : forall h s,
  sh_connected s = false -> forallb (quiet_op m) h = true -> flows (shrun ideal m src s h) = [].
Proof.
  induction h as [|op r IH]; intros s Hc Hq; [reflexivity|]. cbn [shrun]. cbn in Hq. apply andb_prop in Hq. destruct Hq as [Q1 Q2].
  destruct (unconnected_step ideal m src s op Hc Q1) as [C F]. destruct (shstep ideal m src s op) as [s1 o]. cbn [fst snd] in *.
  unfold flows in *. rewrite filter_app, F. cbn. apply IH; assumption.
Qed.

(* ---------- every subscriber present at an emission receives it ---------- *)
Definition present (x : subj) : list nat :=
  match observers (load x) with Some o => filter (slot_alive (load x)) o | None => [] end.

Lemma flat_obs_deliver l e : flat_map obs_of (map (fun i => Deliver i e) l) = map (fun i => SDeliver i e) l.
Proof. induction l as [|i r IH]; [reflexivity|]. cbn. rewrite IH. reflexivity. Qed.

Theorem multicast s v :
  sh_connected s = true -> sh_src_live s = true ->
  snd (src_event s (Next v)) = STap v :: map (fun i => SDeliver i (Next v)) (present (sh_subj s)).
Proof.
  intros Hc Hl. unfold src_event, on_subject, present. rewrite Hc, Hl. cbn [sstep].
  destruct (observers (load (sh_subj s))) as [o|]; cbn [fst snd]; [rewrite flat_obs_deliver|]; reflexivity.
Qed.

(* ---------- letting go of the source ---------- *)
Definition released (s : shst) : Prop := sh_connected s = true /\ sh_src_live s = false.

Lemma released_step ideal m src s op : released s ->
  released (fst (shstep ideal m src s op)) /\ flows (snd (shstep ideal m src s op)) = [].
Proof.
  intros [Hc Hl]. destruct op as [|i|e| |i]; cbn [shstep].
  - destruct (on_subject_spec s OpSubscribe) as (C & L & _). destruct (on_subject s OpSubscribe) as [s1 o]. cbn [fst snd] in *.
    destruct m; [rewrite Hc|]; cbn [fst snd]; (split; [unfold released; cbn; split; congruence|reflexivity]).
  - destruct (Nat.ltb i (next_id (sh_subj s)) && negb (memn i (sh_left s))); [|split; [split; assumption|reflexivity]].
    destruct (on_subject_spec s (OpUnsubOne i)) as (C & L & _). destruct (on_subject s (OpUnsubOne i)) as [s1 o]. cbn [fst snd] in *.
    destruct m; [destruct ideal|];
      repeat match goal with |- context [if ?c then _ else _] => destruct c end;
      unfold on_subject; try (destruct (sstep _ OpUnsubSubject)); cbn [fst snd sh_connected sh_src_live with_subj];
      (split; [unfold released; cbn; split; congruence|reflexivity]).
  - destruct src; [|split; [split; assumption|reflexivity]]. unfold src_event. rewrite Hl. split; [split; assumption|reflexivity].
  - destruct m; [split; [split; assumption|reflexivity]|]. rewrite Hc. split; [split; assumption|reflexivity].
  - destruct (memn i (sh_left s)); [split; [split; assumption|reflexivity]|].
    destruct (on_subject_spec s (OpSubClosed i)) as (C & L & _). split; [split; congruence|apply subclosed_no_flow].
Qed.

Lemma released_quiet ideal m src : forall h s, released s -> flows (shrun ideal m src s h) = [].
Proof.
  induction h as [|op r IH]; intros s R; [reflexivity|]. cbn [shrun].
  destruct (released_step ideal m src s op R) as [R1 F]. destruct (shstep ideal m src s op) as [s1 o]. cbn [fst snd] in *.
  unfold flows in *. rewrite filter_app, F. cbn. apply IH, R1.
Qed.

(* what the property asks for: when the last subscriber leaves, nothing flows any more: the source is
   neither driven nor listened to, whatever happens afterwards *)
Theorem ideal_releases_after_last_leaver src s i h :
  sh_connected s = true ->
  all_left (fst (shstep true MShare src s (ShUnsub i))) = true ->
  (Nat.ltb i (next_id (sh_subj s)) && negb (memn i (sh_left s))) = true ->
  flows (shrun true MShare src (fst (shstep true MShare src s (ShUnsub i))) h) = [].
Proof.
  intros Hc Ha Hi. apply released_quiet. revert Ha. cbn [shstep]. rewrite Hi.
  destruct (on_subject_spec s (OpUnsubOne i)) as (C & L & _). destruct (on_subject s (OpUnsubOne i)) as [s1 o]. cbn [fst snd] in *.
  match goal with |- context [if all_left ?x then _ else _] => destruct (all_left x) eqn:E end; cbn [fst]; intros Ha.
  - split; cbn; congruence.
  - congruence.
Qed.

(* the code as it is does not: the recorded finding *)
Theorem still_driven_after_last_leaver :
  exists h, flows (run_share false MShare ShHot h) <> flows (run_share true MShare ShHot h).
Proof. exists [ShSub; ShUnsub 0; ShSrc (Next (VZ 1))]. vm_compute. discriminate. Qed.

