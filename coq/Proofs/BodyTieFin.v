(* finalize: the bodies of FinalizerObserver and FinalizerSubscription, as translated from /repo/src on this run, do what
   Model/Finalize.v says - including the ORDER: the terminal is handed on before the callback runs, the upstream
   subscription is unsubscribed before the callback runs. *)
From RxModel Require Import BodyAbsFin.
From RxGen Require Import Bodies.
From RxProofs Require Import BodyTie.
Open Scope string_scope.
Open Scope list_scope.

Lemma fin_observer_ok : fin_observer_agrees bodies.
Proof. intros s e call. destruct s as [a b c fn d]. destruct fn, e; tie. Qed.

Lemma fin_unsubscribe_ok : fin_unsubscribe_agrees bodies.
Proof. intros s call up. destruct s as [a b c fn d]. destruct fn; tie. Qed.
