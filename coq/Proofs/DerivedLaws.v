(* The compositions in observable.rs compute their documented results. *)
From RxModel Require Import Derived.
From RxSpec Require Import DerivedSpec.
From RxProofs Require Import Ops1Laws ChainLaws.

Local Arguments Nat.leb : simpl never.
Local Arguments Z.add : simpl never.
Local Arguments Z.mul : simpl never.
Local Arguments Z.div : simpl never.

Lemma items_of_mk items t : items_of (mk items t) = items.
Proof. induction items as [|x xs IH]; [destruct t; reflexivity|]. rewrite mk_cons. cbn. f_equal. exact IH. Qed.

Lemma term_of_mk items t : term_of (mk items t) = t.
Proof. induction items as [|x xs IH]; [destruct t; reflexivity|]. rewrite mk_cons. exact IH. Qed.

Lemma items_of_on_done t l : items_of (on_done t l) = match t with TDone => l | _ => [] end.
Proof. destruct t; cbn; [reflexivity| |reflexivity]. apply (items_of_mk l TDone). Qed.

Lemma term_of_on_done t l : term_of (on_done t l) = t.
Proof. destruct t; cbn; [reflexivity| |reflexivity]. apply (term_of_mk l TDone). Qed.

Lemma stage_mk o items t : stage_spec o (mk items t) = spec1 o items t.
Proof. unfold stage_spec. rewrite items_of_mk, term_of_mk. reflexivity. Qed.

Lemma stage_out o items t : stage_spec o (out items t) = spec1 o items t.
Proof. apply stage_mk. Qed.

Lemma stage_on_done o t l :
  stage_spec o (on_done t l) = spec1 o (match t with TDone => l | _ => [] end) t.
Proof. unfold stage_spec. rewrite items_of_on_done, term_of_on_done. reflexivity. Qed.

Lemma last_opt_cons2 x y l : last_opt (x :: y :: l) = last_opt (y :: l).
Proof. unfold last_opt. cbn [rev]. destruct (rev l); reflexivity. Qed.

Lemma last_opt_scan f a items :
  last_opt (scan_l f a items) = match items with [] => None | _ => Some (fold_left f items a) end.
Proof.
  revert a. induction items as [|x xs IH]; intros a; [reflexivity|].
  cbn [scan_l fold_left]. specialize (IH (f a x)).
  destruct xs as [|y ys]; [reflexivity|].
  cbn [scan_l] in *. rewrite last_opt_cons2. exact IH.
Qed.

Ltac stage := cbn [fold_left]; first [rewrite stage_mk | rewrite stage_out | rewrite stage_on_done]; cbn [spec1].

Lemma reduce_law f init items t :
  chain_spec [OScan f init; OLast; ODefaultIfEmpty init] (mk items t) = on_done t [fold_left f items init].
Proof.
  unfold chain_spec. stage. stage. rewrite last_opt_scan. 
  destruct items as [|x xs].
  - stage. destruct t; reflexivity.
  - stage. destruct t; reflexivity.
Qed.

Lemma scan_last_law f init items t :
  chain_spec [OScan f init; OLast] (mk items t) =
  on_done t (match items with [] => [] | _ => [fold_left f items init] end).
Proof.
  unfold chain_spec. stage. stage. rewrite last_opt_scan. destruct items; reflexivity.
Qed.

Lemma chain_spec_app a b s : chain_spec (a ++ b) s = chain_spec b (chain_spec a s).
Proof. unfold chain_spec. apply fold_left_app. Qed.

Lemma fold_max_opt r x :
  fold_left max_fn r (VOpt (Some x)) = VOpt (Some (fold_left (fun a b => vmax a b) r x)).
Proof.
  revert x. induction r as [|y r IH]; intros x; [reflexivity|].
  cbn [fold_left max_fn]. unfold vmax at 2. destruct (val_ltb y x); apply IH.
Qed.

Lemma fold_min_opt r x :
  fold_left min_fn r (VOpt (Some x)) = VOpt (Some (fold_left (fun a b => vmin a b) r x)).
Proof.
  revert x. induction r as [|y r IH]; intros x; [reflexivity|].
  cbn [fold_left min_fn]. unfold vmin at 2. destruct (val_ltb x y); apply IH.
Qed.

Lemma count_fold items (z : Z) :
  fold_left count_fn items (VZ z) = VZ (z + Z.of_nat (length items)).
Proof.
  revert z. induction items as [|x xs IH]; intros z.
  - cbn. f_equal. lia.
  - cbn [fold_left count_fn length]. rewrite IH. f_equal. lia.
Qed.

Lemma forallb_filter_not (p : val -> bool) items :
  filter not_b (map (fun v => VB (p v)) items) =
  repeat (VB false) (length (filter (fun v => negb (p v)) items)).
Proof.
  induction items as [|x xs IH]; [reflexivity|]. cbn [map filter not_b].
  destruct (p x); cbn [negb]; [exact IH|]. cbn. f_equal. exact IH.
Qed.

Lemma forallb_no_fail (p : val -> bool) items :
  forallb p items = match filter (fun v => negb (p v)) items with [] => true | _ => false end.
Proof.
  induction items as [|x xs IH]; [reflexivity|]. cbn. destruct (p x); cbn; [exact IH|reflexivity].
Qed.

Theorem derived_meets_spec (u : uop) (items : list val) (t : term) :
  chain_spec (expand u) (mk items t) = spec_u u items t.
Proof.
  destruct u; cbn [expand spec_u].
  - unfold chain_spec. stage. reflexivity.
  - unfold chain_spec. stage. destruct items as [|x xs]; [reflexivity|].
    cbn [length]. destruct (Nat.leb_spec 1 (S (length xs))); [reflexivity|lia].
  - unfold chain_spec. stage. destruct items as [|x xs].
    + cbn [length]. destruct (Nat.leb_spec 1 0); [lia|]. stage. destruct t; reflexivity.
    + cbn [length]. destruct (Nat.leb_spec 1 (S (length xs))); [|lia]. cbn [firstn]. stage. reflexivity.
  - unfold chain_spec. stage. stage.
    destruct (last_opt items); destruct t; reflexivity.
  - unfold chain_spec. stage. stage.
    revert n. induction items as [|x xs IH]; intros n.
    + rewrite skipn_nil. destruct n; cbn [nth_error length]; (destruct (Nat.leb_spec 1 0); [lia|reflexivity]).
    + destruct n as [|n]; cbn [skipn nth_error].
      * cbn [length]. destruct (Nat.leb_spec 1 (S (length xs))); [reflexivity|lia].
      * apply IH.
  - unfold chain_spec. stage. f_equal. induction items as [|x xs IH]; [reflexivity|exact IH].
  - unfold chain_spec. stage. stage. stage.
    rewrite forallb_filter_not, forallb_no_fail.
    destruct (filter (fun v => negb (p v)) items) as [|y ys]; cbn [length repeat].
    + destruct (Nat.leb_spec 1 0); [lia|]. stage. destruct t; reflexivity.
    + destruct (Nat.leb_spec 1 (S (length (repeat (VB false) (length ys))))); [|lia].
      cbn [firstn]. stage. reflexivity.
  - apply reduce_law.
  - rewrite reduce_law. rewrite (count_fold items 0). reflexivity.
  - apply reduce_law.
  - change [OScan max_fn (VOpt None); OLast; OMap unwrap] with ([OScan max_fn (VOpt None); OLast] ++ [OMap unwrap]).
    rewrite chain_spec_app, scan_last_law. unfold chain_spec. stage.
    destruct items as [|x xs]; [destruct t; reflexivity|].
    cbn [fold_left max_fn]. rewrite fold_max_opt. destruct t; reflexivity.
  - change [OScan min_fn (VOpt None); OLast; OMap unwrap] with ([OScan min_fn (VOpt None); OLast] ++ [OMap unwrap]).
    rewrite chain_spec_app, scan_last_law. unfold chain_spec. stage.
    destruct items as [|x xs]; [destruct t; reflexivity|].
    cbn [fold_left min_fn]. rewrite fold_min_opt. destruct t; reflexivity.
  - change [OScan avg_acc (VP (VZ 0) (VZ 0)); OLast; OMap avg_fin]
      with ([OScan avg_acc (VP (VZ 0) (VZ 0)); OLast] ++ [OMap avg_fin]).
    rewrite chain_spec_app, scan_last_law. unfold chain_spec. stage.
    destruct items as [|x xs]; destruct t; reflexivity.
Qed.

(* chains of user-level operators *)
Lemma wf_chain_spec os s : wf s = true -> wf (chain_spec os s) = true.
Proof. intros H. rewrite <- stages_eq_spec by exact H. apply wf_stages. exact H. Qed.

Lemma wf_spec_u u items t : wf (spec_u u items t) = true.
Proof. rewrite <- derived_meets_spec. apply wf_chain_spec, wf_mk. Qed.

Theorem uchain_meets_spec (us : list uop) (s : list ev) :
  wf s = true -> chain_spec (expand_all us) s = uchain_spec us s.
Proof.
  revert s. induction us as [|u rest IH]; intros s H; [reflexivity|].
  unfold expand_all in *. cbn [flat_map]. rewrite chain_spec_app.
  unfold uchain_spec. cbn [fold_left].
  assert (E : chain_spec (expand u) s = ustage_spec u s).
  { unfold ustage_spec. rewrite <- derived_meets_spec, mk_items_term by exact H. reflexivity. }
  rewrite E. apply IH. unfold ustage_spec. apply wf_spec_u.
Qed.

(* sources *)
Theorem src_meets_spec (k : src) : src_script k = src_spec k.
Proof. destruct k as [v|[v|]|[v|e]|v|v|l|v n| | |e|calls]; reflexivity. Qed.

Lemma wf_src k : wf (src_script k) = true.
Proof.
  destruct k as [v|[v|]|[v|e]|v|v|l|v n| | |e|calls]; try reflexivity.
  - apply (wf_mk l TDone).
  - apply (wf_mk (repeat v n) TDone).
  - apply wf_slot.
Qed.

(* Every source, every chain of user-level operators, cold. *)
Theorem pipeline_meets_spec (k : src) (us : list uop) :
  run_src k us = uchain_spec us (src_spec k).
Proof.
  unfold run_src. replace (src_spec k) with (src_script k) by apply src_meets_spec.
  destruct (chain_meets_spec (expand_all us) (src_script k) (wf_src k)) as [Hc _].
  rewrite Hc. apply uchain_meets_spec, wf_src.
Qed.

(* Every chain of user-level operators behind a hot input, whatever is called on it. *)
Theorem hot_pipeline_meets_spec (us : list uop) (calls : list ev) :
  run_hot (expand_all us) (slot calls) = uchain_spec us (slot calls).
Proof.
  rewrite chain_meets_spec_any. apply uchain_meets_spec, wf_slot.
Qed.
