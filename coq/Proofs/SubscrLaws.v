(* The subscription algebra: late additions to an unsubscribed composite are torn down,
   is_closed() is sound, and closed stays closed. *)
From RxModel Require Import Subscr.
Local Open Scope nat_scope.

Lemma alive_kill s k j : leaf_alive (kill_leaf s k) j = if Nat.eqb k j then false else leaf_alive s j.
Proof.
  unfold leaf_alive, kill_leaf. simpl. destruct (Nat.eqb k j); reflexivity.
Qed.

Lemma kill_all_spec : forall ks s,
  let s' := fst (kill_all s ks) in
  multi_cell s' = multi_cell s /\ appended s' = appended s /\
  (forall j, leaf_alive s' j = if existsb (Nat.eqb j) ks then false else leaf_alive s j).
Proof.
  induction ks as [|k r IH]; intros s; [cbn; auto|].
  cbn [kill_all]. destruct (leaf_alive s k) eqn:Ea.
  - specialize (IH (kill_leaf s k)). destruct (kill_all (kill_leaf s k) r) as [s2 o2]. cbn [fst] in *.
    destruct IH as (I1 & I2 & I3). repeat split; auto. intros j. rewrite I3, alive_kill. cbn [existsb].
    rewrite (Nat.eqb_sym j k). destruct (Nat.eqb k j); cbn; destruct (existsb (Nat.eqb j) r); reflexivity.
  - specialize (IH s). destruct (kill_all s r) as [s2 o2]. cbn [fst] in *.
    destruct IH as (I1 & I2 & I3). repeat split; auto. intros j. rewrite I3. cbn [existsb].
    destruct (Nat.eqb_spec j k) as [->|Hne]; cbn; [destruct (existsb (Nat.eqb k) r); auto|reflexivity].
Qed.

(* a dead leaf stays dead *)
Lemma unsub_t_spec : forall t s,
  let s' := fst (unsub_t s t) in
  appended s' = appended s /\ (multi_cell s = None -> multi_cell s' = None) /\
  (forall j, leaf_alive s j = false -> leaf_alive s' j = false).
Proof.
  induction t as [|k| |a IHa b IHb]; intros s; cbn [unsub_t].
  - cbn. auto.
  - destruct (kill_all_spec [k] s) as (K1 & K2 & K3). repeat split; auto; [congruence|].
    intros j Hj. rewrite K3, Hj. destruct (existsb _ _); reflexivity.
  - destruct (multi_cell s) as [l|] eqn:Em; [|cbn; auto].
    destruct (kill_all_spec l {| leaves := leaves s; multi_cell := None; appended := appended s |}) as (K1 & K2 & K3).
    repeat split; auto. intros j Hj. rewrite K3. destruct (existsb _ _); auto.
  - specialize (IHa s). destruct (unsub_t s a) as [s1 o1]. specialize (IHb s1). destruct (unsub_t s1 b) as [s2 o2].
    cbn [fst] in *. destruct IHa as (A1 & A2 & A3). destruct IHb as (B1 & B2 & B3). repeat split; auto; congruence.
Qed.

Lemma dead_stays_dead s op j : leaf_alive s j = false -> leaf_alive (fst (cstep s op)) j = false.
Proof.
  intros H. destruct op; cbn [cstep].
  - destruct (multi_cell s); cbn [fst]; [exact H|].
    destruct (kill_all_spec [k] {| leaves := leaves s; multi_cell := None; appended := k :: appended s |}) as (_ & _ & K3).
    rewrite K3. destruct (existsb _ _); auto.
  - apply unsub_t_spec, H.
  - exact H.
  - cbn [fst]. destruct (leaf_alive s k); [rewrite alive_kill; destruct (Nat.eqb k j); auto|exact H].
Qed.

(* the composite's bookkeeping *)
Definition Winv (s : cstate) : Prop :=
  match multi_cell s with
  | Some l => forall k, In k (appended s) -> In k l
  | None => forall k, In k (appended s) -> leaf_alive s k = false
  end.

Lemma existsb_In k l : In k l -> existsb (Nat.eqb k) l = true.
Proof. intros H. apply existsb_exists. exists k. split; [exact H|apply Nat.eqb_refl]. Qed.

Lemma unsub_t_winv : forall t s, Winv s -> Winv (fst (unsub_t s t)).
Proof.
  induction t as [|k| |a IHa b IHb]; intros s W; cbn [unsub_t].
  - exact W.
  - pose proof (kill_all_spec [k] s) as K. cbv zeta in K. set (s' := fst (kill_all s [k])) in *.
    destruct K as (K1 & K2 & K3). unfold Winv in *. rewrite K1, K2.
    destruct (multi_cell s); [exact W|]. intros j Hj. rewrite K3, (W j Hj). destruct (existsb _ _); reflexivity.
  - unfold Winv in W. destruct (multi_cell s) as [l|] eqn:Em; [|cbn [fst]; unfold Winv; rewrite Em; exact W].
    destruct (kill_all_spec l {| leaves := leaves s; multi_cell := None; appended := appended s |}) as (K1 & K2 & K3).
    unfold Winv. rewrite K1, K2. cbn. intros k Hk. rewrite K3, (existsb_In k l (W k Hk)). reflexivity.
  - specialize (IHa s W). destruct (unsub_t s a) as [s1 o1]. specialize (IHb s1 IHa). destruct (unsub_t s1 b) as [s2 o2]. exact IHb.
Qed.

Lemma step_winv s op : Winv s -> Winv (fst (cstep s op)).
Proof.
  intros W. destruct op; cbn [cstep].
  - unfold Winv in W. destruct (multi_cell s) as [l|] eqn:Em; cbn [fst].
    + unfold Winv. cbn. intros j [<-|Hj]; apply in_or_app; [right; left; reflexivity|left; apply W, Hj].
    + destruct (kill_all_spec [k] {| leaves := leaves s; multi_cell := None; appended := k :: appended s |}) as (K1 & K2 & K3).
      unfold Winv. rewrite K1, K2. cbn. intros j [<-|Hj]; rewrite K3; cbn [existsb].
      * rewrite Nat.eqb_refl. reflexivity.
      * unfold leaf_alive in *. cbn [leaves] in *. rewrite (W j Hj). destruct (Nat.eqb j k); reflexivity.
  - apply unsub_t_winv, W.
  - exact W.
  - cbn [fst]. destruct (leaf_alive s k) eqn:Ea; [|exact W]. unfold Winv in *. cbn [kill_leaf multi_cell appended].
    destruct (multi_cell s); [exact W|]. intros j Hj. rewrite alive_kill, (W j Hj). destruct (Nat.eqb k j); reflexivity.
Qed.

Lemma reach_winv h : forall s, Winv s -> Winv (cfinal s h).
Proof. induction h as [|op r IH]; intros s W; [exact W|]. cbn. apply IH, step_winv, W. Qed.

Lemma winv0 : Winv cstate0.
Proof. intros k []. Qed.

(* a subscription appended to an unsubscribed composite is unsubscribed at once: in every reachable
   state whose composite has been unsubscribed, every leaf ever appended (before or after) is dead *)
Theorem late_additions_torn_down h :
  let s := cfinal cstate0 h in
  multi_cell s = None -> forall k, In k (appended s) -> leaf_alive s k = false.
Proof.
  intros s Hn k Hk. pose proof (reach_winv h cstate0 winv0) as W. fold s in W. unfold Winv in W. rewrite Hn in W. apply W, Hk.
Qed.

(* is_closed() is sound: if it answers true every leaf the subscription holds is dead *)
Theorem closed_sound_alg : forall t s, Winv s -> closed_t s t = true -> forall k, In k (under s t) -> leaf_alive s k = false.
Proof.
  induction t as [|k0| |a IHa b IHb]; intros s W Hc k Hk; cbn [under closed_t] in *.
  - destruct Hk.
  - destruct Hk as [<-|[]]. apply Bool.negb_true_iff, Hc.
  - unfold Winv in W. destruct (multi_cell s) as [l|].
    + apply Bool.negb_true_iff. apply (proj1 (forallb_forall _ _) Hc k), W, Hk.
    + apply W, Hk.
  - apply andb_prop in Hc. destruct Hc as [Ha Hb]. apply in_app_or in Hk. destruct Hk; [apply (IHa s W Ha)|apply (IHb s W Hb)]; assumption.
Qed.

Lemma unsub_t_multi : forall t s, multi_cell (fst (unsub_t s t)) = multi_cell s \/ multi_cell (fst (unsub_t s t)) = None.
Proof.
  induction t as [|k| |a IHa b IHb]; intros s; cbn [unsub_t].
  - left. reflexivity.
  - left. apply kill_all_spec.
  - destruct (multi_cell s) as [l|] eqn:Em; [|left; exact Em]. right.
    destruct (kill_all_spec l {| leaves := leaves s; multi_cell := None; appended := appended s |}) as (K1 & _ & _). exact K1.
  - specialize (IHa s). destruct (unsub_t s a) as [s1 o1]. specialize (IHb s1). destruct (unsub_t s1 b) as [s2 o2].
    cbn [fst] in *. destruct IHb as [B|B]; [|right; exact B]. destruct IHa as [A|A]; [left|right]; congruence.
Qed.

(* closed stays closed, except that appending a live leaf to a composite that was never
   unsubscribed re-opens it *)
Theorem closed_stable : forall t s op,
  closed_t s t = true -> (forall k, op = CAppend k -> multi_cell s = None) ->
  closed_t (fst (cstep s op)) t = true.
Proof.
  induction t as [|k0| |a IHa b IHb]; intros s op Hc Hop; cbn [closed_t] in *.
  - reflexivity.
  - apply Bool.negb_true_iff. apply dead_stays_dead. apply Bool.negb_true_iff, Hc.
  - destruct op; cbn [cstep].
    + rewrite (Hop k eq_refl) in *.
      destruct (kill_all_spec [k] {| leaves := leaves s; multi_cell := None; appended := k :: appended s |}) as (K1 & _ & _).
      rewrite K1. reflexivity.
    + pose proof (unsub_t_spec t s) as (_ & _ & D). destruct (unsub_t_multi t s) as [M|M]; rewrite M; [|reflexivity].
      destruct (multi_cell s) as [l|]; [|reflexivity]. apply forallb_forall. intros j Hj.
      pose proof (proj1 (forallb_forall _ _) Hc j Hj) as Hd. apply Bool.negb_true_iff in Hd. apply Bool.negb_true_iff. apply D, Hd.
    + exact Hc.
    + cbn [fst]. destruct (leaf_alive s k) eqn:Ea; [|exact Hc]. cbn [kill_leaf multi_cell].
      destruct (multi_cell s); [|reflexivity]. apply forallb_forall. intros j Hj.
      pose proof (proj1 (forallb_forall _ _) Hc j Hj) as Hd. apply Bool.negb_true_iff in Hd. apply Bool.negb_true_iff.
      rewrite alive_kill, Hd. destruct (Nat.eqb k j); reflexivity.
  - apply andb_prop in Hc. destruct Hc as [Ha Hb]. rewrite (IHa s op Ha Hop), (IHb s op Hb Hop). reflexivity.
Qed.

(* ... and indeed an empty composite reports closed and is re-opened by an append *)
Theorem closed_reopened_by_append :
  exists h, crun cstate0 h = [CRet true; CRet false].
Proof. exists [CClosed SMultiT; CAppend 0; CClosed SMultiT]. reflexivity. Qed.
