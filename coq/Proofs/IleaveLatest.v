(* Ileave.v, C12 over the thread-safe subject: "the most recent value is the one delivered last in
   the common order that all subscribers observe", and "a subscriber that joins is handed the most
   recent value first and then every later item".

   Props/C12.v refutes both clauses of the lock-level model for TWO threads (next() stores the value
   in one critical section and broadcasts it in another).  Here: where the crate does satisfy them,
   for EVERY schedule.
     il_latest_single_producer       latest_ok, when at most ONE thread's script contains
                                     BehaviorSubject::next operations -- whatever the other threads do
                                     (subscribe, unsubscribe, peek, even the plain next of the inner
                                     subject) and whatever the setup script does
     il_final_value_single_producer  the value cell at the end, under the same hypothesis (no probe,
                                     no terminal, no names needed)
     il_joiner_no_next               joiner_ok, when no thread calls next (of either kind)
     il_joiner_with_producer         joiner_ok, when the joiners are subscribed by the producer
                                     thread itself and the other threads only subscribe plainly,
                                     unsubscribe and peek
   and Examples (vm_compute) that each hypothesis is needed and satisfiable. *)
From RxProofs Require Export IleaveComplete.
Local Open Scope nat_scope.

(* ------------------------------------------------------------------ *)
(* the hypothesis                                                      *)
(* ------------------------------------------------------------------ *)

Definition is_bnext (o : iop) : bool := match o with IBNext _ => true | _ => false end.
Definition has_bnext (ops : list iop) : bool := existsb is_bnext ops.

(* at most one thread's script contains BehaviorSubject::next operations (the setup script, which
   runs alone before the threads start, is unrestricted) *)
Definition single_producer (setup : list iop) (scripts : list (list iop)) : bool :=
  Nat.leb (length (filter has_bnext scripts)) 1.

Lemma filter_len0 {A} (f : A -> bool) l : length (filter f l) = 0 -> forall x, In x l -> f x = false.
Proof.
  induction l as [|y l IH]; cbn; [intros _ x []|]. destruct (f y) eqn:E; cbn; [discriminate|].
  intros H x [<-|Hx]; auto.
Qed.

(* at most one element of a list satisfies f *)
Lemma at_most_one_ex {A} (f : A -> bool) (l : list A) :
  Nat.leb (length (filter f l)) 1 = true ->
  exists p, forall i x, nth_error l i = Some x -> i <> p -> f x = false.
Proof.
  induction l as [|x0 l IH]; cbn [filter].
  - intros _. exists 0. intros [|i] x; discriminate.
  - destruct (f x0) eqn:E.
    + cbn [length]. intros H. apply Nat.leb_le in H. exists 0. intros [|i] x Hi Hne; [congruence|].
      cbn in Hi. apply (filter_len0 f l); [lia|]. eapply nth_error_In; eauto.
    + intros H. destruct (IH H) as (p & Hp). exists (S p). intros [|i] x Hi Hne; cbn in Hi.
      * inversion Hi; subst. exact E.
      * apply (Hp i x Hi). lia.
Qed.


Lemma single_producer_ex setup scripts :
  single_producer setup scripts = true ->
  exists p, forall i sc, nth_error scripts i = Some sc -> i <> p -> has_bnext sc = false.
Proof. unfold single_producer. apply at_most_one_ex. Qed.

(* ------------------------------------------------------------------ *)
(* the value cell                                                      *)
(* ------------------------------------------------------------------ *)

Definition upd (acc : Z) (o : iop) : Z := match o with IBNext v => v | _ => acc end.

Lemma setup_value_fold v0 setup : setup_value v0 setup = fold_left upd setup v0.
Proof. reflexivity. Qed.

Lemma fold_upd_nob l a : (forall x, In x l -> is_bnext x = false) -> fold_left upd l a = a.
Proof.
  revert a. induction l as [|o l IH]; intros a H; cbn [fold_left]; [reflexivity|].
  rewrite IH; [|intros x Hx; apply H; right; exact Hx].
  specialize (H o (or_introl eq_refl)). destruct o; try discriminate; reflexivity.
Qed.

Lemma fold_upd_last l1 v l2 a :
  (forall x, In x l2 -> is_bnext x = false) -> fold_left upd (l1 ++ IBNext v :: l2) a = v.
Proof. intros H. rewrite fold_left_app. cbn [fold_left upd]. apply fold_upd_nob. exact H. Qed.

Lemma val_sub s k : s_val (subscribe_cell s k) = s_val s.
Proof. unfold subscribe_cell. destruct (s_cham s); reflexivity. Qed.

(* what is still to be stored, applied to what is stored, does not change: BehaviorSubject::next
   stores its value and goes on as a plain next of the same value *)
Lemma F_val s t th s1 th1 o :
  imove s t th = (s1, th1, o) -> pc_ok th -> chamP s ->
  fold_left upd (t_ops th1) (s_val s1) = fold_left upd (t_ops th) (s_val s).
Proof.
  destruct th as [pc ops idx]. intros H Hp Hc. imove_cases H.
  all: unfold pc_ok in Hp; cbn [t_pc t_ops pc_op pay_op] in *.
  all: try reflexivity.
  all: try (destruct Hp as (r0 & ->)).
  all: cbn [tl fold_left upd]; rewrite ?val_sub; try reflexivity.
  all: exfalso; unfold chamP in Hc; match goal with E : s_cham _ = None |- _ => apply Hc in E; congruence end.
Qed.

(* a thread without BehaviorSubject::next operations leaves the value cell alone *)
Lemma F_val_same s t th s1 th1 o :
  imove s t th = (s1, th1, o) -> (forall x, In x (t_ops th) -> is_bnext x = false) -> s_val s1 = s_val s.
Proof.
  destruct th as [pc ops idx]. intros H Hn. imove_cases H.
  all: cbn [t_ops] in Hn.
  all: try reflexivity.
  all: try (apply val_sub).
  specialize (Hn _ (or_introl eq_refl)). discriminate Hn.
Qed.

Section Producer.
Variable p : nat.      (* the only thread that may call BehaviorSubject::next *)
Variable F : Z.        (* the value the cell holds when that thread has returned *)

Definition pops (ths : list ithread) : list iop :=
  match nth_error ths p with Some th => t_ops th | None => [] end.

Definition VInv (s : ish) (ths : list ithread) : Prop :=
  fold_left upd (pops ths) (s_val s) = F /\
  forall i th x, nth_error ths i = Some th -> i <> p -> In x (t_ops th) -> is_bnext x = false.

Lemma VInv_step_gen s ths t t' th s1 th1 o :
  pc_ok th -> chamP s -> VInv s ths -> nth_error ths t = Some th -> imove s t' th = (s1, th1, o) ->
  VInv s1 (set_th ths t th1).
Proof.
  intros Hpc Hch [HF Hno] Ht Hm. split.
  - unfold pops in *. destruct (Nat.eq_dec t p) as [->|Hne].
    + rewrite (nth_set_th_same _ _ _ _ Ht). rewrite Ht in HF. rewrite <- HF.
      eapply F_val; eauto.
    + rewrite nth_set_th_other; auto. rewrite (F_val_same _ _ _ _ _ _ Hm); [exact HF|].
      intros x Hx. eapply Hno; eauto.
  - intros i y x Hi Hne Hx. destruct (nth_set_th_inv _ _ _ _ _ _ Ht Hi) as [[-> ->]|[Hni Hi']]; [|eauto].
    destruct (F_ops_sub _ _ _ _ _ _ _ Hm Hx) as [H|(v & ->)]; [eauto|reflexivity].
Qed.

Lemma VInv_step s ths t t' th s1 th1 o :
  Core s ths -> VInv s ths -> nth_error ths t = Some th -> imove s t' th = (s1, th1, o) ->
  VInv s1 (set_th ths t th1).
Proof.
  intros HC HV Ht Hm. eapply VInv_step_gen; eauto; [eapply c_pcok; eauto|apply HC].
Qed.

End Producer.

(* ------------------------------------------------------------------ *)
(* the global order ends with the latest broadcast of its thread       *)
(* ------------------------------------------------------------------ *)

Definition LastMax (L : list bent) : Prop :=
  forall o' t j, ordL L = o' ++ [(t, j)] -> forall j', In (t, j') (ordL L) -> j' <= j.

Lemma LastMax_nil : LastMax [].
Proof. intros o' t j H. destruct o'; discriminate. Qed.

Lemma LastMax_snoc L ths t th v k0 rest :
  CO L ths -> LastMax L -> nth_error ths t = Some th -> t_pc th = PInCb v k0 rest ->
  LastMax (L ++ [(k0, v, (t, t_idx th))]).
Proof.
  intros [_ HCO] HL Ht Hpc. destruct (HCO _ _ Ht) as (C1 & _ & _).
  unfold LastMax. rewrite ordL_snoc. destruct (memb (t, t_idx th) (map snd L)) eqn:Em.
  - rewrite app_nil_r. exact HL.
  - intros o' t0 j Ho j' Hin. apply app_inj_tail in Ho. destruct Ho as [_ Ho]. inversion Ho; subst t0 j.
    apply in_app_or in Hin. destruct Hin as [Hin|[Hin|[]]].
    + apply C1. exact Hin.
    + inversion Hin. lia.
Qed.

(* ------------------------------------------------------------------ *)
(* everything together, along a schedule                               *)
(* ------------------------------------------------------------------ *)

Section Latest.
Variable k : nat.                       (* a full-time probe *)
Variable scripts : list (list iop).
Variable p : nat.
Variable F : Z.

Definition LInv (L : list bent) (s : ish) (ths : list ithread) : Prop :=
  FT2 k scripts L s ths /\ VInv p F s ths /\ LastMax L.

Lemma LInv_step L s ths t th s1 th1 o :
  LInv L s ths -> ienabled s ths t = true -> nth_error ths t = Some th -> imove s t th = (s1, th1, o) ->
  exists L', walks (bstep scripts) L o = Some L' /\ LInv L' s1 (set_th ths t th1).
Proof.
  intros (HF & HV & HL) He Ht Hm.
  destruct (FT2_step k scripts _ _ _ _ _ _ _ _ HF He Ht Hm) as (L' & Hw & HF').
  exists L'. split; [exact Hw|]. rewrite walks_bstep in Hw. inversion Hw as [HL']. clear Hw.
  destruct HF as ((HI & _) & _). destruct HI as (HC & HSt & _ & _ & HCO).
  split; [rewrite HL'; exact HF'|]. split; [eapply VInv_step; eauto|].
  rewrite (move_bcasts scripts _ _ _ _ _ _ _ HSt Ht Hm).
  destruct (t_pc th) eqn:Epc; rewrite ?app_nil_r; try exact HL.
  eapply LastMax_snoc; eauto.
Qed.

Lemma LInv_irun sched L s ths s' ths' tr :
  LInv L s ths -> irun s ths sched = (s', ths', tr) -> LInv (L ++ bcasts scripts tr) s' ths'.
Proof.
  intros HI Hr.
  destruct (irun_walks (bstep scripts) LInv LInv_step sched L s ths s' ths' tr HI Hr) as (L' & Hw & HI').
  rewrite walks_bstep in Hw. inversion Hw; subst L'. exact HI'.
Qed.

End Latest.

(* ------------------------------------------------------------------ *)
(* the setup script                                                    *)
(* ------------------------------------------------------------------ *)

Lemma val_after_setup v0 setup :
  setup_completes v0 setup = true ->
  s_val (run_alone 1000 (ish0 v0) (start_thread setup)) = setup_value v0 setup.
Proof.
  intros Hc. rewrite run_alone_fst. unfold setup_completes in Hc.
  pose proof (run_alone_th_inv
    (fun s th => chamP s /\ unsP s th /\ pc_ok th /\
                 fold_left upd (t_ops th) (s_val s) = setup_value v0 setup)) as H.
  destruct (H) with (fuel := 1000) (s := ish0 v0) (th := start_thread setup) as (_ & _ & _ & Hv).
  - intros s th s1 th1 o (Hch & Hu & Hp & Hv) _ Hm. split; [|split; [|split]].
    + unfold chamP. eapply F_cham; eauto.
    + eapply unsP_self; eauto.
    + eapply F_pcok; eauto.
    + rewrite <- Hv. eapply F_val; eauto.
  - split; [intros E; discriminate|]. split; [intros E; discriminate|]. split; [exact I|]. reflexivity.
  - unfold fin_th in Hc. destruct (t_pc _); try discriminate.
    destruct (t_ops _); [|discriminate]. exact Hv.
Qed.

(* ------------------------------------------------------------------ *)
(* the theorem                                                         *)
(* ------------------------------------------------------------------ *)

Lemma finished_ops ths i th : ifinished ths = true -> nth_error ths i = Some th -> t_ops th = [].
Proof.
  unfold ifinished. rewrite forallb_forall. intros H Hi. specialize (H th (nth_error_In _ _ Hi)).
  destruct (t_pc th); try discriminate. destruct (t_ops th); [reflexivity|discriminate].
Qed.

Lemma rev_nil_inv {A} (l : list A) : rev l = [] -> l = [].
Proof. intros H. apply (f_equal (@rev A)) in H. rewrite rev_involutive in H. exact H. Qed.

Lemma rev_cons_inv {A} (l : list A) b r : rev l = b :: r -> l = rev r ++ [b].
Proof. intros H. apply (f_equal (@rev A)) in H. rewrite rev_involutive in H. exact H. Qed.

Lemma values_ok_in scripts tr b :
  values_ok scripts tr = true -> In b (order scripts tr) ->
  exists v, op_at scripts b = Some (INext v) \/ op_at scripts b = Some (IBNext v).
Proof.
  unfold values_ok. rewrite forallb_forall. intros Hv Hb. rewrite order_L in Hb. apply ordL_in in Hb.
  apply in_map_iff in Hb. destruct Hb as (x & <- & Hx). specialize (Hv x Hx).
  destruct (op_at scripts (snd x)) as [[v|e|k|k|v|k| |]|]; try discriminate; eauto.
Qed.

Theorem il_latest_single_producer v0 setup scripts sched :
  names_ok setup scripts = true -> setup_completes v0 setup = true -> single_producer setup scripts = true ->
  let '(tr, e, fin) := run_case v0 setup scripts sched in latest_ok v0 setup scripts tr e fin = true.
Proof.
  intros Hn Hc Hs. rewrite run_case_eq. cbv zeta.
  destruct (irun _ _ sched) as [[s ths] tr] eqn:Er.
  unfold latest_ok. destruct (ifinished ths) eqn:Ef.
  2:{ destruct (istuck s ths); reflexivity. }
  destruct (full_time setup scripts) as [|k ft] eqn:Eft; [reflexivity|].
  destruct (has_term (setup ++ concat scripts)) eqn:Eh; [reflexivity|]. cbn [orb].
  assert (Hk : In k (full_time setup scripts)) by (rewrite Eft; left; reflexivity).
  destruct (single_producer_ex _ _ Hs) as (p & Hp).
  set (s0 := run_alone 1000 (ish0 v0) (start_thread setup)) in *.
  set (sc := match nth_error scripts p with Some l => l | None => [] end).
  assert (Hpops0 : pops p (map start_thread scripts) = sc).
  { unfold pops, sc. rewrite nth_error_map. destruct (nth_error scripts p); reflexivity. }
  set (F := fold_left upd sc (s_val s0)).
  assert (HI0 : LInv k scripts p F [] s0 (map start_thread scripts)).
  { split; [apply FT2_init; auto|]. split; [|apply LastMax_nil]. split.
    - rewrite Hpops0. reflexivity.
    - intros i th x Hi Hne Hx. apply nth_map_start in Hi. destruct Hi as (sci & Hsci & ->). cbn in Hx.
      apply (existsb_false_all _ _ (Hp _ _ Hsci Hne)). exact Hx. }
  pose proof (LInv_irun k scripts p F sched [] _ _ _ _ _ HI0 Er) as HI. cbn [app] in HI.
  destruct HI as ((HFT & _ & HD & [Hlen HLen]) & [HV _] & HLM).
  (* the cell holds F *)
  assert (Hval : s_val s = F).
  { rewrite <- HV. unfold pops. destruct (nth_error ths p) as [th|] eqn:Eth; [|reflexivity].
    rewrite (finished_ops _ _ _ Ef Eth). reflexivity. }
  assert (Hs0 : s_val s0 = setup_value v0 setup) by (apply val_after_setup; exact Hc).
  (* every BehaviorSubject::next of the producer is in the global order *)
  assert (Hall : forall j v, nth_error sc j = Some (IBNext v) -> In (p, j) (order scripts tr)).
  { intros j v Hj. unfold sc in Hj. destruct (nth_error scripts p) as [l|] eqn:El; [|destruct j; discriminate].
    destruct (nth_error ths p) as [th|] eqn:Eth.
    2:{ apply nth_error_None in Eth. assert (p < length scripts) by (apply nth_error_Some; congruence). lia. }
    pose proof (HLen _ _ _ Eth El) as Hl. rewrite (finished_ops _ _ _ Ef Eth) in Hl. cbn in Hl.
    assert (j < length l) by (apply nth_error_Some; congruence).
    rewrite order_L. apply (bidsL_in _ k). apply (HD p th j Eth); [lia|].
    unfold op_at. cbn [fst snd]. rewrite El, Hj. reflexivity. }
  pose proof (values_irun scripts sched _ _ _ _ _ (Static_init scripts) Er) as Hvals.
  destruct (rev (order scripts tr)) as [|b r] eqn:Erev.
  - (* nothing was broadcast: the producer's script has no BehaviorSubject::next *)
    apply rev_nil_inv in Erev. rewrite Hval, <- Hs0. unfold F.
    rewrite fold_upd_nob; [apply Z.eqb_refl|].
    intros x Hx. destruct x; try reflexivity. apply In_nth_error in Hx. destruct Hx as (j & Hj).
    specialize (Hall _ _ Hj). rewrite Erev in Hall. destruct Hall.
  - apply rev_cons_inv in Erev. destruct b as [t j].
    assert (Hin : In (t, j) (order scripts tr)) by (rewrite Erev; apply in_or_app; right; left; reflexivity).
    destruct (values_ok_in _ _ _ Hvals Hin) as (v & [Hop|Hop]); rewrite Hop; [reflexivity|].
    (* the last broadcast is a BehaviorSubject::next: it is the producer's last one *)
    assert (t = p) as ->.
    { destruct (Nat.eq_dec t p) as [E|E]; [exact E|exfalso].
      unfold op_at in Hop. cbn [fst snd] in Hop. destruct (nth_error scripts t) as [l|] eqn:El; [|discriminate].
      pose proof (Hp _ _ El E) as Hb.
      pose proof (existsb_false_all _ _ Hb _ (nth_error_In _ _ Hop)) as Hx. discriminate Hx. }
    assert (Hj : nth_error sc j = Some (IBNext v)).
    { unfold op_at in Hop. cbn [fst snd] in Hop. unfold sc. destruct (nth_error scripts p); [exact Hop|discriminate]. }
    destruct (nth_error_split _ _ Hj) as (l1 & l2 & Hsc & Hl1).
    rewrite Hval. unfold F. rewrite Hsc. rewrite fold_upd_last; [apply Z.eqb_refl|].
    intros x Hx. destruct x as [v'|e|k'|k'|v'|k'| |]; try reflexivity. exfalso.
    apply In_nth_error in Hx. destruct Hx as (m & Hm).
    assert (nth_error sc (S (j + m)) = Some (IBNext v')) as Hjm.
    { rewrite Hsc. rewrite nth_error_app2 by lia. replace (S (j + m) - length l1) with (S m) by lia. exact Hm. }
    specialize (Hall _ _ Hjm). rewrite order_L in Erev, Hall.
    pose proof (HLM _ _ _ Erev _ Hall). lia.
Qed.


(* ------------------------------------------------------------------ *)
(* the stored value itself: no probe, no order needed                  *)
(* ------------------------------------------------------------------ *)

Lemma irun_inv (I : ish -> list ithread -> Prop) :
  (forall s ths t th s1 th1 o,
      I s ths -> ienabled s ths t = true -> nth_error ths t = Some th ->
      imove s t th = (s1, th1, o) -> I s1 (set_th ths t th1)) ->
  forall sched s ths s' ths' tr, I s ths -> irun s ths sched = (s', ths', tr) -> I s' ths'.
Proof.
  intros Hstep sched s ths s' ths' tr HI Hr.
  assert (Hw : forall o, walks (fun (a : unit) (_ : itr) => Some a) tt o = Some tt)
    by (induction o as [|x o IH]; cbn; auto).
  destruct (irun_walks (fun (a : unit) (_ : itr) => Some a) (fun _ s ths => I s ths)) with (sched := sched)
    (a := tt) (s := s) (ths := ths) (s' := s') (ths' := ths') (tr := tr) as (a' & _ & HI'); auto.
  intros a s0 ths0 t th s1 th1 o H0 He Hn Hm. exists tt. split; [destruct a; apply Hw|]. eapply Hstep; eauto.
Qed.

Lemma concat_nob (L : list (list iop)) :
  (forall l, In l L -> has_bnext l = false) -> forall x, In x (concat L) -> is_bnext x = false.
Proof.
  intros H x Hx. apply in_concat in Hx. destruct Hx as (l & Hl & Hx).
  apply (existsb_false_all _ _ (H l Hl)). exact Hx.
Qed.

Lemma fold_concat_single scripts : forall p a,
  (forall i sc, nth_error scripts i = Some sc -> i <> p -> has_bnext sc = false) ->
  fold_left upd (concat scripts) a =
  fold_left upd (match nth_error scripts p with Some l => l | None => [] end) a.
Proof.
  induction scripts as [|sc0 scripts IH]; intros p a Hp.
  - destruct p; reflexivity.
  - cbn [concat]. rewrite fold_left_app. destruct p as [|p]; cbn [nth_error].
    + apply fold_upd_nob. apply concat_nob. intros l Hl. apply In_nth_error in Hl. destruct Hl as (i & Hi).
      apply (Hp (S i) l Hi). lia.
    + rewrite (fold_upd_nob sc0).
      * apply IH. intros i sc Hi Hne. apply (Hp (S i) sc Hi). lia.
      * apply existsb_false_all. apply (Hp 0 sc0 eq_refl). lia.
Qed.

(* when every thread has returned, the value cell holds the last value passed to
   BehaviorSubject::next: by the single producer if it called next at all, by the setup script
   otherwise.  No probe, no hypothesis on names or terminals. *)
Theorem il_final_value_single_producer v0 setup scripts sched :
  setup_completes v0 setup = true -> single_producer setup scripts = true ->
  let '(tr, e, fin) := run_case v0 setup scripts sched in
  e = EFinished -> fin = setup_value v0 (setup ++ concat scripts).
Proof.
  intros Hc Hs. rewrite run_case_eq. cbv zeta.
  destruct (irun _ _ sched) as [[s ths] tr] eqn:Er.
  destruct (ifinished ths) eqn:Ef.
  2:{ destruct (istuck s ths); discriminate. }
  intros _. destruct (single_producer_ex _ _ Hs) as (p & Hp).
  set (s0 := run_alone 1000 (ish0 v0) (start_thread setup)) in *.
  set (sc := match nth_error scripts p with Some l => l | None => [] end).
  set (F := fold_left upd sc (s_val s0)).
  assert (HI : PanInv s ths /\ Static scripts ths /\ VInv p F s ths).
  { apply (irun_inv (fun s ths => PanInv s ths /\ Static scripts ths /\ VInv p F s ths)) with (sched := sched)
      (s := s0) (ths := map start_thread scripts) (tr := tr); [| |exact Er].
    - intros s1 ths1 t th s2 th2 o (HP & HSt & HV) He Ht Hm.
      split; [eapply PanInv_step; eauto|]. split; [eapply Static_step; eauto|].
      eapply VInv_step_gen; eauto; [apply (HSt _ _ Ht)|apply HP].
    - split; [|split; [apply Static_init|]].
      + split; [apply setup_chamP|]. intros i th Hi Hpc. apply nth_map_start in Hi.
        destruct Hi as (sci & _ & ->). discriminate.
      + split.
        * unfold pops, F, sc. rewrite nth_error_map. destruct (nth_error scripts p); reflexivity.
        * intros i th x Hi Hne Hx. apply nth_map_start in Hi. destruct Hi as (sci & Hsci & ->). cbn in Hx.
          apply (existsb_false_all _ _ (Hp _ _ Hsci Hne)). exact Hx. }
  destruct HI as (_ & _ & [HV _]).
  assert (Hval : s_val s = F).
  { rewrite <- HV. unfold pops. destruct (nth_error ths p) as [th|] eqn:Eth; [|reflexivity].
    rewrite (finished_ops _ _ _ Ef Eth). reflexivity. }
  rewrite Hval. unfold F, s0. rewrite (val_after_setup _ _ Hc). rewrite !setup_value_fold, fold_left_app.
  symmetry. apply fold_concat_single. exact Hp.
Qed.

(* ------------------------------------------------------------------ *)
(* the hypothesis is needed, and satisfiable                           *)
(* ------------------------------------------------------------------ *)

(* two producers (the schedule of Props/C12.v): thread 0 stores 1, thread 1 stores 2 and
   broadcasts 2, thread 0 broadcasts 1 *)
Definition race_sched : list nat := [0; 1; 1; 1; 1; 1; 1] ++ flat_map (fun _ => [0; 1]) (seq 0 20).

Example latest_needs_single_producer :
  (let '(tr, e, fin) := run_case 0%Z [IBSub 0] [[IBNext 1%Z]; [IBNext 2%Z]] race_sched in
   (names_ok [IBSub 0] [[IBNext 1%Z]; [IBNext 2%Z]], setup_completes 0%Z [IBSub 0],
    single_producer [IBSub 0] [[IBNext 1%Z]; [IBNext 2%Z]], e, order [[IBNext 1%Z]; [IBNext 2%Z]] tr, fin,
    latest_ok 0%Z [IBSub 0] [[IBNext 1%Z]; [IBNext 2%Z]] tr e fin))
  = (true, true, false, EFinished, [(1, 0); (0, 0)], 2%Z, false).
Proof. vm_compute. reflexivity. Qed.

(* a non-trivial case that satisfies the hypotheses: the setup script itself calls next, one thread
   calls BehaviorSubject::next three times, a second thread subscribes / peeks / unsubscribes, a third
   one calls the plain `next` of the inner subject; interleaved *)
Definition lp_setup : list iop := [IBSub 0; IBNext 3%Z; ISub 4].
Definition lp_scripts : list (list iop) :=
  [[IBNext 1%Z; IBPeek; IBNext 2%Z; IBSub 5; IBNext 7%Z]; [ISub 1; IBPeek; IUnsub 1; IBSub 2]; [INext 9%Z; IBPeek]].
Definition lp_sched : list nat := [0;1;2;0;1;2;2;0;0;1;1;2;0;1;0;2;0;0;0;1;1;1;2;2;2] ++ concat (repeat [0;0;1;2] 40).

Example latest_hyps_satisfiable :
  (let '(tr, e, fin) := run_case 0%Z lp_setup lp_scripts lp_sched in
   (names_ok lp_setup lp_scripts, setup_completes 0%Z lp_setup, single_producer lp_setup lp_scripts,
    full_time lp_setup lp_scripts, has_term (lp_setup ++ concat lp_scripts), e,
    order lp_scripts tr, fin, latest_ok 0%Z lp_setup lp_scripts tr e fin))
  = (true, true, true, [0; 4], false, EFinished, [(2, 0); (0, 0); (0, 2); (0, 4)], 7%Z, true).
Proof. vm_compute. reflexivity. Qed.

(* the same scripts under another schedule, and a case with no thread calling next at all (the value
   is the setup script's) *)
Example latest_cases :
  (let '(tr, e, fin) := run_case 0%Z lp_setup lp_scripts (repeat 0 14 ++ repeat 2 20 ++ concat (repeat [0;1;2] 60)) in
   (e, order lp_scripts tr, fin, latest_ok 0%Z lp_setup lp_scripts tr e fin),
   let '(tr, e, fin) := run_case 0%Z lp_setup [[IBPeek]; [IBSub 1]] (repeat 0 10 ++ repeat 1 10) in
   (e, order [[IBPeek]; [IBSub 1]] tr, fin, latest_ok 0%Z lp_setup [[IBPeek]; [IBSub 1]] tr e fin))
  = ((EFinished, [(0, 0); (0, 2); (2, 0); (0, 4)], 7%Z, true), (EFinished, [], 3%Z, true)).
Proof. vm_compute. reflexivity. Qed.

(* ------------------------------------------------------------------ *)
(* the joiner clause                                                   *)
(* ------------------------------------------------------------------ *)

(* Props/C12.v refutes the joiner clause as soon as one thread calls BehaviorSubject::next while
   another one subscribes.  "No BehaviorSubject::next in the threads' scripts" is NOT enough either
   when a thread calls the plain next of the inner subject: the value cell is not updated by it, so
   a subscriber that joins afterwards is handed the old value *)
Example joiner_fails_with_plain_next :
  (let '(tr, e, fin) := run_case 0%Z [ISub 0] [[INext 5%Z]; [IBSub 1]] (repeat 0 10 ++ repeat 1 10) in
   (names_ok [ISub 0] [[INext 5%Z]; [IBSub 1]], setup_completes 0%Z [ISub 0],
    existsb has_bnext [[INext 5%Z]; [IBSub 1]], e, order [[INext 5%Z]; [IBSub 1]] tr,
    joiner_ok 0%Z [ISub 0] [[INext 5%Z]; [IBSub 1]] tr e))
  = (true, true, false, EFinished, [(0, 0)], false).
Proof. vm_compute. reflexivity. Qed.

(* no thread calls next, of either kind: values only change in the setup script *)
Definition is_anynext (o : iop) : bool := match o with INext _ | IBNext _ => true | _ => false end.
Definition no_next (scripts : list (list iop)) : bool :=
  forallb (fun sc => negb (existsb is_anynext sc)) scripts.

Lemma no_next_op scripts b :
  no_next scripts = true -> is_nextop (op_at scripts b) = false.
Proof.
  unfold no_next, op_at. rewrite forallb_forall. intros H.
  destruct (nth_error scripts (fst b)) as [sc|] eqn:Esc; [|reflexivity].
  specialize (H sc (nth_error_In _ _ Esc)). apply negb_true_iff in H.
  destruct (nth_error sc (snd b)) as [o|] eqn:Eo; [|reflexivity].
  pose proof (existsb_false_all _ _ H o (nth_error_In _ _ Eo)) as Ho.
  destruct o; try discriminate; reflexivity.
Qed.

Lemma no_next_bcasts scripts tr :
  no_next scripts = true -> values_ok scripts tr = true -> bcasts scripts tr = [].
Proof.
  unfold values_ok. intros Hn Hv. destruct (bcasts scripts tr) as [|x l]; [reflexivity|exfalso].
  cbn [forallb] in Hv. apply andb_true_iff in Hv. destruct Hv as [Hx _].
  pose proof (no_next_op scripts (snd x) Hn) as H.
  destruct (op_at scripts (snd x)) as [[v|e|k|k|v|k| |]|]; discriminate.
Qed.

Lemma no_next_nob scripts sc x :
  no_next scripts = true -> In sc scripts -> In x sc -> is_bnext x = false.
Proof.
  unfold no_next. rewrite forallb_forall. intros H Hsc Hx. specialize (H sc Hsc). apply negb_true_iff in H.
  pose proof (existsb_false_all _ _ H x Hx) as Ho. destruct x; try discriminate; reflexivity.
Qed.

(* the value a BehaviorSubject::subscribe hands over is the one it finds in the cell *)
Lemma F_incbB s t th s1 th1 o k x :
  imove s t th = (s1, th1, o) -> t_pc th1 = PInCbB k x -> x = s_val s.
Proof.
  destruct th as [pc ops idx]. intros H Hpc. imove_cases H.
  all: cbn [t_pc] in Hpc; try discriminate.
  all: inversion Hpc; subst; reflexivity.
Qed.

Section Joiner.
Variable scripts : list (list iop).
Variable SV : Z.

Definition JInv (s : ish) (ths : list ithread) : Prop :=
  Static scripts ths /\ s_val s = SV /\
  (forall i th x, nth_error ths i = Some th -> In x (t_ops th) -> is_bnext x = false) /\
  (forall i th k x, nth_error ths i = Some th -> t_pc th = PInCbB k x -> x = SV).

Definition jchk (x : itr) : bool :=
  match x with
  | TEv k (YItem x0) t j => negb (is_initial scripts (t, j)) || Z.eqb x0 SV
  | _ => true
  end.

Lemma JInv_step (a : unit) s ths t th s1 th1 o :
  JInv s ths -> ienabled s ths t = true -> nth_error ths t = Some th -> imove s t th = (s1, th1, o) ->
  exists a', walks (fchk jchk) a o = Some a' /\ JInv s1 (set_th ths t th1).
Proof.
  intros (HSt & Hv & Hnb & Hcb) He Ht Hm. exists tt. split.
  - destruct a. apply walks_fchk. apply Forall_forall. intros x Hx.
    destruct x as [ | k [x0|e] t' j | | | | ]; try reflexivity.
    destruct (static_ev _ _ _ _ _ _ _ _ _ _ _ _ HSt Ht Hm Hx) as (-> & -> & Hc). unfold jchk.
    destruct Hc as [(rest & v' & _ & _ & Hi & _)|[(rest & e & _ & Hp)|(x & Hpc & Hp & _)]]; try discriminate.
    + rewrite Hi. reflexivity.
    + inversion Hp; subst. rewrite (Hcb _ _ _ _ Ht Hpc), Z.eqb_refl. apply orb_true_r.
  - assert (Hv1 : s_val s1 = SV).
    { rewrite (F_val_same _ _ _ _ _ _ Hm); [exact Hv|]. intros x Hx. eapply Hnb; eauto. }
    split; [eapply Static_step; eauto|]. split; [exact Hv1|]. split.
    + intros i y x Hi Hx. destruct (nth_set_th_inv _ _ _ _ _ _ Ht Hi) as [[-> ->]|[Hni Hi']]; [|eauto].
      destruct (F_ops_sub _ _ _ _ _ _ _ Hm Hx) as [H|(v & ->)]; [eauto|reflexivity].
    + intros i y k x Hi Hpc. destruct (nth_set_th_inv _ _ _ _ _ _ Ht Hi) as [[-> ->]|[Hni Hi']]; [|eauto].
      rewrite (F_incbB _ _ _ _ _ _ _ _ Hm Hpc). exact Hv.
Qed.

End Joiner.

(* C12, joiner clause, where it holds for every schedule: no thread calls next (of either kind).
   Then nothing is broadcast, and every subscriber that joins is handed the setup script's value. *)
Theorem il_joiner_no_next v0 setup scripts sched :
  setup_completes v0 setup = true -> no_next scripts = true ->
  let '(tr, e, fin) := run_case v0 setup scripts sched in joiner_ok v0 setup scripts tr e = true.
Proof.
  intros Hc Hn. rewrite run_case_eq. cbv zeta.
  destruct (irun _ _ sched) as [[s ths] tr] eqn:Er.
  unfold joiner_ok. destruct (ifinished ths) eqn:Ef.
  2:{ destruct (istuck s ths); reflexivity. }
  destruct (full_time setup scripts) as [|k0 ft]; [reflexivity|].
  destruct (has_term (setup ++ concat scripts)); [reflexivity|]. cbn [orb].
  pose proof (values_irun scripts sched _ _ _ _ _ (Static_init scripts) Er) as Hvals.
  pose proof (no_next_bcasts _ _ Hn Hvals) as Hb.
  assert (HJ0 : JInv scripts (setup_value v0 setup) (run_alone 1000 (ish0 v0) (start_thread setup))
                     (map start_thread scripts)).
  { split; [apply Static_init|]. split; [apply val_after_setup; exact Hc|]. split.
    - intros i th x Hi Hx. apply nth_map_start in Hi. destruct Hi as (sc & Hsc & ->). cbn in Hx.
      eapply no_next_nob; eauto. eapply nth_error_In; eauto.
    - intros i th k x Hi Hpc. apply nth_map_start in Hi. destruct Hi as (sc & _ & ->). discriminate. }
  destruct (irun_walks (fchk (jchk scripts (setup_value v0 setup)))
                       (fun (_ : unit) s ths => JInv scripts (setup_value v0 setup) s ths)
                       (JInv_step scripts (setup_value v0 setup)) sched tt _ _ _ _ _ HJ0 Er) as (a' & Hw & _).
  apply walks_fchk_inv in Hw. rewrite forallb_forall in Hw |- *. intros x Hx. specialize (Hw x Hx).
  destruct x as [ | k [x0|e] t j | | | | ]; try reflexivity.
  unfold jchk in Hw. unfold bids_of, order. rewrite Hb.
  destruct (is_initial scripts (t, j)); [|reflexivity]. cbn [negb orb] in Hw.
  destruct (negb (imem k (unsubscribed_in (concat scripts)))); [|reflexivity]. cbn [andb].
  cbn. rewrite Hw. reflexivity.
Qed.

(* the hypothesis of il_joiner_no_next is satisfiable: three threads subscribe / peek / unsubscribe
   concurrently *)
Example joiner_hyps_satisfiable :
  (let '(tr, e, fin) := run_case 0%Z [IBSub 0; IBNext 3%Z; INext 4%Z] [[IBSub 1; IBPeek]; [ISub 2; IBSub 3; IUnsub 2]; [IBPeek; IBSub 4]]
                                 (concat (repeat [0;1;2;2;1] 20)) in
   (setup_completes 0%Z [IBSub 0; IBNext 3%Z; INext 4%Z], no_next [[IBSub 1; IBPeek]; [ISub 2; IBSub 3; IUnsub 2]; [IBPeek; IBSub 4]],
    full_time [IBSub 0; IBNext 3%Z; INext 4%Z] [[IBSub 1; IBPeek]; [ISub 2; IBSub 3; IUnsub 2]; [IBPeek; IBSub 4]], e,
    probes_of tr, joiner_ok 0%Z [IBSub 0; IBNext 3%Z; INext 4%Z] [[IBSub 1; IBPeek]; [ISub 2; IBSub 3; IUnsub 2]; [IBPeek; IBSub 4]] tr e))
  = (true, true, [0], EFinished, [1; 3; 4], true).
Proof. vm_compute. reflexivity. Qed.

(* ------------------------------------------------------------------ *)
(* the joiner clause, with a producer                                  *)
(* ------------------------------------------------------------------ *)

(* The joiner clause fails when one thread subscribes while ANOTHER one is inside
   BehaviorSubject::next (Props/C12.v).  It holds when the subscribers that join are subscribed by the
   producer thread itself: the thread that calls BehaviorSubject::next is also the one that calls
   BehaviorSubject::subscribe, every other thread only subscribes plainly, unsubscribes and peeks,
   and nobody calls the plain next of the inner subject. *)

Definition quiet_op (o : iop) : bool := match o with ISub _ | IUnsub _ | IBPeek => true | _ => false end.
Definition not_plain_next (o : iop) : bool := match o with INext _ => false | _ => true end.

Definition joiners_with_producer (scripts : list (list iop)) : bool :=
  Nat.leb (length (filter (fun sc => negb (forallb quiet_op sc)) scripts)) 1 &&
  forallb (forallb not_plain_next) scripts.

(* how the remaining script, the position and the value cell change in one move *)
Lemma F_ops_cases s t th s1 th1 o :
  imove s t th = (s1, th1, o) -> pc_ok th -> chamP s ->
  (exists v r, t_pc th = PIdle /\ t_ops th = IBNext v :: r /\ t_ops th1 = INext v :: r /\ s_val s1 = v /\
               t_idx th1 = t_idx th /\ t_pc th1 = PIdle) \/
  (s_val s1 = s_val s /\ t_ops th1 = t_ops th /\ t_idx th1 = t_idx th) \/
  (s_val s1 = s_val s /\ t_idx th1 = S (t_idx th) /\ t_pc th1 = PIdle /\
   exists o0, t_ops th = o0 :: t_ops th1 /\ is_bnext o0 = false).
Proof.
  destruct th as [pc ops idx]. intros H Hp Hc. imove_cases H.
  all: unfold pc_ok in Hp; cbn [t_pc t_ops pc_op pay_op] in *.
  all: try (exfalso; unfold chamP in Hc; match goal with E : s_cham _ = None |- _ => apply Hc in E; congruence end).
  all: try (destruct Hp as (r0 & ->)).
  all: cbn [tl t_idx t_pc t_ops s_val set_val set_busy set_obs set_cham set_cells kill_cell]; rewrite ?val_sub.
  all: first [ left; eexists; eexists; repeat split; reflexivity
             | right; left; repeat split; reflexivity
             | right; right; repeat split; try reflexivity; eexists; split; reflexivity ].
Qed.

(* a thread that only subscribes, unsubscribes and peeks *)
Lemma F_quiet s t th s1 th1 o :
  imove s t th = (s1, th1, o) -> t_pc th = PIdle -> (forall x, In x (t_ops th) -> quiet_op x = true) ->
  t_pc th1 = PIdle /\ (forall x, In x (t_ops th1) -> In x (t_ops th)) /\ s_val s1 = s_val s /\ t_idx th <= t_idx th1.
Proof.
  destruct th as [pc ops idx]. cbn [t_pc t_ops]. intros H -> Hq.
  destruct ops as [|o0 r].
  - unfold imove in H. cbn in H. inversion H; subst. cbn. auto.
  - pose proof (Hq o0 (or_introl eq_refl)) as H0. destruct o0; try discriminate H0.
    all: unfold imove in H; cbn [t_pc t_ops t_idx] in H; try (destruct (cell_known s k)); inversion H; subst.
    all: cbn [t_pc t_ops t_idx op_done tl]; rewrite ?val_sub; repeat split; auto; intros x Hx; right; exact Hx.
Qed.

Lemma CO_nil ths : CO [] ths.
Proof.
  split; [intros k; reflexivity|]. intros t th Ht. unfold COth. cbn.
  split; [intros j' []|]. split; [intros []|intros k' _ []].
Qed.

Lemma memb_app b l1 l2 : memb b (l1 ++ l2) = memb b l1 || memb b l2.
Proof. unfold memb. apply existsb_app. Qed.

Lemma skipn_len_app {A} (a b : list A) : skipn (length a) (a ++ b) = b.
Proof. induction a as [|x a IH]; cbn; auto. Qed.

Lemma firstn_len_app {A} (a b : list A) : firstn (length a) (a ++ b) = a.
Proof. induction a as [|x a IH]; cbn; [reflexivity|]. rewrite IH. reflexivity. Qed.

Section JoinP.
Variable scripts : list (list iop).
Variable SV : Z.
Variable p : nat.     (* the thread that calls next and subscribes the joiners *)
Variable k0 : nat.    (* a full-time probe *)
Variable k : nat.     (* the joiner *)

Hypothesis Hnn : forall sc x, In sc scripts -> In x sc -> not_plain_next x = true.

(* x0 is the value of the last broadcast of o (the setup script's value when o is empty) *)
Definition lv (o : list bid) (x0 : Z) : bool :=
  match rev o with
  | b :: _ => match value_of scripts b with Some v => Z.eqb v x0 | None => false end
  | [] => Z.eqb x0 SV
  end.

(* the values probe k was handed on subscription *)
Definition jev (x : itr) : list Z :=
  match x with
  | TEv k' (YItem x0) t j => if is_initial scripts (t, j) && Nat.eqb k' k then [x0] else []
  | _ => []
  end.

Definition jstep (a : list bent * list Z) (x : itr) : option (list bent * list Z) :=
  Some (fst a ++ bcasts scripts [x], snd a ++ jev x).

Lemma walks_jstep a o : walks jstep a o = Some (fst a ++ bcasts scripts o, snd a ++ flat_map jev o).
Proof.
  revert a. induction o as [|x o IH]; intros a; cbn [walks].
  - cbn. rewrite !app_nil_r. destruct a; reflexivity.
  - unfold jstep at 1. rewrite IH. cbn [fst snd flat_map]. rewrite <- !app_assoc. f_equal. f_equal.
    f_equal. unfold bcasts. cbn [flat_map]. rewrite app_nil_r. reflexivity.
Qed.

Lemma jev_silent o : forallb (fun x => negb (is_ev x)) o = true -> flat_map jev o = [].
Proof.
  induction o as [|x o IH]; cbn; [reflexivity|]. intros H. apply andb_true_iff in H. destruct H as [Hx Ho].
  destruct x; try discriminate; cbn; auto.
Qed.

Lemma move_jev s ths t th s1 th1 o :
  Static scripts ths -> nth_error ths t = Some th -> imove s t th = (s1, th1, o) ->
  flat_map jev o = match t_pc th with PInCbB k' x => if Nat.eqb k' k then [x] else [] | _ => [] end.
Proof.
  intros HS Ht Hm. destruct (in_cb (t_pc th)) as [k'|] eqn:Ec.
  - destruct (F_out _ _ _ _ _ _ _ Hm Ec) as (p' & Ho).
    assert (In (TEv k' p' t (t_idx th)) o) as Hin by (rewrite Ho; cbn; auto).
    destruct (static_ev _ _ _ _ _ _ _ _ _ _ _ _ HS Ht Hm Hin) as (_ & _ & Hc). rewrite Ho.
    destruct Hc as [(rest & v & Hpc & -> & Hi & _)|[(rest & e & Hpc & ->)|(x & Hpc & -> & Hi)]];
      rewrite Hpc; cbn; rewrite ?Hi; cbn; rewrite ?app_nil_r; reflexivity.
  - rewrite jev_silent; [|eapply F_noev; eauto].
    destruct (t_pc th); cbn in Ec; try discriminate; reflexivity.
Qed.

(* a probe that has a cell is not handed a value on subscription any more *)
Lemma no_jev s ths t th s1 th1 o :
  Core s ths -> Static scripts ths -> nth_error ths t = Some th -> imove s t th = (s1, th1, o) ->
  cell_known s k = true -> flat_map jev o = [].
Proof.
  intros HC HS Ht Hm Hk. rewrite (move_jev _ _ _ _ _ _ _ HS Ht Hm).
  destruct (t_pc th) as [ | pl | pl | v rest | v k1 rest | e rest | e rest | e rest | e k1 rest | k1 x | k1 | ] eqn:Epc;
    try reflexivity.
  destruct (Nat.eqb k1 k) eqn:E; [|reflexivity]. apply Nat.eqb_eq in E. subst k1. exfalso.
  pose proof (in_cb_B _ _ _ (c_pcok _ _ HC _ _ Ht) Epc) as Hs.
  rewrite (c_fresh _ _ HC _ _ _ Ht Hs) in Hk. discriminate.
Qed.

Definition OnlyP (ths : list ithread) : Prop :=
  forall i th, nth_error ths i = Some th -> i <> p ->
               t_pc th = PIdle /\ forall x, In x (t_ops th) -> quiet_op x = true.

Definition NoUn (ths : list ithread) : Prop :=
  forall i th, nth_error ths i = Some th -> ~ In (IUnsub k) (t_ops th).

Definition RelP (L : list bent) (s : ish) (ths : list ithread) : Prop :=
  forall th, nth_error ths p = Some th ->
    match t_ops th with INext v :: _ => s_val s = v | _ => lv (ordL L) (s_val s) = true end.

Definition CInv (L : list bent) (s : ish) (ths : list ithread) : Prop :=
  FT2 k0 scripts L s ths /\ OnlyP ths /\ NoUn ths /\ RelP L s ths.

Lemma OnlyP_step s ths t t' th s1 th1 o :
  OnlyP ths -> nth_error ths t = Some th -> imove s t' th = (s1, th1, o) -> OnlyP (set_th ths t th1).
Proof.
  intros HO Ht Hm i x Hi Hne. destruct (nth_set_th_inv _ _ _ _ _ _ Ht Hi) as [[-> ->]|[Hni Hi']]; [|eauto].
  destruct (HO _ _ Ht Hne) as [Hpc Hq]. destruct (F_quiet _ _ _ _ _ _ Hm Hpc Hq) as (H1 & H2 & _).
  split; [exact H1|]. intros y Hy. apply Hq. apply H2. exact Hy.
Qed.

Lemma NoUn_step s ths t t' th s1 th1 o :
  NoUn ths -> nth_error ths t = Some th -> imove s t' th = (s1, th1, o) -> NoUn (set_th ths t th1).
Proof.
  intros HN Ht Hm i x Hi Hin. destruct (nth_set_th_inv _ _ _ _ _ _ Ht Hi) as [[-> ->]|[Hni Hi']]; [|eapply HN; eauto].
  destruct (F_ops_sub _ _ _ _ _ _ _ Hm Hin) as [H|(v & H)]; [|discriminate]. eapply HN; eauto.
Qed.

(* only thread p broadcasts *)
Lemma OnlyP_bcast ths t th v k1 rest :
  OnlyP ths -> nth_error ths t = Some th -> t_pc th = PInCb v k1 rest -> t = p.
Proof.
  intros HO Ht Hpc. destruct (Nat.eq_dec t p) as [E|E]; [exact E|]. destruct (HO _ _ Ht E) as [H _]. congruence.
Qed.

Lemma lv_last o' b v : value_of scripts b = Some v -> lv (o' ++ [b]) v = true.
Proof. intros H. unfold lv. rewrite rev_unit, H. apply Z.eqb_refl. Qed.

Lemma quiet_not_bnext x : quiet_op x = true -> is_bnext x = false.
Proof. destruct x; try discriminate; reflexivity. Qed.

(* the producer's script has no plain next: a pending `INext v` is the second half of a
   BehaviorSubject::next *)
Lemma head_is_bnext ths th v r :
  Static scripts ths -> nth_error ths p = Some th -> t_ops th = INext v :: r ->
  op_at scripts (p, t_idx th) = Some (IBNext v).
Proof.
  intros HS Ht Hops. destruct (HS _ _ Ht) as (_ & sc & Hsc & Hl). unfold link in Hl. rewrite Hops in Hl.
  destruct Hl as (o0 & Hn & _ & Ho). unfold op_at. cbn [fst snd]. rewrite Hsc, Hn.
  destruct Ho as [->|(v' & -> & Hv)]; [|inversion Hv; reflexivity].
  exfalso. pose proof (Hnn sc (INext v) (nth_error_In _ _ Hsc) (nth_error_In _ _ Hn)) as H. discriminate H.
Qed.

Lemma next_head_not_plain ths th o0 r v r' :
  Static scripts ths -> nth_error ths p = Some th -> t_ops th = o0 :: r -> r <> INext v :: r'.
Proof.
  intros HS Ht Hops ->. destruct (HS _ _ Ht) as (_ & sc & Hsc & Hl). unfold link in Hl. rewrite Hops in Hl.
  destruct Hl as (o1 & _ & Hsk & _). apply skipn_cons in Hsk. destruct Hsk as [Hn _].
  pose proof (Hnn sc (INext v) (nth_error_In _ _ Hsc) (nth_error_In _ _ Hn)) as H. discriminate H.
Qed.

Lemma RelP_intro L s th :
  (forall v r, t_ops th <> INext v :: r) -> lv (ordL L) (s_val s) = true ->
  match t_ops th with INext v :: _ => s_val s = v | _ => lv (ordL L) (s_val s) = true end.
Proof.
  intros Hh Hl. destruct (t_ops th) as [|[v|e|k1|k1|v|k1| |] r]; auto. exfalso. eapply Hh. reflexivity.
Qed.

Lemma RelP_step L s ths t th s1 th1 o :
  CInv L s ths -> nth_error ths t = Some th -> imove s t th = (s1, th1, o) ->
  FT2 k0 scripts (L ++ bcasts scripts o) s1 (set_th ths t th1) ->
  RelP (L ++ bcasts scripts o) s1 (set_th ths t th1).
Proof.
  intros (HF & HO & _ & HR) Ht Hm HF' thp Hthp.
  destruct HF as (((HC & HSt & _ & _ & HCO) & _) & _).
  pose proof (move_bcasts scripts _ _ _ _ _ _ _ HSt Ht Hm) as HB.
  set (BB := bcasts scripts o) in *.
  destruct (Nat.eq_dec t p) as [->|Hne].
  2:{ (* another thread: it only subscribes, unsubscribes, peeks *)
      rewrite nth_set_th_other in Hthp by exact Hne. destruct (HO _ _ Ht Hne) as [Hpc Hq].
      destruct (F_quiet _ _ _ _ _ _ Hm Hpc Hq) as (_ & _ & Hv & _). rewrite Hpc in HB. rewrite HB, app_nil_r, Hv.
      apply HR. exact Hthp. }
  rewrite (nth_set_th_same _ _ _ _ Ht) in Hthp. inversion Hthp; subst thp. clear Hthp.
  specialize (HR _ Ht). pose proof (c_pcok _ _ HC _ _ Ht) as Hpc.
  (* when the head of the script is not a pending broadcast, the move broadcasts nothing *)
  assert (Hsil : (forall v r, t_ops th <> INext v :: r) -> BB = []).
  { intros Hh. rewrite HB.
    destruct (t_pc th) as [ | pl | pl | v rest | v k1 rest | e rest | e rest | e rest | e k1 rest | k1 x | k1 | ] eqn:Epc;
      try reflexivity. exfalso. unfold pc_ok in Hpc. rewrite Epc in Hpc. cbn in Hpc. destruct Hpc as (r & Hr).
    eapply Hh. exact Hr. }
  destruct (F_ops_cases _ _ _ _ _ _ Hm Hpc (c_cham _ _ HC)) as
      [(v & r & _ & _ & Hops1 & Hv & _)|[(Hv & Hops1 & _)|(Hv & Hidx & Hpc1 & o0 & Hops & Hnb)]].
  - rewrite Hops1. exact Hv.
  - rewrite Hops1, Hv. destruct (t_ops th) as [|o0 r] eqn:Eops.
    + rewrite Hsil, app_nil_r; [exact HR|]. intros v r; discriminate.
    + destruct o0 as [v|e|k1|k1|v|k1| |]; try exact HR;
        (rewrite Hsil, app_nil_r; [exact HR|]; intros v0 r0; discriminate).
  - apply RelP_intro.
    { intros v r Hr. eapply (next_head_not_plain ths th o0 (t_ops th1)); eauto. }
    rewrite Hv. destruct o0 as [v|e|k1|k1|v|k1| |];
      try (rewrite Hsil, app_nil_r; [|intros v0 r0; rewrite Hops; discriminate]; rewrite Hops in HR; exact HR).
    + (* a broadcast returns: it is the last one of the global order *)
      rewrite Hops in HR. rewrite HR.
      pose proof (head_is_bnext ths th v (t_ops th1) HSt Ht Hops) as Hop.
      assert (value_of scripts (p, t_idx th) = Some v) as Hval by (unfold value_of; rewrite Hop; reflexivity).
      destruct HF' as (_ & _ & HD' & _).
      assert (In (p, t_idx th) (ordL (L ++ BB))) as Hin.
      { apply (bidsL_in _ k0). apply (HD' p th1 (t_idx th)); [eapply nth_set_th_same; eauto|lia|].
        rewrite Hop. reflexivity. }
      destruct (proj2 HCO _ _ Ht) as (_ & C2 & _).
      assert (exists o', ordL (L ++ BB) = o' ++ [(p, t_idx th)]) as (o' & Ho').
      { rewrite HB in *.
        destruct (t_pc th) as [ | pl | pl | v1 rest | v1 k1 rest | e rest | e rest | e rest | e k1 rest | k1 x | k1 | ] eqn:Epc;
          rewrite ?app_nil_r in *; try (apply C2; exact Hin).
        rewrite ordL_snoc. destruct (memb (p, t_idx th) (map snd L)) eqn:Em.
        - rewrite app_nil_r. apply C2. apply memb_ordL. exact Em.
        - eexists. reflexivity. }
      rewrite Ho'. apply lv_last. exact Hval.
Qed.

Lemma CInv_step L s ths t th s1 th1 o :
  CInv L s ths -> ienabled s ths t = true -> nth_error ths t = Some th -> imove s t th = (s1, th1, o) ->
  CInv (L ++ bcasts scripts o) s1 (set_th ths t th1).
Proof.
  intros HCI He Ht Hm. pose proof HCI as (HF & HO & HN & HR).
  destruct (FT2_step k0 scripts _ _ _ _ _ _ _ _ HF He Ht Hm) as (L' & Hw & HF').
  rewrite walks_bstep in Hw. inversion Hw; subst L'. clear Hw.
  split; [exact HF'|]. split; [eapply OnlyP_step; eauto|]. split; [eapply NoUn_step; eauto|].
  eapply RelP_step; eauto.
Qed.

(* ---- the joiner: before it has a cell, after, or never handed a value ---- *)
Definition Ph01 (L : list bent) (evs : list Z) (s : ish) (ths : list ithread) : Prop :=
  cell_known s k = false /\ bidsL L k = [] /\
  ((evs = [] /\ forall th x, nth_error ths p = Some th -> t_pc th = PInCbB k x -> x = s_val s) \/
   ((exists th, nth_error ths p = Some th /\ t_pc th = PSubCham k) /\
    forall x0, In x0 evs -> lv (ordL L) x0 = true)).

Definition Ph2 (L : list bent) (evs : list Z) (s : ish) (ths : list ithread) : Prop :=
  exists B1 B2, L = B1 ++ B2 /\ FT k scripts B2 s ths /\ ordL L = ordL B1 ++ ordL B2 /\
    (forall th j, nth_error ths p = Some th -> In (p, j) (ordL B1) -> j < t_idx th) /\
    bidsL B1 k = [] /\ forall x0, In x0 evs -> lv (ordL B1) x0 = true.

Definition Ph3 (evs : list Z) (s : ish) : Prop := cell_known s k = true /\ evs = [].

Lemma Ph3_step L evs s ths t th s1 th1 o :
  CInv L s ths -> Ph3 evs s -> nth_error ths t = Some th -> imove s t th = (s1, th1, o) ->
  Ph3 (evs ++ flat_map jev o) s1.
Proof.
  intros (HF & _) [Hk ->] Ht Hm. destruct HF as (((HC & HSt & _) & _) & _). split.
  - rewrite (F_known _ _ _ _ _ _ k Hm), Hk. reflexivity.
  - rewrite (no_jev _ _ _ _ _ _ _ HC HSt Ht Hm Hk). reflexivity.
Qed.

Lemma idx_mono s t th s1 th1 o : imove s t th = (s1, th1, o) -> t_idx th <= t_idx th1.
Proof. intros Hm. destruct (F_deliv _ _ _ _ _ _ Hm) as [[H _]|[H _]]; lia. Qed.

Lemma Ph2_step L evs s ths t th s1 th1 o :
  CInv L s ths -> Ph2 L evs s ths -> ienabled s ths t = true -> nth_error ths t = Some th ->
  imove s t th = (s1, th1, o) ->
  Ph2 (L ++ bcasts scripts o) (evs ++ flat_map jev o) s1 (set_th ths t th1).
Proof.
  intros (HF & HO & _) (B1 & B2 & -> & HFT & Hord & Hb & Hbk & Hev) He Ht Hm.
  destruct (FT_step k scripts _ _ _ _ _ _ _ _ HFT He Ht Hm) as (L' & Hw & HFT').
  rewrite walks_bstep in Hw. inversion Hw; subst L'. clear Hw.
  destruct HF as (((HC & HSt & _) & _) & [Hobs _] & _).
  assert (Hk : cell_known s k = true).
  { destruct HFT as (_ & HS & _). destruct (s_obs s) as [ob|] eqn:Eo; [|congruence].
    apply alive_known. apply (si_kin _ _ _ HS ob Eo). }
  exists B1, (B2 ++ bcasts scripts o). split; [apply app_assoc_reverse|]. split; [exact HFT'|].
  split; [|split; [|split; [exact Hbk|]]].
  - rewrite (move_bcasts scripts _ _ _ _ _ _ _ HSt Ht Hm).
    destruct (t_pc th) as [ | pl | pl | v rest | v k1 rest | e rest | e rest | e rest | e k1 rest | k1 x | k1 | ] eqn:Epc;
      rewrite ?app_nil_r; try exact Hord.
    assert (t = p) as -> by (eapply OnlyP_bcast; eauto).
    rewrite !ordL_snoc, Hord, <- app_assoc. f_equal. rewrite map_app, memb_app.
    match goal with |- context [if ?a || _ then _ else _] => assert (a = false) as Ha end.
    { apply memb_false. intros Hin. apply ordL_in in Hin. specialize (Hb _ _ Ht Hin). lia. }
    rewrite Ha. reflexivity.
  - intros th' j Hth' Hin. destruct (Nat.eq_dec t p) as [->|Hne].
    + rewrite (nth_set_th_same _ _ _ _ Ht) in Hth'. inversion Hth'; subst th'.
      specialize (Hb _ _ Ht Hin). pose proof (idx_mono _ _ _ _ _ _ Hm). lia.
    + rewrite nth_set_th_other in Hth' by exact Hne. eapply Hb; eauto.
  - rewrite (no_jev _ _ _ _ _ _ _ HC HSt Ht Hm Hk), app_nil_r. exact Hev.
Qed.

Lemma F_from_incbB s t th s1 th1 o k1 x :
  imove s t th = (s1, th1, o) -> t_pc th = PInCbB k1 x -> t_pc th1 = PSubCham k1 /\ s_val s1 = s_val s.
Proof.
  destruct th as [pc ops idx]. cbn [t_pc]. intros H ->. unfold imove in H. cbn [t_pc t_ops t_idx] in H.
  inversion H; subst. split; reflexivity.
Qed.

Lemma F_from_subcham s t th s1 th1 o k1 :
  imove s t th = (s1, th1, o) -> t_pc th = PSubCham k1 -> th1 = op_done th /\ o = [TAcq t LCham].
Proof.
  destruct th as [pc ops idx]. cbn [t_pc]. intros H ->. unfold imove in H. cbn [t_pc t_ops t_idx] in H.
  inversion H; subst. split; reflexivity.
Qed.

Lemma Ph01_step L evs s ths t th s1 th1 o :
  CInv L s ths -> CInv (L ++ bcasts scripts o) s1 (set_th ths t th1) -> Ph01 L evs s ths ->
  nth_error ths t = Some th -> imove s t th = (s1, th1, o) ->
  Ph01 (L ++ bcasts scripts o) (evs ++ flat_map jev o) s1 (set_th ths t th1) \/
  Ph2 (L ++ bcasts scripts o) (evs ++ flat_map jev o) s1 (set_th ths t th1) \/
  Ph3 (evs ++ flat_map jev o) s1.
Proof.
  intros (HF & HO & HN & HR) HCI' (Hk & Hbk & Hd) Ht Hm.
  destruct HF as (((HC & HSt & _ & _ & HCO) & _) & _).
  pose proof (move_bcasts scripts _ _ _ _ _ _ _ HSt Ht Hm) as HB.
  pose proof (move_jev _ _ _ _ _ _ _ HSt Ht Hm) as HJ.
  remember (bcasts scripts o) as BB eqn:EBB in *. remember (flat_map jev o) as JJ eqn:EJJ in *. clear EBB EJJ.
  pose proof (F_known _ _ _ _ _ _ k Hm) as Hk1. rewrite Hk in Hk1. cbn [orb] in Hk1.
  pose proof (c_pcok _ _ HC _ _ Ht) as Hpc.
  (* the probe gets no broadcast while it has no cell *)
  assert (Hbk' : bidsL (L ++ BB) k = []).
  { rewrite HB.
    destruct (t_pc th) as [ | pl | pl | v rest | v k1 rest | e rest | e rest | e rest | e k1 rest | k1 x | k1 | ] eqn:Epc;
      rewrite ?app_nil_r; try exact Hbk.
    rewrite bidsL_snoc, Hbk. destruct (Nat.eqb k1 k) eqn:E; [|reflexivity]. apply Nat.eqb_eq in E. subst k1.
    pose proof (c_local _ _ HC _ _ Ht) as Hl. unfold local in Hl. rewrite Epc in Hl.
    rewrite (alive_known _ _ Hl) in Hk. discriminate. }
  destruct Hd as [[-> Hx]|[(thp & Hthp & Hpcp) Hev]].
  - (* not handed a value yet *)
    cbn [app]. destruct (cell_known s1 k) eqn:Ek1.
    + (* somebody subscribes it without a value: it will never be handed one *)
      right. right. split; [exact Ek1|]. rewrite HJ.
      destruct (t_pc th) as [ | pl | pl | v rest | v k1 rest | e rest | e rest | e rest | e k1 rest | k1 x | k1 | ] eqn:Epc;
        try reflexivity.
      unfold sub_now in Hk1. rewrite Epc in Hk1. discriminate Hk1.
    + left. split; [exact Ek1|]. split; [exact Hbk'|].
      destruct (Nat.eq_dec t p) as [->|Hne].
      * assert (G : forall x', t_pc th1 = PInCbB k x' -> x' = s_val s1).
        { intros x' Hx'. rewrite (F_incbB _ _ _ _ _ _ _ _ Hm Hx').
          destruct (F_ops_cases _ _ _ _ _ _ Hm Hpc (c_cham _ _ HC)) as
              [(v & r & _ & _ & _ & _ & _ & Hp1)|[(Hv & _)|(Hv & _)]]; [congruence|auto|auto]. }
        assert (G' : [] = @nil Z /\ forall th' x', nth_error (set_th ths p th1) p = Some th' ->
                                                 t_pc th' = PInCbB k x' -> x' = s_val s1).
        { split; [reflexivity|]. intros th' x' Hth' Hx'.
          rewrite (nth_set_th_same _ _ _ _ Ht) in Hth'. inversion Hth'; subst th'. apply G. exact Hx'. }
        rewrite HJ.
        destruct (t_pc th) as [ | pl | pl | v rest | v k1 rest | e rest | e rest | e rest | e k1 rest | k1 x1 | k1 | ] eqn:Epc;
          try (left; exact G').
        destruct (Nat.eqb k1 k) eqn:Ekk; [|left; exact G']. apply Nat.eqb_eq in Ekk. subst k1.
        right. destruct (F_from_incbB _ _ _ _ _ _ _ _ Hm Epc) as [Hp1 Hv]. split.
        -- exists th1. split; [eapply nth_set_th_same; eauto|exact Hp1].
        -- intros x0 [<-|[]]. rewrite (Hx _ _ Ht Epc). rewrite HB, app_nil_r.
           specialize (HR _ Ht). unfold pc_ok in Hpc. rewrite Epc in Hpc. cbn in Hpc. destruct Hpc as (r & Hr).
           rewrite Hr in HR. exact HR.
      * destruct (HO _ _ Ht Hne) as [Hpi Hq]. destruct (F_quiet _ _ _ _ _ _ Hm Hpi Hq) as (_ & _ & Hv & _).
        left. rewrite HJ, Hpi. split; [reflexivity|]. intros th' x' Hth' Hx'.
        rewrite nth_set_th_other in Hth' by exact Hne. rewrite Hv. eapply Hx; eauto.
  - (* handed a value, about to be pushed into the chamber *)
    assert (Hsp : In k (subs thp)).
    { pose proof (c_pcok _ _ HC _ _ Hthp) as Hp'. unfold pc_ok in Hp'. rewrite Hpcp in Hp'. cbn in Hp'.
      destruct Hp' as (r & Hr). unfold subs. rewrite Hr. left. reflexivity. }
    destruct (Nat.eq_dec t p) as [->|Hne].
    + (* the subscription completes: from now on the probe is a full-time probe *)
      assert (thp = th) by congruence. subst thp. clear Hthp.
      destruct (F_from_subcham _ _ _ _ _ _ _ Hm Hpcp) as [Hth1 Ho].
      assert (HBB : BB = []) by (rewrite HB, Hpcp; reflexivity).
      assert (HJJ : JJ = []) by (rewrite HJ, Hpcp; reflexivity).
      rewrite HBB, HJJ in *. rewrite !app_nil_r in *.
      destruct HCI' as (HF' & HO' & HN' & _).
      destruct HF' as (((HC' & HSt' & HOb' & HPe' & _) & HS0' & _) & _).
      assert (Hidle : forall i th', nth_error (set_th ths p th1) i = Some th' -> t_pc th' = PIdle).
      { intros i th' Hi. destruct (nth_set_th_inv _ _ _ _ _ _ Ht Hi) as [[-> ->]|[Hni Hi']].
        - rewrite Hth1. reflexivity.
        - apply (HO _ _ Hi' Hni). }
      right. left. exists L, []. split; [rewrite app_nil_r; reflexivity|]. split.
      { split; [split; [exact HC'|split; [exact HSt'|split; [exact HOb'|split; [exact HPe'|apply CO_nil]]]]|].
        split; [|split].
        - constructor.
          + eapply F_sub_KIn; [exact Hm| |apply HC]. unfold sub_now. rewrite Hpcp. reflexivity.
          + exact (si_tloc _ _ _ HS0').
          + exact HN'.
          + intros i th' Hi Hp'. rewrite (Hidle _ _ Hi) in Hp'. discriminate.
          + intros i th' Hi Hp'. rewrite (Hidle _ _ Hi) in Hp'. discriminate.
        - intros i th' Hi Hp'. rewrite (Hidle _ _ Hi) in Hp'. discriminate.
        - left. reflexivity. }
      split; [cbn; rewrite app_nil_r; reflexivity|]. split; [|split; [exact Hbk|exact Hev]].
      intros th' j Hth' Hin. rewrite (nth_set_th_same _ _ _ _ Ht) in Hth'. inversion Hth'; subst th'.
      rewrite Hth1. cbn [op_done t_idx]. destruct (proj2 HCO _ _ Ht) as (C1 & _). specialize (C1 _ Hin). lia.
    + (* another thread moves *)
      destruct (HO _ _ Ht Hne) as [Hpi Hq].
      assert (Ek1 : cell_known s1 k = false).
      { rewrite Hk1. destruct (sub_now th) as [k'|] eqn:Es; [|reflexivity].
        destruct (Nat.eqb k' k) eqn:E; [|reflexivity]. apply Nat.eqb_eq in E. subst k'. exfalso.
        apply Hne. eapply (c_disj _ _ HC t p th thp k); eauto. apply sub_now_in; auto. }
      left. split; [exact Ek1|]. split; [exact Hbk'|]. right. split.
      * exists thp. split; [rewrite nth_set_th_other by exact Hne; exact Hthp|exact Hpcp].
      * rewrite HJ, HB, Hpi, !app_nil_r. exact Hev.
Qed.

Definition JInv2 (a : list bent * list Z) (s : ish) (ths : list ithread) : Prop :=
  CInv (fst a) s ths /\ (Ph01 (fst a) (snd a) s ths \/ Ph2 (fst a) (snd a) s ths \/ Ph3 (snd a) s).

Lemma JInv2_step a s ths t th s1 th1 o :
  JInv2 a s ths -> ienabled s ths t = true -> nth_error ths t = Some th -> imove s t th = (s1, th1, o) ->
  exists a', walks jstep a o = Some a' /\ JInv2 a' s1 (set_th ths t th1).
Proof.
  intros [HCI HP] He Ht Hm. rewrite walks_jstep. eexists. split; [reflexivity|]. cbn [fst snd].
  pose proof (CInv_step _ _ _ _ _ _ _ _ HCI He Ht Hm) as HCI'. split; [exact HCI'|].
  destruct HP as [HP|[HP|HP]].
  - exact (Ph01_step _ _ _ _ _ _ _ _ _ HCI HCI' HP Ht Hm).
  - right; left. exact (Ph2_step _ _ _ _ _ _ _ _ _ HCI HP He Ht Hm).
  - right; right. exact (Ph3_step _ _ _ _ _ _ _ _ _ HCI HP Ht Hm).
Qed.

Lemma JInv2_irun sched a s ths s' ths' tr :
  JInv2 a s ths -> irun s ths sched = (s', ths', tr) ->
  JInv2 (fst a ++ bcasts scripts tr, snd a ++ flat_map jev tr) s' ths'.
Proof.
  intros HI Hr.
  destruct (irun_walks jstep JInv2 JInv2_step sched a s ths s' ths' tr HI Hr) as (a' & Hw & HI').
  rewrite walks_jstep in Hw. inversion Hw; subst a'. exact HI'.
Qed.

(* when every thread has returned: what the joiner saw is the part of the global order after the
   broadcast whose value it was handed *)
Lemma joiner_end L evs s ths x0 :
  JInv2 (L, evs) s ths -> ifinished ths = true -> In x0 evs ->
  existsb (fun n => list_bid_eqb (skipn n (ordL L)) (bidsL L k) && lv (firstn n (ordL L)) x0)
          (seq 0 (S (length (ordL L)))) = true.
Proof.
  intros [_ HP] Hf Hx0. cbn [fst snd] in HP. destruct HP as [(_ & _ & Hd)|[HP|[_ ->]]]; [| |destruct Hx0].
  - exfalso. destruct Hd as [[-> _]|[(thp & Hthp & Hpc) _]]; [destruct Hx0|].
    unfold ifinished in Hf. rewrite forallb_forall in Hf. specialize (Hf _ (nth_error_In _ _ Hthp)).
    rewrite Hpc in Hf. discriminate.
  - destruct HP as (B1 & B2 & -> & HFT & Hord & _ & Hbk & Hev).
    destruct HFT as (_ & _ & _ & HP2).
    assert (HB2 : bidsL B2 k = ordL B2).
    { destruct HP2 as [HP2|(t & th & Ht & Hd & _)]; [exact HP2|exfalso].
      pose proof (finished_quiet _ Hf) as Hq. rewrite forallb_forall in Hq.
      specialize (Hq _ (nth_error_In _ _ Ht)). rewrite Hd in Hq. discriminate. }
    apply existsb_exists. exists (length (ordL B1)). split.
    + apply in_seq. rewrite Hord, app_length. lia.
    + rewrite Hord, skipn_len_app, firstn_len_app.
      assert (bidsL (B1 ++ B2) k = ordL B2) as ->.
      { unfold bidsL in *. rewrite flat_map_app, Hbk, HB2. reflexivity. }
      rewrite list_bid_eqb_refl. cbn [andb]. apply Hev. exact Hx0.
Qed.

End JoinP.

(* C12, joiner clause: it holds for every schedule when the subscribers that join are subscribed by
   the thread that calls next (so that `next` and `subscribe` never overlap), the other threads only
   subscribe plainly / unsubscribe / peek, and nobody calls the inner subject's plain next *)
Theorem il_joiner_with_producer v0 setup scripts sched :
  names_ok setup scripts = true -> setup_completes v0 setup = true -> joiners_with_producer scripts = true ->
  let '(tr, e, fin) := run_case v0 setup scripts sched in joiner_ok v0 setup scripts tr e = true.
Proof.
  intros Hn Hc Hj. rewrite run_case_eq. cbv zeta.
  destruct (irun _ _ sched) as [[s ths] tr] eqn:Er.
  unfold joiner_ok. destruct (ifinished ths) eqn:Ef.
  2:{ destruct (istuck s ths); reflexivity. }
  destruct (full_time setup scripts) as [|k0 ft] eqn:Eft; [reflexivity|].
  destruct (has_term (setup ++ concat scripts)) eqn:Eh; [reflexivity|]. cbn [orb].
  assert (Hk0 : In k0 (full_time setup scripts)) by (rewrite Eft; left; reflexivity).
  apply forallb_forall. intros ev Hev. destruct ev as [ | k [x0|e] t j | | | | ]; try reflexivity.
  destruct (is_initial scripts (t, j)) eqn:Ei; [|reflexivity].
  destruct (imem k (unsubscribed_in (concat scripts))) eqn:Eu; [reflexivity|]. cbn [negb andb].
  apply imem_false in Eu.
  unfold joiners_with_producer in Hj. apply andb_true_iff in Hj. destruct Hj as [Hj1 Hj2].
  destruct (at_most_one_ex _ _ Hj1) as (p & Hp).
  assert (Hnn : forall sc x, In sc scripts -> In x sc -> not_plain_next x = true).
  { intros sc x Hsc Hx. rewrite forallb_forall in Hj2. specialize (Hj2 sc Hsc).
    rewrite forallb_forall in Hj2. apply Hj2. exact Hx. }
  set (SV := setup_value v0 setup).
  set (s0 := run_alone 1000 (ish0 v0) (start_thread setup)) in *.
  assert (HI0 : JInv2 scripts SV p k0 k ([], []) s0 (map start_thread scripts)).
  { split; cbn [fst snd].
    - split; [apply FT2_init; auto|]. split; [|split].
      + intros i th Hi Hne. apply nth_map_start in Hi. destruct Hi as (sc & Hsc & ->).
        split; [reflexivity|]. cbn. specialize (Hp _ _ Hsc Hne). apply negb_false_iff in Hp.
        rewrite forallb_forall in Hp. exact Hp.
      + intros i th Hi Hin. apply nth_map_start in Hi. destruct Hi as (sc & Hsc & ->). cbn in Hin.
        apply Eu. apply unsub_in. apply in_concat. exists sc. split; [eapply nth_error_In; eauto|exact Hin].
      + intros th Hth. apply nth_map_start in Hth. destruct Hth as (sc & Hsc & ->).
        apply RelP_intro.
        * intros v r Hr. cbn in Hr. subst sc.
          pose proof (Hnn _ (INext v) (nth_error_In _ _ Hsc) (or_introl eq_refl)) as H. discriminate H.
        * change (Z.eqb (s_val s0) SV = true). unfold s0. rewrite (val_after_setup _ _ Hc). apply Z.eqb_refl.
    - destruct (cell_known s0 k) eqn:Ek.
      + right. right. split; [exact Ek|reflexivity].
      + left. split; [exact Ek|]. split; [reflexivity|]. left. split; [reflexivity|].
        intros th x Hth Hpc. apply nth_map_start in Hth. destruct Hth as (sc & _ & ->). discriminate Hpc. }
  pose proof (JInv2_irun scripts SV p k0 k Hnn sched _ _ _ _ _ _ HI0 Er) as HI. cbn [fst snd app] in HI.
  assert (Hx0 : In x0 (flat_map (jev scripts k) tr)).
  { apply in_flat_map. exists (TEv k (YItem x0) t j). split; [exact Hev|]. cbn. rewrite Ei, Nat.eqb_refl.
    left. reflexivity. }
  pose proof (joiner_end scripts SV p k0 k _ _ _ _ _ HI Ef Hx0) as H.
  rewrite bids_of_L, order_L. exact H.
Qed.

(* the hypothesis of il_joiner_with_producer is needed: the schedule of Props/C12.v (the subscriber
   joins from another thread, between the store and the broadcast of a next) *)
Example joiner_needs_same_thread :
  (let '(tr, e, fin) := run_case 0%Z [IBSub 0] [[IBNext 1%Z]; [IBSub 1]]
                                 ([1; 1; 0; 0; 0; 0; 0; 0; 0] ++ flat_map (fun _ => [0; 1]) (seq 0 20)) in
   (names_ok [IBSub 0] [[IBNext 1%Z]; [IBSub 1]], setup_completes 0%Z [IBSub 0],
    joiners_with_producer [[IBNext 1%Z]; [IBSub 1]], e, joiner_ok 0%Z [IBSub 0] [[IBNext 1%Z]; [IBSub 1]] tr e))
  = (true, true, false, EFinished, false).
Proof. vm_compute. reflexivity. Qed.

(* ... and a plain next of the inner subject in the producer's own script breaks it too *)
Example joiner_needs_no_plain_next :
  (let '(tr, e, fin) := run_case 0%Z [IBSub 0] [[INext 1%Z; IBSub 5]] (repeat 0 50) in
   (names_ok [IBSub 0] [[INext 1%Z; IBSub 5]], setup_completes 0%Z [IBSub 0],
    joiners_with_producer [[INext 1%Z; IBSub 5]], e, joiner_ok 0%Z [IBSub 0] [[INext 1%Z; IBSub 5]] tr e))
  = (true, true, false, EFinished, false).
Proof. vm_compute. reflexivity. Qed.

(* a non-trivial case that satisfies the hypotheses: the producer thread calls next four times and
   subscribes four joiners in between (one of them before its first next, one unsubscribed again),
   two other threads subscribe / peek / unsubscribe concurrently (also a full-time probe and one of
   the joiners) *)
Definition jp_setup : list iop := [IBSub 0; IBNext 3%Z; ISub 4].
Definition jp_scripts : list (list iop) :=
  [[IBSub 9; IBNext 1%Z; IBSub 5; ISub 10; IBNext 2%Z; IBSub 6; IUnsub 6; IBNext 7%Z; IBSub 7; IBNext 8%Z];
   [ISub 1; IBPeek; IUnsub 1; ISub 2; IUnsub 4];
   [ISub 8; IBPeek; IUnsub 8; IUnsub 5; IUnsub 10]].
Definition jp_sched : list nat :=
  [0;1;2;0;1;2;2;0;0;1;1;2;0;1;0;2;0;0;0;1;1;1;2;2;2;0;0;0;0;2;0;0;1;0;0;0] ++ concat (repeat [0;0;0;1;2] 60).

Example joiner_producer_hyps_satisfiable :
  (let '(tr, e, fin) := run_case 0%Z jp_setup jp_scripts jp_sched in
   (names_ok jp_setup jp_scripts, setup_completes 0%Z jp_setup, joiners_with_producer jp_scripts,
    single_producer jp_setup jp_scripts, full_time jp_setup jp_scripts, e, order jp_scripts tr,
    (bids_of jp_scripts tr 9, bids_of jp_scripts tr 7), fin,
    joiner_ok 0%Z jp_setup jp_scripts tr e, latest_ok 0%Z jp_setup jp_scripts tr e fin))
  = (true, true, true, true, [0], EFinished, [(0, 1); (0, 4); (0, 7); (0, 9)],
     ([(0, 1); (0, 4); (0, 7); (0, 9)], [(0, 9)]), 8%Z, true, true).
Proof. vm_compute. reflexivity. Qed.

Print Assumptions il_latest_single_producer.
Print Assumptions il_final_value_single_producer.
Print Assumptions il_joiner_no_next.
Print Assumptions il_joiner_with_producer.
