From RxModel Require Import GroupBy.
From RxSpec Require Import GroupBySpec.
From RxProofs Require Import ValEq.

Lemma mem_app v a b : mem v (a ++ b) = mem v a || mem v b.
Proof. apply existsb_app. Qed.

Lemma mem_single v k : mem v [k] = val_eqb v k.
Proof. cbn. apply Bool.orb_false_r. Qed.

Lemma mem_cons v a l : mem v (a :: l) = val_eqb v a || mem v l.
Proof. reflexivity. Qed.

(* membership only matters up to the set of elements *)
Lemma first_keys_perm key s1 s2 items :
  (forall x, mem x s1 = mem x s2) -> first_keys key s1 items = first_keys key s2 items.
Proof.
  revert s1 s2. induction items as [|v r IH]; intros s1 s2 H; [reflexivity|].
  cbn [first_keys]. rewrite (H (key v)). destruct (mem (key v) s2); [apply IH, H|].
  f_equal. apply IH. intros x. rewrite !mem_cons, H. reflexivity.
Qed.

Lemma NoDup_snoc (l : list val) x : NoDup l -> ~ In x l -> NoDup (l ++ [x]).
Proof.
  induction 1 as [|y l Hy Hl IH]; intros Hx; cbn.
  - constructor; [intros []|constructor].
  - constructor.
    + intros Hin. apply in_app_or in Hin. destruct Hin as [Hin|[<-|[]]]; [contradiction|]. apply Hx. left. reflexivity.
    + apply IH. intros Hin. apply Hx. right. exact Hin.
Qed.

Section G.
  Variable key : val -> val.

  (* one group announced per distinct key, in order of first appearance *)
  Lemma announced_gen subjects items t :
    announced (grun key subjects (mk items t)) = first_keys key subjects items.
  Proof.
    revert subjects. induction items as [|v r IH]; intros subjects.
    - destruct t; cbn; rewrite ?app_nil_r; try reflexivity;
        induction subjects as [|k l IHl]; cbn in *; auto.
    - change (mk (v :: r) t) with (Next v :: mk r t). cbn [grun gstep is_term first_keys].
      destruct (mem (key v) subjects) eqn:E; cbn [app announced flat_map].
      + apply IH.
      + f_equal. rewrite IH. apply first_keys_perm. intros x. rewrite mem_app, mem_single, mem_cons.
        apply Bool.orb_comm.
  Qed.

  (* every item is delivered exactly once, in source order: flattening the groups gives the source *)
  Lemma flattened_gen subjects items t :
    flattened (grun key subjects (mk items t)) = items.
  Proof.
    revert subjects. induction items as [|v r IH]; intros subjects.
    - destruct t; cbn; rewrite ?app_nil_r; try reflexivity;
        induction subjects as [|k l IHl]; cbn in *; auto.
    - change (mk (v :: r) t) with (Next v :: mk r t). cbn [grun gstep is_term].
      destruct (mem (key v) subjects); cbn [app flattened flat_map]; f_equal; apply IH.
  Qed.

  Lemma group_trace_terms k subjects e :
    group_trace k (map (fun k' => GTerm k' e) subjects ++ [OuterTerm e]) =
    flat_map (fun k' => if val_eqb k' k then [e] else []) subjects.
  Proof.
    induction subjects as [|k' l IH]; [reflexivity|]. cbn. rewrite <- IH. reflexivity.
  Qed.

  (* the group of key k gets exactly the items of its key, in order, then the terminal once
     (subjects holds each key once: NoDup) *)
  Lemma count_once k subjects (e : ev) :
    NoDup subjects ->
    flat_map (fun k' => if val_eqb k' k then [e] else []) subjects = if mem k subjects then [e] else [].
  Proof.
    induction 1 as [|x l Hx Hl IH]; [reflexivity|]. cbn.
    rewrite (val_eqb_sym k x). destruct (val_eqb_spec x k) as [->|Hn]; cbn.
    - rewrite IH. destruct (mem k l) eqn:E; [|reflexivity]. apply mem_In in E. contradiction.
    - exact IH.
  Qed.

  Lemma group_trace_gen k subjects items t :
    NoDup subjects ->
    group_trace k (grun key subjects (mk items t)) =
    map Next (filter (fun v => val_eqb (key v) k) items) ++
    (if mem k (subjects ++ map key items) then term_evs t else []).
  Proof.
    revert subjects. induction items as [|v r IH]; intros subjects ND.
    - cbn [filter map app]. rewrite app_nil_r. destruct t; cbn [mk map app term_evs grun gstep is_term].
      + destruct (mem k subjects); reflexivity.
      + rewrite app_nil_r, group_trace_terms. apply count_once, ND.
      + rewrite app_nil_r, group_trace_terms. apply count_once, ND.
    - change (mk (v :: r) t) with (Next v :: mk r t). cbn [grun gstep is_term filter map].
      destruct (mem (key v) subjects) eqn:E.
      + cbn [app group_trace flat_map]. fold (group_trace k (grun key subjects (mk r t))).
        rewrite IH by exact ND.
        assert (Hm : mem k (subjects ++ map key (v :: r)) = mem k (subjects ++ map key r)).
        { rewrite !mem_app. cbn [map]. rewrite mem_cons.
          destruct (val_eqb_spec k (key v)) as [->|]; [rewrite E; reflexivity|reflexivity]. }
        cbn [map] in Hm. rewrite Hm. destruct (val_eqb (key v) k); reflexivity.
      + cbn [app group_trace flat_map]. fold (group_trace k (grun key (subjects ++ [key v]) (mk r t))).
        assert (ND' : NoDup (subjects ++ [key v])).
        { apply NoDup_snoc; [exact ND|]. intros Hin. apply mem_In in Hin. congruence. }
        rewrite IH by exact ND'.
        rewrite <- app_assoc. cbn [app map].
        destruct (val_eqb (key v) k); reflexivity.
  Qed.
  Lemma outer_term_gen subjects items t :
    outer_term (grun key subjects (mk items t)) = term_evs t.
  Proof.
    revert subjects. induction items as [|v r IH]; intros subjects.
    - destruct t; cbn; rewrite ?app_nil_r; try reflexivity;
        induction subjects as [|k l IHl]; cbn in *; auto.
    - change (mk (v :: r) t) with (Next v :: mk r t). cbn [grun gstep is_term].
      destruct (mem (key v) subjects); cbn [app outer_term flat_map]; apply IH.
  Qed.

  Lemma announced_first_terms seen subjects e :
    (forall x, mem x subjects = true -> mem x seen = true) ->
    announced_first seen (map (fun k => GTerm k e) subjects ++ [OuterTerm e]) = true.
  Proof.
    induction subjects as [|k l IH]; intros H; [reflexivity|].
    cbn [map app announced_first]. rewrite (H k) by (rewrite mem_cons, val_eqb_refl; reflexivity).
    apply IH. intros x Hx. apply H. rewrite mem_cons, Hx. apply Bool.orb_true_r.
  Qed.

  (* a group is announced before anything is delivered through it *)
  Lemma announced_first_gen seen subjects items t :
    (forall x, mem x subjects = true -> mem x seen = true) ->
    announced_first seen (grun key subjects (mk items t)) = true.
  Proof.
    revert seen subjects. induction items as [|v r IH]; intros seen subjects H.
    - destruct t; cbn [mk map app term_evs grun gstep is_term]; rewrite ?app_nil_r;
        [reflexivity|apply announced_first_terms, H|apply announced_first_terms, H].
    - change (mk (v :: r) t) with (Next v :: mk r t). cbn [grun gstep is_term].
      destruct (mem (key v) subjects) eqn:E; cbn [app announced_first].
      + rewrite (H _ E). apply IH, H.
      + rewrite mem_cons, val_eqb_refl. cbn [orb andb]. apply IH.
        intros x Hx. rewrite mem_app, mem_single in Hx. rewrite mem_cons.
        apply Bool.orb_true_iff in Hx. destruct Hx as [Hx| ->]; [rewrite (H _ Hx); apply Bool.orb_true_r|reflexivity].
  Qed.
End G.

(* ---- statements about a whole subscription (no group exists at the start) ---- *)

Theorem group_by_announces key items t :
  announced (run_group_by key (mk items t)) = first_keys key [] items.
Proof. apply announced_gen. Qed.

Theorem group_by_group_trace key k items t :
  group_trace k (run_group_by key (mk items t)) =
  map Next (filter (fun v => val_eqb (key v) k) items) ++
  (if mem k (map key items) then term_evs t else []).
Proof. unfold run_group_by. rewrite group_trace_gen by constructor. reflexivity. Qed.

Theorem group_by_flatten key items t : flattened (run_group_by key (mk items t)) = items.
Proof. apply flattened_gen. Qed.

Theorem group_by_outer_term key items t : outer_term (run_group_by key (mk items t)) = term_evs t.
Proof. apply outer_term_gen. Qed.

Theorem group_by_announced_first key items t :
  announced_first [] (run_group_by key (mk items t)) = true.
Proof. apply announced_first_gen. intros x Hx. discriminate. Qed.

