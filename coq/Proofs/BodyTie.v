(* The method bodies of the crate's single-input observers, as translated from /repo/src on this run
   (Gen/Bodies.v, translator T5) and given meaning by Model/RustSem.v, do exactly what the hand-written
   machines of Model/Ops1.v do: for every state, every item and every error value. *)
From RxModel Require Import BodyAbs.
From RxGen Require Import Bodies.
Open Scope string_scope.
Open Scope list_scope.

(* symbolic evaluation: everything is computed except arithmetic and comparisons on symbolic data *)
Ltac ev := lazy -[u_ltb u_leb u_eqb u_add u_sub u_len item_eqb Nat.ltb Nat.eqb Nat.leb val_eqb mem trim emit_buf
                  app map length existsb hd_error tl].

(* the same, computing the list functions as well (for states whose list has been taken apart) *)
Ltac ev_lists := lazy -[u_ltb u_leb u_eqb u_add u_sub u_len item_eqb Nat.ltb Nat.eqb Nat.leb val_eqb mem trim emit_buf].

Ltac fold_arith :=
  repeat match goal with
         | |- context [u_add ?x 1] => change (u_add x 1) with (x + 1)%nat; rewrite (Nat.add_1_r x)
         end;
  change u_ltb with Nat.ltb in *; change u_leb with Nat.leb in *; change u_eqb with Nat.eqb in *;
  change u_add with Nat.add in *; change u_sub with Nat.sub in *; change item_eqb with val_eqb in *.

Ltac split_if :=
  match goal with
  | |- context [if ?c then _ else _] =>
      lazymatch c with
      | context [if _ then _ else _] => fail
      | context [match _ with _ => _ end] => fail
      | _ => idtac
      end;
      let E := fresh "E" in destruct c eqn:E
  end.

Ltac absurd_negb :=
  match goal with Hn : negb _ = _ |- _ => exfalso; cbv [negb] in Hn; discriminate Hn end.

Ltac tie := ev; fold_arith; repeat (split_if; ev; fold_arith); cbn [app]; first [reflexivity | absurd_negb | idtac].

(* ---- the evaluator's own concatenation; `for` loops *)
(* ---- next *)
Ltac start_next :=
  let st := fresh "st" in let v := fresh "v" in let self := fresh "self" in let H := fresh "H" in
  intros st v self H _; destruct st; try discriminate H;
  repeat match goal with b : bool |- _ => destruct b end;
  injection H as <-.

Lemma next_map f : next_agrees bodies (OMap f). Proof. start_next; tie. Qed.
Lemma next_map_to c : next_agrees bodies (OMapTo c). Proof. start_next; tie. Qed.
Lemma next_filter p : next_agrees bodies (OFilter p). Proof. start_next; tie. Qed.
Lemma next_filter_map f : next_agrees bodies (OFilterMap f). Proof. start_next. ev. destruct (f v); reflexivity. Qed.
Lemma next_tap : next_agrees bodies OTap. Proof. start_next; tie. Qed.
Lemma next_on_error_map g : next_agrees bodies (OOnErrorMap g). Proof. start_next; tie. Qed.
Lemma next_take n : next_agrees bodies (OTake n). Proof. start_next; tie. Qed.
Lemma next_skip n : next_agrees bodies (OSkip n). Proof. start_next; tie. Qed.
Lemma next_take_while p i : next_agrees bodies (OTakeWhile p i). Proof. destruct i; start_next; tie. Qed.
Lemma next_skip_while p : next_agrees bodies (OSkipWhile p). Proof. start_next; tie. Qed.
Lemma next_scan f i : next_agrees bodies (OScan f i). Proof. start_next; tie. Qed.
Lemma next_default_if_empty d : next_agrees bodies (ODefaultIfEmpty d). Proof. start_next; tie. Qed.
Lemma next_contains t : next_agrees bodies (OContains t). Proof. start_next; tie. Qed.
Lemma next_last : next_agrees bodies OLast. Proof. start_next; tie. Qed.
Lemma next_collect : next_agrees bodies OCollect. Proof. start_next; tie. Qed.
Lemma next_distinct : next_agrees bodies ODistinct. Proof. start_next; tie. Qed.
Lemma next_distinct_key k : next_agrees bodies (ODistinctKey k). Proof. start_next; tie. Qed.
Lemma next_duc : next_agrees bodies ODistinctUntilChanged. Proof. start_next. destruct o; tie. Qed.
Lemma next_dukc k : next_agrees bodies (ODistinctUntilKeyChanged k). Proof. start_next. destruct o; tie. Qed.
Lemma next_pairwise : next_agrees bodies OPairwise. Proof. start_next. destruct a, b; tie. Qed.
Lemma next_skip_last n : next_agrees bodies (OSkipLast n).
Proof.
  start_next. destruct count_down; [destruct q|].
  - ev_lists; fold_arith; reflexivity.
  - ev_lists; fold_arith; reflexivity.
  - lazy -[app Nat.sub]. replace (S count_down - 1)%nat with count_down by lia. reflexivity.
Qed.
Lemma next_buffer_count n : next_agrees bodies (OBufferCount n). Proof. start_next; tie. Qed.

Lemma trim_once n (l : list val) : (length (tl l) <= n)%nat -> trim n l = if (n <? length l)%nat then tl l else l.
Proof.
  intros H. destruct l as [|x l]; [cbn; destruct n; reflexivity|].
  cbn [tl] in *. unfold trim; fold trim.
  destruct (Nat.leb_spec (length (x :: l)) n) as [L|L]; destruct (Nat.ltb_spec n (length (x :: l))) as [M|M]; try lia; try reflexivity.
  destruct l as [|y l]; [destruct n; reflexivity|]. unfold trim; fold trim.
  destruct (Nat.leb_spec (length (y :: l)) n); [reflexivity | lia].
Qed.
Lemma next_take_last n : next_agrees bodies (OTakeLast n).
Proof.
  intros st v self H I. destruct st; try discriminate H. injection H as <-. cbn [inv1] in I.
  assert (L : (length (tl (q ++ [v])) <= n)%nat).
  { destruct q; cbn [app tl length] in *; [lia | rewrite app_length; cbn [length]; lia]. }
  ev. fold_arith. rewrite (trim_once n _ L).
  destruct (n <? length (q ++ [v]))%nat eqn:E; [|reflexivity].
  assert (E2 : (n <? length (tl (q ++ [v])))%nat = false) by (apply Nat.ltb_ge; exact L).
  rewrite E2. reflexivity.
Qed.

Ltac start_term :=
  let st := fresh "st" in let self := fresh "self" in let H := fresh "H" in
  intros st self H _; destruct st; try discriminate H;
  repeat match goal with b : bool |- _ => destruct b end;
  injection H as <-; (split; [|intros e]).
Lemma term_map f : terminal_agrees bodies (OMap f). Proof. start_term; tie. Qed.
Lemma term_map_to c : terminal_agrees bodies (OMapTo c). Proof. start_term; tie. Qed.
Lemma term_filter p : terminal_agrees bodies (OFilter p). Proof. start_term; tie. Qed.
Lemma term_filter_map f : terminal_agrees bodies (OFilterMap f). Proof. start_term; tie. Qed.
Lemma term_tap : terminal_agrees bodies OTap. Proof. start_term; tie. Qed.
Lemma term_on_error_map g : terminal_agrees bodies (OOnErrorMap g). Proof. start_term; tie. Qed.
Lemma term_take n : terminal_agrees bodies (OTake n). Proof. start_term; tie. Qed.
Lemma term_skip n : terminal_agrees bodies (OSkip n). Proof. start_term; tie. Qed.
Lemma term_take_while p i : terminal_agrees bodies (OTakeWhile p i). Proof. destruct i; start_term; tie. Qed.
Lemma term_skip_while p : terminal_agrees bodies (OSkipWhile p). Proof. start_term; tie. Qed.
Lemma term_scan f i : terminal_agrees bodies (OScan f i). Proof. start_term; tie. Qed.
Lemma term_default_if_empty d : terminal_agrees bodies (ODefaultIfEmpty d). Proof. start_term; tie. Qed.
Lemma term_contains t : terminal_agrees bodies (OContains t). Proof. start_term; tie. Qed.
Lemma term_last : terminal_agrees bodies OLast. Proof. start_term; try destruct o; tie. Qed.
Lemma term_collect : terminal_agrees bodies OCollect. Proof. start_term; tie. Qed.
Lemma term_distinct : terminal_agrees bodies ODistinct. Proof. start_term; tie. Qed.
Lemma term_distinct_key k : terminal_agrees bodies (ODistinctKey k). Proof. start_term; tie. Qed.
Lemma term_duc : terminal_agrees bodies ODistinctUntilChanged. Proof. start_term; tie. Qed.
Lemma term_dukc k : terminal_agrees bodies (ODistinctUntilKeyChanged k). Proof. start_term; tie. Qed.
Lemma term_pairwise : terminal_agrees bodies OPairwise. Proof. start_term; tie. Qed.
Lemma term_skip_last n : terminal_agrees bodies (OSkipLast n). Proof. start_term; tie. Qed.
Lemma term_buffer_count n : terminal_agrees bodies (OBufferCount n). 
Proof. start_term; try destruct q; tie. Qed.
Lemma term_take_last n : terminal_agrees bodies (OTakeLast n).
Proof. start_term; tie. Qed.
(* concrete check that the direct meaning of the loop is what the general loop computes *)
Example emit_loop_same :
  call_method bodies "ops/take_last.rs" FUEL "TakeLastObserver" "complete"
    (VStruct "TakeLastObserver" [("observer", VObs); ("count", VNat 3); ("queue", VItems [VZ 1; VZ 2; VZ 3])]) []
  = Some (VStruct "TakeLastObserver" [("observer", VObs); ("count", VNat 3); ("queue", VItems [])], [Next (VZ 1); Next (VZ 2); Next (VZ 3); Done], VUnit).
Proof. vm_compute. reflexivity. Qed.

(* ---- actual_subscribe builds the initial state and hands it to the source *)
Lemma init_all o : init_agrees bodies o.
Proof. destruct o; try (lazy; reflexivity). lazy -[app map]. cbn [app]. rewrite app_nil_r. reflexivity. Qed.

(* ---- the invariant is one *)
Lemma trim_length n (l : list val) : (length (trim n l) <= n)%nat.
Proof.
  induction l as [|x l IH]; unfold trim; fold trim.
  - destruct (Nat.leb_spec (length (@nil val)) n); cbn [length] in *; lia.
  - destruct (Nat.leb_spec (length (x :: l)) n); [assumption | exact IH].
Qed.

Lemma inv1_init o : inv1 o (init1 o).
Proof. destruct o; cbn; auto; lia. Qed.

Lemma inv1_step o st e : inv1 o st -> inv1 o (fst (step1 o st e)).
Proof.
  destruct o; try (intros _; exact I).
  destruct st; cbn [inv1 step1 fst]; auto. destruct e; cbn [fst inv1]; intros H; try assumption.
  - apply trim_length.
  - cbn [length]. lia.
Qed.

(* ---- all operators *)
Theorem next_all o : next_agrees bodies o.
Proof.
  destruct o; first
    [ apply next_map | apply next_map_to | apply next_filter | apply next_filter_map | apply next_tap | apply next_on_error_map
    | apply next_take | apply next_skip | apply next_take_while | apply next_skip_while | apply next_take_last | apply next_skip_last
    | apply next_last | apply next_scan | apply next_default_if_empty | apply next_distinct | apply next_distinct_key | apply next_duc
    | apply next_dukc | apply next_pairwise | apply next_buffer_count | apply next_contains | apply next_collect
    | intros st v self H; destruct st; discriminate H ].
Qed.

Theorem terminal_all o : terminal_agrees bodies o.
Proof.
  destruct o; first
    [ apply term_map | apply term_map_to | apply term_filter | apply term_filter_map | apply term_tap | apply term_on_error_map
    | apply term_take | apply term_skip | apply term_take_while | apply term_skip_while | apply term_take_last | apply term_skip_last
    | apply term_last | apply term_scan | apply term_default_if_empty | apply term_distinct | apply term_distinct_key | apply term_duc
    | apply term_dukc | apply term_pairwise | apply term_buffer_count | apply term_contains | apply term_collect
    | intros st self H; destruct st; discriminate H ].
Qed.

(* ---- whole scripts: the translated source computes run1 / run_op *)
Theorem src_run_agrees o : forall s st self,
  abs1 o st = Some self -> inv1 o st -> src_run bodies o self s = Some (run1 o st s).
Proof.
  induction s as [|e s IH]; intros st self Ha Hi; [reflexivity|].
  destruct e as [v|x|]; cbn [src_run run1 is_term].
  - pose proof (next_all o st v self Ha Hi) as Hn.
    destruct (step1 o st (Next v)) as [st' out] eqn:Es. cbn [fst snd] in Hn.
    destruct (abs1 o st') as [self'|] eqn:Ha'; [|contradiction].
    rewrite Hn. rewrite (IH st' self' Ha').
    + reflexivity.
    + pose proof (inv1_step o st (Next v) Hi) as Hs. rewrite Es in Hs. exact Hs.
  - destruct (terminal_all o st self Ha Hi) as [_ He]. rewrite (He x).
    destruct (step1 o st (Err x)) as [st' out]. cbn [snd]. rewrite app_nil_r. reflexivity.
  - destruct (terminal_all o st self Ha Hi) as [Hc _]. rewrite Hc.
    destruct (step1 o st Done) as [st' out]. cbn [snd]. rewrite app_nil_r. reflexivity.
Qed.

Theorem src_run_op_agrees o s : src_run_op bodies o s = Some (run_op o s).
Proof.
  unfold src_run_op, run_op. pose proof (init_all o) as Hi. unfold init_agrees in Hi.
  destruct (abs1 o (init1 o)) as [self0|] eqn:Ha.
  - rewrite Hi. pose proof (src_run_agrees o s (init1 o) self0 Ha (inv1_init o)) as Hr.
    assert (Hne : self0 <> VObs) by (destruct o; cbn in Ha; try discriminate Ha; injection Ha as <-; discriminate).
    destruct self0; try (rewrite Hr; reflexivity). contradiction Hne; reflexivity.
  - rewrite Hi. reflexivity.
Qed.

From RxSpec Require Import Ops1Spec.
From RxProofs Require Ops1Laws.
Theorem src_meets_spec o items t : src_run_op bodies o (mk items t) = Some (spec1 o items t).
Proof. rewrite src_run_op_agrees, Ops1Laws.op_meets_spec. reflexivity. Qed.
