(* Flattening: no nesting beyond the fuel, the limit is honoured at every instant, the
   downstream grammar, and completion exactly when everything is done — for every stimulus
   sequence, every limit >= 1 or unbounded. *)
From RxModel Require Import Flatten.
From RxSpec Require Import FlattenSpec.

Local Open Scope nat_scope.
Local Arguments Nat.ltb : simpl never.
Local Arguments Nat.leb : simpl never.
Local Arguments Nat.eqb : simpl never.

(* ---------- trace predicates over concatenation ---------- *)

Lemma no_stuck_app a b : no_stuck (a ++ b) = no_stuck a && no_stuck b.
Proof. apply forallb_app. Qed.

Lemma balance_app b x y : balance b (x ++ y) = balance (balance b x) y.
Proof. revert b. induction x as [|o r IH]; intros b; [reflexivity|]. destruct o; cbn; apply IH. Qed.

Lemma peak_app n b x y : peak_ok n b (x ++ y) = peak_ok n b x && peak_ok n (balance b x) y.
Proof.
  revert b. induction x as [|o r IH]; intros b; [reflexivity|].
  destruct o; cbn; rewrite ?IH, ?Bool.andb_assoc; reflexivity.
Qed.

Lemma downstream_app x y : downstream (x ++ y) = downstream x ++ downstream y.
Proof. apply flat_map_app. Qed.

Lemma down_ok_items_app a d :
  forallb (fun e => negb (is_term e)) d = true -> forall r, down_ok a (d ++ r) = down_ok a r.
Proof.
  induction d as [|e d IH]; intros H r; [reflexivity|]. cbn in H. apply andb_prop in H. destruct H as [He H].
  destruct e; try discriminate. cbn. apply IH, H.
Qed.

(* ---------- state invariant ---------- *)

Record Inv (n : option nat) (s : fstate) : Prop := {
  inv_lim : within n (f_subscribed s) = true;
  inv_full : f_queue s <> [] -> below_limit n (f_subscribed s) = false;
  inv_comp : f_outside_completed s = true -> 0 < f_subscribed s
}.

(* what a subscription / completion cascade guarantees *)
Record Post (n : option nat) (b : nat) (s : fstate) (out : list fout) (s' : fstate) : Prop := {
  p_nostuck : no_stuck out = true;
  p_inv : f_alive s' = true -> Inv n s';
  p_down : down_ok (f_alive s') (downstream out) = true;
  p_peak : peak_ok n b out = true;
  p_bal : f_alive s' = true -> balance b out = f_subscribed s';
  p_queue : length (f_queue s') <= length (f_queue s);
  p_outside : f_outside_completed s' = f_outside_completed s;
  p_done : In (FTerm Done) out ->
           f_subscribed s' = 0 /\ f_queue s' = [] /\ f_outside_completed s' = true;
  (* every subscribed hot inner observable keeps holding a slot: the count never underflows *)
  p_slack : forall m, length (f_active s) + S m <= f_subscribed s ->
                      length (f_active s') + m <= f_subscribed s'
}.

Lemma within_below n k : below_limit n k = true -> within n (S k) = true.
Proof. destruct n as [m|]; cbn; [|reflexivity]. intros H. apply Nat.ltb_lt in H. apply Nat.leb_le. lia. Qed.

Lemma within_pred n k : within n k = true -> within n (pred k) = true.
Proof. destruct n as [m|]; cbn; [|reflexivity]. intros H. apply Nat.leb_le in H. apply Nat.leb_le. lia. Qed.

Lemma full_pos n k : valid_limit n -> within n k = true -> below_limit n k = false -> 0 < k.
Proof.
  destruct n as [m|]; cbn; [|discriminate]. intros V W B.
  apply Nat.leb_le in W. apply Nat.ltb_ge in B. destruct m; [contradiction|lia].
Qed.

(* ---------- releasing a slot ---------- *)

Ltac nonnil := let H := fresh in intros H; exfalso; apply H; reflexivity.

Lemma release_post n s k :
  valid_limit n -> f_alive s = true -> Inv n s -> 0 < f_subscribed s -> f_queue s = [] ->
  Post n (f_subscribed s) s (snd (release_slot s k)) (fst (release_slot s k)).
Proof.
  intros V Ha [I1 I2 I3] Hpos Hq. unfold release_slot. cbn [f_subscribed upd_subscribed f_outside_completed].
  destruct (Nat.eqb_spec (pred (f_subscribed s)) 0) as [E|E]; cbn [andb].
  - destruct (f_outside_completed s) eqn:Eo; cbn [fst snd].
    + constructor; cbn; rewrite ?Ha, ?Hq, ?Eo; try reflexivity; try discriminate; auto. intros m Hm; lia.
    + constructor; cbn; rewrite ?Ha, ?Hq, ?Eo; try reflexivity; auto.
      * intros _. constructor; cbn; rewrite ?Hq, ?Eo; try discriminate; try nonnil. apply within_pred, I1.
      * intros [H|[]]; discriminate.
      * intros m Hm; lia.
  - cbn [fst snd]. constructor; cbn; rewrite ?Ha, ?Hq; try reflexivity; auto.
    + intros _. constructor; cbn; rewrite ?Hq; try nonnil.
      * apply within_pred, I1.
      * intros _. lia.
    + intros [H|[]]; discriminate.
    + intros m Hm; lia.
Qed.

(* ---------- prepending one event to a cascade ---------- *)

Lemma post_item n b s out s' k v :
  Post n b s out s' -> Post n b s (FItem k v :: out) s'.
Proof.
  intros [P1 P2 P3 P4 P5 P6 P7 P8 P9]. constructor; auto.
  intros [H|H]; [discriminate|auto].
Qed.

Lemma post_sub n b s out s' k :
  within n (S b) = true -> Post n (S b) s out s' -> Post n b s (FSubscribed k :: out) s'.
Proof.
  intros W [P1 P2 P3 P4 P5 P6 P7 P8 P9]. constructor; auto.
  - cbn. rewrite W. exact P4.
  - intros [H|H]; [discriminate|auto].
Qed.

Lemma post_done n b s out s' k :
  Post n (pred b) s out s' -> Post n b s (FInnerDone k :: out) s'.
Proof.
  intros [P1 P2 P3 P4 P5 P6 P7 P8 P9]. constructor; auto.
  intros [H|H]; [discriminate|auto].
Qed.

Lemma post_from n b s0 s out s' :
  length (f_queue s0) <= length (f_queue s) -> f_outside_completed s0 = f_outside_completed s ->
  f_active s0 = f_active s -> f_subscribed s0 = f_subscribed s ->
  Post n b s0 out s' -> Post n b s out s'.
Proof.
  intros Hq Ho Hac Hsu [P1 P2 P3 P4 P5 P6 P7 P8 P9]. constructor; auto; [lia|congruence|].
  intros m Hm. apply P9. rewrite Hac, Hsu. exact Hm.
Qed.

(* ---------- subscribing, and the cascade of queued synchronous observables ---------- *)

Definition PreStart (n : option nat) (b : nat) (s : fstate) : Prop :=
  f_alive s = true /\ within n (f_subscribed s) = true /\ S b = f_subscribed s /\
  (f_queue s <> [] -> below_limit n (f_subscribed s) = false).

Definition Ready (n : option nat) (s : fstate) : Prop :=
  f_alive s = true /\ Inv n s /\ 0 < f_subscribed s.

Definition StarterOk (n : option nat) (fuel : nat) (starter : fstate -> nat -> iobs -> fstate * list fout) : Prop :=
  forall s k i b, PreStart n b s -> length (f_queue s) < fuel ->
                  Post n b s (snd (starter s k i)) (fst (starter s k i)).

Lemma done_with_post n fuel starter :
  valid_limit n -> StarterOk n fuel starter ->
  forall s k, Ready n s -> length (f_queue s) <= fuel ->
              Post n (f_subscribed s) s (snd (done_with starter s k)) (fst (done_with starter s k)).
Proof.
  intros V HS s k (Ha & I & Hpos) Hf. unfold done_with. rewrite Ha.
  destruct (f_queue s) as [|[k' i'] q] eqn:Eq.
  - apply release_post; auto.
  - assert (Pre : PreStart n (pred (f_subscribed s)) (upd_queue s q)).
    { destruct I as [I1 I2 I3]. unfold PreStart. cbn [upd_queue f_alive f_subscribed f_queue].
      split; [exact Ha|]. split; [exact I1|]. split; [lia|].
      intros _. apply I2. rewrite Eq. discriminate. }
    assert (Hl : length (f_queue (upd_queue s q)) < fuel) by (cbn in *; lia).
    pose proof (HS (upd_queue s q) k' i' _ Pre Hl) as P.
    destruct (starter (upd_queue s q) k' i') as [s1 o1]. cbn [fst snd] in *.
    apply post_done. apply (post_from n _ (upd_queue s q) s o1 s1); [cbn [upd_queue f_queue]; rewrite Eq; cbn; lia|reflexivity|reflexivity|reflexivity|exact P].
Qed.

Definition OnDoneOk (n : option nat) (fuel : nat) (on_done : fstate -> fstate * list fout) : Prop :=
  forall s, Ready n s -> length (f_queue s) <= fuel ->
            Post n (f_subscribed s) s (snd (on_done s)) (fst (on_done s)).

Lemma ready_inv n s : Ready n s -> f_alive s = true /\ Inv n s.
Proof. intros (A & I & _). auto. Qed.

Lemma cold_go_post n fuel on_done k :
  OnDoneOk n fuel on_done ->
  forall sc s, Ready n s -> length (f_queue s) <= fuel ->
               Post n (f_subscribed s) s (snd (cold_go on_done k s sc)) (fst (cold_go on_done k s sc)).
Proof.
  intros HD sc. induction sc as [|e r IH]; intros s R Hf.
  - cbn. destruct R as (Ha & I & Hpos). constructor; cbn; rewrite ?Ha; auto; [intros []|intros m Hm; lia].
  - destruct e as [v|x|]; cbn [cold_go].
    + unfold inner_next. destruct R as (Ha & I & Hpos). rewrite Ha.
      specialize (IH s (conj Ha (conj I Hpos)) Hf).
      destruct (cold_go on_done k s r) as [s2 o2]. cbn [fst snd app] in *. apply post_item, IH.
    + unfold inner_error. destruct R as (Ha & I & Hpos). rewrite Ha. cbn [fst snd].
      constructor; cbn; auto; try discriminate; [intros [H|[]]; discriminate|intros m Hm; lia].
    + apply HD; assumption.
Qed.

Theorem start_post n :
  valid_limit n -> forall fuel, StarterOk n fuel (start fuel).
Proof.
  intros V fuel. induction fuel as [|fuel' IH]; intros s k i b Pre Hf; [lia|].
  destruct Pre as (Ha & W & Hb & Hfull).
  destruct i as [script|id]; cbn [start].
  - (* synchronous inner observable *)
    assert (R : Ready n s).
    { repeat split; auto; [|lia]. intros _. lia. }
    assert (HD : OnDoneOk n fuel' (fun s0 => done_with (start fuel') s0 k)).
    { intros s0 R0 Hf0. apply (done_with_post n fuel' (start fuel') V IH s0 k R0 Hf0). }
    assert (Hf' : length (f_queue s) <= fuel') by lia.
    pose proof (cold_go_post n fuel' _ k HD script s R Hf') as P.
    destruct (cold_go (fun s0 => done_with (start fuel') s0 k) k s script) as [s' out].
    cbn [fst snd] in *. apply post_sub; [rewrite Hb; exact W|]. rewrite Hb. exact P.
  - (* hot inner observable *)
    cbn [fst snd]. constructor; cbn; rewrite ?Ha; auto.
    + intros _. constructor; cbn; auto. intros _. lia.
    + rewrite Hb, W. reflexivity.
    + intros [H|[]]; discriminate.
    + intros m Hm. rewrite app_length. cbn. lia.
Qed.

(* ---------- one stimulus ---------- *)

Record SP (n : option nat) (b : nat) (s : fstate) (out : list fout) (s' : fstate) : Prop := {
  sp_nostuck : no_stuck out = true;
  sp_peak : peak_ok n b out = true;
  sp_mono : f_alive s' = true -> f_alive s = true;
  sp_inv : f_alive s' = true -> Inv n s' /\ balance b out = f_subscribed s';
  sp_down_live : f_alive s = true -> down_ok (f_alive s') (downstream out) = true;
  sp_down_dead : f_alive s = false -> downstream out = [];
  sp_frozen : f_alive s = false ->
              f_subscribed s' = f_subscribed s /\ f_queue s' = f_queue s /\
              f_outside_completed s' = f_outside_completed s;
  sp_done : In (FTerm Done) out ->
            f_subscribed s' = 0 /\ f_queue s' = [] /\ f_outside_completed s' = true
}.

(* a live state between stimuli *)
Definition Good (n : option nat) (b : nat) (s : fstate) : Prop :=
  f_alive s = true -> Inv n s /\ b = f_subscribed s.

Lemma post_sp n b s out s' :
  f_alive s = true -> Post n b s out s' -> SP n b s out s'.
Proof.
  intros Ha [P1 P2 P3 P4 P5 P6 P7 P8 P9]. constructor; auto; try congruence.
Qed.

Lemma sp_nop n b s : Good n b s -> SP n b s [] s.
Proof.
  intros G. constructor; cbn; auto. intros [].
Qed.

Lemma term_in_downstream t out : In (FTerm t) out -> In t (downstream out).
Proof.
  induction out as [|o r IH]; intros H; [destruct H|]. destruct H as [->|H].
  - cbn. left. reflexivity.
  - unfold downstream. cbn [flat_map]. apply in_or_app. right. apply IH, H.
Qed.

Lemma down_ok_live_no_term d : down_ok true d = true -> forall e, In e d -> is_term e = false.
Proof.
  induction d as [|x d IH]; intros H e He; [destruct He|].
  destruct x; cbn in H; try discriminate. destruct He as [<-|He]; [reflexivity|]. apply IH; assumption.
Qed.

Lemma sp_seq n b s o1 s1 o2 s2 :
  SP n b s o1 s1 -> SP n (balance b o1) s1 o2 s2 -> SP n b s (o1 ++ o2) s2.
Proof.
  intros [A1 A2 A3 A4 A5 A6 A7 A8] [B1 B2 B3 B4 B5 B6 B7 B8]. constructor.
  - rewrite no_stuck_app, A1, B1. reflexivity.
  - rewrite peak_app, A2, B2. reflexivity.
  - auto.
  - intros H. rewrite balance_app. auto.
  - intros Ha. rewrite downstream_app.
    destruct (f_alive s1) eqn:E1.
    + (* first part only items *)
      specialize (A5 Ha). specialize (B5 eq_refl).
      assert (Hitems : forallb (fun e => negb (is_term e)) (downstream o1) = true).
      { clear -A5. induction (downstream o1) as [|e d IH]; [reflexivity|].
        destruct e; cbn in *; try discriminate. apply IH, A5. }
      rewrite down_ok_items_app by exact Hitems. exact B5.
    + rewrite (B6 eq_refl), app_nil_r.
      destruct (f_alive s2) eqn:E2; [specialize (B3 eq_refl); congruence|]. apply A5, Ha.
  - intros Hd. rewrite downstream_app, (A6 Hd).
    destruct (f_alive s1) eqn:E1; [specialize (A3 eq_refl); congruence|]. apply B6. reflexivity.
  - intros Hd. destruct (f_alive s1) eqn:E1; [specialize (A3 eq_refl); congruence|].
    destruct (A7 Hd) as (X1 & X2 & X3). destruct (B7 eq_refl) as (Y1 & Y2 & Y3). repeat split; congruence.
  - intros Hin. apply in_app_or in Hin. destruct Hin as [Hin|Hin]; [|auto].
    destruct (A8 Hin) as (X1 & X2 & X3).
    (* the stream is over after o1: the rest leaves these fields alone *)
    assert (Hdead : f_alive s1 = false).
    { destruct (f_alive s1) eqn:E1; [|reflexivity]. exfalso.
      pose proof (term_in_downstream Done o1 Hin) as Hd.
      destruct (f_alive s) eqn:Es.
      - specialize (A5 eq_refl). pose proof (down_ok_live_no_term _ A5 Done Hd). discriminate.
      - rewrite (A6 eq_refl) in Hd. destruct Hd. }
    destruct (B7 Hdead) as (Y1 & Y2 & Y3). repeat split; congruence.
Qed.

Lemma dead_inner_done s k : f_alive s = false -> inner_done s k = (s, []).
Proof. intros H. unfold inner_done, done_with. rewrite H. reflexivity. Qed.

Lemma sp_dead_nop n b s : f_alive s = false -> SP n b s [] s.
Proof.
  intros H. constructor; cbn; auto; try congruence. intros [].
Qed.

Lemma hot_event_sp n (V : valid_limit n) e :
  forall targets s b,
    Good n b s -> length (f_active s) + length targets <= f_subscribed s ->
    SP n b s (snd (hot_event s targets e)) (fst (hot_event s targets e)) /\
    length (f_active (fst (hot_event s targets e))) <= f_subscribed (fst (hot_event s targets e)).
Proof.
  induction targets as [|k r IH]; intros s b G Hs.
  - cbn. split; [apply sp_nop, G|lia].
  - cbn [hot_event length] in *.
    (* the first target *)
    assert (Hfirst : exists s1 o1,
               (match e with Next v => inner_next s k v | Err x => inner_error s x | Done => inner_done s k end) = (s1, o1) /\
               SP n b s o1 s1 /\ length (f_active s1) + length r <= f_subscribed s1).
    { destruct (f_alive s) eqn:Ha.
      - destruct (G Ha) as [I Hb]. destruct e as [v|x|].
        + unfold inner_next. rewrite Ha. eexists _, _. split; [reflexivity|]. split; [|lia].
          constructor; cbn; rewrite ?Ha; auto; try discriminate. intros [H|[]]; discriminate.
        + unfold inner_error. rewrite Ha. eexists _, _. split; [reflexivity|]. split; [|cbn; lia].
          constructor; cbn; auto; try discriminate; try congruence. intros [H|[]]; discriminate.
        + assert (R : Ready n s) by (split; [exact Ha|split; [exact I|lia]]).
          pose proof (done_with_post n (S (length (f_queue s))) (start (S (length (f_queue s)))) V
                        (start_post n V _) s k R (Nat.le_succ_diag_r _)) as P.
          unfold inner_done. destruct (done_with (start (S (length (f_queue s)))) s k) as [s1 o1].
          cbn [fst snd] in P. eexists _, _. split; [reflexivity|]. rewrite <- Hb in P. split.
          * apply post_sp; assumption.
          * apply (p_slack _ _ _ _ _ P). lia.
      - exists s, []. split.
        + destruct e; [unfold inner_next|unfold inner_error|rewrite dead_inner_done by exact Ha]; rewrite ?Ha; reflexivity.
        + split; [apply sp_dead_nop, Ha|lia]. }
    destruct Hfirst as (s1 & o1 & E1 & SP1 & Hs1). rewrite E1.
    assert (G1 : Good n (balance b o1) s1).
    { intros Ha1. destruct (sp_inv _ _ _ _ _ SP1 Ha1) as [I Hb]. split; [exact I|exact Hb]. }
    destruct (IH s1 (balance b o1) G1 Hs1) as [SP2 Hs2].
    destruct (hot_event s1 r e) as [s2 o2]. cbn [fst snd] in *.
    split; [eapply sp_seq; eassumption|exact Hs2].
Qed.

Lemma hot_next_sp n v : forall targets s b,
  Good n b s ->
  fst (hot_event s targets (Next v)) = s /\ SP n b s (snd (hot_event s targets (Next v))) s.
Proof.
  induction targets as [|k r IH]; intros s b G; [split; [reflexivity|apply sp_nop, G]|].
  cbn [hot_event]. unfold inner_next. destruct (IH s b G) as [E S].
  destruct (hot_event s r (Next v)) as [s2 o2]. cbn [fst snd] in *. subst s2. split; [reflexivity|].
  destruct (f_alive s) eqn:Ha; [|exact S].
  destruct S as [B1 B2 B3 B4 B5 B6 B7 B8]. constructor; auto; cbn; try congruence.
  intros [H|H]; [discriminate|auto].
Qed.

Lemma filter_length_le {A} (f : A -> bool) l : length (filter f l) <= length l.
Proof. induction l as [|x l IH]; cbn; [lia|]. destruct (f x); cbn; lia. Qed.

Lemma filter_split_length {A} (f : A -> bool) l :
  length (filter f l) + length (filter (fun x => negb (f x)) l) = length l.
Proof. induction l as [|x l IH]; cbn; [reflexivity|]. destruct (f x); cbn; lia. Qed.

Lemma fstep_sp n (V : valid_limit n) s b st :
  Good n b s -> length (f_active s) <= f_subscribed s ->
  SP n b s (snd (fstep n s st)) (fst (fstep n s st)) /\
  length (f_active (fst (fstep n s st))) <= f_subscribed (fst (fstep n s st)).
Proof.
  intros G Hact. destruct st as [[i|e|]|id e|]; cbn [fstep]; [| | | |cbn [fst snd]; split; [apply sp_nop, G|exact Hact]].
  - (* outer next *)
    destruct (f_alive s) eqn:Ha; [|cbn [fst snd]; split; [apply sp_dead_nop, Ha|exact Hact]].
    destruct (G Ha) as [[I1 I2 I3] Hb].
    cbn [upd_next f_subscribed f_queue].
    destruct (below_limit n (f_subscribed s)) eqn:Eb.
    + set (s1 := upd_subscribed (upd_next s) (S (f_subscribed s))).
      assert (Pre : PreStart n b s1).
      { unfold PreStart, s1. cbn. split; [exact Ha|]. split; [apply within_below, Eb|]. split; [lia|].
        intros Hq. specialize (I2 Hq). congruence. }
      pose proof (start_post n V (S (length (f_queue s))) s1 (f_next s) i b Pre) as P.
      assert (Hl : length (f_queue s1) < S (length (f_queue s))) by (unfold s1; cbn; lia).
      specialize (P Hl). change (f_queue (upd_next s)) with (f_queue s).
      change (upd_subscribed (upd_next s) (S (f_subscribed (upd_next s)))) with s1.
      destruct (start (S (length (f_queue s))) s1 (f_next s) i) as [s' out]. cbn [fst snd] in *.
      split.
      * apply post_sp in P; [|unfold s1; exact Ha].
        destruct P as [A1 A2 A3 A4 A5 A6 A7 A8]. constructor; auto; unfold s1 in *; cbn in *; congruence.
      * pose proof (p_slack _ _ _ _ _ P 0) as Hsl. unfold s1 in Hsl. cbn in Hsl. lia.
    + cbn [fst snd]. split; [|cbn; exact Hact].
      constructor; cbn; rewrite ?Ha; auto; try congruence; [|intros []].
      intros _. split; [|exact Hb]. constructor; cbn; auto.
    - (* outer error *)
    destruct (f_alive s) eqn:Ha; [|cbn [fst snd]; split; [apply sp_dead_nop, Ha|exact Hact]].
    cbn [fst snd]. split; [|cbn; exact Hact].
    constructor; cbn; auto; try discriminate; try congruence. intros [H|[]]; discriminate.
  - (* outer complete *)
    destruct (f_alive s) eqn:Ha; [|cbn [fst snd]; split; [apply sp_dead_nop, Ha|exact Hact]].
    destruct (G Ha) as [[I1 I2 I3] Hb]. cbn [upd_outside f_subscribed f_queue].
    destruct (Nat.eqb_spec (f_subscribed s) 0) as [E0|E0]; cbn [andb].
    + destruct (f_queue s) as [|x q] eqn:Eq.
      * cbn [fst snd]. split; [|cbn; exact Hact].
        constructor; cbn; rewrite ?Eq; auto; try discriminate; try congruence.
      * cbn [fst snd]. split; [|cbn; exact Hact].
        exfalso. assert (Hq : x :: q <> []) by discriminate.
        pose proof (full_pos n _ V I1 (I2 Hq)). lia.
    + cbn [fst snd]. split; [|cbn; exact Hact].
      constructor; cbn; rewrite ?Ha; auto; try congruence; [|intros []].
      intros _. split; [|exact Hb]. constructor; cbn; auto. intros _. lia.
  - (* a hot inner observable *)
    destruct (memn id (f_hot_done s)); [cbn [fst snd]; split; [apply sp_nop, G|exact Hact]|].
    set (targets := map snd (filter (fun p => Nat.eqb (fst p) id) (f_active s))).
    destruct (is_term e) eqn:Et.
    + set (s1 := upd_hot_done (upd_active s (filter (fun p => negb (Nat.eqb (fst p) id)) (f_active s))) (id :: f_hot_done s)).
      assert (G1 : Good n b s1) by (intros Ha1; unfold s1 in *; cbn in *; destruct (G Ha1) as [[I1 I2 I3] Hb]; split; [constructor; cbn; auto|exact Hb]).
      assert (H1 : length (f_active s1) + length targets <= f_subscribed s1).
      { unfold s1, targets. cbn. rewrite map_length.
        pose proof (filter_split_length (fun p : nat * nat => Nat.eqb (fst p) id) (f_active s)). lia. }
      destruct (hot_event_sp n V e targets s1 b G1 H1) as [S1 A1].
      destruct (hot_event s1 targets e) as [s2 o2]. cbn [fst snd] in *. split; [|exact A1].
      destruct S1 as [B1 B2 B3 B4 B5 B6 B7 B8]. constructor; auto.
    + destruct e as [v| |]; try discriminate.
      destruct (hot_next_sp n v targets s b G) as [E S].
      destruct (hot_event s targets (Next v)) as [s2 o2]. cbn [fst snd] in *. subst s2. split; [exact S|exact Hact].
Qed.

(* ---------- whole runs ---------- *)

Lemma down_ok_true_wf d r : down_ok true d = true -> wf (d ++ r) = wf r.
Proof.
  induction d as [|e d IH]; intros H; [reflexivity|]. destruct e; cbn in H; try discriminate. cbn. apply IH, H.
Qed.

Lemma down_ok_false_wf d : down_ok false d = true -> wf d = true.
Proof.
  induction d as [|e d IH]; intros H; [reflexivity|]. destruct e; cbn in *.
  - apply IH, H.
  - destruct d; [reflexivity|discriminate].
  - destruct d; [reflexivity|discriminate].
Qed.

Lemma good_after n b s out s' : SP n b s out s' -> Good n (balance b out) s'.
Proof. intros S Ha. destruct (sp_inv _ _ _ _ _ S Ha) as [I Hb]. split; [exact I|exact Hb]. Qed.

Theorem frun_props n (V : valid_limit n) :
  forall sts s b live j,
    Good n b s -> length (f_active s) <= f_subscribed s ->
    no_stuck (frun n s live j sts) = true /\
    peak_ok n b (frun n s live j sts) = true /\
    (f_alive s = true -> wf (downstream (frun n s live j sts)) = true) /\
    (f_alive s = false -> downstream (frun n s live j sts) = []).
Proof.
  induction sts as [|st r IH]; intros s b live j G Hact; [cbn; auto|].
  assert (Step : forall live',
     let '(s', out) := fstep n s st in
     no_stuck (FMark j :: out ++ frun n s' live' (S j) r) = true /\
     peak_ok n b (FMark j :: out ++ frun n s' live' (S j) r) = true /\
     (f_alive s = true -> wf (downstream (FMark j :: out ++ frun n s' live' (S j) r)) = true) /\
     (f_alive s = false -> downstream (FMark j :: out ++ frun n s' live' (S j) r) = [])).
  { intros live'. destruct (fstep_sp n V s b st G Hact) as [HS Hact'].
    destruct (fstep n s st) as [s' out]. cbn [fst snd] in *.
    destruct (IH s' (balance b out) live' (S j) (good_after _ _ _ _ _ HS) Hact') as (R1 & R2 & R3 & R4).
    destruct HS as [A1 A2 A3 A4 A5 A6 A7 A8].
    change (FMark j :: out ++ frun n s' live' (S j) r) with ([FMark j] ++ out ++ frun n s' live' (S j) r).
    rewrite no_stuck_app, no_stuck_app, peak_app, peak_app, !downstream_app. cbn [no_stuck forallb peak_ok balance downstream flat_map app andb].
    rewrite A1, A2, R1, R2. repeat split; auto.
    - intros Ha. specialize (A5 Ha). destruct (f_alive s') eqn:Ea'.
      + rewrite down_ok_true_wf by exact A5. apply R3. reflexivity.
      + rewrite (R4 eq_refl), app_nil_r. apply down_ok_false_wf, A5.
    - intros Hd. rewrite (A6 Hd). cbn. destruct (f_alive s') eqn:Ea'; [specialize (A3 eq_refl); congruence|]. apply R4. reflexivity. }
  cbn [frun]. destruct st as [e|id e|].
  3: { (* unsubscribe: only markers follow *)
       assert (Hm : forall a l, no_stuck (map FMark l) = true /\ peak_ok n a (map FMark l) = true /\ downstream (map FMark l) = []).
       { intros a l. induction l as [|x l IHl]; cbn; auto. }
       destruct (Hm b (seq (S j) (length r))) as (M1 & M2 & M3).
       cbn [no_stuck forallb peak_ok downstream flat_map app andb]. fold (no_stuck (map FMark (seq (S j) (length r)))).
       fold (downstream (map FMark (seq (S j) (length r)))). rewrite M1, M2, M3. repeat split; auto. }
  - destruct live.
    + specialize (Step (match e with ONext _ => true | _ => false end)).
      destruct (fstep n s (FOuter e)) as [s' out]. exact Step.
    + destruct (IH s b false (S j) G Hact) as (R1 & R2 & R3 & R4).
      cbn [no_stuck forallb peak_ok downstream flat_map app andb]. repeat split; auto.
  - specialize (Step live). destruct (fstep n s (FInner id e)) as [s' out]. exact Step.
Qed.

Lemma good0 n : Good n 0 fstate0.
Proof. intros _. split; [|reflexivity]. constructor; cbn; auto; try discriminate; try nonnil. destruct n as [[|m]|]; reflexivity. Qed.

(* No nesting beyond the fuel: the model never gets stuck (in particular the re-entrant
   subscription started from an inner completion terminates). *)
Theorem flatten_no_stuck n sts : valid_limit n -> no_stuck (run_flatten n sts) = true.
Proof. intros V. apply (frun_props n V sts fstate0 0 true 0 (good0 n)). cbn. lia. Qed.

(* Never more than n inner observables subscribed at any instant. *)
Theorem flatten_limit n sts : valid_limit n -> peak_ok n 0 (run_flatten n sts) = true.
Proof. intros V. apply (frun_props n V sts fstate0 0 true 0 (good0 n)). cbn. lia. Qed.

(* The subscriber sees items, at most one terminal, nothing after it. *)
Theorem flatten_wf n sts : valid_limit n -> wf (downstream (run_flatten n sts)) = true.
Proof. intros V. apply (frun_props n V sts fstate0 0 true 0 (good0 n)); [cbn; lia|reflexivity]. Qed.

(* ---------- completion exactly when everything is done ---------- *)

(* reachable states *)
Inductive reach (n : option nat) : fstate -> nat -> Prop :=
| reach0 : reach n fstate0 0
| reach_step s b st : reach n s b -> reach n (fst (fstep n s st)) (balance b (snd (fstep n s st))).

Lemma reach_good n (V : valid_limit n) s b :
  reach n s b -> Good n b s /\ length (f_active s) <= f_subscribed s.
Proof.
  induction 1 as [|s b st R [G Hact]].
  - split; [apply good0|cbn; lia].
  - destruct (fstep_sp n V s b st G Hact) as [HS Hact']. split; [eapply good_after; exact HS|exact Hact'].
Qed.

(* not before: completion is delivered only by a step after which the outer stream has
   completed, no inner observable is subscribed and none is waiting *)
Theorem flatten_done_sound n s b st :
  valid_limit n -> reach n s b -> In (FTerm Done) (snd (fstep n s st)) ->
  let s' := fst (fstep n s st) in
  f_subscribed s' = 0 /\ f_queue s' = [] /\ f_outside_completed s' = true.
Proof.
  intros V R Hin. destruct (reach_good n V s b R) as [G Hact].
  destruct (fstep_sp n V s b st G Hact) as [HS _]. apply (sp_done _ _ _ _ _ HS Hin).
Qed.

(* not later: a reachable live state whose outer stream has completed still has a subscribed
   inner observable (otherwise completion would already have been delivered) *)
Theorem flatten_done_complete n s b :
  valid_limit n -> reach n s b -> f_alive s = true -> f_outside_completed s = true -> 0 < f_subscribed s.
Proof.
  intros V R Ha Ho. destruct (reach_good n V s b R) as [G _]. destruct (G Ha) as [[I1 I2 I3] _]. auto.
Qed.

(* the count kept by the operator is the number of subscribed, not yet completed inner observables *)
Theorem flatten_count_exact n s b :
  valid_limit n -> reach n s b -> f_alive s = true -> b = f_subscribed s /\ within n (f_subscribed s) = true.
Proof.
  intros V R Ha. destruct (reach_good n V s b R) as [G _]. destruct (G Ha) as [[I1 I2 I3] Hb]. auto.
Qed.
