(* MultiSubscription as translated from /repo/src is the composite machine, for composites of up to three members (the
   vector is of unknown length in general; its loops are run on the concrete shapes). *)
From RxModel Require Import BodyAbsMulti.
From RxGen Require Import Bodies.
From RxProofs Require Import BodyTie.
Open Scope string_scope.
Open Scope list_scope.

Ltac split_member x := destruct x as [[[|] ?k]|].

Lemma multi_ok : multi_agrees_upto bodies 3.
Proof.
  intros s o Hb. destruct s as [l|].
  - destruct l as [|x1 [|x2 [|x3 [|x4 l]]]]; [ | | | | cbn [length] in Hb; exfalso; lia].
    + destruct o as [| |[? ?]| |]; repeat match goal with b : bool |- _ => destruct b end; vm_compute; reflexivity.
    + split_member x1; destruct o as [| |[? ?]| |]; repeat match goal with b : bool |- _ => destruct b end; vm_compute; reflexivity.
    + split_member x1; split_member x2; destruct o as [| |[? ?]| |]; repeat match goal with b : bool |- _ => destruct b end; vm_compute; reflexivity.
    + split_member x1; split_member x2; split_member x3; destruct o as [| |[? ?]| |]; repeat match goal with b : bool |- _ => destruct b end; vm_compute; reflexivity.
  - destruct o as [| |[? ?]| |]; repeat match goal with b : bool |- _ => destruct b end; vm_compute; reflexivity.
Qed.

(* consequences, for the machine: a composite that has been unsubscribed tears a late addition down at once, and says closed *)
Lemma late_addition_torn_down c k : mstep None (MAppend (c, k)) = (None, [mark k], VUnit).
Proof. reflexivity. Qed.

Lemma unsubscribed_is_closed s : snd (mstep (fst (fst (mstep s MUnsubscribe))) MIsClosed) = VBool true.
Proof. destruct s; reflexivity. Qed.
